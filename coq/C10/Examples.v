(** C10 — non-vacuity: a concrete schema satisfying the guards, with members and non-members of
    the emitted aliases on both sides. *)
From V Require Import Base.Util Gql.Ast Writer.Wop Ts.TsType Ts.TsDen
  C10.Model C10.Spec C10.DenLemmas C10.Proofs C10.Proofs2 C10.NameProofs C10.ResolverProofs C10.ResolverArgs C10.ResolverDen C10.ResolverMain.

Definition ex_ty (n : String.string) : ty := TNamed (id0 n).
Arguments ex_ty n%string_scope.

(** scalar Date; enum E {A B}; input In {a: [Int!], b: E!}; interface Node {id: ID!};
    type User implements Node {id: ID!, when: Date, friends: [User!]!}; union U = User; type Query {me: User, u: U, n: Node}
    with Date configured as send "Date | string", receive "string" — so the object type named like
    the TS identifier [Date] ... is the scalar itself here; [type string] collides with "string". *)
Definition ex_doc : tsdoc :=
  [TSType (TDScalar None pos0 (id0 "ID") [] (kw0 "scalar"));
   TSType (TDScalar None pos0 (id0 "Int") [] (kw0 "scalar"));
   TSType (TDScalar None pos0 (id0 "Date") [] (kw0 "scalar"));
   TSType (TDEnum None pos0 (id0 "E") [] [mkEnumVal None (id0 "A") []; mkEnumVal None (id0 "B") []] (kw0 "enum"));
   TSType (TDInput None pos0 (id0 "In") []
             [mkInputVal None pos0 (id0 "a") (TList pos0 (TNonNull (ex_ty "Int"))) None [];
              mkInputVal None pos0 (id0 "b") (TNonNull (ex_ty "E")) None []] (kw0 "input"));
   TSType (TDInterface None pos0 (id0 "Node") [] [] [mkFieldDef None (id0 "id") None (TNonNull (ex_ty "ID")) []] (kw0 "interface"));
   TSType (TDObject None pos0 (id0 "string") [id0 "Node"] []
             [mkFieldDef None (id0 "id") None (TNonNull (ex_ty "ID")) [];
              mkFieldDef None (id0 "when") None (ex_ty "Date") [];
              mkFieldDef None (id0 "friends") None (TNonNull (TList pos0 (TNonNull (ex_ty "string")))) []] (kw0 "type"));
   TSType (TDUnion None pos0 (id0 "U") [] [id0 "string"] (kw0 "union"));
   TSType (TDObject None pos0 (id0 "Query") [] []
             [mkFieldDef None (id0 "me") None (ex_ty "string") [];
              mkFieldDef None (id0 "n") None (ex_ty "Node") []] (kw0 "type"))].
Definition ex_opts : sopts :=
  mkSOpts [(s "ID", ScSendRecv (s "string | number") (s "string")); (s "Int", ScSingle (s "number"));
           (s "Date", ScSendRecv (s "Date | string") (s "string"))] (s "__nitrogql_schema") true false.

Example ex_wf : wf_schema ex_opts ex_doc = true.
Proof. vm_compute. reflexivity. Qed.

(** the object type [string] collides with the TS identifier "string" and is renamed *)
Example ex_renamed :
  local_name (get_bag_of_identifiers (get_scalar_types ex_opts ex_doc)) (s "string") = s "__tmp_string".
Proof. vm_compute. reflexivity. Qed.

Definition ex_user : val :=
  VObj [(s "__typename", VStr (s "string")); (s "id", VStr (s "u1")); (s "when", VNull); (s "friends", VList [])].
Definition ex_user2 : val :=
  VObj [(s "__typename", VStr (s "string")); (s "id", VStr (s "u2")); (s "when", VStr (s "2020")); (s "friends", VList [ex_user])].

Definition ex_alias (t : target) (T : String.string) : option tstype :=
  match schema_decls ex_opts ex_doc with Ok nss => alias_of (namespace_of nss t) (s T) | _ => None end.
Arguments ex_alias t T%string_scope.
Definition ex_den (t : target) (T : String.string) (v : val) : option bool :=
  match schema_decls ex_opts ex_doc, ex_alias t T with
  | Ok nss, Some body => has_type_b (ns_env (namespace_of nss t)) 40 body v
  | _, _ => None
  end.

Arguments ex_den t T%string_scope v.

(** hypotheses of C10_alias_exact are satisfiable, with both verdicts *)
Example ex_member : ex_den OpOut "string" ex_user2 = Some true /\ Ref ex_opts ex_doc OpOut (s "string") ex_user2 = true.
Proof. vm_compute. split; reflexivity. Qed.
Example ex_via_interface : ex_den OpOut "Node" ex_user = Some true /\ Ref ex_opts ex_doc OpOut (s "Node") ex_user = true.
Proof. vm_compute. split; reflexivity. Qed.
Example ex_non_member_missing_field :
  ex_den OpOut "string" (VObj [(s "__typename", VStr (s "string")); (s "id", VStr (s "u1"))]) = Some false.
Proof. vm_compute. reflexivity. Qed.
Example ex_non_member_null_id :
  ex_den OpOut "string" (VObj [(s "__typename", VStr (s "string")); (s "id", VNull); (s "when", VNull); (s "friends", VList [])]) = Some false.
Proof. vm_compute. reflexivity. Qed.
(** the scalar differs per target: operation input admits the atom "Date | string", output only strings *)
Example ex_scalar_targets :
  ex_den OpIn "Date" (VAtom (s "Date | string")) = Some true /\ ex_den OpOut "Date" (VAtom (s "Date | string")) = Some false
  /\ ex_den OpOut "Date" (VStr (s "x")) = Some true.
Proof. vm_compute. repeat split; reflexivity. Qed.
(** input object: optional iff nullable (option on) *)
Example ex_input_optional :
  ex_den OpIn "In" (VObj [(s "b", VStr (s "A"))]) = Some true
  /\ ex_den OpIn "In" (VObj [(s "a", VList [VNum])]) = Some false
  /\ ex_den OpIn "In" (VObj [(s "a", VUndef); (s "b", VStr (s "B"))]) = Some true
  /\ ex_den OpOut "In" (VObj []) = None.
Proof. vm_compute. repeat split; reflexivity. Qed.
Example ex_applicable : applicable ex_doc OpIn (s "In") = true /\ applicable ex_doc OpOut (s "In") = false
  /\ applicable ex_doc OpIn (s "Query") = false.
Proof. vm_compute. repeat split; reflexivity. Qed.

(** guards of the name theorems *)
Example ex_bag_ok : bag_ok (get_bag_of_identifiers (get_scalar_types ex_opts ex_doc)) = true.
Proof. vm_compute. reflexivity. Qed.
Example ex_no_keyword_names : no_keyword_names ex_doc = true.
Proof. vm_compute. reflexivity. Qed.
Example ex_resolver_scope :
  exists d, resolver_structure default_ropts 1 ex_doc = Ok d /\ resolver_scope_ok default_ropts d = true
            /\ forallb (fun td => negb (mem (tname td) (resolver_reserved default_ropts))) (typedefs ex_doc) = true.
Proof. eexists. split; [vm_compute; reflexivity|]. split; vm_compute; reflexivity. Qed.

(** resolvers, denotationally: a parent/returned object of type [string] (the renamed object type)
    has exactly the fields and no [__typename]; the Result type [[string!]!] is a list of them *)
Definition ex_res_ms : list (option member) := match namespace_members ex_opts ex_doc ResOut with Ok ms => ms | _ => [] end.
Definition ex_res_aliases : list (str * tstype) :=
  match resolver_structure default_ropts 0 ex_doc with Ok d => module_aliases d | _ => [] end.
Definition ex_parent : val := VObj [(s "id", VAtom (s "string | number")); (s "when", VNull); (s "friends", VList [])].
Example ex_resolver_parent :
  mt ex_res_ms ex_res_aliases 40 (TVar (s "string") pos0) ex_parent = Some true
  /\ resolver_ref ex_opts ex_doc (s "string") ex_parent = true
  /\ mt ex_res_ms ex_res_aliases 40 (TVar (s "string") pos0)
        (VObj ((s "__typename", VStr (s "string")) :: match ex_parent with VObj l => l | _ => [] end)) = Some false
  /\ mt ex_res_ms ex_res_aliases 40 (TVar (s "Node") pos0) ex_parent = Some true.
Proof. vm_compute. repeat split; reflexivity. Qed.
Example ex_resolver_result :
  let ty := TNonNull (TList pos0 (TNonNull (ex_ty "string"))) in
  result_wf ex_doc ty = true
  /\ mt ex_res_ms ex_res_aliases 40 (get_ts_type_of_type tvar_id ty) (VList [ex_parent]) = Some true
  /\ mt ex_res_ms ex_res_aliases 40 (get_ts_type_of_type tvar_id ty) (VList [VNull]) = Some false.
Proof. vm_compute. repeat split; reflexivity. Qed.
Example ex_resolver_args :
  let args := [mkInputVal None pos0 (id0 "n") (TNonNull (ex_ty "Int")) None []; mkInputVal None pos0 (id0 "e") (ex_ty "E") None []] in
  let ms := match namespace_members ex_opts ex_doc ResIn with Ok ms => ms | _ => [] end in
  args_wf ex_doc args = true
  /\ has_type_b (res_in_env ms) 40 (arguments_definition_to_ts default_ropts args) (VObj [(s "n", VNum); (s "e", VNull)]) = Some true
  /\ has_type_b (res_in_env ms) 40 (arguments_definition_to_ts default_ropts args) (VObj [(s "n", VNum)]) = Some false.
Proof. vm_compute. repeat split; reflexivity. Qed.

(** the guard of C10_resolvers_field_exact is satisfiable (schema with interface, union, renamed object, arguments) *)
Definition ex_doc_args : tsdoc :=
  ex_doc ++ [TSType (TDObject None pos0 (id0 "Mutation") [] []
               [mkFieldDef None (id0 "set") (Some [mkInputVal None pos0 (id0 "id") (TNonNull (ex_ty "ID")) None [];
                                                  mkInputVal None pos0 (id0 "tags") (TList pos0 (TNonNull (ex_ty "In"))) None []])
                           (TNonNull (TList pos0 (ex_ty "Node"))) []] (kw0 "type"))].
Example ex_resolvers_guard : resolvers_guard ex_opts default_ropts ex_doc_args = true.
Proof. vm_compute. reflexivity. Qed.
