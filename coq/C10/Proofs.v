(** C10 — proofs: every alias of every emitted namespace denotes exactly the reference
    denotation of its GraphQL type (for the model [Model.schema_decls], under [Spec.wf_schema]). *)
From V Require Import Base.Util Gql.Ast Writer.Wop Ts.TsType Ts.TsDen C10.Model C10.Spec C10.DenLemmas.

(** * lists *)
Lemma mem_In x l : mem x l = true <-> In x l.
Proof.
  unfold mem. rewrite existsb_exists. split.
  - intros (y & Hy & He). apply str_eqb_eq in He. subst. exact Hy.
  - intros H. exists x. split; [exact H|apply str_eqb_refl].
Qed.

Lemma nodup_keys_inj {A} (key : A -> str) (l : list A) :
  nodup_keys (map key l) = true ->
  forall x y, In x l -> In y l -> key x = key y -> x = y.
Proof.
  induction l as [|a l IH]; intros Hnd x y Hx Hy Hk; [destruct Hx|].
  cbn in Hnd. apply andb_true_iff in Hnd as [Hna Hnd].
  apply negb_true_iff in Hna.
  assert (Hno : forall z, In z l -> key z <> key a).
  { intros z Hz Hzk.
    assert (existsb (str_eqb (key a)) (map key l) = true); [|congruence].
    apply existsb_exists. exists (key z). split; [apply in_map; exact Hz|].
    rewrite Hzk. apply str_eqb_refl. }
  destruct Hx as [<-|Hx], Hy as [<-|Hy].
  - reflexivity.
  - exfalso. eapply Hno; [exact Hy|]. congruence.
  - exfalso. eapply Hno; [exact Hx|]. congruence.
  - apply IH; assumption.
Qed.

Lemma find_some_unique {A} (p : A -> bool) (l : list A) (x : A) :
  In x l -> p x = true -> (forall y, In y l -> p y = true -> y = x) -> find p l = Some x.
Proof.
  induction l as [|a l IH]; intros Hin Hp Hu; [destruct Hin|].
  cbn. destruct (p a) eqn:Hpa.
  - f_equal. apply Hu; [left; reflexivity|exact Hpa].
  - destruct Hin as [->|Hin]; [congruence|].
    apply IH; [exact Hin|exact Hp|]. intros y Hy. apply Hu. right; exact Hy.
Qed.

Lemma In_somes {A} (l : list (option A)) x : In x (somes l) <-> In (Some x) l.
Proof.
  unfold somes. rewrite in_flat_map. split.
  - intros ([y|] & Hy & Hx); cbn in Hx; [destruct Hx as [->|[]]; exact Hy|destruct Hx].
  - intros H. exists (Some x). split; [exact H|left; reflexivity].
Qed.

(** * the result monad *)
Lemma bind_ok {A B} (r : res A) (f : A -> res B) y :
  bind r f = Ok y -> exists a, r = Ok a /\ f a = Ok y.
Proof. destruct r; cbn; intros H; [eauto|discriminate|discriminate]. Qed.

Lemma mapM_ok {A B} (f : A -> res B) l ys :
  mapM f l = Ok ys -> Forall2 (fun x y => f x = Ok y) l ys.
Proof.
  revert ys; induction l as [|a l IH]; intros ys H; cbn in H.
  - inversion H; constructor.
  - apply bind_ok in H as (y & Hy & H). apply bind_ok in H as (ys' & Hys & H).
    inversion H; subst. constructor; [exact Hy|apply IH; exact Hys].
Qed.

Lemma Forall2_in_l {A B} (R : A -> B -> Prop) l l' x :
  Forall2 R l l' -> In x l -> exists y, In y l' /\ R x y.
Proof.
  induction 1 as [|a b l l' Hab _ IH]; intros Hin; [destruct Hin|].
  destruct Hin as [<-|Hin]; [exists b; split; [left; reflexivity|exact Hab]|].
  destruct (IH Hin) as (y & Hy & HR). exists y; split; [right; exact Hy|exact HR].
Qed.
Lemma Forall2_in_r {A B} (R : A -> B -> Prop) l l' y :
  Forall2 R l l' -> In y l' -> exists x, In x l /\ R x y.
Proof.
  induction 1 as [|a b l l' Hab _ IH]; intros Hin; [destruct Hin|].
  destruct Hin as [<-|Hin]; [exists a; split; [left; reflexivity|exact Hab]|].
  destruct (IH Hin) as (x & Hx & HR). exists x; split; [right; exact Hx|exact HR].
Qed.

(** * names *)
Lemma local_name_inj bag a b :
  starts_with UNSCO a = false -> starts_with UNSCO b = false ->
  local_name bag a = local_name bag b -> a = b.
Proof.
  unfold local_name. intros Ha Hb.
  destruct (mem a bag || mem a EMITTED_KEYWORDS), (mem b bag || mem b EMITTED_KEYWORDS); intros H.
  - apply app_inv_head in H. exact H.
  - exfalso. subst b. vm_compute in Hb. discriminate.
  - exfalso. subst a. vm_compute in Ha. discriminate.
  - exact H.
Qed.

Lemma in_typedefs doc td : In td (typedefs doc) <-> In (TSType td) doc.
Proof.
  unfold typedefs. rewrite in_flat_map. split.
  - intros (d & Hd & Hin). destruct d; cbn in Hin; try destruct Hin as [->|[]]; try contradiction. exact Hd.
  - intros H. exists (TSType td). split; [exact H|left; reflexivity].
Qed.

Lemma get_type_spec doc T td : get_type doc T = Some td -> In td (typedefs doc) /\ tname td = T.
Proof.
  unfold get_type. intros H. apply find_some in H as [Hin He]. apply str_eqb_eq in He. auto.
Qed.
Lemma get_type_of_in doc td :
  nodup_keys (map tname (typedefs doc)) = true -> In td (typedefs doc) -> get_type doc (tname td) = Some td.
Proof.
  intros Hnd Hin. unfold get_type. apply find_some_unique; [exact Hin|apply str_eqb_refl|].
  intros y Hy He. apply str_eqb_eq in He. eapply nodup_keys_inj; eauto.
Qed.

(** * association lists *)
Lemma assoc_app {A} k (x y : list (str * A)) :
  assoc k (x ++ y) = match assoc k x with Some v => Some v | None => assoc k y end.
Proof.
  induction x as [|[k' v] x IH]; cbn; [reflexivity|]. destruct (str_eqb k k'); [reflexivity|exact IH].
Qed.
Lemma assoc_none {A} k (l : list (str * A)) : (forall kv, In kv l -> fst kv <> k) -> assoc k l = None.
Proof.
  induction l as [|[k' v] l IH]; intros H; cbn; [reflexivity|].
  destruct (str_eqb_spec k k') as [->|_]; [exfalso; eapply (H (k', v)); [left|]; reflexivity|].
  apply IH. intros kv Hkv. apply H. right; exact Hkv.
Qed.
Lemma existsb_false_notin (k : str) ks : (forall x, In x ks -> x <> k) -> existsb (str_eqb k) ks = false.
Proof.
  induction ks as [|a ks IH]; intros H; cbn; [reflexivity|].
  destruct (str_eqb_spec k a) as [->|_]; [exfalso; eapply H; [left|]; reflexivity|].
  apply IH. intros x Hx. apply H. right; exact Hx.
Qed.

Section FlatMapKeys.
  Context {A B : Type} (key : A -> str) (F : A -> list (str * B)).
  Hypothesis Fkey : forall a kv, In kv (F a) -> fst kv = key a.
  Hypothesis Flen : forall a, length (F a) <= 1.

  Lemma keys_flat_map l kv : In kv (flat_map F l) -> exists a, In a l /\ fst kv = key a.
  Proof. rewrite in_flat_map. intros (a & Ha & Hkv). exists a. split; [exact Ha|apply Fkey; exact Hkv]. Qed.

  Lemma nodup_keys_flat_map l :
    nodup_keys (map key l) = true -> nodup_keys (map fst (flat_map F l)) = true.
  Proof.
    induction l as [|a l IH]; intros Hnd; [reflexivity|].
    cbn in Hnd. apply andb_true_iff in Hnd as [Hna Hnd]. apply negb_true_iff in Hna.
    cbn [flat_map]. rewrite map_app.
    assert (Hrest : forall x, In x (map fst (flat_map F l)) -> x <> key a).
    { intros x Hx He. apply in_map_iff in Hx as (kv & <- & Hkv).
      apply keys_flat_map in Hkv as (a' & Ha' & Hk).
      assert (existsb (str_eqb (key a)) (map key l) = true); [|congruence].
      apply existsb_exists. exists (key a'). split; [apply in_map; exact Ha'|].
      rewrite <- Hk, He. apply str_eqb_refl. }
    pose proof (Flen a) as Hl. pose proof (Fkey a) as Hk.
    destruct (F a) as [|[k v] [|? ?]]; cbn in Hl; [apply IH; exact Hnd| |lia].
    cbn. rewrite (IH Hnd), andb_true_r. apply negb_true_iff.
    specialize (Hk (k, v) (or_introl eq_refl)). cbn in Hk. subst k.
    apply existsb_false_notin. exact Hrest.
  Qed.

  Lemma assoc_flat_map_unique l a :
    nodup_keys (map key l) = true -> In a l -> assoc (key a) (flat_map F l) = assoc (key a) (F a).
  Proof.
    induction l as [|x l IH]; intros Hnd Hin; [destruct Hin|].
    cbn [flat_map]. rewrite assoc_app.
    pose proof Hnd as Hnd0.
    cbn in Hnd. apply andb_true_iff in Hnd as [Hna Hnd]. apply negb_true_iff in Hna.
    destruct Hin as [->|Hin].
    - destruct (assoc (key a) (F a)) eqn:Ha; [reflexivity|].
      apply assoc_none. intros kv Hkv He.
      apply keys_flat_map in Hkv as (a' & Ha' & Hk).
      assert (existsb (str_eqb (key a)) (map key l) = true); [|congruence].
      apply existsb_exists. exists (key a'). split; [apply in_map; exact Ha'|].
      rewrite <- Hk, He. apply str_eqb_refl.
    - rewrite (assoc_none (key a) (F x)).
      + apply IH; assumption.
      + intros kv Hkv He. apply Fkey in Hkv.
        assert (x = a); [|subst x].
        { eapply (nodup_keys_inj key (x :: l)); [exact Hnd0|left; reflexivity|right; exact Hin|congruence]. }
        assert (existsb (str_eqb (key a)) (map key l) = true); [|congruence].
        apply existsb_exists. exists (key a). split; [apply in_map; exact Hin|apply str_eqb_refl].
  Qed.
End FlatMapKeys.

Lemma dedup_last_id {A} (l : list (str * A)) : nodup_keys (map fst l) = true -> dedup_last l = l.
Proof.
  induction l as [|[k v] l IH]; intros Hnd; [reflexivity|].
  cbn in Hnd. apply andb_true_iff in Hnd as [Hna Hnd]. apply negb_true_iff in Hna.
  cbn. unfold mem. rewrite Hna, (IH Hnd). reflexivity.
Qed.

(** the scalar configuration the printer context holds for a scalar = the configured one *)
Definition scalar_entry (o : sopts) (td : typedef) : list (str * scalar_cfg) :=
  match td with
  | TDScalar _ _ n dirs _ => match scalar_config o (iname n) dirs with Some c => [(iname n, c)] | None => [] end
  | _ => []
  end.
Lemma scalar_entries_eq o doc : scalar_entries o doc = flat_map (scalar_entry o) (typedefs doc).
Proof.
  unfold scalar_entries. apply flat_map_ext. intros td. destruct td; try reflexivity.
  unfold scalar_entry, scalar_config. destruct (assoc (iname name) (so_scalars o)); [reflexivity|].
  destruct (directive_ts_type dirs); reflexivity.
Qed.

Lemma scalars_assoc o doc d p n dirs kw :
  nodup_keys (map tname (typedefs doc)) = true ->
  In (TDScalar d p n dirs kw) (typedefs doc) ->
  assoc (iname n) (get_scalar_types o doc) = scalar_config o (iname n) dirs.
Proof.
  intros Hnd Hin. unfold get_scalar_types. rewrite scalar_entries_eq.
  assert (Fkey : forall a kv, In kv (scalar_entry o a) -> fst kv = tname a).
  { intros a kv H. destruct a; cbn in H; try contradiction.
    destruct (scalar_config o (iname name) dirs0); [|contradiction]. destruct H as [<-|[]]. reflexivity. }
  assert (Flen : forall a, length (scalar_entry o a) <= 1).
  { intros a. destruct a; cbn; try lia. destruct (scalar_config o (iname name) dirs0); cbn; lia. }
  rewrite dedup_last_id by (apply (nodup_keys_flat_map tname); assumption).
  change (iname n) with (tname (TDScalar d p n dirs kw)) at 1.
  rewrite (assoc_flat_map_unique tname (scalar_entry o) Fkey _ _ Hnd Hin).
  cbn. destruct (scalar_config o (iname n) dirs); cbn; [rewrite str_eqb_refl|]; reflexivity.
Qed.

(** [iter_types] = all type definitions when names are unique *)
Lemma first_defs_aux_id seen l :
  (forall x, In x l -> mem (tname x) seen = false) ->
  nodup_keys (map tname l) = true -> first_defs_aux seen l = l.
Proof.
  revert seen; induction l as [|a l IH]; intros seen Hs Hnd; [reflexivity|].
  cbn. rewrite (Hs a (or_introl eq_refl)).
  cbn in Hnd. apply andb_true_iff in Hnd as [Hna Hnd]. apply negb_true_iff in Hna.
  f_equal. apply IH; [|exact Hnd].
  intros x Hx. unfold mem. cbn.
  destruct (str_eqb_spec (tname x) (tname a)) as [He|_].
  - exfalso. assert (existsb (str_eqb (tname a)) (map tname l) = true); [|congruence].
    apply existsb_exists. exists (tname x). split; [apply in_map; exact Hx|].
    rewrite He. apply str_eqb_refl.
  - apply Hs. right; exact Hx.
Qed.
Lemma iter_types_id doc : nodup_keys (map tname (typedefs doc)) = true -> iter_types doc = typedefs doc.
Proof. intros H. apply first_defs_aux_id; [reflexivity|exact H]. Qed.

Lemma existsb_ext' {A} (p q : A -> bool) l : (forall x, p x = q x) -> existsb p l = existsb q l.
Proof. intros H. induction l; cbn; [reflexivity|]. rewrite H. congruence. Qed.
Lemma existsb_map {A B} (g : A -> B) (p : B -> bool) l : existsb p (map g l) = existsb (fun x => p (g x)) l.
Proof. induction l; cbn; congruence. Qed.
Lemma map_flat_map {A B C} (g : B -> C) (F : A -> list B) l : map g (flat_map F l) = flat_map (fun x => map g (F x)) l.
Proof. induction l; cbn; [reflexivity|]. rewrite map_app. congruence. Qed.

Lemma implementers_possible doc T :
  nodup_keys (map tname (typedefs doc)) = true ->
  map iname (interface_implementers doc T) = possible_of_interface doc T.
Proof.
  intros Hnd. unfold interface_implementers, possible_of_interface.
  rewrite (iter_types_id _ Hnd), map_flat_map. apply flat_map_ext.
  intros td. destruct td; try reflexivity.
  unfold mem. rewrite existsb_map.
  assert (He : existsb (fun i => str_eqb (iname i) T) impls = existsb (fun x => str_eqb T (iname x)) impls).
  { apply existsb_ext'. intros; apply str_eqb_sym. }
  rewrite He. destruct (existsb (fun x => str_eqb T (iname x)) impls); reflexivity.
Qed.

(** * one namespace *)
Ltac inv_bind H :=
  repeat match type of H with
         | bind _ _ = Ok _ =>
             let a := fresh "a" in let Ha := fresh "Ha" in apply bind_ok in H as (a & Ha & H)
         end.

Section NS.
  Variables (o : sopts) (doc : tsdoc) (t : target) (ms : list (option member)).
  Hypothesis Hwf : wf_schema o doc = true.
  Hypothesis Hms : namespace_members o doc t = Ok ms.

  Let c := make_ctx o doc t.
  (** any environment whose local names are those of the namespace (e.g. [ns_env ms] itself, or the
      environment C09 reads the Variables type in) *)
  Variable E : tsenv.
  Hypothesis Henv : forall n, env_var E n = env_var (ns_env ms) n.
  Notation ht := (has_type_b E).
  Notation lname := (local_name (c_bag c)).

  Lemma Hnd : nodup_keys (map tname (typedefs doc)) = true.
  Proof. unfold wf_schema in Hwf. apply andb_true_iff in Hwf as [H _]. exact H. Qed.
  Lemma Hwfd td : In td (typedefs doc) -> wf_typedef o doc td = true.
  Proof.
    unfold wf_schema in Hwf. apply andb_true_iff in Hwf as [_ H].
    rewrite forallb_forall in H. apply H.
  Qed.
  Lemma name_ok td : In td (typedefs doc) -> starts_with UNSCO (tname td) = false.
  Proof. intros H. apply Hwfd in H. unfold wf_typedef in H. apply andb_true_iff in H as [H _]. apply negb_true_iff in H. exact H. Qed.

  Lemma ltn_defined td : In td (typedefs doc) -> local_type_name c (tname td) = Some (lname (tname td)).
  Proof.
    intros H. unfold local_type_name.
    replace (existsb _ _) with true; [reflexivity|].
    symmetry. apply existsb_exists. exists td. split; [exact H|apply str_eqb_refl].
  Qed.
  Lemma ltn_ok n l : local_type_name_or_panic c n = Ok l -> l = lname n.
  Proof.
    unfold local_type_name_or_panic, local_type_name. destruct (existsb _ _); intros H; inversion H. reflexivity.
  Qed.

  Lemma member_names td m : type_member c td = Ok (Some m) ->
    m_local m = lname (tname td) /\ m_name m = typedef_name td.
  Proof.
    intros H. destruct td; cbn [type_member] in H.
    - destruct (assoc _ _); [|discriminate]. inv_bind H. inversion H; subst. cbn. split; [apply ltn_ok; assumption|reflexivity].
    - destruct (is_input _); [discriminate|]. inv_bind H. inversion H; subst. cbn. split; [apply ltn_ok; assumption|reflexivity].
    - destruct (is_input _); [discriminate|]. inv_bind H. inversion H; subst. cbn. split; [apply ltn_ok; assumption|reflexivity].
    - destruct (is_input _); [discriminate|]. inv_bind H. inversion H; subst. cbn. split; [apply ltn_ok; assumption|reflexivity].
    - inv_bind H. inversion H; subst. cbn. split; [apply ltn_ok; assumption|reflexivity].
    - destruct (is_output _); [discriminate|]. inv_bind H. inversion H; subst. cbn. split; [apply ltn_ok; assumption|reflexivity].
  Qed.

  Lemma Hall : Forall2 (fun d m => def_member c d = Ok m) doc ms.
  Proof. apply mapM_ok. exact Hms. Qed.

  Lemma member_in m : In m (somes ms) -> exists td, In td (typedefs doc) /\ type_member c td = Ok (Some m).
  Proof.
    intros H. apply In_somes in H.
    destruct (Forall2_in_r _ _ _ _ Hall H) as (d & Hd & Hdm).
    destruct d; cbn in Hdm; try discriminate.
    exists t0. split; [apply in_typedefs; exact Hd|exact Hdm].
  Qed.
  Lemma member_of td : In td (typedefs doc) ->
    exists mo, type_member c td = Ok mo /\ forall m, mo = Some m -> In m (somes ms).
  Proof.
    intros H. apply in_typedefs in H.
    destruct (Forall2_in_l _ _ _ _ Hall H) as (mo & Hmo & Hdm). cbn in Hdm.
    exists mo. split; [exact Hdm|]. intros m ->. apply In_somes. exact Hmo.
  Qed.

  (** the local name of a type resolves to its own declaration *)
  Lemma env_lookup td m : In td (typedefs doc) -> type_member c td = Ok (Some m) ->
    env_var E (lname (tname td)) = Some (body_type (m_body m)).
  Proof.
    intros Hin Hm. rewrite Henv. unfold ns_env. cbn [env_var].
    destruct (member_of td Hin) as (mo & Hmo & Hinm). rewrite Hm in Hmo. inversion Hmo; subst mo.
    rewrite (find_some_unique _ _ m); [reflexivity|apply Hinm; reflexivity| |].
    - destruct (member_names td m Hm) as [-> _]. apply str_eqb_refl.
    - intros m' Hm' He. apply str_eqb_eq in He.
      destruct (member_in m' Hm') as (td' & Hin' & Htm').
      destruct (member_names td' m' Htm') as [Hl' _]. rewrite Hl' in He.
      apply local_name_inj in He; [|apply name_ok; assumption|apply name_ok; assumption].
      assert (td' = td) by (eapply (nodup_keys_inj tname); [apply Hnd|assumption|assumption|exact He]).
      subst td'. congruence.
  Qed.
  Lemma alias_lookup td m : In td (typedefs doc) -> type_member c td = Ok (Some m) ->
    alias_of ms (tname td) = Some (body_type (m_body m)).
  Proof.
    intros Hin Hm. unfold alias_of.
    destruct (member_of td Hin) as (mo & Hmo & Hinm). rewrite Hm in Hmo. inversion Hmo; subst mo.
    rewrite (find_some_unique _ _ m); [reflexivity|apply Hinm; reflexivity| |].
    - destruct (member_names td m Hm) as [_ ->]. apply str_eqb_refl.
    - intros m' Hm' He. apply str_eqb_eq in He.
      destruct (member_in m' Hm') as (td' & Hin' & Htm').
      destruct (member_names td' m' Htm') as [_ Hn']. rewrite Hn' in He.
      assert (td' = td) by (eapply (nodup_keys_inj tname); [apply Hnd|assumption|assumption|exact He]).
      subst td'. congruence.
  Qed.
  Lemma alias_absent td : In td (typedefs doc) -> type_member c td = Ok None -> alias_of ms (tname td) = None.
  Proof.
    intros Hin Hm. unfold alias_of.
    destruct (find _ (somes ms)) as [m'|] eqn:Hf; [exfalso|reflexivity].
    apply find_some in Hf as [Hm' He]. apply str_eqb_eq in He.
    destruct (member_in m' Hm') as (td' & Hin' & Htm').
    destruct (member_names td' m' Htm') as [_ Hn']. rewrite Hn' in He.
    assert (td' = td) by (eapply (nodup_keys_inj tname); [apply Hnd|assumption|assumption|exact He]).
    subst td'. congruence.
  Qed.

  (** ** the reference denotation, unfolded one step *)
  Definition cks (v : val) : list (str * checker) :=
    match v with VObj kvs => map (fun kv => (fst kv, ref_val o doc t (snd kv))) kvs | _ => [] end.

  Lemma raw_member_null r : raw_member r VNull = false.
  Proof. unfold raw_member. repeat destruct (str_eqb _ _); reflexivity. Qed.
  Lemma object_named_null p l : object_named doc p VNull l = false.
  Proof. unfold object_named. destruct (get_type doc p) as [[]|]; reflexivity. Qed.
  Lemma existsb_false {A} (p : A -> bool) l : (forall x, p x = false) -> existsb p l = false.
  Proof. intros H. induction l; cbn; [reflexivity|]. rewrite H. assumption. Qed.

  Lemma named_den_null T : named_den o doc t VNull [] T = false.
  Proof.
    unfold named_den. destruct (get_type doc T) as [[]|]; try reflexivity.
    - destruct (scalar_config _ _ _); [apply raw_member_null|reflexivity].
    - apply andb_false_r.
    - rewrite existsb_false; [apply andb_false_r|]. intros; apply object_named_null.
    - rewrite existsb_false; [apply andb_false_r|]. intros; apply object_named_null.
    - apply andb_false_r.
  Qed.
  Lemma Ref_named T v : Ref o doc t T v = named_den o doc t v (cks v) T.
  Proof. destruct v; try reflexivity. cbn. symmetry. apply named_den_null. Qed.

  Lemma is_output_of_input : is_input t = false -> is_output t = true.
  Proof. unfold is_input. destruct (is_output t); [reflexivity|discriminate]. Qed.

  (** ** aligned folds *)
  Lemma existsb_Forall2 {A B} (R : A -> B -> Prop) (p : A -> bool) (q : B -> bool) l l' :
    Forall2 R l l' -> (forall x y, R x y -> p x = q y) -> existsb p l = existsb q l'.
  Proof. induction 1 as [|x y l l' Hxy _ IH]; intros H; cbn; [reflexivity|]. rewrite (H _ _ Hxy), IH by exact H. reflexivity. Qed.

  Lemma fold_and_sound2 {A B} (R : A -> B -> Prop) (g : B -> option bool) (h : A -> bool) l l' :
    Forall2 R l l' -> (forall x y, In x l -> R x y -> forall b, g y = Some b -> h x = b) ->
    forall b, fold_right (fun y acc => obool_and (g y) acc) (Some true) l' = Some b -> forallb h l = b.
  Proof.
    induction 1 as [|x y l l' Hxy _ IH]; intros Hs b H; cbn in *; [congruence|].
    apply obool_and_some in H as [(-> & Ha & Hl)|(-> & [Ha|Hl])].
    - rewrite (Hs x y (or_introl eq_refl) Hxy _ Ha), (IH (fun x y Hin => Hs x y (or_intror Hin)) _ Hl). reflexivity.
    - rewrite (Hs x y (or_introl eq_refl) Hxy _ Ha). reflexivity.
    - rewrite (IH (fun x y Hin => Hs x y (or_intror Hin)) _ Hl). apply andb_false_r.
  Qed.

  Lemma ht_ts_union_map {A} (G : A -> tstype) (h : A -> bool) l f v :
    (forall a, In a l -> forall f', f' <= f -> forall b, ht f' (G a) v = Some b -> h a = b) ->
    forall b, ht f (ts_union (map G l)) v = Some b -> existsb h l = b.
  Proof.
    intros Hs b H. destruct l as [|x [|y r]].
    - cbn in H. destruct f; [rewrite ht_zero in H; discriminate|]. rewrite ht_never in H. cbn. congruence.
    - cbn in H. cbn. rewrite orb_false_r. eapply Hs; [left; reflexivity| |exact H]. lia.
    - change (ts_union (map G (x :: y :: r))) with (TUnion (map G (x :: y :: r))) in H.
      destruct f as [|f1]; [rewrite ht_zero in H; discriminate|].
      rewrite ht_union, fold_right_map_fuse in H.
      eapply fold_or_sound; [|exact H].
      intros a Ha b' Hb'. eapply Hs; [exact Ha| |exact Hb']. lia.
  Qed.

  (** ** kinds *)
  Lemma kind_output n : is_output_kind (kind_of doc n) = true -> is_output t = true ->
    exists td, get_type doc n = Some td /\ applicable doc t n = true.
  Proof.
    unfold kind_of, applicable. intros H Ho. destruct (get_type doc n) as [td|]; [|discriminate].
    exists td. split; [reflexivity|]. destruct td; try reflexivity; try exact Ho. discriminate.
  Qed.
  Lemma kind_input n : is_input_kind (kind_of doc n) = true -> is_input t = true ->
    exists td, get_type doc n = Some td /\ applicable doc t n = true.
  Proof.
    unfold kind_of, applicable. intros H Ho. destruct (get_type doc n) as [td|]; [|discriminate].
    exists td. split; [reflexivity|]. destruct td; try reflexivity; try exact Ho; discriminate.
  Qed.
  Lemma kind_object n : N.eqb (kind_of doc n) 3 = true ->
    exists d p nm impls dirs fields kw, get_type doc n = Some (TDObject d p nm impls dirs fields kw).
  Proof.
    unfold kind_of. destruct (get_type doc n) as [[]|]; try discriminate. intros _. repeat eexists.
  Qed.

  (** ** the main induction *)
  Definition Exact (f : nat) : Prop :=
    forall T td p v b, get_type doc T = Some td -> applicable doc t T = true ->
      ht f (TVar (lname T) p) v = Some b -> Ref o doc t T v = b.

  Lemma leaf_of_exact f n l td :
    (forall f', f' <= f -> Exact f') -> get_type doc (iname n) = Some td -> applicable doc t (iname n) = true ->
    l = lname (iname n) ->
    LeafOK o doc t E (fun _ => TVar l pos0) f n.
  Proof.
    intros HE Hg Ha -> f' Hle v b H. eapply (HE f' Hle); eassumption.
  Qed.

  Lemma object_as_named T d p nm impls dirs fields kw v :
    get_type doc T = Some (TDObject d p nm impls dirs fields kw) -> is_output t = true ->
    Ref o doc t T v = object_named doc T v (cks v).
  Proof.
    intros Hg Ho. rewrite Ref_named. unfold named_den, object_named. rewrite Hg, Ho. reflexivity.
  Qed.

  (** *** scalars *)
  Lemma exact_scalar f d p n dirs kw m v b :
    In (TDScalar d p n dirs kw) (typedefs doc) ->
    type_member c (TDScalar d p n dirs kw) = Ok (Some m) ->
    ht f (body_type (m_body m)) v = Some b -> Ref o doc t (iname n) v = b.
  Proof.
    intros Hin Hm H. cbn [type_member] in Hm.
    change (c_scalars c) with (get_scalar_types o doc) in Hm.
    rewrite (scalars_assoc o doc d p n dirs kw Hnd Hin) in Hm.
    destruct (scalar_config o (iname n) dirs) as [cfg|] eqn:Hcfg; [|discriminate].
    inv_bind Hm. inversion Hm; subst m. cbn in H.
    destruct f as [|f1]; [rewrite ht_zero in H; discriminate|]. rewrite ht_raw in H. inversion H; subst b.
    rewrite Ref_named. unfold named_den.
    rewrite (get_type_of_in doc _ Hnd Hin : get_type doc (iname n) = _), Hcfg. reflexivity.
  Qed.

  (** *** enums *)
  Lemma exact_enum f d p n dirs vals kw m v b :
    In (TDEnum d p n dirs vals kw) (typedefs doc) ->
    type_member c (TDEnum d p n dirs vals kw) = Ok (Some m) ->
    ht f (body_type (m_body m)) v = Some b -> Ref o doc t (iname n) v = b.
  Proof.
    intros Hin Hm H. cbn [type_member] in Hm. inv_bind Hm. inversion Hm; subst m. cbn in H.
    destruct f as [|f1]; [rewrite ht_zero in H; discriminate|].
    rewrite ht_union, fold_right_map_fuse in H.
    rewrite Ref_named. unfold named_den.
    rewrite (get_type_of_in doc _ Hnd Hin : get_type doc (iname n) = _).
    pose (h := fun ev : enumvaldef => match v with VStr x => str_eqb x (iname (ev_name ev)) | _ => false end).
    assert (Hh : existsb h vals = b).
    { eapply fold_or_sound; [|exact H]. intros ev _ b' Hb'. cbv beta in Hb'.
      destruct f1 as [|f2]; [rewrite ht_zero in Hb'; discriminate|]. rewrite ht_strlit in Hb'.
      inversion Hb'. unfold h. destruct v; try reflexivity. apply str_eqb_sym. }
    rewrite <- Hh. unfold h. destruct v; try (symmetry; apply existsb_false; reflexivity). reflexivity.
  Qed.

  (** *** interfaces and unions *)
  Lemma implementer_object T oi : In oi (interface_implementers doc T) ->
    exists d p impls dirs fields kw, In (TDObject d p oi impls dirs fields kw) (typedefs doc).
  Proof.
    unfold interface_implementers. rewrite (iter_types_id _ Hnd), in_flat_map.
    intros (td & Htd & Hin). destruct td; try contradiction.
    destruct (existsb _ impls); [|contradiction]. destruct Hin as [<-|[]]. repeat eexists. exact Htd.
  Qed.

  Lemma exact_interface f d p n impls dirs fields kw m v b :
    (forall f', f' <= f -> Exact f') ->
    In (TDInterface d p n impls dirs fields kw) (typedefs doc) ->
    type_member c (TDInterface d p n impls dirs fields kw) = Ok (Some m) ->
    ht f (body_type (m_body m)) v = Some b -> Ref o doc t (iname n) v = b.
  Proof.
    intros HE Hin Hm H. cbn [type_member] in Hm.
    destruct (is_input (c_target c)) eqn:Hinp; [discriminate|].
    apply is_output_of_input in Hinp.
    inv_bind Hm. inversion Hm; subst m. cbn [m_body body_type] in H.
    rewrite Ref_named. unfold named_den.
    rewrite (get_type_of_in doc _ Hnd Hin : get_type doc (iname n) = _), Hinp. cbn [andb].
    rewrite <- (implementers_possible doc (iname n) Hnd), existsb_map.
    eapply ht_ts_union_map; [|exact H].
    intros oi Hoi f' Hle b' Hb'. cbv beta in Hb'.
    destruct (implementer_object _ _ Hoi) as (d' & p' & impls' & dirs' & fields' & kw' & Hino).
    pose proof (ltn_defined _ Hino) as Hl. unfold tname in Hl; cbn [typedef_name] in Hl. rewrite Hl in Hb'.
    pose proof (get_type_of_in doc _ Hnd Hino) as Hg. unfold tname in Hg; cbn [typedef_name] in Hg.
    rewrite <- (object_as_named _ _ _ _ _ _ _ _ v Hg Hinp).
    eapply (HE f' Hle); [exact Hg| |exact Hb'].
    unfold applicable. rewrite Hg. exact Hinp.
  Qed.

  Lemma exact_union f d p n dirs members kw m v b :
    (forall f', f' <= f -> Exact f') ->
    In (TDUnion d p n dirs members kw) (typedefs doc) ->
    type_member c (TDUnion d p n dirs members kw) = Ok (Some m) ->
    ht f (body_type (m_body m)) v = Some b -> Ref o doc t (iname n) v = b.
  Proof.
    intros HE Hin Hm H. cbn [type_member] in Hm.
    destruct (is_input (c_target c)) eqn:Hinp; [discriminate|].
    apply is_output_of_input in Hinp.
    inv_bind Hm. inversion Hm; subst m. cbn [m_body body_type] in H.
    rewrite Ref_named. unfold named_den.
    rewrite (get_type_of_in doc _ Hnd Hin : get_type doc (iname n) = _), Hinp. cbn [andb].
    eapply ht_ts_union_map; [|exact H].
    intros mi Hmi f' Hle b' Hb'. cbv beta in Hb'.
    pose proof (Hwfd _ Hin) as Hw. unfold wf_typedef in Hw. apply andb_true_iff in Hw as [_ Hw].
    rewrite forallb_forall in Hw. specialize (Hw _ Hmi).
    destruct (kind_object _ Hw) as (d' & p' & nm & impls' & dirs' & fields' & kw' & Hg).
    destruct (get_type_spec _ _ _ Hg) as [Hino Hnm].
    pose proof (ltn_defined _ Hino) as Hl. rewrite Hnm in Hl. rewrite Hl in Hb'.
    rewrite <- (object_as_named _ _ _ _ _ _ _ _ v Hg Hinp).
    assert (Happ : applicable doc t (iname mi) = true) by (unfold applicable; rewrite Hg; exact Hinp).
    destruct (str_eqb (lname (iname mi)) (iname mi)) eqn:He.
    - apply str_eqb_eq in He. rewrite <- He in Hb' at 1. eapply (HE f' Hle); eassumption.
    - eapply (HE f' Hle); eassumption.
  Qed.

  (** *** objects *)
  Lemma ts_local_ok ty x : ts_of_type_local c ty = Ok x ->
    x = get_ts_type_of_type (fun _ => TVar (lname (iname (ty_unwrapped ty))) pos0) ty.
  Proof.
    unfold ts_of_type_local. intros H. inv_bind H. apply ltn_ok in Ha. subst a. inversion H. reflexivity.
  Qed.

  Lemma forallb_ext' {A} (p q : A -> bool) l : (forall x, p x = q x) -> forallb p l = forallb q l.
  Proof. intros H. induction l; cbn; [reflexivity|]. rewrite H. congruence. Qed.

  Lemma typename_field_ok f1 kvs T b :
    field_ok E f1 kvs (mkField TYPENAME pos0 (TStrLit T) false false None) = Some b ->
    match assoc TYPENAME kvs with Some (VStr x) => str_eqb x T | _ => false end = b.
  Proof.
    unfold field_ok. cbn [f_key f_optional f_ty].
    destruct (assoc TYPENAME kvs) as [x|]; [|intros H; inversion H; reflexivity].
    destruct f1 as [|f2]; [rewrite ht_zero; discriminate|]. rewrite ht_strlit. intros H; inversion H.
    destruct x; try reflexivity. apply str_eqb_sym.
  Qed.

  Lemma exact_object f d p n impls dirs fields kw m v b :
    (forall f', f' <= f -> Exact f') ->
    In (TDObject d p n impls dirs fields kw) (typedefs doc) ->
    type_member c (TDObject d p n impls dirs fields kw) = Ok (Some m) ->
    ht f (body_type (m_body m)) v = Some b -> Ref o doc t (iname n) v = b.
  Proof.
    intros HE Hin Hm H. cbn [type_member] in Hm.
    destruct (is_input (c_target c)) eqn:Hinp; [discriminate|].
    apply is_output_of_input in Hinp.
    inv_bind Hm. inversion Hm; subst m. clear Hm. cbn [m_body body_type] in H.
    rename a into fs. apply mapM_ok in Ha.
    rewrite Ref_named. unfold named_den.
    rewrite (get_type_of_in doc _ Hnd Hin : get_type doc (iname n) = _), Hinp. cbn [andb].
    destruct f as [|f1]; [rewrite ht_zero in H; discriminate|].
    rewrite ht_object in H. unfold object_den.
    destruct v as [| | | | | | |kvs]; try (inversion H; reflexivity).
    (* the two exactness conditions coincide *)
    assert (Hkeys : forallb (fun k => existsb (fun fl => str_eqb (f_key fl) k)
                                (mkField TYPENAME pos0 (TStrLit (iname n)) false false None :: fs)) (map fst kvs)
                    = forallb (fun k => mem k (TYPENAME :: map (fun fd => iname (fd_name fd)) fields)) (map fst kvs)).
    { apply forallb_ext'. intros k. unfold mem. cbn [existsb f_key]. rewrite (str_eqb_sym TYPENAME k). f_equal.
      rewrite existsb_map. symmetry. eapply existsb_Forall2; [exact Ha|].
      intros fd fl Hfl. cbv beta in Hfl. inv_bind Hfl. inversion Hfl. cbn [f_key]. apply str_eqb_sym. }
    rewrite Hkeys in H. unfold exact_keys.
    destruct (nodup_keys (map fst kvs) && forallb _ (map fst kvs)); [|inversion H; reflexivity].
    cbn [andb]. unfold fields_ok in H. cbn [fold_right] in H.
    fold (fields_ok E f1 fs kvs) in H.
    assert (HA := typename_field_ok f1 kvs (iname n)).
    assert (HB : forall b', fields_ok E f1 fs kvs = Some b' ->
                 forallb (fun fd => match assoc (iname (fd_name fd)) (cks (VObj kvs)) with
                                    | Some chk => chk (is_nonnull (fd_type fd)) (ty_norm (fd_type fd))
                                    | None => false
                                    end) fields = b').
    { intros b' Hb'. unfold fields_ok in Hb'.
      eapply (fold_and_sound2 _ (field_ok E f1 kvs)); [exact Ha| |exact Hb'].
      intros fd fl Hfd Hfl b'' Hb''. cbv beta in Hfl. inv_bind Hfl. inversion Hfl; subst fl. clear Hfl.
      apply ts_local_ok in Ha1. subst a.
      unfold field_ok in Hb''. cbn [f_key f_optional f_ty] in Hb''.
      unfold cks. rewrite assoc_map_snd.
      destruct (assoc (iname (fd_name fd)) kvs) as [x|]; cbn [option_map]; [|inversion Hb''; reflexivity].
      eapply get_ok; [|exact Hb''].
      pose proof (Hwfd _ Hin) as Hw. unfold wf_typedef in Hw. apply andb_true_iff in Hw as [_ Hw].
      rewrite forallb_forall in Hw. specialize (Hw _ Hfd). apply andb_true_iff in Hw as [_ Hw].
      destruct (kind_output _ Hw Hinp) as (td' & Hg' & Happ').
      eapply leaf_of_exact; [|exact Hg'|exact Happ'|reflexivity].
      intros f' Hle. apply HE. lia. }
    apply obool_and_some in H as [(-> & Ht & Hf)|(-> & [Ht|Hf])].
    - rewrite (HA _ Ht), (HB _ Hf). reflexivity.
    - rewrite (HA _ Ht). reflexivity.
    - rewrite (HB _ Hf). apply andb_false_r.
  Qed.

  (** *** input objects *)
  Lemma obool_or_false_r a b : obool_or a (Some false) = Some b -> a = Some b.
  Proof. destruct a as [[]|]; cbn; congruence. Qed.

  Lemma exact_input f d p n dirs fields kw m v b :
    (forall f', f' <= f -> Exact f') ->
    In (TDInput d p n dirs fields kw) (typedefs doc) ->
    type_member c (TDInput d p n dirs fields kw) = Ok (Some m) ->
    ht f (body_type (m_body m)) v = Some b -> Ref o doc t (iname n) v = b.
  Proof.
    intros HE Hin Hm H. cbn [type_member] in Hm.
    destruct (is_output (c_target c)) eqn:Hout; [discriminate|].
    change (c_target c) with t in Hout.
    assert (Hinp : is_input t = true) by (unfold is_input; rewrite Hout; reflexivity).
    inv_bind Hm. inversion Hm; subst m. clear Hm. cbn [m_body body_type] in H.
    rename a into fs. apply mapM_ok in Ha.
    rewrite Ref_named. unfold named_den.
    rewrite (get_type_of_in doc _ Hnd Hin : get_type doc (iname n) = _), Hinp. cbn [andb].
    destruct f as [|f1]; [rewrite ht_zero in H; discriminate|].
    rewrite ht_object in H. unfold input_den.
    destruct v as [| | | | | | |kvs]; try (inversion H; reflexivity).
    assert (Hkeys : forallb (fun k => existsb (fun fl => str_eqb (f_key fl) k) fs) (map fst kvs)
                    = forallb (fun k => mem k (map (fun iv => iname (iv_name iv)) fields)) (map fst kvs)).
    { apply forallb_ext'. intros k. unfold mem.
      rewrite existsb_map. symmetry. eapply existsb_Forall2; [exact Ha|].
      intros iv fl Hfl. cbv beta in Hfl.
      destruct (schema_input_field_deprecation _ _ _); [|discriminate].
      inv_bind Hfl. inversion Hfl. cbn [f_key]. apply str_eqb_sym. }
    rewrite Hkeys in H. unfold exact_keys.
    destruct (nodup_keys (map fst kvs) && forallb _ (map fst kvs)); [|inversion H; reflexivity].
    cbn [andb]. unfold fields_ok in H.
    eapply (fold_and_sound2 _ (field_ok E f1 kvs)); [exact Ha| |exact H].
    intros iv fl Hiv Hfl b'' Hb''. cbv beta in Hfl.
    destruct (schema_input_field_deprecation _ _ _) as [dep|]; [|discriminate].
    inv_bind Hfl. inversion Hfl; subst fl. clear Hfl.
    apply ts_local_ok in Ha1. subst a.
    change (c_opts c) with o in Hb''.
    unfold field_ok in Hb''. cbn [f_key f_optional f_ty] in Hb''.
    unfold cks. rewrite assoc_map_snd.
    (* the leaf hypothesis for this field *)
    pose proof (Hwfd _ Hin) as Hw. unfold wf_typedef in Hw. apply andb_true_iff in Hw as [_ Hw].
    rewrite forallb_forall in Hw. specialize (Hw _ Hiv).
    destruct (kind_input _ Hw Hinp) as (td' & Hg' & Happ').
    assert (HL : forall f2, f2 <= S f1 ->
              LeafOK o doc t E (fun _ => TVar (lname (iname (ty_unwrapped (iv_type iv)))) pos0) f2 (ty_unwrapped (iv_type iv))).
    { intros f2 Hf2. eapply leaf_of_exact; [|exact Hg'|exact Happ'|reflexivity]. intros f' Hle. apply HE. lia. }
    destruct (assoc (iname (iv_name iv)) kvs) as [x|]; cbn [option_map]; [|inversion Hb''; reflexivity].
    destruct (so_optional o && negb (is_nonnull (iv_type iv))) eqn:Hopt; cbn [andb orb].
    - (* omissible *)
      change (is_undef_v x) with (is_undef x) in Hb''.
      destruct (is_undef x) eqn:Hu.
      + cbn [orb]. destruct (has_type_b E f1 _ x) as [[]|]; cbn in Hb''; congruence.
      + cbn [orb]. apply obool_or_false_r in Hb''.
        destruct f1 as [|f2]; [rewrite ht_zero in Hb''; discriminate|].
        rewrite ht_union in Hb''. cbn [fold_right] in Hb''.
        apply obool_or_some in Hb'' as [(-> & Hc & _)|(-> & [Hc|Hi])].
        * rewrite ro_get in Hc by reflexivity. eapply get_ok; [|exact Hc]. apply HL. lia.
        * rewrite ro_get in Hc by reflexivity. eapply get_ok; [|exact Hc]. apply HL. lia.
        * exfalso. apply obool_or_false_r in Hi.
          destruct f2 as [|f3]; [rewrite ht_zero in Hi; discriminate|].
          rewrite ht_undef in Hi. change (is_undef_v x) with (is_undef x) in Hi. congruence.
    - rewrite ro_get in Hb'' by reflexivity. eapply get_ok; [|exact Hb'']. apply HL. lia.
  Qed.

  (** *** all kinds together *)
  Lemma applicable_member td : In td (typedefs doc) -> applicable doc t (tname td) = true ->
    exists m, type_member c td = Ok (Some m).
  Proof.
    intros Hin Happ. destruct (member_of td Hin) as (mo & Hmo & _).
    unfold applicable in Happ. rewrite (get_type_of_in doc _ Hnd Hin) in Happ.
    destruct mo as [m|]; [exists m; exact Hmo|exfalso].
    destruct td; cbn [type_member] in Hmo.
    - destruct (assoc _ _); [|discriminate]. inv_bind Hmo. discriminate.
    - change (c_target c) with t in Hmo. unfold is_input in Hmo. rewrite Happ in Hmo. cbn in Hmo. inv_bind Hmo. discriminate.
    - change (c_target c) with t in Hmo. unfold is_input in Hmo. rewrite Happ in Hmo. cbn in Hmo. inv_bind Hmo. discriminate.
    - change (c_target c) with t in Hmo. unfold is_input in Hmo. rewrite Happ in Hmo. cbn in Hmo. inv_bind Hmo. discriminate.
    - inv_bind Hmo. discriminate.
    - change (c_target c) with t in Hmo. unfold is_input in Happ. apply negb_true_iff in Happ. rewrite Happ in Hmo. inv_bind Hmo. discriminate.
  Qed.

  Lemma body_exact f td m v b :
    (forall f', f' <= f -> Exact f') ->
    In td (typedefs doc) -> type_member c td = Ok (Some m) ->
    ht f (body_type (m_body m)) v = Some b -> Ref o doc t (tname td) v = b.
  Proof.
    intros HE Hin Hm H. destruct td; unfold tname; cbn [typedef_name].
    - eapply exact_scalar; eassumption.
    - eapply exact_object; eassumption.
    - eapply exact_interface; eassumption.
    - eapply exact_union; eassumption.
    - eapply exact_enum; eassumption.
    - eapply exact_input; eassumption.
  Qed.

  Lemma exact_all : forall f f', f' <= f -> Exact f'.
  Proof.
    induction f as [|f IH]; intros f' Hle.
    - assert (f' = 0) by lia. subst. intros T td p v b _ _ H. rewrite ht_zero in H. discriminate.
    - destruct (Nat.eq_dec f' (S f)) as [->|Hne]; [|apply IH; lia].
      intros T td p v b Hg Happ H.
      destruct (get_type_spec _ _ _ Hg) as [Hin <-].
      destruct (applicable_member td Hin Happ) as (m & Hm).
      rewrite ht_var, (env_lookup td m Hin Hm) in H.
      eapply body_exact; [exact IH|exact Hin|exact Hm|exact H].
  Qed.

  (** the alias exported under the schema name [T] in this namespace denotes exactly [Ref_t(T)]:
      whenever the TypeScript reading decides membership of [v], it decides it like the reference *)
  Theorem alias_exact_sound T body f v b :
    applicable doc t T = true -> alias_of ms T = Some body ->
    ht f body v = Some b -> Ref o doc t T v = b.
  Proof.
    intros Happ Hal H.
    assert (Hg : exists td, get_type doc T = Some td).
    { unfold applicable in Happ. destruct (get_type doc T); [eauto|discriminate]. }
    destruct Hg as (td & Hg). destruct (get_type_spec _ _ _ Hg) as [Hin <-].
    destruct (applicable_member td Hin Happ) as (m & Hm).
    rewrite (alias_lookup td m Hin Hm) in Hal. inversion Hal; subst body.
    eapply body_exact; [apply (exact_all f)|exact Hin|exact Hm|exact H].
  Qed.

  (** and the namespace exports an alias exactly for the applicable types *)
  Theorem alias_present_iff T td : get_type doc T = Some td ->
    (applicable doc t T = true <-> exists body, alias_of ms T = Some body).
  Proof.
    intros Hg. destruct (get_type_spec _ _ _ Hg) as [Hin <-]. split.
    - intros Happ. destruct (applicable_member td Hin Happ) as (m & Hm).
      eexists. apply (alias_lookup td m Hin Hm).
    - intros (body & Hal). destruct (applicable doc t (tname td)) eqn:Happ; [reflexivity|exfalso].
      destruct (member_of td Hin) as (mo & Hmo & _).
      destruct mo as [m|].
      + unfold applicable in Happ. rewrite (get_type_of_in doc _ Hnd Hin) in Happ.
        destruct td; try discriminate; cbn [type_member] in Hmo; change (c_target c) with t in Hmo.
        * unfold is_input in Hmo. rewrite Happ in Hmo. discriminate.
        * unfold is_input in Hmo. rewrite Happ in Hmo. discriminate.
        * unfold is_input in Hmo. rewrite Happ in Hmo. discriminate.
        * unfold is_input in Happ. apply negb_false_iff in Happ. rewrite Happ in Hmo. discriminate.
      + rewrite (alias_absent td Hin Hmo) in Hal. discriminate.
  Qed.
End NS.
