(** Generic facts about [Ts.TsDen.has_type_b] used by C10 and C09: one-step unfolding equations,
    soundness of the [obool_and]/[obool_or] folds, and the wrapper lemma for
    [get_ts_type_of_type] (wrapper-exact nullability). *)
From V Require Import Base.Util Gql.Ast Writer.Wop Ts.TsType Ts.TsDen C10.Model C10.Spec.

(** * small facts *)
Lemma str_eqb_sym a b : str_eqb a b = str_eqb b a.
Proof.
  destruct (str_eqb_spec a b) as [H|H]; destruct (str_eqb_spec b a) as [H'|H']; congruence.
Qed.
Lemma str_eqb_eq a b : str_eqb a b = true <-> a = b.
Proof. destruct (str_eqb_spec a b); split; congruence. Qed.

Lemma obool_and_some a c b : obool_and a c = Some b ->
  (b = true /\ a = Some true /\ c = Some true) \/ (b = false /\ (a = Some false \/ c = Some false)).
Proof.
  destruct a as [[]|], c as [[]|]; cbn; intros H; inversion H; subst; auto 6.
Qed.
Lemma obool_or_some a c b : obool_or a c = Some b ->
  (b = false /\ a = Some false /\ c = Some false) \/ (b = true /\ (a = Some true \/ c = Some true)).
Proof.
  destruct a as [[]|], c as [[]|]; cbn; intros H; inversion H; subst; auto 6.
Qed.

Lemma fold_and_sound {A} (g : A -> option bool) (h : A -> bool) l :
  (forall x, In x l -> forall b, g x = Some b -> h x = b) ->
  forall b, fold_right (fun x acc => obool_and (g x) acc) (Some true) l = Some b -> forallb h l = b.
Proof.
  induction l as [|a l IH]; intros Hx b H; cbn in *.
  - congruence.
  - apply obool_and_some in H as [(-> & Ha & Hl)|(-> & [Ha|Hl])].
    + rewrite (Hx a (or_introl eq_refl) _ Ha), (IH (fun x Hin => Hx x (or_intror Hin)) _ Hl). reflexivity.
    + rewrite (Hx a (or_introl eq_refl) _ Ha). reflexivity.
    + rewrite (IH (fun x Hin => Hx x (or_intror Hin)) _ Hl). apply andb_false_r.
Qed.
Lemma fold_or_sound {A} (g : A -> option bool) (h : A -> bool) l :
  (forall x, In x l -> forall b, g x = Some b -> h x = b) ->
  forall b, fold_right (fun x acc => obool_or (g x) acc) (Some false) l = Some b -> existsb h l = b.
Proof.
  induction l as [|a l IH]; intros Hx b H; cbn in *.
  - congruence.
  - apply obool_or_some in H as [(-> & Ha & Hl)|(-> & [Ha|Hl])].
    + rewrite (Hx a (or_introl eq_refl) _ Ha), (IH (fun x Hin => Hx x (or_intror Hin)) _ Hl). reflexivity.
    + rewrite (Hx a (or_introl eq_refl) _ Ha). reflexivity.
    + rewrite (IH (fun x Hin => Hx x (or_intror Hin)) _ Hl). apply orb_true_r.
Qed.

Lemma fold_right_map_fuse {A B C} (F : A -> B) (k : B -> C -> C) (i : C) l :
  fold_right k i (map F l) = fold_right (fun a acc => k (F a) acc) i l.
Proof. induction l; cbn; congruence. Qed.

Lemma assoc_map_snd {A B} (F : A -> B) k (l : list (str * A)) :
  assoc k (map (fun kv => (fst kv, F (snd kv))) l) = option_map F (assoc k l).
Proof.
  induction l as [|[k' x] l IH]; cbn; [reflexivity|].
  destruct (str_eqb k k'); [reflexivity|exact IH].
Qed.

Lemma val_eq_null (v : val) : {v = VNull} + {v <> VNull}.
Proof. destruct v; (left; reflexivity) || (right; discriminate). Qed.

(** * one-step equations of [has_type_b] *)
Section Eqs.
  Variable E : tsenv.
  Notation ht := (has_type_b E).

  Definition is_undef_v (x : val) : bool := match x with VUndef => true | _ => false end.
  Definition is_null_v (x : val) : bool := match x with VNull => true | _ => false end.

  Definition field_ok (f : nat) (kvs : list (str * val)) (fl : tsfield) : option bool :=
    match assoc (f_key fl) kvs with
    | Some x => if f_optional fl then obool_or (ht f (f_ty fl) x) (Some (is_undef_v x)) else ht f (f_ty fl) x
    | None => Some (f_optional fl)
    end.
  Definition fields_ok (f : nat) (fs : list tsfield) (kvs : list (str * val)) : option bool :=
    fold_right (fun fl acc => obool_and (field_ok f kvs fl) acc) (Some true) fs.

  Lemma ht_zero t v : ht 0 t v = None.
  Proof. reflexivity. Qed.
  Lemma ht_var f n p v :
    ht (S f) (TVar n p) v = match env_var E n with Some t' => ht f t' v | None => Some (raw_member n v) end.
  Proof. reflexivity. Qed.
  Lemma ht_strlit f x v : ht (S f) (TStrLit x) v = Some (match v with VStr y => str_eqb x y | _ => false end).
  Proof. reflexivity. Qed.
  Lemma ht_raw f r v : ht (S f) (TRaw r) v = Some (raw_member r v).
  Proof. reflexivity. Qed.
  Lemma ht_null f v : ht (S f) TNull v = Some (is_null_v v).
  Proof. reflexivity. Qed.
  Lemma ht_undef f v : ht (S f) TUndefined v = Some (is_undef_v v).
  Proof. reflexivity. Qed.
  Lemma ht_never f v : ht (S f) TNever v = Some false.
  Proof. reflexivity. Qed.
  Lemma ht_union f ts v :
    ht (S f) (TUnion ts) v = fold_right (fun x acc => obool_or (ht f x v) acc) (Some false) ts.
  Proof. reflexivity. Qed.
  Lemma ht_array f x v :
    ht (S f) (TArray x) v = match v with
                            | VList l => fold_right (fun e acc => obool_and (ht f x e) acc) (Some true) l
                            | _ => Some false
                            end.
  Proof. reflexivity. Qed.
  Lemma ht_roarray f x v :
    ht (S f) (TRoArray x) v = match v with
                              | VList l => fold_right (fun e acc => obool_and (ht f x e) acc) (Some true) l
                              | _ => Some false
                              end.
  Proof. reflexivity. Qed.
  Lemma ht_object f fs v :
    ht (S f) (TObject fs) v =
    match v with
    | VObj kvs =>
        if nodup_keys (map fst kvs)
           && forallb (fun k => existsb (fun fl => str_eqb (f_key fl) k) fs) (map fst kvs)
        then fields_ok f fs kvs else Some false
    | _ => Some false
    end.
  Proof. reflexivity. Qed.
End Eqs.

(** * wrapper-exact nullability: [get_ts_type_of_type] *)
Section Wrap.
  Variables (o : sopts) (doc : tsdoc) (t : target) (E : tsenv).
  Notation ht := (has_type_b E).
  Notation rv := (ref_val o doc t).

  Lemma ref_val_null nn ty : rv VNull nn ty = negb nn.
  Proof. reflexivity. Qed.
  Lemma ref_val_nn v nn ty : v <> VNull -> rv v nn ty = rv v true ty.
  Proof. destruct v; try reflexivity; congruence. Qed.
  Lemma ref_val_list l nn en et : rv (VList l) nn (NList en et) = forallb (fun x => rv x en et) l.
  Proof. reflexivity. Qed.
  Lemma ref_val_list_other v en et : (forall l, v <> VList l) -> rv v true (NList en et) = false.
  Proof. destruct v; try reflexivity. intros H; exfalso; eapply H; reflexivity. Qed.

  Variable mapn : ident -> tstype.
  Definition core (ty : ty) : tstype := fst (ts_of_type_impl mapn ty).

  Lemma get_ts_eq ty :
    get_ts_type_of_type mapn ty = if is_nonnull ty then core ty else TUnion [core ty; TNull].
  Proof.
    unfold get_ts_type_of_type, core.
    destruct ty as [n|ty'|p ty']; cbn [ts_of_type_impl is_nonnull fst].
    - reflexivity.
    - reflexivity.
    - destruct (ts_of_type_impl mapn ty') as [x nb]. reflexivity.
  Qed.
  Lemma core_named n : core (TNamed n) = mapn n.
  Proof. reflexivity. Qed.
  Lemma core_nonnull ty : core (TNonNull ty) = core ty.
  Proof. reflexivity. Qed.
  Lemma core_list p ty : core (TList p ty) = TArray (get_ts_type_of_type mapn ty).
  Proof.
    unfold core, get_ts_type_of_type. cbn [ts_of_type_impl].
    destruct (ts_of_type_impl mapn ty) as [x nb]. reflexivity.
  Qed.

  Definition LeafOK (f : nat) (n : ident) : Prop :=
    forall f', f' <= f -> forall v b, ht f' (mapn n) v = Some b -> rv v true (NNamed (iname n)) = b.

  Definition CoreOK (ty : ty) : Prop :=
    forall f, LeafOK f (ty_unwrapped ty) -> forall v b, ht f (core ty) v = Some b -> rv v true (ty_norm ty) = b.
  Definition GetOK (ty : ty) : Prop :=
    forall f, LeafOK f (ty_unwrapped ty) -> forall v b,
      ht f (get_ts_type_of_type mapn ty) v = Some b -> rv v (is_nonnull ty) (ty_norm ty) = b.

  Lemma LeafOK_le f f' n : f' <= f -> LeafOK f n -> LeafOK f' n.
  Proof. intros Hle H f'' Hle' v b Hh. eapply (H f''); [lia|exact Hh]. Qed.

  Lemma get_of_core ty : CoreOK ty -> GetOK ty.
  Proof.
    intros HC f HL v b H. rewrite get_ts_eq in H.
    destruct (is_nonnull ty) eqn:Hnn.
    - eapply HC; eassumption.
    - destruct f as [|f1]; [rewrite ht_zero in H; discriminate|].
      rewrite ht_union in H. cbn [fold_right] in H.
      assert (HL1 : LeafOK f1 (ty_unwrapped ty)) by (eapply LeafOK_le; [|exact HL]; lia).
      destruct (val_eq_null v) as [->|Hv].
      + rewrite ref_val_null. cbn.
        apply obool_or_some in H as [(-> & _ & Hin)|(-> & _)]; [|reflexivity].
        exfalso. destruct f1 as [|f2]; [rewrite ht_zero in Hin; discriminate|].
        rewrite ht_null in Hin. cbn in Hin. discriminate.
      + rewrite (ref_val_nn v false _ Hv).
        apply obool_or_some in H as [(-> & Hc & _)|(-> & [Hc|Hin])].
        * eapply HC; eassumption.
        * eapply HC; eassumption.
        * exfalso. destruct f1 as [|f2]; [rewrite ht_zero in Hin; discriminate|].
          rewrite ht_null in Hin. destruct v; cbn in Hin; try discriminate. congruence.
  Qed.

  Lemma core_ok ty : CoreOK ty.
  Proof.
    induction ty as [n|ty' IH|p ty' IH]; intros f HL v b H.
    - rewrite core_named in H. eapply (HL f); [lia|exact H].
    - rewrite core_nonnull in H. cbn [ty_norm]. eapply IH; eassumption.
    - rewrite core_list in H. cbn [ty_norm].
      destruct f as [|f1]; [rewrite ht_zero in H; discriminate|].
      rewrite ht_array in H.
      destruct v as [| | | | | |l|fs];
        try (inversion H; subst; reflexivity).
      rewrite ref_val_list.
      eapply fold_and_sound; [|exact H].
      intros x _ b' Hx. eapply (get_of_core ty' IH f1); [|exact Hx].
      eapply LeafOK_le; [|exact HL]. lia.
  Qed.

  Lemma get_ok ty : GetOK ty.
  Proof. apply get_of_core, core_ok. Qed.

  (** [into_readonly] does not change the denotation of these types *)
  Hypothesis mapn_ro : forall n, into_readonly (mapn n) = mapn n.

  Lemma fold_right_ext_in {A B} (k k' : A -> B -> B) i l :
    (forall x acc, In x l -> k x acc = k' x acc) -> fold_right k i l = fold_right k' i l.
  Proof.
    induction l as [|a l IH]; intros H; cbn; [reflexivity|].
    rewrite IH by (intros; apply H; right; assumption). apply H. left; reflexivity.
  Qed.

  Lemma ro_core ty : forall f v, ht f (into_readonly (core ty)) v = ht f (core ty) v.
  Proof.
    induction ty as [n|ty' IH|p ty' IH]; intros f v.
    - rewrite core_named, mapn_ro. reflexivity.
    - rewrite core_nonnull. apply IH.
    - rewrite core_list. cbn [into_readonly].
      destruct f as [|f1]; [reflexivity|].
      rewrite ht_roarray, ht_array. destruct v; try reflexivity.
      apply fold_right_ext_in. intros x acc _. f_equal.
      rewrite get_ts_eq. destruct (is_nonnull ty'); [apply IH|].
      cbn [into_readonly map]. destruct f1 as [|f2]; [reflexivity|].
      rewrite !ht_union. cbn [fold_right]. rewrite IH. reflexivity.
  Qed.

  Lemma ro_get ty f v :
    ht f (into_readonly (get_ts_type_of_type mapn ty)) v = ht f (get_ts_type_of_type mapn ty) v.
  Proof.
    rewrite get_ts_eq. destruct (is_nonnull ty); [apply ro_core|].
    cbn [into_readonly map]. destruct f as [|f1]; [reflexivity|].
    rewrite !ht_union. cbn [fold_right]. rewrite ro_core. reflexivity.
  Qed.
End Wrap.
