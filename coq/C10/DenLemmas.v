(** Generic facts about [Ts.TsDen.has_type_b] used by C10 and C09: one-step unfolding equations,
    soundness of the [obool_and]/[obool_or] folds, and the wrapper lemma for
    [get_ts_type_of_type] (wrapper-exact nullability). *)
From V Require Import Base.Util Gql.Ast Writer.Wop Ts.TsType Ts.TsDen C10.Model C10.Spec.

(** * small facts *)
Lemma str_eqb_sym a b : str_eqb a b = str_eqb b a.
Proof.
  destruct (str_eqb_spec a b) as [H|H]; destruct (str_eqb_spec b a) as [H'|H']; congruence.
Qed.
Lemma str_eqb_eq a b : str_eqb a b = true <-> a = b.
Proof. destruct (str_eqb_spec a b); split; congruence. Qed.

Lemma obool_and_some a c b : obool_and a c = Some b ->
  (b = true /\ a = Some true /\ c = Some true) \/ (b = false /\ (a = Some false \/ c = Some false)).
Proof.
  destruct a as [[]|], c as [[]|]; cbn; intros H; inversion H; subst; auto 6.
Qed.
Lemma obool_or_some a c b : obool_or a c = Some b ->
  (b = false /\ a = Some false /\ c = Some false) \/ (b = true /\ (a = Some true \/ c = Some true)).
Proof.
  destruct a as [[]|], c as [[]|]; cbn; intros H; inversion H; subst; auto 6.
Qed.

Lemma fold_and_sound {A} (g : A -> option bool) (h : A -> bool) l :
  (forall x, In x l -> forall b, g x = Some b -> h x = b) ->
  forall b, fold_right (fun x acc => obool_and (g x) acc) (Some true) l = Some b -> forallb h l = b.
Proof.
  induction l as [|a l IH]; intros Hx b H; cbn in *.
  - congruence.
  - apply obool_and_some in H as [(-> & Ha & Hl)|(-> & [Ha|Hl])].
    + rewrite (Hx a (or_introl eq_refl) _ Ha), (IH (fun x Hin => Hx x (or_intror Hin)) _ Hl). reflexivity.
    + rewrite (Hx a (or_introl eq_refl) _ Ha). reflexivity.
    + rewrite (IH (fun x Hin => Hx x (or_intror Hin)) _ Hl). apply andb_false_r.
Qed.
Lemma fold_or_sound {A} (g : A -> option bool) (h : A -> bool) l :
  (forall x, In x l -> forall b, g x = Some b -> h x = b) ->
  forall b, fold_right (fun x acc => obool_or (g x) acc) (Some false) l = Some b -> existsb h l = b.
Proof.
  induction l as [|a l IH]; intros Hx b H; cbn in *.
  - congruence.
  - apply obool_or_some in H as [(-> & Ha & Hl)|(-> & [Ha|Hl])].
    + rewrite (Hx a (or_introl eq_refl) _ Ha), (IH (fun x Hin => Hx x (or_intror Hin)) _ Hl). reflexivity.
    + rewrite (Hx a (or_introl eq_refl) _ Ha). reflexivity.
    + rewrite (IH (fun x Hin => Hx x (or_intror Hin)) _ Hl). apply orb_true_r.
Qed.

Lemma fold_right_map_fuse {A B C} (F : A -> B) (k : B -> C -> C) (i : C) l :
  fold_right k i (map F l) = fold_right (fun a acc => k (F a) acc) i l.
Proof. induction l; cbn; congruence. Qed.

Lemma assoc_map_snd {A B} (F : A -> B) k (l : list (str * A)) :
  assoc k (map (fun kv => (fst kv, F (snd kv))) l) = option_map F (assoc k l).
Proof.
  induction l as [|[k' x] l IH]; cbn; [reflexivity|].
  destruct (str_eqb k k'); [reflexivity|exact IH].
Qed.

Lemma val_eq_null (v : val) : {v = VNull} + {v <> VNull}.
Proof. destruct v; (left; reflexivity) || (right; discriminate). Qed.

Lemma forallb_ext_in' {A} (p q : A -> bool) l : (forall x, In x l -> p x = q x) -> forallb p l = forallb q l.
Proof.
  induction l as [|a l IH]; intros H; cbn; [reflexivity|].
  rewrite (H a (or_introl eq_refl)), IH by (intros; apply H; right; assumption). reflexivity.
Qed.

(** * one-step equations of [has_type_b] *)
Section Eqs.
  Variable E : tsenv.
  Notation ht := (has_type_b E).

  Definition is_undef_v (x : val) : bool := match x with VUndef => true | _ => false end.
  Definition is_null_v (x : val) : bool := match x with VNull => true | _ => false end.

  Definition field_ok (f : nat) (kvs : list (str * val)) (fl : tsfield) : option bool :=
    match assoc (f_key fl) kvs with
    | Some x => if f_optional fl then obool_or (ht f (f_ty fl) x) (Some (is_undef_v x)) else ht f (f_ty fl) x
    | None => Some (f_optional fl)
    end.
  Definition fields_ok (f : nat) (fs : list tsfield) (kvs : list (str * val)) : option bool :=
    fold_right (fun fl acc => obool_and (field_ok f kvs fl) acc) (Some true) fs.

  Lemma ht_zero t v : ht 0 t v = None.
  Proof. reflexivity. Qed.
  Lemma ht_var f n p v :
    ht (S f) (TVar n p) v = match env_var E n with Some t' => ht f t' v | None => Some (raw_member n v) end.
  Proof. reflexivity. Qed.
  Lemma ht_ns3 f a b c v :
    ht (S f) (TNs3 a b c) v = match env_ns3 E a b c with Some t' => ht f t' v | None => None end.
  Proof. reflexivity. Qed.
  Lemma ht_strlit f x v : ht (S f) (TStrLit x) v = Some (match v with VStr y => str_eqb x y | _ => false end).
  Proof. reflexivity. Qed.
  Lemma ht_raw f r v : ht (S f) (TRaw r) v = Some (raw_member r v).
  Proof. reflexivity. Qed.
  Lemma ht_null f v : ht (S f) TNull v = Some (is_null_v v).
  Proof. reflexivity. Qed.
  Lemma ht_undef f v : ht (S f) TUndefined v = Some (is_undef_v v).
  Proof. reflexivity. Qed.
  Lemma ht_never f v : ht (S f) TNever v = Some false.
  Proof. reflexivity. Qed.
  Lemma ht_union f ts v :
    ht (S f) (TUnion ts) v = fold_right (fun x acc => obool_or (ht f x v) acc) (Some false) ts.
  Proof. reflexivity. Qed.
  Lemma ht_array f x v :
    ht (S f) (TArray x) v = match v with
                            | VList l => fold_right (fun e acc => obool_and (ht f x e) acc) (Some true) l
                            | _ => Some false
                            end.
  Proof. reflexivity. Qed.
  Lemma ht_roarray f x v :
    ht (S f) (TRoArray x) v = match v with
                              | VList l => fold_right (fun e acc => obool_and (ht f x e) acc) (Some true) l
                              | _ => Some false
                              end.
  Proof. reflexivity. Qed.
  Lemma ht_object f fs v :
    ht (S f) (TObject fs) v =
    match v with
    | VObj kvs =>
        if nodup_keys (map fst kvs)
           && forallb (fun k => existsb (fun fl => str_eqb (f_key fl) k) fs) (map fst kvs)
        then fields_ok f fs kvs else Some false
    | _ => Some false
    end.
  Proof. reflexivity. Qed.
End Eqs.

(** * wrapper-exact nullability: [get_ts_type_of_type]

    Generic in the denotation [P n v] of the named leaf types: [wrap_den P v nn ty] says that [v]
    is in the denotation of the GraphQL type with normal form [ty] and outer nullability [negb nn]:
    null iff nullable, lists element-wise, the named type by [P]. *)
Fixpoint wrap_den (P : str -> val -> bool) (v : val) (nn : bool) (ty : nty) {struct ty} : bool :=
  match v with
  | VNull => negb nn
  | _ =>
      match ty with
      | NList en et => match v with VList l => forallb (fun x => wrap_den P x en et) l | _ => false end
      | NNamed n => P n v
      end
  end.

Section Wrap.
  Variables (E : tsenv) (P : str -> val -> bool).
  Hypothesis P_null : forall n, P n VNull = false.
  Notation ht := (has_type_b E).
  Notation rv := (wrap_den P).

  Lemma wrap_den_null nn ty : rv VNull nn ty = negb nn.
  Proof. destruct ty; reflexivity. Qed.
  Lemma wrap_den_nn v nn ty : v <> VNull -> rv v nn ty = rv v true ty.
  Proof. destruct ty; destruct v; try reflexivity; congruence. Qed.
  Lemma wrap_den_list l nn en et : rv (VList l) nn (NList en et) = forallb (fun x => rv x en et) l.
  Proof. reflexivity. Qed.
  Lemma wrap_den_named v n : rv v true (NNamed n) = P n v.
  Proof. destruct v; try reflexivity. cbn. symmetry. apply P_null. Qed.

  Variable mapn : ident -> tstype.
  Definition core (ty : ty) : tstype := fst (ts_of_type_impl mapn ty).

  Lemma get_ts_eq ty :
    get_ts_type_of_type mapn ty = if is_nonnull ty then core ty else TUnion [core ty; TNull].
  Proof.
    unfold get_ts_type_of_type, core.
    destruct ty as [n|ty'|p ty']; cbn [ts_of_type_impl is_nonnull fst].
    - reflexivity.
    - reflexivity.
    - destruct (ts_of_type_impl mapn ty') as [x nb]. reflexivity.
  Qed.
  Lemma core_named n : core (TNamed n) = mapn n.
  Proof. reflexivity. Qed.
  Lemma core_nonnull ty : core (TNonNull ty) = core ty.
  Proof. reflexivity. Qed.
  Lemma core_list p ty : core (TList p ty) = TArray (get_ts_type_of_type mapn ty).
  Proof.
    unfold core, get_ts_type_of_type. cbn [ts_of_type_impl].
    destruct (ts_of_type_impl mapn ty) as [x nb]. reflexivity.
  Qed.

  (** whenever the leaf type decides (with at most [f] fuel), it decides like [P] *)
  Definition LeafOKg (f : nat) (n : ident) : Prop :=
    forall f', f' <= f -> forall v b, ht f' (mapn n) v = Some b -> P (iname n) v = b.

  Definition CoreOK (ty : ty) : Prop :=
    forall f, LeafOKg f (ty_unwrapped ty) -> forall v b, ht f (core ty) v = Some b -> rv v true (ty_norm ty) = b.
  Definition GetOK (ty : ty) : Prop :=
    forall f, LeafOKg f (ty_unwrapped ty) -> forall v b,
      ht f (get_ts_type_of_type mapn ty) v = Some b -> rv v (is_nonnull ty) (ty_norm ty) = b.

  Lemma LeafOKg_le f f' n : f' <= f -> LeafOKg f n -> LeafOKg f' n.
  Proof. intros Hle H f'' Hle' v b Hh. eapply (H f''); [lia|exact Hh]. Qed.

  Lemma get_of_core ty : CoreOK ty -> GetOK ty.
  Proof.
    intros HC f HL v b H. rewrite get_ts_eq in H.
    destruct (is_nonnull ty) eqn:Hnn.
    - eapply HC; eassumption.
    - destruct f as [|f1]; [rewrite ht_zero in H; discriminate|].
      rewrite ht_union in H. cbn [fold_right] in H.
      assert (HL1 : LeafOKg f1 (ty_unwrapped ty)) by (eapply LeafOKg_le; [|exact HL]; lia).
      destruct (val_eq_null v) as [->|Hv].
      + rewrite wrap_den_null. cbn.
        apply obool_or_some in H as [(-> & _ & Hin)|(-> & _)]; [|reflexivity].
        exfalso. destruct f1 as [|f2]; [rewrite ht_zero in Hin; discriminate|].
        rewrite ht_null in Hin. cbn in Hin. discriminate.
      + rewrite (wrap_den_nn v false _ Hv).
        apply obool_or_some in H as [(-> & Hc & _)|(-> & [Hc|Hin])].
        * eapply HC; eassumption.
        * eapply HC; eassumption.
        * exfalso. destruct f1 as [|f2]; [rewrite ht_zero in Hin; discriminate|].
          rewrite ht_null in Hin. destruct v; cbn in Hin; try discriminate. congruence.
  Qed.

  Lemma core_ok ty : CoreOK ty.
  Proof.
    induction ty as [n|ty' IH|p ty' IH]; intros f HL v b H.
    - rewrite core_named in H. cbn [ty_norm]. rewrite wrap_den_named. eapply (HL f); [lia|exact H].
    - rewrite core_nonnull in H. cbn [ty_norm]. eapply IH; eassumption.
    - rewrite core_list in H. cbn [ty_norm].
      destruct f as [|f1]; [rewrite ht_zero in H; discriminate|].
      rewrite ht_array in H.
      destruct v as [| | | | | |l|fs];
        try (inversion H; subst; reflexivity).
      rewrite wrap_den_list.
      eapply fold_and_sound; [|exact H].
      intros x _ b' Hx. eapply (get_of_core ty' IH f1); [|exact Hx].
      eapply LeafOKg_le; [|exact HL]. lia.
  Qed.

  (** wrapper-exact nullability *)
  Theorem get_okg ty : GetOK ty.
  Proof. apply get_of_core, core_ok. Qed.

  (** [into_readonly] does not change the denotation of these types *)
  Hypothesis mapn_ro : forall n, into_readonly (mapn n) = mapn n.

  Lemma fold_right_ext_in {A B} (k k' : A -> B -> B) i l :
    (forall x acc, In x l -> k x acc = k' x acc) -> fold_right k i l = fold_right k' i l.
  Proof.
    induction l as [|a l IH]; intros H; cbn; [reflexivity|].
    rewrite IH by (intros; apply H; right; assumption). apply H. left; reflexivity.
  Qed.

  Lemma ro_core ty : forall f v, ht f (into_readonly (core ty)) v = ht f (core ty) v.
  Proof.
    induction ty as [n|ty' IH|p ty' IH]; intros f v.
    - rewrite core_named, mapn_ro. reflexivity.
    - rewrite core_nonnull. apply IH.
    - rewrite core_list. cbn [into_readonly].
      destruct f as [|f1]; [reflexivity|].
      rewrite ht_roarray, ht_array. destruct v; try reflexivity.
      apply fold_right_ext_in. intros x acc _. f_equal.
      rewrite get_ts_eq. destruct (is_nonnull ty'); [apply IH|].
      cbn [into_readonly map]. destruct f1 as [|f2]; [reflexivity|].
      rewrite !ht_union. cbn [fold_right]. rewrite IH. reflexivity.
  Qed.

  Lemma ro_get ty f v :
    ht f (into_readonly (get_ts_type_of_type mapn ty)) v = ht f (get_ts_type_of_type mapn ty) v.
  Proof.
    rewrite get_ts_eq. destruct (is_nonnull ty); [apply ro_core|].
    cbn [into_readonly map]. destruct f as [|f1]; [reflexivity|].
    rewrite !ht_union. cbn [fold_right]. rewrite ro_core. reflexivity.
  Qed.
End Wrap.

(** ** instance: the reference denotation of C10 *)
Section WrapRef.
  Variables (o : sopts) (doc : tsdoc) (t : target) (E : tsenv).
  Notation rv := (ref_val o doc t).

  Lemma ref_val_wrap v : forall nn ty, rv v nn ty = wrap_den (fun n x => Ref o doc t n x) v nn ty.
  Proof.
    intros nn ty; revert v nn. induction ty as [n|en et IH]; intros v nn.
    - destruct v; reflexivity.
    - destruct v; try reflexivity. cbn [ref_val wrap_den].
      apply forallb_ext_in'. intros x _. apply IH.
  Qed.

  Definition LeafOK (mapn : ident -> tstype) (f : nat) (n : ident) : Prop :=
    LeafOKg E (fun n x => Ref o doc t n x) mapn f n.

  Lemma get_ok mapn ty f : LeafOK mapn f (ty_unwrapped ty) -> forall v b,
    has_type_b E f (get_ts_type_of_type mapn ty) v = Some b -> rv v (is_nonnull ty) (ty_norm ty) = b.
  Proof.
    intros HL v b H. rewrite ref_val_wrap. eapply get_okg; [|exact HL|exact H].
    reflexivity.
  Qed.
End WrapRef.
