(** C10 — the resolvers declaration in one theorem: for every schema outside the known-finding class
    (no type named like an identifier the resolvers file uses otherwise), every object type O and
    every field f, the root type [Resolvers<Context>] has under O an object type that has under f the
    type [__Resolver<Parent, Args, Context, Result>] where [Parent] denotes the resolver-side
    reference of O, [Args] denotes exactly Ref_ResolverInput(args f) and [Result] denotes exactly the
    wrapper-exact resolver-side type of f's type.  Composition of [ResolverProofs] (structure),
    [ResolverArgs] and [ResolverDen] (denotations).  Also: without plugins the printer cannot fail. *)
From V Require Import Base.Util Gql.Ast Writer.Wop Ts.TsType Ts.TsDen
  C10.Model C10.Spec C10.DenLemmas C10.Decide C10.Proofs C10.Proofs3 C10.Proofs2 C10.ResolverProofs C10.ResolverArgs C10.ResolverDen.

Definition args_of (fd : fielddef) : list inputvaldef := match fd_args fd with Some a => a | None => [] end.

(** computable guard: well-formed schema, no captured name, argument types are defined input types,
    field names unique within an object *)
Definition resolvers_guard (o : sopts) (ro : ropts) (doc : tsdoc) : bool :=
  wf_schema o doc
  && forallb (fun td => negb (mem (tname td) (resolver_reserved ro))) (typedefs doc)
  && forallb (fun td => match td with
                        | TDObject _ _ _ _ _ fields _ =>
                            nodup_keys (map (fun fd => iname (fd_name fd)) fields)
                            && forallb (fun fd => args_wf doc (args_of fd)) fields
                        | _ => true
                        end) (typedefs doc).

Lemma assoc_some_in {A} k (l : list (str * A)) : (exists v, In (k, v) l) -> assoc k l <> None.
Proof.
  induction l as [|[k' x] l IH]; intros (v & Hin); [destruct Hin|]. cbn.
  destruct (str_eqb_spec k k') as [->|Hne]; [discriminate|].
  destruct Hin as [He|Hin]; [inversion He; congruence|]. apply IH. eauto.
Qed.

(** without plugins the resolver printer has no failure path *)
Theorem resolver_structure_total0 ro doc : exists d, resolver_structure ro 0 doc = Ok d.
Proof.
  unfold resolver_structure. cbn [nat_rect bind].
  match goal with |- context [mapM ?F ?l] => destruct (mapM_ok_intro F l) as (al & Hal) end.
  - intros td Htd. apply filter_In in Htd as [Htd _].
    destruct (assoc (tname td) _) eqn:Ha; [eauto|exfalso].
    revert Ha. apply assoc_some_in. eexists. apply fold_left_cons_in. right. exists td. split; [exact Htd|reflexivity].
  - rewrite Hal. cbn. eauto.
Qed.

Lemma find_map_unique {A} (key : A -> str) (F : A -> tsfield) l x :
  (forall a, f_key (F a) = key a) -> nodup_keys (map key l) = true -> In x l ->
  find (fun fl => str_eqb (f_key fl) (key x)) (map F l) = Some (F x).
Proof.
  intros HF Hnd Hin. apply find_some_unique.
  - apply in_map. exact Hin.
  - rewrite HF. apply str_eqb_refl.
  - intros y Hy He. apply in_map_iff in Hy as (a & <- & Ha). rewrite HF in He. apply str_eqb_eq in He.
    f_equal. eapply (nodup_keys_inj key); eassumption.
Qed.

Section Main.
  Variables (o : sopts) (ro : ropts) (doc : tsdoc) (ms_in ms_out : list (option member)) (d : resolver_decls).
  Hypothesis Hg : resolvers_guard o ro doc = true.
  Hypothesis Hin_ns : namespace_members o doc ResIn = Ok ms_in.
  Hypothesis Hout_ns : namespace_members o doc ResOut = Ok ms_out.
  Hypothesis Hd : resolver_structure ro 0 doc = Ok d.

  Lemma g_wf : wf_schema o doc = true.
  Proof. unfold resolvers_guard in Hg. apply andb_true_iff in Hg as [H _]. apply andb_true_iff in H as [H _]. exact H. Qed.

  Theorem resolvers_field_exact dd p n impls dirs fields kw fd :
    In (TDObject dd p n impls dirs fields kw) (typedefs doc) -> In fd fields ->
    exists entry objfields fl A R,
      assoc (iname n) (root_pairs d) = Some entry /\ f_ty entry = TObject objfields /\
      find (fun x => str_eqb (f_key x) (iname (fd_name fd))) objfields = Some fl /\ f_optional fl = false /\
      f_ty fl = TFunc (TVar (s "__Resolver") pos0) [TVar (iname n) (ipos n); A; TVar (s "Context") pos0; R] /\
      (* Args = Ref_ResolverInput(args f) *)
      (forall v, (In_type (res_in_env ms_in) A v <-> args_ref o doc (args_of fd) v = true)
                 /\ (NotIn_type (res_in_env ms_in) A v <-> args_ref o doc (args_of fd) v = false)) /\
      (* Result = wrapper-exact resolver-side type *)
      (forall v, ((exists f, mt ms_out (module_aliases d) f R v = Some true)
                    <-> wrap_den (resolver_ref o doc) v (is_nonnull (fd_type fd)) (ty_norm (fd_type fd)) = true)
                 /\ ((exists f, mt ms_out (module_aliases d) f R v = Some false)
                    <-> wrap_den (resolver_ref o doc) v (is_nonnull (fd_type fd)) (ty_norm (fd_type fd)) = false)) /\
      (* Parent = resolver-side reference of O *)
      (forall pp v, ((exists f, mt ms_out (module_aliases d) f (TVar (iname n) pp) v = Some true) <-> resolver_ref o doc (iname n) v = true)
                    /\ ((exists f, mt ms_out (module_aliases d) f (TVar (iname n) pp) v = Some false) <-> resolver_ref o doc (iname n) v = false)).
  Proof.
    intros Hin Hfd. pose proof g_wf as Hwf.
    pose proof Hg as Hg'. unfold resolvers_guard in Hg'. apply andb_true_iff in Hg' as [_ Hobj].
    rewrite forallb_forall in Hobj. specialize (Hobj _ Hin). cbn beta iota in Hobj.
    apply andb_true_iff in Hobj as [Hndf Hargs]. rewrite forallb_forall in Hargs. specialize (Hargs _ Hfd).
    (* structure *)
    pose proof (resolvers_entry ro 0 doc d _ (Hnd o doc Hwf) Hd Hin) as He.
    rewrite resolver_type_by_kind in He. cbn [option_map tname typedef_name] in He.
    set (F := fun fd0 => mkField (iname (fd_name fd0)) (ipos (fd_name fd0)) (ref_resolver_field ro n fd0) false false None) in *.
    eexists. exists (map F fields). exists (F fd).
    exists (match fd_args fd with None => TObject [] | Some args => arguments_definition_to_ts ro args end).
    exists (get_ts_type_of_type tvar_id (fd_type fd)).
    split; [exact He|]. split; [reflexivity|].
    split; [apply (find_map_unique (fun fd0 => iname (fd_name fd0)) F); [reflexivity|exact Hndf|exact Hfd]|].
    split; [reflexivity|].
    split.
    { unfold F, ref_resolver_field. cbn [f_ty]. f_equal. f_equal. f_equal.
      destruct (fd_args fd) as [args|]; [|reflexivity]. rewrite args_type_eq. unfold arg_field, descr_value. reflexivity. }
    split; [|split].
    - intros v. unfold args_of in *.
      destruct (fd_args fd) as [args|].
      + apply (args_exact_iff o doc ms_in Hwf Hin_ns ro args v Hargs).
      + change (TObject []) with (arguments_definition_to_ts ro []).
        apply (args_exact_iff o doc ms_in Hwf Hin_ns ro [] v eq_refl).
    - intros v. apply (result_exact_iff o ro doc ms_out d Hwf Hout_ns Hd).
      pose proof (Hwfd o doc Hwf _ Hin) as Hw. unfold wf_typedef in Hw. apply andb_true_iff in Hw as [_ Hw].
      rewrite forallb_forall in Hw. specialize (Hw _ Hfd). apply andb_true_iff in Hw as [_ Hw]. exact Hw.
    - intros pp v. apply (module_alias_exact_iff o ro doc ms_out d Hwf Hout_ns Hd _ pp v Hin eq_refl).
  Qed.
End Main.
