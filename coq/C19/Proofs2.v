(** C19 — proofs, part 2: the required-files answer is exactly the set of unsupplied import
    targets (as paths), without duplicates. *)
From V Require Import Base.Util C20.Model C19.Model C19.Spec C19.Proofs.

Lemma find_file_eq p q fs : path_eqb p q = true -> find_file p fs = find_file q fs.
Proof.
  intros H. induction fs as [|[k v] r IH]; cbn; [reflexivity|].
  rewrite (path_eqb_trans_r p q k H). destruct (path_eqb k q); [reflexivity|exact IH].
Qed.

Lemma contains_file_eq p q fs : path_eqb p q = true -> contains_file p fs = contains_file q fs.
Proof. intros H. unfold contains_file. now rewrite (find_file_eq p q fs H). Qed.

Lemma mem_path_eq p q l : path_eqb p q = true -> mem_path p l = mem_path q l.
Proof.
  intros H. unfold mem_path. induction l as [|x r IH]; cbn; [reflexivity|].
  now rewrite (path_eqb_trans_l p q x H), IH.
Qed.

Lemma mem_path_app p a b : mem_path p (a ++ b) = mem_path p a || mem_path p b.
Proof. unfold mem_path. apply existsb_app. Qed.

Lemma mem_path_refl_in p l : In p l -> mem_path p l = true.
Proof.
  intros H. unfold mem_path. apply existsb_exists. exists p. split; [assumption|apply path_eqb_refl].
Qed.

Lemma m_has_contains f m : m_has f m = contains_file f m.
Proof.
  unfold m_has, contains_file. induction m as [|[k v] r IH]; cbn; [reflexivity|].
  destruct (path_eqb k f); [reflexivity|exact IH].
Qed.

Lemma nodup_path_snoc acc p : nodup_path (acc ++ [p]) = nodup_path acc && negb (mem_path p acc).
Proof.
  induction acc as [|x r IH]; [reflexivity|].
  cbn [app nodup_path]. rewrite mem_path_app, IH.
  change (mem_path x [p]) with (path_eqb x p || false).
  change (mem_path p (x :: r)) with (path_eqb p x || mem_path p r).
  rewrite orb_false_r, (path_eqb_sym p x).
  destruct (mem_path x r), (path_eqb x p), (nodup_path r), (mem_path p r); reflexivity.
Qed.

Lemma existsb_filter {A} (f g : A -> bool) l :
  existsb f (filter g l) = existsb (fun x => g x && f x) l.
Proof.
  induction l as [|x r IH]; cbn; [reflexivity|].
  destruct (g x); cbn; now rewrite IH.
Qed.

Lemma existsb_flat_map {A B} (f : B -> bool) (g : A -> list B) l :
  existsb f (flat_map g l) = existsb (fun a => existsb f (g a)) l.
Proof.
  induction l as [|x r IH]; cbn; [reflexivity|]. now rewrite existsb_app, IH.
Qed.

Lemma existsb_map {A B} (f : B -> bool) (g : A -> B) l :
  existsb f (map g l) = existsb (fun a => f (g a)) l.
Proof. induction l as [|x r IH]; cbn; [reflexivity|]. now rewrite IH. Qed.

Lemma existsb_ext_in {A} (f g : A -> bool) l :
  (forall x, In x l -> f x = g x) -> existsb f l = existsb g l.
Proof.
  induction l as [|x r IH]; cbn; intros H; [reflexivity|].
  rewrite (H x (or_introl eq_refl)), IH; [reflexivity|]. intros y Hy. apply H. now right.
Qed.

Section P.
  Variable parse_o : str -> presult.
  Notation imports_of := (imports_of parse_o).
  Notation req_imports := (req_imports).
  Notation req_files := (req_files parse_o).
  Notation required_of := (required_of parse_o).

  (** [p] is (as a path) an import target of file [from] with imports [imps] that is not loaded *)
  Definition wanted_in (fs : list (str * str)) (p from : str) (imps : list str) : bool :=
    existsb (fun imp => path_eqb p (resolve_s from imp) && negb (contains_file (resolve_s from imp) fs)) imps.

  Definition wanted (fs todo : list (str * str)) (p : str) : bool :=
    existsb (fun kv => wanted_in fs p (fst kv) (imports_of (snd kv))) todo.

  Lemma req_imports_mem fs from imps : forall acc p,
    mem_path p (req_imports fs from imps acc) = mem_path p acc || wanted_in fs p from imps.
  Proof.
    induction imps as [|i r IH]; intros acc p; cbn [Model.req_imports wanted_in existsb].
    - now rewrite orb_false_r.
    - fold (wanted_in fs p from r).
      destruct (contains_file (resolve_s from i) fs) eqn:Ec; cbn [orb negb andb].
      + rewrite IH, andb_false_r. reflexivity.
      + destruct (mem_path (resolve_s from i) acc) eqn:Em.
        * rewrite IH. rewrite andb_true_r.
          destruct (path_eqb p (resolve_s from i)) eqn:Ep; cbn [orb]; [|reflexivity].
          rewrite (mem_path_eq _ _ acc Ep), Em. reflexivity.
        * rewrite IH, mem_path_app. cbn. rewrite orb_false_r, andb_true_r.
          now rewrite orb_assoc.
  Qed.

  Lemma req_imports_sound fs from imps : forall acc p,
    In p (req_imports fs from imps acc) ->
    In p acc \/ exists imp, In imp imps /\ p = resolve_s from imp /\ contains_file p fs = false.
  Proof.
    induction imps as [|i r IH]; intros acc p; cbn [Model.req_imports]; [now left|].
    destruct (contains_file (resolve_s from i) fs) eqn:Ec; cbn [orb].
    - intros H. destruct (IH _ _ H) as [?|[imp [? ?]]]; [now left|right; exists imp; split; [now right|assumption]].
    - destruct (mem_path (resolve_s from i) acc).
      + intros H. destruct (IH _ _ H) as [?|[imp [? ?]]]; [now left|right; exists imp; split; [now right|assumption]].
      + intros H. destruct (IH _ _ H) as [Hin|[imp [? ?]]].
        * apply in_app_or in Hin as [?|[<-|[]]]; [now left|]. right. exists i. split; [now left|]. split; [reflexivity|assumption].
        * right; exists imp; split; [now right|assumption].
  Qed.

  Lemma req_imports_nodup fs from imps : forall acc,
    nodup_path acc = true -> nodup_path (req_imports fs from imps acc) = true.
  Proof.
    induction imps as [|i r IH]; intros acc H; cbn [Model.req_imports]; [assumption|].
    destruct (contains_file (resolve_s from i) fs); cbn [orb]; [now apply IH|].
    destruct (mem_path (resolve_s from i) acc) eqn:Em; [now apply IH|].
    apply IH. rewrite nodup_path_snoc, H, Em. reflexivity.
  Qed.

  Lemma req_files_mem fs todo : forall acc p,
    mem_path p (req_files fs todo acc) = mem_path p acc || wanted fs todo p.
  Proof.
    induction todo as [|[from src] r IH]; intros acc p; cbn [Model.req_files wanted existsb].
    - now rewrite orb_false_r.
    - fold (wanted fs r p). rewrite IH, req_imports_mem. cbn [fst snd]. now rewrite orb_assoc.
  Qed.

  Lemma req_files_sound fs todo : forall acc p,
    In p (req_files fs todo acc) ->
    In p acc \/ exists from src imp, In (from, src) todo /\ In imp (imports_of src)
                                     /\ p = resolve_s from imp /\ contains_file p fs = false.
  Proof.
    induction todo as [|[from src] r IH]; intros acc p; cbn [Model.req_files]; [now left|].
    intros H. destruct (IH _ _ H) as [Hin|[f [s0 [imp [? ?]]]]].
    - destruct (req_imports_sound _ _ _ _ _ Hin) as [?|[imp [? ?]]]; [now left|].
      right. exists from, src, imp. split; [now left|]. split; tauto.
    - right. exists f, s0, imp. split; [now right|assumption].
  Qed.

  Lemma req_files_nodup fs todo : forall acc,
    nodup_path acc = true -> nodup_path (req_files fs todo acc) = true.
  Proof.
    induction todo as [|[from src] r IH]; intros acc H; cbn [Model.req_files]; [assumption|].
    apply IH. now apply req_imports_nodup.
  Qed.

  (** ** the three facts about [get_required_files] on a task *)

  Lemma required_mem x p : mem_path p (required_of x) = wanted (t_files x) (t_files x) p.
  Proof. unfold Model.required_of. now rewrite req_files_mem. Qed.

  Lemma required_sound x p : In p (required_of x) ->
    exists from src imp, In (from, src) (t_files x) /\ In imp (imports_of src)
                         /\ p = resolve_s from imp /\ contains_file p (t_files x) = false.
  Proof.
    unfold Model.required_of. intros H. destruct (req_files_sound _ _ _ _ H) as [[]|?]. assumption.
  Qed.

  Lemma required_complete x from src imp :
    In (from, src) (t_files x) -> In imp (imports_of src) ->
    contains_file (resolve_s from imp) (t_files x) = false ->
    mem_path (resolve_s from imp) (required_of x) = true.
  Proof.
    intros Hf Hi Hc. rewrite required_mem. unfold wanted. apply existsb_exists.
    exists (from, src). split; [assumption|]. cbn [fst snd]. unfold wanted_in. apply existsb_exists.
    exists imp. split; [assumption|]. now rewrite path_eqb_refl, Hc.
  Qed.

  Lemma required_nodup x : nodup_path (required_of x) = true.
  Proof. unfold Model.required_of. now apply req_files_nodup. Qed.

  (** ** agreement with the specification's [unsupplied] *)

  Lemma targets_of_alt m :
    targets_of parse_o m = flat_map (fun kv => map (resolve_s (fst kv)) (imports_of (snd kv))) m.
  Proof.
    unfold targets_of, Model.imports_of. induction m as [|[k v] r IH]; cbn; [reflexivity|].
    rewrite IH. destruct (parse_o v); reflexivity.
  Qed.

  Lemma unsupplied_mem m p : mem_path p (unsupplied parse_o m) = wanted m m p.
  Proof.
    unfold unsupplied, mem_path. rewrite existsb_filter, targets_of_alt, existsb_flat_map.
    unfold wanted. apply existsb_ext_in. intros [k v] _. cbn [fst snd].
    rewrite existsb_map. unfold wanted_in. apply existsb_ext_in. intros imp _.
    rewrite m_has_contains. apply andb_comm.
  Qed.

  Lemma forallb_mem_transfer a b :
    (forall p, mem_path p a = mem_path p b) -> forallb (fun x => mem_path x b) a = true.
  Proof.
    intros H. apply forallb_forall. intros x Hx. rewrite <- H. now apply mem_path_refl_in.
  Qed.

  Lemma required_same_set x : same_set (required_of x) (unsupplied parse_o (t_files x)) = true.
  Proof.
    unfold same_set. apply andb_true_iff. split; apply forallb_mem_transfer; intros p.
    - now rewrite required_mem, unsupplied_mem.
    - now rewrite required_mem, unsupplied_mem.
  Qed.
End P.
