(** C19 — proofs, part 1: task-table lemmas, the id invariant, fresh ids, dead ids. *)
From V Require Import Base.Util C20.Model C19.Model.
From Coq Require Import Sorted.

(** * [path_eqb] is an equivalence *)

Lemma comp_eqb_spec a b : reflect (a = b) (comp_eqb a b).
Proof.
  destruct a, b; cbn; try (constructor; congruence).
  destruct (str_eqb_spec n n0) as [->|Hn]; constructor; congruence.
Qed.

Lemma list_eqb_comp_spec a : forall b, list_eqb comp_eqb a b = true <-> a = b.
Proof.
  induction a as [|x a IH]; intros [|y b]; cbn; split; intros H; try congruence; try discriminate.
  - apply andb_true_iff in H as [H1 H2]. destruct (comp_eqb_spec x y); [|discriminate].
    apply IH in H2. congruence.
  - inversion H; subst. destruct (comp_eqb_spec y y); [|congruence]. cbn. now apply IH.
Qed.

Lemma path_eqb_iff a b : path_eqb a b = true <-> components a = components b.
Proof. unfold path_eqb. apply list_eqb_comp_spec. Qed.

Lemma path_eqb_refl a : path_eqb a a = true.
Proof. now apply path_eqb_iff. Qed.

Lemma path_eqb_sym a b : path_eqb a b = path_eqb b a.
Proof.
  destruct (path_eqb a b) eqn:E1, (path_eqb b a) eqn:E2; try reflexivity.
  - apply path_eqb_iff in E1. symmetry in E1. apply path_eqb_iff in E1. congruence.
  - apply path_eqb_iff in E2. symmetry in E2. apply path_eqb_iff in E2. congruence.
Qed.

Lemma path_eqb_trans_l a b c : path_eqb a b = true -> path_eqb a c = path_eqb b c.
Proof.
  intros H. apply path_eqb_iff in H.
  destruct (path_eqb a c) eqn:E1, (path_eqb b c) eqn:E2; try reflexivity.
  - apply path_eqb_iff in E1. assert (X : components b = components c) by congruence.
    apply path_eqb_iff in X. congruence.
  - apply path_eqb_iff in E2. assert (X : components a = components c) by congruence.
    apply path_eqb_iff in X. congruence.
Qed.

Lemma path_eqb_trans_r a b c : path_eqb a b = true -> path_eqb c a = path_eqb c b.
Proof. intros H. rewrite (path_eqb_sym c a), (path_eqb_sym c b). now apply path_eqb_trans_l. Qed.

(** * The task table *)

Lemma find_set_same t x ts :
  find_task t (set_task t x ts) = match find_task t ts with Some _ => Some x | None => None end.
Proof.
  induction ts as [|[k y] r IH]; cbn; [reflexivity|].
  destruct (N.eqb k t) eqn:E; cbn; rewrite E; [reflexivity|exact IH].
Qed.

Lemma find_set_other t t' x ts : t <> t' -> find_task t (set_task t' x ts) = find_task t ts.
Proof.
  intros Hn. induction ts as [|[k y] r IH]; cbn; [reflexivity|].
  destruct (N.eqb k t') eqn:E; cbn.
  - apply N.eqb_eq in E; subst k. destruct (N.eqb t' t) eqn:E2; [apply N.eqb_eq in E2; congruence|reflexivity].
  - destruct (N.eqb k t); [reflexivity|exact IH].
Qed.

Lemma find_remove_same t ts : find_task t (remove_task t ts) = None.
Proof.
  induction ts as [|[k y] r IH]; cbn; [reflexivity|].
  destruct (N.eqb k t) eqn:E; [exact IH|]. cbn. rewrite E. exact IH.
Qed.

Lemma find_remove_other t t' ts : t <> t' -> find_task t (remove_task t' ts) = find_task t ts.
Proof.
  intros Hn. induction ts as [|[k y] r IH]; cbn; [reflexivity|].
  destruct (N.eqb k t') eqn:E.
  - apply N.eqb_eq in E; subst k. destruct (N.eqb t' t) eqn:E2; [apply N.eqb_eq in E2; congruence|exact IH].
  - cbn. destruct (N.eqb k t); [reflexivity|exact IH].
Qed.

Lemma find_app t ts k x :
  find_task t (ts ++ [(k, x)]) =
  match find_task t ts with Some y => Some y | None => if N.eqb k t then Some x else None end.
Proof.
  induction ts as [|[k' y] r IH]; cbn; [reflexivity|].
  destruct (N.eqb k' t); [reflexivity|exact IH].
Qed.

Lemma remove_none t ts : find_task t ts = None -> remove_task t ts = ts.
Proof.
  induction ts as [|[k y] r IH]; cbn; [reflexivity|].
  destruct (N.eqb k t); [discriminate|]. intros H. now rewrite IH.
Qed.

Lemma find_in t x ts : find_task t ts = Some x -> In (t, x) ts.
Proof.
  induction ts as [|[k y] r IH]; cbn; [discriminate|].
  destruct (N.eqb k t) eqn:E.
  - apply N.eqb_eq in E. intros [= ->]. left. now subst.
  - intros H. right. now apply IH.
Qed.

(** * Invariant: live ids are positive and below [next_id] *)

Definition keys_ok (n : N) (ts : list (N * task)) : Prop :=
  Forall (fun kx => (0 < fst kx /\ fst kx < n)%N) ts.

Definition wf (st : lstate) : Prop := (0 < next_id st)%N /\ keys_ok (next_id st) (tasks st).

Lemma wf_init : wf init_state.
Proof. split; [reflexivity|constructor]. Qed.

Lemma keys_ok_mono n m ts : (n <= m)%N -> keys_ok n ts -> keys_ok m ts.
Proof. intros Hle H. eapply Forall_impl; [|exact H]. cbn. intros a [? ?]. split; lia. Qed.

Lemma keys_ok_set n t x ts : keys_ok n ts -> keys_ok n (set_task t x ts).
Proof.
  induction ts as [|[k y] r IH]; cbn; intros H; [constructor|].
  inversion H as [|? ? Hk Hr]; subst. cbn in Hk.
  destruct (N.eqb k t); constructor; cbn; try assumption. apply IH; assumption.
Qed.

Lemma keys_ok_remove n t ts : keys_ok n ts -> keys_ok n (remove_task t ts).
Proof.
  induction ts as [|[k y] r IH]; cbn; intros H; [constructor|].
  inversion H as [|? ? Hk Hr]; subst.
  destruct (N.eqb k t); [apply IH; assumption|constructor; [assumption|apply IH; assumption]].
Qed.

Lemma find_ge n ts t : keys_ok n ts -> (n <= t)%N -> find_task t ts = None.
Proof.
  induction ts as [|[k y] r IH]; cbn; intros H Hle; [reflexivity|].
  inversion H as [|? ? [Hk0 Hk] Hr]; subst. cbn in *.
  destruct (N.eqb k t) eqn:E; [apply N.eqb_eq in E; lia|auto].
Qed.

Lemma find_zero n ts : keys_ok n ts -> find_task 0 ts = None.
Proof.
  induction ts as [|[k y] r IH]; cbn; intros H; [reflexivity|].
  inversion H as [|? ? [Hk0 Hk] Hr]; subst. cbn in *.
  destruct (N.eqb k 0) eqn:E; [apply N.eqb_eq in E; lia|auto].
Qed.

Section P.
  Variable parse_o : str -> presult.
  Variable emit_o : str -> list (str * str) -> eresult.
  Notation step := (step parse_o emit_o).
  Notation run := (run parse_o emit_o).
  Notation exec := (exec parse_o emit_o).
  Notation register := (register parse_o).

  (** a [Trap] response and "no next state" go together *)
  Lemma step_trap_iff st c : fst (step st c) = None <-> snd (step st c) = Trap.
  Proof.
    destruct c; cbn [step].
    - destruct (register (mkTask f []) f src) as [[x [m|]]|]; cbn; split; congruence.
    - destruct (find_task t (tasks st)); cbn; split; congruence.
    - destruct (find_task t (tasks st)); cbn; [|split; congruence].
      destruct (register t0 f src) as [[x [m|]]|]; cbn; split; congruence.
    - destruct (find_task t (tasks st)); cbn; [|split; congruence].
      destruct (emit_o (t_root t0) (t_files t0)); cbn; split; congruence.
    - cbn; split; congruence.
    - destruct (result st) as [[m|l]|]; cbn; split; congruence.
  Qed.

  Lemma register_root x f src x' m : register x f src = Some (x', m) -> t_root x' = t_root x.
  Proof.
    unfold Model.register. destruct (parse_o src); intros [= <- <-]; reflexivity.
  Qed.

  Lemma wf_step st c st' x :
    wf st -> step st c = (Some st', x) -> wf st' /\ (next_id st <= next_id st')%N.
  Proof.
    intros [Hp Hk] H. destruct c; cbn [step] in H.
    - destruct (register (mkTask f []) f src) as [[y [m|]]|]; inversion H; subst; clear H; cbn.
      + split; [split; assumption|lia].
      + split; [|lia]. split; cbn; [lia|].
        apply Forall_app. split.
        * eapply keys_ok_mono; [|exact Hk]. lia.
        * constructor; [cbn; lia|constructor].
    - destruct (find_task t (tasks st)); inversion H; subst; cbn; (split; [split; assumption|lia]).
    - destruct (find_task t (tasks st)) as [y|].
      + destruct (register y f src) as [[y' [m|]]|]; inversion H; subst; cbn.
        * split; [split; assumption|lia].
        * split; [|lia]. split; cbn; [assumption|now apply keys_ok_set].
      + inversion H; subst; cbn. split; [split; assumption|lia].
    - destruct (find_task t (tasks st)) as [y|].
      + destruct (emit_o (t_root y) (t_files y)); inversion H; subst; cbn; (split; [split; assumption|lia]).
      + inversion H; subst; cbn. split; [split; assumption|lia].
    - inversion H; subst; cbn. split; [|lia]. split; cbn; [assumption|now apply keys_ok_remove].
    - destruct (result st) as [[m|l]|]; inversion H; subst; (split; [split; assumption|lia]).
  Qed.

  Lemma wf_exec h : forall st st', wf st -> exec st h = Some st' -> wf st' /\ (next_id st <= next_id st')%N.
  Proof.
    induction h as [|c r IH]; cbn; intros st st' Hwf H.
    - inversion H; subst. split; [assumption|lia].
    - destruct (step st c) as [[st1|] x] eqn:E; cbn in H; [|discriminate].
      destruct (wf_step _ _ _ _ Hwf E) as [Hwf1 Hle].
      destruct (IH _ _ Hwf1 H) as [Hwf' Hle']. split; [assumption|lia].
  Qed.

  (** * ids are fresh: strictly increasing, never 0, hence never reused *)

  Fixpoint new_ids (rs : list resp) : list N :=
    match rs with
    | [] => []
    | RId t :: r => if N.eqb t 0 then new_ids r else t :: new_ids r
    | _ :: r => new_ids r
    end.

  Lemma step_id st c st' t :
    step st c = (st', RId t) ->
    (t = 0%N /\ (forall s1, st' = Some s1 -> next_id s1 = next_id st))
    \/ (t = next_id st /\ exists s1, st' = Some s1 /\ next_id s1 = N.succ (next_id st)).
  Proof.
    intros H. destruct c; cbn [step] in H.
    - destruct (register (mkTask f []) f src) as [[y [m|]]|]; inversion H; subst; clear H.
      + left. split; [reflexivity|]. intros s1 [= <-]. reflexivity.
      + right. split; [reflexivity|]. eexists. split; [reflexivity|]. reflexivity.
    - destruct (find_task t0 (tasks st)); inversion H.
    - destruct (find_task t0 (tasks st)) as [y|]; [|inversion H].
      destruct (register y f src) as [[y' [m|]]|]; inversion H.
    - destruct (find_task t0 (tasks st)) as [y|]; [|inversion H].
      destruct (emit_o (t_root y) (t_files y)); inversion H.
    - inversion H.
    - destruct (result st) as [[m|l]|]; inversion H.
  Qed.

  Lemma ids_bounded h : forall st, wf st ->
    Forall (fun t => (next_id st <= t)%N) (new_ids (run st h)) /\ StronglySorted N.lt (new_ids (run st h)).
  Proof.
    induction h as [|c r IH]; cbn [Model.run]; intros st Hwf.
    - cbn. split; constructor.
    - destruct (step st c) as [[st1|] x] eqn:E.
      + destruct (wf_step _ _ _ _ Hwf E) as [Hwf1 Hle].
        destruct (IH _ Hwf1) as [Hb Hs].
        destruct x; cbn [new_ids];
          try (split; [eapply Forall_impl; [|exact Hb]; cbn; intros; lia|exact Hs]).
        destruct (step_id _ _ _ _ E) as [[-> Hn]|[-> [s1 [[= <-] Hn]]]].
        * cbn. split; [eapply Forall_impl; [|exact Hb]; cbn; intros; lia|exact Hs].
        * destruct Hwf as [Hp _]. destruct (N.eqb (next_id st) 0) eqn:E0; [apply N.eqb_eq in E0; lia|].
          split.
          -- constructor; [lia|]. eapply Forall_impl; [|exact Hb]. cbn. intros; lia.
          -- constructor; [exact Hs|]. eapply Forall_impl; [|exact Hb]. cbn. intros; lia.
      + destruct x; cbn; try (split; constructor).
        destruct (step_id _ _ _ _ E) as [[-> _]|[_ [s1 [[=] _]]]]. cbn. split; constructor.
  Qed.

  Lemma ids_fresh h :
    StronglySorted N.lt (new_ids (run init_state h)) /\ Forall (fun t => (1 <= t)%N) (new_ids (run init_state h)).
  Proof.
    destruct (ids_bounded h init_state wf_init) as [Hb Hs]. split; [exact Hs|exact Hb].
  Qed.

  (** * dead ids: never issued, 0, or freed *)

  Definition dead (st : lstate) (t : N) : Prop := find_task t (tasks st) = None.

  Lemma never_issued_dead st t : wf st -> (next_id st <= t)%N -> dead st t.
  Proof. intros [_ Hk] Hle. eapply find_ge; eauto. Qed.

  Lemma zero_dead st : wf st -> dead st 0.
  Proof. intros [_ Hk]. eapply find_zero; eauto. Qed.

  Lemma dead_calls st t : dead st t ->
    step st (Required t) = (Some (set_result st (VText TASK_NOT_FOUND)), RBool false)
    /\ (forall f src, step st (Load t f src) = (Some (set_result st (VText TASK_NOT_FOUND)), RBool false))
    /\ step st (Emit t) = (Some (set_result st (VText TASK_NOT_FOUND)), RBool false)
    /\ step st (Free t) = (Some st, RUnit).
  Proof.
    unfold dead. intros H. cbn [Model.step]. rewrite H. repeat split.
    rewrite (remove_none _ _ H). destruct st; reflexivity.
  Qed.

  (** an id that is dead and already below [next_id] stays dead whatever is called afterwards *)
  Lemma dead_step st c st' x t :
    dead st t -> (t < next_id st)%N -> step st c = (Some st', x) -> dead st' t.
  Proof.
    unfold dead. intros Hd Hlt H. destruct c; cbn [Model.step] in H.
    - destruct (register (mkTask f []) f src) as [[y [m|]]|]; inversion H; subst; clear H; cbn; [assumption|].
      rewrite find_app, Hd. destruct (N.eqb (next_id st) t) eqn:E; [apply N.eqb_eq in E; lia|reflexivity].
    - destruct (find_task t0 (tasks st)); inversion H; subst; cbn; assumption.
    - destruct (find_task t0 (tasks st)) as [y|] eqn:Ef.
      + destruct (register y f src) as [[y' [m|]]|]; inversion H; subst; cbn; [assumption|].
        destruct (N.eq_dec t t0) as [->|Hn]; [congruence|]. now rewrite find_set_other.
      + inversion H; subst; cbn; assumption.
    - destruct (find_task t0 (tasks st)) as [y|].
      + destruct (emit_o (t_root y) (t_files y)); inversion H; subst; cbn; assumption.
      + inversion H; subst; cbn; assumption.
    - inversion H; subst; cbn. destruct (N.eq_dec t t0) as [->|Hn];
        [apply find_remove_same|now rewrite find_remove_other].
    - destruct (result st) as [[m|l]|]; inversion H; subst; assumption.
  Qed.

  Lemma dead_exec h : forall st st' t,
    wf st -> dead st t -> (t < next_id st)%N -> exec st h = Some st' -> dead st' t.
  Proof.
    induction h as [|c r IH]; cbn [Model.exec]; intros st st' t Hwf Hd Hlt H.
    - inversion H; subst; assumption.
    - destruct (step st c) as [[st1|] x] eqn:E; cbn in H; [|discriminate].
      destruct (wf_step _ _ _ _ Hwf E) as [Hwf1 Hle].
      eapply IH; [exact Hwf1| |lia|exact H]. eapply dead_step; eauto.
  Qed.

  Lemma free_makes_dead st t st' x : step st (Free t) = (Some st', x) -> dead st' t /\ next_id st' = next_id st.
  Proof. cbn. intros [= <- <-]. split; [apply find_remove_same|reflexivity]. Qed.

  (** once freed, an issued id is dead for ever *)
  Lemma freed_stays_dead h1 h2 t st1 st2 :
    exec init_state h1 = Some st1 -> (t < next_id st1)%N ->
    exec st1 (Free t :: h2) = Some st2 -> dead st2 t.
  Proof.
    intros H1 Hlt H2. destruct (wf_exec _ _ _ wf_init H1) as [Hwf1 _].
    cbn [Model.exec] in H2. destruct (step st1 (Free t)) as [[s|] x] eqn:E; cbn in H2; [|discriminate].
    destruct (free_makes_dead _ _ _ _ E) as [Hd Hn].
    destruct (wf_step _ _ _ _ Hwf1 E) as [Hwf _].
    eapply dead_exec; [exact Hwf|exact Hd|lia|exact H2].
  Qed.
End P.
