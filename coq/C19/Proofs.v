(** C19 — proofs. *)
From V Require Import Base.Util C20.Model C19.Model C19.Spec.

Section P.
  Variable parse_o : str -> presult.
  Variable emit_o : str -> list (str * str) -> eresult.

  Lemma dead_required st t :
    find_task t (tasks st) = None ->
    step parse_o emit_o st (Required t) = (Some (set_result st (VText TASK_NOT_FOUND)), RBool false).
  Proof. intros H. cbn [step]. rewrite H. reflexivity. Qed.
End P.
