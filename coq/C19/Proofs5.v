(** C19 — proofs, part 5: emit on a task equals emit on a fresh instance given the same files.

    In the model [emit_js] is [emit_o root files] by construction; what is proved here is that
    the file map of any reachable task can be rebuilt on a fresh instance by
    [fresh_acalls] (initiate with the root, then one load per other file, in map order), so that
    "a fresh task given the same files" is a well-defined run of the same machine and gives the
    same answer.  This is also exactly how the correspondence run obtains its emit oracle. *)
From V Require Import Base.Util C20.Model C19.Model C19.Spec C19.Proofs C19.Proofs2.

Fixpoint keys_nodup (fs : list (str * str)) : bool :=
  match fs with [] => true | kv :: r => negb (m_has (fst kv) r) && keys_nodup r end.

Lemma m_has_app f a b : m_has f (a ++ b) = m_has f a || m_has f b.
Proof. unfold m_has. apply existsb_app. Qed.

Lemma keys_nodup_mid a k v b : keys_nodup (a ++ (k, v) :: b) = true -> m_has k a = false.
Proof.
  induction a as [|[k' v'] a' IH]; cbn [app keys_nodup fst]; [reflexivity|].
  intros H. apply andb_true_iff in H as [H1 H2]. apply negb_true_iff in H1.
  rewrite m_has_app in H1. apply orb_false_iff in H1 as [_ H1].
  change (m_has k' ((k, v) :: b)) with (path_eqb k k' || m_has k' b) in H1.
  apply orb_false_iff in H1 as [H1 _].
  change (m_has k ((k', v') :: a')) with (path_eqb k' k || m_has k a').
  rewrite (path_eqb_sym k' k), H1. cbn. now apply IH.
Qed.

Lemma insert_fresh f src fs : m_has f fs = false -> insert_file f src fs = fs ++ [(f, src)].
Proof.
  induction fs as [|[k v] r IH]; cbn [insert_file app]; [reflexivity|].
  change (m_has f ((k, v) :: r)) with (path_eqb k f || m_has f r).
  intros H. apply orb_false_iff in H as [H1 H2]. rewrite H1. now rewrite IH.
Qed.

Lemma m_has_insert p f src fs : m_has p (insert_file f src fs) = m_has p fs || path_eqb f p.
Proof.
  induction fs as [|[k v] r IH]; cbn [insert_file].
  - cbn. now rewrite orb_false_r.
  - destruct (path_eqb k f) eqn:E.
    + change (m_has p ((k, src) :: r)) with (path_eqb k p || m_has p r).
      change (m_has p ((k, v) :: r)) with (path_eqb k p || m_has p r).
      rewrite <- (path_eqb_trans_l k f p E).
      destruct (path_eqb k p), (m_has p r); reflexivity.
    + change (m_has p ((k, v) :: insert_file f src r)) with (path_eqb k p || m_has p (insert_file f src r)).
      change (m_has p ((k, v) :: r)) with (path_eqb k p || m_has p r).
      rewrite IH. now rewrite orb_assoc.
Qed.

Lemma keys_nodup_insert f src fs : keys_nodup fs = true -> keys_nodup (insert_file f src fs) = true.
Proof.
  induction fs as [|[k v] r IH]; cbn [insert_file]; [reflexivity|].
  cbn [keys_nodup fst]. intros H. apply andb_true_iff in H as [H1 H2].
  destruct (path_eqb k f) eqn:E; cbn [keys_nodup fst].
  - now rewrite H1, H2.
  - rewrite m_has_insert. apply negb_true_iff in H1. rewrite H1, (path_eqb_sym f k), E. cbn. now apply IH.
Qed.

Lemma insert_head k v r f src : exists v', insert_file f src ((k, v) :: r) = (k, v') :: tl (insert_file f src ((k, v) :: r)).
Proof. cbn [insert_file]. destruct (path_eqb k f); eexists; reflexivity. Qed.

Section P.
  Variable parse_o : str -> presult.
  Variable emit_o : str -> list (str * str) -> eresult.
  Notation step := (step parse_o emit_o).
  Notation exec := (exec parse_o emit_o).
  Notation api_step := (api_step parse_o emit_o).
  Notation api_run := (api_run parse_o emit_o).
  Notation register := (register parse_o).

  Definition parses (kv : str * str) : Prop := exists l, parse_o (snd kv) = POk l.

  (** invariant of one task *)
  Record tinv (x : task) : Prop := mkTinv {
    I_head : exists s0 rest, t_files x = (t_root x, s0) :: rest;
    I_nodup : keys_nodup (t_files x) = true;
    I_parse : Forall parses (t_files x)
  }.

  Definition all_tinv (st : lstate) : Prop := Forall (fun kx => tinv (snd kx)) (tasks st).

  Lemma Forall_insert f src fs : Forall parses fs -> parses (f, src) -> Forall parses (insert_file f src fs).
  Proof.
    intros H Hp. induction fs as [|[k v] r IH]; cbn [insert_file]; [constructor; [assumption|constructor]|].
    inversion H as [|? ? Hk Hr]; subst. destruct (path_eqb k f).
    - constructor; [exact Hp|assumption].
    - constructor; [assumption|now apply IH].
  Qed.

  Lemma tinv_register x f src x' : tinv x -> register x f src = Some (x', None) -> tinv x'.
  Proof.
    intros [[s0 [rest Hh]] Hn Hp]. unfold Model.register.
    destruct (parse_o src) eqn:Ep; intros [= <-]. constructor; cbn [t_root t_files].
    - rewrite Hh. destruct (insert_head (t_root x) s0 rest f src) as [v' Hv]. rewrite Hv. eauto.
    - now apply keys_nodup_insert.
    - apply Forall_insert; [assumption|]. exists imports. exact Ep.
  Qed.

  Lemma tinv_new f src x' : register (mkTask f []) f src = Some (x', None) -> tinv x'.
  Proof.
    unfold Model.register. destruct (parse_o src) eqn:Ep; intros [= <-]. constructor; cbn.
    - eauto.
    - reflexivity.
    - constructor; [exists imports; exact Ep|constructor].
  Qed.

  Lemma Forall_set_task (P : N * task -> Prop) t x ts :
    Forall P ts -> (forall k, P (k, x)) -> Forall P (set_task t x ts).
  Proof.
    intros H Hx. induction ts as [|[k y] r IH]; cbn; [constructor|].
    inversion H; subst. destruct (N.eqb k t); constructor; auto.
  Qed.

  Lemma Forall_remove_task (P : N * task -> Prop) t ts : Forall P ts -> Forall P (remove_task t ts).
  Proof.
    intros H. induction ts as [|[k y] r IH]; cbn; [constructor|].
    inversion H; subst. destruct (N.eqb k t); [auto|constructor; auto].
  Qed.

  Lemma all_tinv_step st c st' x : all_tinv st -> step st c = (Some st', x) -> all_tinv st'.
  Proof.
    unfold all_tinv. intros Hi H. destruct c; cbn [Model.step] in H.
    - destruct (register (mkTask f []) f src) as [[y [m|]]|] eqn:Er; inversion H; subst; clear H; cbn; [assumption|].
      apply Forall_app. split; [assumption|]. constructor; [|constructor]. cbn. eapply tinv_new; eauto.
    - destruct (find_task t (tasks st)); inversion H; subst; assumption.
    - destruct (find_task t (tasks st)) as [y|] eqn:Ef.
      + destruct (register y f src) as [[y' [m|]]|] eqn:Er; inversion H; subst; clear H; cbn; [assumption|].
        apply Forall_set_task; [assumption|]. intros k. cbn. eapply tinv_register; [|exact Er].
        apply find_in in Ef. eapply Forall_forall in Hi; [|exact Ef]. exact Hi.
      + inversion H; subst; assumption.
    - destruct (find_task t (tasks st)) as [y|].
      + destruct (emit_o (t_root y) (t_files y)); inversion H; subst; assumption.
      + inversion H; subst; assumption.
    - inversion H; subst; cbn. now apply Forall_remove_task.
    - destruct (result st) as [[m|l]|]; inversion H; subst; assumption.
  Qed.

  Lemma all_tinv_exec h : forall st st', all_tinv st -> exec st h = Some st' -> all_tinv st'.
  Proof.
    induction h as [|c r IH]; cbn [Model.exec]; intros st st' Hi H; [inversion H; subst; assumption|].
    destruct (step st c) as [[s1|] x] eqn:E; cbn in H; [|discriminate].
    eapply IH; [|exact H]. eapply all_tinv_step; eauto.
  Qed.

  Lemma reachable_tinv h st t x :
    exec init_state h = Some st -> find_task t (tasks st) = Some x -> tinv x.
  Proof.
    intros He Hf. assert (Hi : all_tinv st) by (apply (all_tinv_exec h init_state st); [unfold all_tinv; cbn; constructor|exact He]).
    apply find_in in Hf. eapply Forall_forall in Hi; [|exact Hf]. exact Hi.
  Qed.

  (** ** replaying the loads on an instance whose task 1 already has the files [pre] *)

  Definition load1 (kv : str * str) : acall := ALoad 1 (fst kv) (snd kv).

  Lemma replay_loads rest : forall st1 root pre tail,
    find_task 1 (tasks st1) = Some (mkTask root pre) ->
    keys_nodup (pre ++ rest) = true -> Forall parses rest ->
    exists st2,
      api_run st1 (map load1 rest ++ tail) = repeat AOk (length rest) ++ api_run st2 tail
      /\ find_task 1 (tasks st2) = Some (mkTask root (pre ++ rest)).
  Proof.
    induction rest as [|[k v] r IH]; intros st1 root pre tail Hf Hn Hp.
    - exists st1. rewrite app_nil_r. split; [reflexivity|assumption].
    - inversion Hp as [|? ? [l Hl] Hr]; subst. cbn [snd] in Hl.
      cbn [map app load1 fst snd Model.api_run Model.api_step Model.step length repeat].
      rewrite Hf. unfold Model.register. rewrite Hl. cbn [t_root t_files].
      rewrite (insert_fresh k v pre (keys_nodup_mid _ _ _ _ Hn)).
      cbn [fst snd].
      match goal with |- exists st2, AOk :: api_run ?S _ = _ /\ _ => set (s' := S) end.
      destruct (IH s' root (pre ++ [(k, v)]) tail) as [st2 [H1 H2]].
      + subst s'. cbn [tasks]. rewrite find_set_same, Hf. reflexivity.
      + now rewrite <- app_assoc.
      + assumption.
      + exists st2. split; [now rewrite H1|]. now rewrite <- app_assoc in H2.
  Qed.

  Definition emit_resp (x : task) : aresp :=
    match emit_o (t_root x) (t_files x) with ETrap => ATrap | EErr m => AErr m | EOk js => AJs js end.

  Lemma api_emit_resp st t x : find_task t (tasks st) = Some x -> snd (api_step st (AEmit t)) = emit_resp x.
  Proof.
    intros Hf. cbn [Model.api_step Model.step]. rewrite Hf. unfold emit_resp.
    destruct (emit_o (t_root x) (t_files x)); reflexivity.
  Qed.

  Lemma api_run_single st c : api_run st [c] = [snd (api_step st c)].
  Proof. cbn [Model.api_run]. destruct (api_step st c) as [[s1|] x]; reflexivity. Qed.

  (** a fresh instance given the files of a reachable task answers emit exactly as the task does *)
  Lemma emit_equals_fresh h st t x :
    exec init_state h = Some st -> find_task t (tasks st) = Some x ->
    api_run init_state (fresh_acalls x ++ [AEmit 1])
    = AId 1 :: repeat AOk (length (tl (t_files x))) ++ [snd (api_step st (AEmit t))].
  Proof.
    intros He Hf. destruct (reachable_tinv _ _ _ _ He Hf) as [[s0 [rest Hh]] Hn Hp].
    rewrite (api_emit_resp _ _ _ Hf). unfold fresh_acalls. rewrite Hh. cbn [tl].
    rewrite Hh in Hn, Hp. inversion Hp as [|? ? [l Hl] Hr]; subst. cbn [snd] in Hl.
    cbn [app Model.api_run Model.api_step Model.step]. unfold Model.register. rewrite Hl.
    cbn [insert_file init_state next_id tasks result N.eqb app].
    change (N.eqb 1 0) with false. cbn iota.
    f_equal.
    match goal with |- api_run ?S _ = _ => set (s1 := S) end.
    destruct (replay_loads rest s1 (t_root x) [(t_root x, s0)] [AEmit 1]) as [st2 [H1 H2]].
    - reflexivity.
    - exact Hn.
    - exact Hr.
    - fold load1. change (fun kv : str * str => ALoad 1 (fst kv) (snd kv)) with load1. rewrite H1. f_equal.
      rewrite api_run_single, (api_emit_resp _ _ _ H2). unfold emit_resp. cbn [t_root t_files app].
      destruct x as [xr xf]. cbn in *. now rewrite Hh.
  Qed.
End P.
