(** Pinned statements of the C19 property theorems: compiled on every check, so a theorem
    cannot be weakened silently. *)
From V Require Import Base.Util C20.Model C19.Model C19.Spec C19.Proofs C19.Proofs3 C19.Proofs6 C19.Ghost C19.GhostProofs C19.Corr C19.Properties.
From Coq Require Import Sorted.

Check (C19_ids_fresh : forall parse_o emit_o h,
  StronglySorted N.lt (new_ids (run parse_o emit_o init_state h))
  /\ Forall (fun t => (1 <= t)%N) (new_ids (run parse_o emit_o init_state h))).
Check (C19_dead_id_is_error : forall parse_o emit_o st t,
  find_task t (tasks st) = None ->
  step parse_o emit_o st (Required t) = (Some (set_result st (VText TASK_NOT_FOUND)), RBool false)
  /\ (forall f src, step parse_o emit_o st (Load t f src) = (Some (set_result st (VText TASK_NOT_FOUND)), RBool false))
  /\ step parse_o emit_o st (Emit t) = (Some (set_result st (VText TASK_NOT_FOUND)), RBool false)
  /\ step parse_o emit_o st (Free t) = (Some st, RUnit)).
Check (C19_never_issued_or_zero_is_dead : forall parse_o emit_o h st t,
  exec parse_o emit_o init_state h = Some st ->
  (t = 0%N \/ (next_id st <= t)%N) -> find_task t (tasks st) = None).
Check (C19_freed_stays_dead : forall parse_o emit_o h1 h2 t st1 st2,
  exec parse_o emit_o init_state h1 = Some st1 -> (t < next_id st1)%N ->
  exec parse_o emit_o st1 (Free t :: h2) = Some st2 -> find_task t (tasks st2) = None).
Check (C19_required_exact : forall parse_o x,
  (forall p, In p (required_of parse_o x) ->
     exists from src imp, In (from, src) (t_files x) /\ In imp (imports_of parse_o src)
                          /\ p = resolve_s from imp /\ contains_file p (t_files x) = false)
  /\ (forall from src imp, In (from, src) (t_files x) -> In imp (imports_of parse_o src) ->
        contains_file (resolve_s from imp) (t_files x) = false ->
        mem_path (resolve_s from imp) (required_of parse_o x) = true)
  /\ nodup_path (required_of parse_o x) = true).
Check (C19_model_meets_spec : forall parse_o emit_o h,
  total parse_o emit_o ->
  spec_check parse_o emit_o false s_init h (run parse_o emit_o init_state h) = true).
Check (C19_model_meets_spec_modulo_oracle_traps : forall parse_o emit_o h,
  spec_check parse_o emit_o true s_init h (run parse_o emit_o init_state h) = true).
Check (C19_isolation : forall parse_o emit_o t h, (0 < t)%N ->
  let rs := api_run parse_o emit_o init_state h in
  api_run parse_o emit_o init_state (map fst (proj t h rs)) = map snd (proj t h rs)).
Check (C19_emit_equals_fresh : forall parse_o emit_o h st t x,
  exec parse_o emit_o init_state h = Some st -> find_task t (tasks st) = Some x ->
  api_run parse_o emit_o init_state (fresh_acalls x ++ [AEmit 1])
  = AId 1 :: repeat AOk (length (tl (t_files x))) ++ [snd (api_step parse_o emit_o st (AEmit t))]).
Check (C19_ghost_ownership : forall parse_o emit_o h,
  let gh := grun 0 parse_o emit_o init_state ghost_init h in
  gh_faults gh = []
  /\ forall b, (b < gh_next gh)%N ->
       is_freed b gh = true \/ exists t gt, g_find t (gh_tasks gh) = Some gt /\ In b (ids gt)).
Check (C19_ghost_exit_frees_all : forall parse_o emit_o h,
  let gh := g_exit (grun 0 parse_o emit_o init_state ghost_init h) in
  gh_faults gh = [] /\ forall b, (b < gh_next gh)%N -> is_freed b gh = true).
Check (C19_ghost_needs_exact_capacity :
  gh_faults (grun 1 (fun _ => POk []) (fun _ _ => EOk []) init_state ghost_init
                  [Initiate (s "/p/a.graphql") (s "query A { a }"); Free 1]) = [BadFree 0]).
Check (C19_emit_never_traps_errs_iff : forall parse_o resolve_o st t x,
  find_task t (tasks st) = Some x ->
  snd (step parse_o (staged_emit resolve_o) st (Emit t)) <> Trap
  /\ (snd (step parse_o (staged_emit resolve_o) st (Emit t)) = RBool false <->
      (exists m, resolve_o (t_root x) (t_files x) = RErr m)
      \/ (exists defs spreads js n, resolve_o (t_root x) (t_files x) = ROk defs spreads js
                                    /\ In n spreads /\ ~ In n defs))
  /\ (snd (step parse_o (staged_emit resolve_o) st (Emit t)) = RBool false
      \/ snd (step parse_o (staged_emit resolve_o) st (Emit t)) = RBool true)).
Check (C19_model_meets_spec_staged : forall parse_o resolve_o h,
  (forall src, parse_o src <> PTrap) ->
  spec_check parse_o (staged_emit resolve_o) false s_init h
             (run parse_o (staged_emit resolve_o) init_state h) = true).
Check (C19_failure_changes_only_result : forall parse_o emit_o h st c st' x,
  exec parse_o emit_o init_state h = Some st ->
  step parse_o emit_o st c = (Some st', x) -> x = RId 0 \/ x = RBool false ->
  next_id st' = next_id st /\ tasks st' = tasks st).
Check (C19_emit_undefined_is_error : agree w_emit_undefined = true /\ holds w_emit_undefined = true).
Check (C19_parse_error_is_error : agree w_parse_error = true /\ holds w_parse_error = true).
(* the definitions the statements rest on are pinned too *)
Check (eq_refl : total = fun parse_o emit_o =>
  (forall src, parse_o src <> PTrap) /\ (forall r fs, emit_o r fs <> ETrap)).
Check (eq_refl : staged_emit = fun resolve_o root fs => emit_of (resolve_o root fs)).
Check (eq_refl : emit_of = fun r =>
  match r with
  | RErr m => EErr m
  | ROk defs spreads js =>
      match first_undefined defs spreads with Some n => EErr (undefined_msg n) | None => EOk js end
  end).
Check (eq_refl : holds = fun c =>
  spec_check (ptab_lookup (c_ptab c)) (etab_lookup (c_etab c)) false s_init (c_calls c) (c_resps c)).
Print Assumptions C19_ids_fresh.
Print Assumptions C19_dead_id_is_error.
Print Assumptions C19_never_issued_or_zero_is_dead.
Print Assumptions C19_freed_stays_dead.
Print Assumptions C19_required_exact.
Print Assumptions C19_model_meets_spec.
Print Assumptions C19_model_meets_spec_modulo_oracle_traps.
Print Assumptions C19_isolation.
Print Assumptions C19_emit_equals_fresh.
Print Assumptions C19_ghost_ownership.
Print Assumptions C19_ghost_exit_frees_all.
Print Assumptions C19_ghost_needs_exact_capacity.
Print Assumptions C19_emit_never_traps_errs_iff.
Print Assumptions C19_model_meets_spec_staged.
Print Assumptions C19_failure_changes_only_result.
