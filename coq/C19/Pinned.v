From V Require Import Base.Util C20.Model C19.Model C19.Spec C19.Properties.
Check (C19_dead_required : forall parse_o emit_o st t,
  find_task t (tasks st) = None ->
  step parse_o emit_o st (Required t) = (Some (set_result st (VText TASK_NOT_FOUND)), RBool false)).
Print Assumptions C19_dead_required.
