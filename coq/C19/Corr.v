(** C19 — correspondence ([agree]) and the property evaluated on the implementation's own
    responses ([holds]).

    One case = one call history run on a fresh instance of the real loader, with
    - [c_ptab]: for every source text used, what parse_operation_document +
      resolve_operation_extensions returned when called directly (panic / error text / import paths);
    - [c_etab]: for every (root, file map) state in which the history calls emit_js on a live
      task: (a) what [resolve_operation_imports], called directly on documents parsed from exactly
      those files, returned (error text, or the fragment-definition names and the fragment-spread
      names of the resolved document), with the module text; (b) what a FRESH loader instance
      given exactly those files answered to emit_js.  The model runs on (a) ([staged_emit]); the
      property ([holds]) is judged against (b); [agree] also demands that (a) predicts (b);
    - the calls actually made and the responses observed ([Trap] = the process aborted). *)
From V Require Import Base.Util C20.Model C19.Model C19.Spec.

Record case := mkCase {
  c_ptab : list (str * presult);
  c_etab : list (str * list (str * str) * rresult * eresult);
  c_calls : list call;
  c_resps : list resp
}.

Definition pair_eqb (a b : str * str) : bool := str_eqb (fst a) (fst b) && str_eqb (snd a) (snd b).

Fixpoint ptab_lookup (tab : list (str * presult)) (src : str) : presult :=
  match tab with
  | [] => PErr (s "<no parse oracle entry>")
  | (k, v) :: r => if str_eqb k src then v else ptab_lookup r src
  end.

Fixpoint etab_lookup (tab : list (str * list (str * str) * rresult * eresult)) (root : str) (fs : list (str * str)) : eresult :=
  match tab with
  | [] => EErr (s "<no emit oracle entry>")
  | (k, kf, _, v) :: r => if str_eqb k root && list_eqb pair_eqb kf fs then v else etab_lookup r root fs
  end.

Fixpoint rtab_lookup (tab : list (str * list (str * str) * rresult * eresult)) (root : str) (fs : list (str * str)) : rresult :=
  match tab with
  | [] => RErr (s "<no emit oracle entry>")
  | (k, kf, v, _) :: r => if str_eqb k root && list_eqb pair_eqb kf fs then v else rtab_lookup r root fs
  end.

Definition eres_eqb (a b : eresult) : bool :=
  match a, b with
  | ETrap, ETrap => true
  | EErr x, EErr y | EOk x, EOk y => str_eqb x y
  | _, _ => false
  end.

(** the staged computation predicts what the fresh instance answered, for every entry *)
Definition stages_agree (tab : list (str * list (str * str) * rresult * eresult)) : bool :=
  forallb (fun e => match e with (_, _, r, v) => eres_eqb (emit_of r) v end) tab.

(** multiset equality of string lists *)
Fixpoint remove_one (x : str) (l : list str) : option (list str) :=
  match l with
  | [] => None
  | y :: r => if str_eqb x y then Some r
              else match remove_one x r with Some r' => Some (y :: r') | None => None end
  end.
Fixpoint perm_eqb (a b : list str) : bool :=
  match a with
  | [] => match b with [] => true | _ => false end
  | x :: r => match remove_one x b with Some b' => perm_eqb r b' | None => false end
  end.

(** model response vs observed response *)
Definition resp_eqb (m i : resp) : bool :=
  match m, i with
  | RId a, RId b => N.eqb a b
  | RBool a, RBool b => Bool.eqb a b
  | RUnit, RUnit => true
  | RStr a, RStr b => str_eqb a b
  | RFiles l, RStr b => perm_eqb (lines_of l) (split_nl b)   (* HashMap iteration order is unspecified *)
  | Trap, Trap => true
  | _, _ => false
  end.

Definition model_run (c : case) : list resp :=
  run (ptab_lookup (c_ptab c)) (staged_emit (rtab_lookup (c_etab c))) init_state (c_calls c).

Definition agree (c : case) : bool :=
  list_eqb resp_eqb (model_run c) (c_resps c) && stages_agree (c_etab c).

Definition holds (c : case) : bool :=
  spec_check (ptab_lookup (c_ptab c)) (etab_lookup (c_etab c)) false s_init (c_calls c) (c_resps c).
