(** C19 — model of the loader's task machinery (definitions only).

    Modelled files (as they are in /repo now):
      crates/graphql-loader/src/tasks.rs   Tasks (next_task_id, HashMap<usize,Task>), Task
                                           (root_file_name, loaded_files : HashMap<PathBuf, doc>,
                                           source_drop_list), register_file, Drop for Task
      crates/graphql-loader/src/loader.rs  initiate_task, get_required_files, load_file, emit_js
      crates/graphql-loader/src/main.rs    the extern "C" wrappers, RESULT, read_str_ptr,
                                           get_result_ptr/get_result_size
      packages/loader-core/src/{index,task,bin}.ts   the protocol layer ([api_step] below)

    Oracles (Section variables, supplied per case by the correspondence run from what the real
    code returned): [parse_o] = parse_operation_document followed by resolve_operation_extensions,
    reduced to what the loader uses of it (panic / error text / the import path strings);
    [emit_o] = what emit_js computes from the task's root file name and file map; the generic
    machine ([step]) takes it as one function, [staged_emit] at the end of this file is the form
    it has in the code now (resolve imports / undefined spread / print) and is the one the
    correspondence run evaluates.  Path resolution and [PathBuf] equality are NOT oracles: they are C20's model
    ([resolve_s], [components]).

    A panic inside an [extern "C"] function aborts the process: response [Trap], no next state.

    [HashMap] iteration order is unspecified; the file map is an association list in insertion
    order and the list [get_required_files] produces is meaningful up to permutation only
    (C19/Corr.v compares it as a multiset; the theorems speak about membership). *)
From V Require Import Base.Util C20.Model.

Inductive call :=
| Initiate (f src : str)
| Required (t : N)
| Load (t : N) (f src : str)
| Emit (t : N)
| Free (t : N)
| ReadResult.                       (* get_result_ptr + get_result_size + copy, as bin.ts does *)

Inductive resp :=
| RId (t : N)                       (* initiate_task : usize, 0 = failure *)
| RBool (b : bool)
| RUnit
| RStr (s : str)                    (* a result read back *)
| RFiles (l : list str)             (* a result read back that get_required_files stored: the
                                       paths joined by '\n', in an unspecified order *)
| Trap.                             (* the process aborted inside this call *)

Inductive presult := PTrap | PErr (msg : str) | POk (imports : list str).
Inductive eresult := ETrap | EErr (msg : str) | EOk (js : str).

(** [PathBuf] equality and hashing are component-wise. *)
Definition path_eqb (a b : str) : bool := list_eqb comp_eqb (components a) (components b).

(** One task.  [t_files]: key as first inserted (HashMap::insert keeps the old key), current
    source text (standing for the parsed document, which is a function of it). *)
Record task := mkTask { t_root : str; t_files : list (str * str) }.

Inductive rval := VText (s : str) | VFiles (l : list str).

Record lstate := mkState {
  next_id : N;                      (* Tasks::next_task_id; usize, never wraps in practice *)
  tasks : list (N * task);          (* Tasks::tasks, keys unique *)
  result : option rval              (* RESULT *)
}.

Definition init_state : lstate := mkState 1 [] None.

Definition TASK_NOT_FOUND : str := s "Task not found".

Fixpoint find_task (t : N) (ts : list (N * task)) : option task :=
  match ts with
  | [] => None
  | (k, x) :: r => if N.eqb k t then Some x else find_task t r
  end.

Fixpoint set_task (t : N) (x : task) (ts : list (N * task)) : list (N * task) :=
  match ts with
  | [] => []
  | (k, y) :: r => if N.eqb k t then (k, x) :: r else (k, y) :: set_task t x r
  end.

Fixpoint remove_task (t : N) (ts : list (N * task)) : list (N * task) :=
  match ts with
  | [] => []
  | (k, y) :: r => if N.eqb k t then remove_task t r else (k, y) :: remove_task t r
  end.

Fixpoint find_file (f : str) (fs : list (str * str)) : option str :=
  match fs with
  | [] => None
  | (k, v) :: r => if path_eqb k f then Some v else find_file f r
  end.

Definition contains_file (f : str) (fs : list (str * str)) : bool :=
  match find_file f fs with Some _ => true | None => false end.

(** HashMap::insert *)
Fixpoint insert_file (f src : str) (fs : list (str * str)) : list (str * str) :=
  match fs with
  | [] => [(f, src)]
  | (k, v) :: r => if path_eqb k f then (k, src) :: r else (k, v) :: insert_file f src r
  end.

Definition mem_path (p : str) (l : list str) : bool := existsb (path_eqb p) l.

Section Oracles.
  Variable parse_o : str -> presult.
  Variable emit_o : str -> list (str * str) -> eresult.

  Definition imports_of (src : str) : list str :=
    match parse_o src with POk l => l | _ => [] end.

  (** the loop of loader.rs [get_required_files] *)
  Fixpoint req_imports (fs : list (str * str)) (from : str) (imps : list str) (acc : list str) : list str :=
    match imps with
    | [] => acc
    | p :: r =>
        let path := resolve_s from p in
        if contains_file path fs || mem_path path acc then req_imports fs from r acc
        else req_imports fs from r (acc ++ [path])
    end.

  Fixpoint req_files (fs : list (str * str)) (todo : list (str * str)) (acc : list str) : list str :=
    match todo with
    | [] => acc
    | (from, src) :: r => req_files fs r (req_imports fs from (imports_of src) acc)
    end.

  Definition required_of (x : task) : list str := req_files (t_files x) (t_files x) [].

  (** Task::register_file: [None] = the parser/builder panicked *)
  Definition register (x : task) (f src : str) : option (task * option str) :=
    match parse_o src with
    | PTrap => None
    | PErr m => Some (x, Some m)
    | POk _ => Some (mkTask (t_root x) (insert_file f src (t_files x)), None)
    end.

  Definition set_result (st : lstate) (v : rval) : lstate :=
    mkState (next_id st) (tasks st) (Some v).

  (** one exported call; [None] = process aborted *)
  Definition step (st : lstate) (c : call) : option lstate * resp :=
    match c with
    | Initiate f src =>
        match register (mkTask f []) f src with
        | None => (None, Trap)
        | Some (_, Some m) => (Some (set_result st (VText m)), RId 0)
        | Some (x, None) =>
            (Some (mkState (N.succ (next_id st)) (tasks st ++ [(next_id st, x)]) (result st)),
             RId (next_id st))
        end
    | Required t =>
        match find_task t (tasks st) with
        | None => (Some (set_result st (VText TASK_NOT_FOUND)), RBool false)
        | Some x => (Some (set_result st (VFiles (required_of x))), RBool true)
        end
    | Load t f src =>
        match find_task t (tasks st) with
        | None => (Some (set_result st (VText TASK_NOT_FOUND)), RBool false)
        | Some x =>
            match register x f src with
            | None => (None, Trap)
            | Some (_, Some m) => (Some (set_result st (VText m)), RBool false)
            | Some (x', None) =>
                (Some (mkState (next_id st) (set_task t x' (tasks st)) (result st)), RBool true)
            end
        end
    | Emit t =>
        match find_task t (tasks st) with
        | None => (Some (set_result st (VText TASK_NOT_FOUND)), RBool false)
        | Some x =>
            match emit_o (t_root x) (t_files x) with
            | ETrap => (None, Trap)
            | EErr m => (Some (set_result st (VText m)), RBool false)
            | EOk js => (Some (set_result st (VText js)), RBool true)
            end
        end
    | Free t => (Some (mkState (next_id st) (remove_task t (tasks st)) (result st)), RUnit)
    | ReadResult =>
        match result st with
        | None => (None, Trap)                   (* r.as_ref().unwrap() on None *)
        | Some (VText s) => (Some st, RStr s)
        | Some (VFiles l) => (Some st, RFiles l)
        end
    end.

  (** responses of a history; nothing follows a [Trap] *)
  Fixpoint run (st : lstate) (h : list call) : list resp :=
    match h with
    | [] => []
    | c :: r =>
        match step st c with
        | (Some st', x) => x :: run st' r
        | (None, x) => [x]
        end
    end.

  (** state after a history ([None] = aborted) *)
  Fixpoint exec (st : lstate) (h : list call) : option lstate :=
    match h with
    | [] => Some st
    | c :: r => match fst (step st c) with Some st' => exec st' r | None => None end
    end.

  (** * The protocol layer of packages/loader-core: every exported call is followed by a read
        of RESULT exactly when the call stored one. *)
  Inductive acall := AInitiate (f src : str) | ARequired (t : N) | ALoad (t : N) (f src : str)
                   | AEmit (t : N) | AFree (t : N).
  Inductive aresp :=
  | AId (t : N)                     (* initiateTask returned a Task *)
  | AOk                             (* supplyFile / free returned *)
  | AFilesR (l : list str)          (* status(): the required files *)
  | AJs (js : str)                  (* emit() *)
  | AErr (msg : str)                (* WasmError with this message *)
  | ATrap.

  Definition read_text (st : lstate) : str :=
    match result st with Some (VText m) => m | _ => [] end.

  Definition api_step (st : lstate) (c : acall) : option lstate * aresp :=
    match c with
    | AInitiate f src =>
        match step st (Initiate f src) with
        | (Some st', RId t) => if N.eqb t 0 then (Some st', AErr (read_text st')) else (Some st', AId t)
        | (o, _) => (o, ATrap)
        end
    | ARequired t =>
        match step st (Required t) with
        | (Some st', RBool true) =>
            (Some st', match result st' with Some (VFiles l) => AFilesR l | _ => ATrap end)
        | (Some st', RBool false) => (Some st', AErr (read_text st'))
        | (o, _) => (o, ATrap)
        end
    | ALoad t f src =>
        match step st (Load t f src) with
        | (Some st', RBool true) => (Some st', AOk)
        | (Some st', RBool false) => (Some st', AErr (read_text st'))
        | (o, _) => (o, ATrap)
        end
    | AEmit t =>
        match step st (Emit t) with
        | (Some st', RBool true) => (Some st', AJs (read_text st'))
        | (Some st', RBool false) => (Some st', AErr (read_text st'))
        | (o, _) => (o, ATrap)
        end
    | AFree t =>
        match step st (Free t) with
        | (Some st', _) => (Some st', AOk)
        | (o, _) => (o, ATrap)
        end
    end.

  Fixpoint api_run (st : lstate) (h : list acall) : list aresp :=
    match h with
    | [] => []
    | c :: r =>
        match api_step st c with
        | (Some st', x) => x :: api_run st' r
        | (None, x) => [x]
        end
    end.
End Oracles.

(** * The emit step in stages (loader.rs [emit_js], after /repo commit 539df4b)

    [emit_js] = [resolve_operation_imports] on the root document with the task's file map as
    resolver; on [Err] the error text; on [Ok doc]: if some fragment spread of [doc] (definitions in
    order, selection sets depth-first) names a fragment that [doc] does not define, the error
    "Fragment '<name>' is not defined"; otherwise [print_js doc].  Nothing in it panics any more.

    The resolution is an oracle ([resolve_o root files]); what it returns of the resolved
    document is what the loader itself looks at — the names of its fragment definitions and of
    its fragment spreads in traversal order — plus the module text [print_js] gives for it. *)
Inductive rresult :=
| RErr (msg : str)                                   (* resolve_operation_imports failed *)
| ROk (defs spreads : list str) (js : str).

Definition first_undefined (defs spreads : list str) : option str :=
  find (fun n => negb (existsb (str_eqb n) defs)) spreads.

Definition undefined_msg (n : str) : str := s "Fragment '" ++ n ++ s "' is not defined".

Definition emit_of (r : rresult) : eresult :=
  match r with
  | RErr m => EErr m
  | ROk defs spreads js =>
      match first_undefined defs spreads with
      | Some n => EErr (undefined_msg n)
      | None => EOk js
      end
  end.

Definition staged_emit (resolve_o : str -> list (str * str) -> rresult) : str -> list (str * str) -> eresult :=
  fun root fs => emit_of (resolve_o root fs).
