(** C19 — ghost model of the manual ownership of source buffers (definitions only).

    What the code does (tasks.rs [register_file] / [Drop for Task], main.rs [read_str_ptr]):
    - [read_str_ptr] copies the caller's bytes into a fresh [String] ([slice.to_vec()]: capacity =
      length);
    - [register_file] records [(ptr, len, capacity)] of that [String], turns it into a boxed str
      ([into_boxed_str] shrinks — i.e. may REALLOCATE — when capacity > length), leaks it, pushes
      the recorded triple on [source_drop_list], parses the leaked text (the document BORROWS it)
      and, on success, stores the document under the file name (a replaced document is dropped,
      its buffer stays listed);
    - dropping a [Task] first clears the documents, then rebuilds a [String] from every recorded
      triple and drops it ([dealloc(ptr, capacity)]).
    A task is dropped by [free_task], by a failing [initiate_task], and at thread exit.

    The ghost heap: allocation ids come from a counter (a fresh id per allocation: that is the
    allocator's contract, the trusted part); [gh_sizes] remembers every allocation's size and
    the task it was made for, [gh_freed] the ids deallocated so far.  Faults are recorded, not
    fatal: deallocating an id that is already freed or was never allocated, deallocating with a
    size other than the allocated one, reading a document whose buffer is freed.

    [slack] = capacity - length of the strings [read_str_ptr] returns.  The code has slack 0;
    the parameter exists to show that the safety theorem depends on it (C19/GhostProofs.v:
    [ghost_unsafe_with_slack]). *)
From V Require Import Base.Util C20.Model C19.Model.

Definition utf8_len (x : str) : N :=
  fold_right (fun c a => ((if c <? 128 then 1 else if c <? 2048 then 2 else if c <? 65536 then 3 else 4) + a)%N) 0%N x.

Inductive fault := BadFree (b : N) | WrongLayout (b : N) | UseAfterFree (b : N).

Record gtask := mkGT {
  g_borrows : list (str * N);          (* file key |-> buffer its document borrows *)
  g_drops : list (N * N * N)           (* source_drop_list: (buffer, len, capacity) *)
}.

Record ghost := mkGhost {
  gh_next : N;
  gh_sizes : list (N * (N * N));       (* id |-> (allocated size, owner tag), newest first *)
  gh_freed : list N;
  gh_tasks : list (N * gtask);
  gh_faults : list fault
}.

Definition ghost_init : ghost := mkGhost 0 [] [] [] [].

Fixpoint size_of (b : N) (l : list (N * (N * N))) : option (N * N) :=
  match l with [] => None | (k, v) :: r => if N.eqb k b then Some v else size_of b r end.

Definition is_freed (b : N) (gh : ghost) : bool := existsb (N.eqb b) (gh_freed gh).

Definition alloc (gh : ghost) (size owner : N) : N * ghost :=
  (gh_next gh,
   mkGhost (N.succ (gh_next gh)) ((gh_next gh, (size, owner)) :: gh_sizes gh) (gh_freed gh) (gh_tasks gh) (gh_faults gh)).

Definition add_fault (gh : ghost) (f : fault) : ghost :=
  mkGhost (gh_next gh) (gh_sizes gh) (gh_freed gh) (gh_tasks gh) (gh_faults gh ++ [f]).

(** [dealloc(ptr, size)] *)
Definition dealloc (gh : ghost) (b size : N) : ghost :=
  match size_of b (gh_sizes gh) with
  | None => add_fault gh (BadFree b)
  | Some (sz, _) =>
      if is_freed b gh then add_fault gh (BadFree b)
      else
        let gh' := mkGhost (gh_next gh) (gh_sizes gh) (b :: gh_freed gh) (gh_tasks gh) (gh_faults gh) in
        if N.eqb sz size then gh' else add_fault gh' (WrongLayout b)
  end.

Definition use (gh : ghost) (b : N) : ghost :=
  if is_freed b gh then add_fault gh (UseAfterFree b) else gh.

Fixpoint g_find (t : N) (l : list (N * gtask)) : option gtask :=
  match l with [] => None | (k, x) :: r => if N.eqb k t then Some x else g_find t r end.
Fixpoint g_set (t : N) (x : gtask) (l : list (N * gtask)) : list (N * gtask) :=
  match l with [] => [] | (k, y) :: r => if N.eqb k t then (k, x) :: r else (k, y) :: g_set t x r end.
Fixpoint g_remove (t : N) (l : list (N * gtask)) : list (N * gtask) :=
  match l with [] => [] | (k, y) :: r => if N.eqb k t then g_remove t r else (k, y) :: g_remove t r end.

Fixpoint b_insert (f : str) (b : N) (l : list (str * N)) : list (str * N) :=
  match l with
  | [] => [(f, b)]
  | (k, v) :: r => if path_eqb k f then (k, b) :: r else (k, v) :: b_insert f b r
  end.

Definition with_tasks (gh : ghost) (ts : list (N * gtask)) : ghost :=
  mkGhost (gh_next gh) (gh_sizes gh) (gh_freed gh) ts (gh_faults gh).

Section G.
  Variable slack : N.
  Variable parse_o : str -> presult.

  (** read_str_ptr + Task::register_file for the task tagged [owner] *)
  Definition g_register (gh : ghost) (owner : N) (gt : gtask) (f src : str) : ghost * gtask :=
    let len := utf8_len src in
    let cap := (len + slack)%N in
    let '(b, gh1) := alloc gh cap owner in                      (* String from read_str_ptr *)
    let raw := (b, len, cap) in                                 (* as_mut_ptr, len, capacity *)
    let '(b', gh2) :=                                           (* into_boxed_str *)
      if N.eqb cap len then (b, gh1)
      else alloc (dealloc gh1 b cap) len owner in               (* realloc: modelled as a move *)
    let gt1 := mkGT (g_borrows gt) (g_drops gt ++ [raw]) in     (* leak; push raw_parts *)
    match parse_o src with
    | POk _ => (gh2, mkGT (b_insert f b' (g_borrows gt1)) (g_drops gt1))
    | _ => (gh2, gt1)
    end.

  (** Drop for Task: documents first, then every recorded triple *)
  Definition g_drop (gh : ghost) (gt : gtask) : ghost :=
    fold_left (fun g r => dealloc g (fst (fst r)) (snd r)) (g_drops gt) gh.

  (** reading the documents of a task *)
  Definition g_use (gh : ghost) (gt : gtask) : ghost :=
    fold_left (fun g kb => use g (snd kb)) (g_borrows gt) gh.

  (** the ghost effect of one call made in functional state [st] (ghost and functional state are
      stepped side by side by [grun]) *)
  Definition gstep (st : lstate) (gh : ghost) (c : call) : ghost :=
    match c with
    | Initiate f src =>
        let '(gh1, gt) := g_register gh (next_id st) (mkGT [] []) f src in
        match parse_o src with
        | POk _ => with_tasks gh1 (gh_tasks gh1 ++ [(next_id st, gt)])
        | _ => g_drop gh1 gt                                     (* `?` drops the task *)
        end
    | Required t => match g_find t (gh_tasks gh) with Some gt => g_use gh gt | None => gh end
    | Load t f src =>
        match g_find t (gh_tasks gh) with
        | Some gt => let '(gh1, gt') := g_register gh t gt f src in with_tasks gh1 (g_set t gt' (gh_tasks gh1))
        | None => gh          (* the two Strings are ordinary owned values, dropped normally *)
        end
    | Emit t => match g_find t (gh_tasks gh) with Some gt => g_use gh gt | None => gh end
    | Free t =>
        match g_find t (gh_tasks gh) with
        | Some gt => let gh1 := g_drop gh gt in with_tasks gh1 (g_remove t (gh_tasks gh1))
        | None => gh
        end
    | ReadResult => gh
    end.

  Variable emit_o : str -> list (str * str) -> eresult.

  (** ghost after a history (the functional state decides where the process dies) *)
  Fixpoint grun (st : lstate) (gh : ghost) (h : list call) : ghost :=
    match h with
    | [] => gh
    | c :: r =>
        match fst (step parse_o emit_o st c) with
        | Some st' => grun st' (gstep st gh c) r
        | None => gh                                             (* process gone: nothing is freed by us *)
        end
    end.

  (** thread exit: TASKS is dropped, so every remaining task is *)
  Definition g_exit (gh : ghost) : ghost :=
    fold_left (fun g kt => g_drop g (snd kt)) (gh_tasks gh) gh.
End G.
