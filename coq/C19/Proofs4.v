(** C19 — proofs, part 4: isolation.  At the protocol level of loader-core the (call, response)
    pairs about a task in ANY history over any number of tasks are exactly what a fresh
    single-task instance answers to that task's calls. *)
From V Require Import Base.Util C20.Model C19.Model C19.Spec C19.Proofs.

Section P.
  Variable parse_o : str -> presult.
  Variable emit_o : str -> list (str * str) -> eresult.
  Notation step := (step parse_o emit_o).
  Notation api_step := (api_step parse_o emit_o).
  Notation api_run := (api_run parse_o emit_o).
  Notation register := (register parse_o).

  Variable t : N.
  Hypothesis t_pos : (0 < t)%N.

  (** global state [st] vs. the single-task instance [s1] *)
  Record Sim (st s1 : lstate) : Prop := mkSim {
    S_wf : wf st;
    S_wf1 : wf s1;
    S_view : find_task t (tasks st) = find_task 1 (tasks s1);
    S_phase : ((next_id st <= t)%N /\ next_id s1 = 1%N /\ tasks s1 = [])
              \/ ((t < next_id st)%N /\ next_id s1 = 2%N)
  }.

  Lemma Sim_init : Sim init_state init_state.
  Proof.
    constructor; try apply wf_init.
    - reflexivity.
    - left. cbn. repeat split. lia.
  Qed.

  Lemma Sim_result st s1 v w : Sim st s1 -> Sim (set_result st v) (set_result s1 w).
  Proof. intros [H1 H2 H3 H4]. constructor; cbn; auto. Qed.

  Lemma Sim_result_l st s1 v : Sim st s1 -> Sim (set_result st v) s1.
  Proof. intros [H1 H2 H3 H4]. constructor; cbn; auto. Qed.

  Definition osim (o o1 : option lstate) : Prop :=
    match o, o1 with
    | Some a, Some b => Sim a b
    | None, None => True
    | _, _ => False
    end.

  Lemma api_about st s1 c o x :
    Sim st s1 -> about t c x = true -> api_step st c = (o, x) ->
    exists o1, api_step s1 (ren_call c) = (o1, ren_resp x) /\ osim o o1.
  Proof.
    intros HS Hab H. pose proof HS as [Hwf Hwf1 Hview Hph].
    destruct c; cbn [about] in Hab.
    - (* AInitiate returning t *)
      cbn [Model.api_step Model.step] in H. cbn [ren_call Model.api_step Model.step].
      unfold register in *. destruct (parse_o src) eqn:Ep; cbn in H.
      + inversion H; subst. discriminate.
      + inversion H; subst. discriminate.
      + destruct Hwf as [Hp Hk].
        destruct (N.eqb (next_id st) 0) eqn:E0; [apply N.eqb_eq in E0; lia|].
        inversion H; subst; clear H. apply N.eqb_eq in Hab.
        destruct Hph as [[Hle [Hn1 Ht1]]|[Hlt _]]; [|lia].
        rewrite Hn1, Ht1. cbn. eexists. split; [reflexivity|]. cbn [osim].
        constructor; cbn.
        * split; cbn; [lia|]. apply Forall_app. split.
          -- eapply keys_ok_mono; [|exact Hk]. lia.
          -- constructor; [cbn; lia|constructor].
        * split; cbn; [lia|]. constructor; [cbn; lia|constructor].
        * rewrite find_app, (find_ge _ _ _ Hk Hle), Hab, N.eqb_refl. reflexivity.
        * right. split; [lia|reflexivity].
    - (* ARequired t *)
      apply N.eqb_eq in Hab; subst t0.
      cbn [Model.api_step Model.step] in H. cbn [ren_call Model.api_step Model.step].
      rewrite <- Hview. destruct (find_task t (tasks st)) as [y|]; cbn in H |- *;
        inversion H; subst; clear H; (eexists; split; [reflexivity|]); cbn; now apply Sim_result.
    - (* ALoad t *)
      apply N.eqb_eq in Hab; subst t0.
      cbn [Model.api_step Model.step] in H. cbn [ren_call Model.api_step Model.step].
      rewrite <- Hview. destruct (find_task t (tasks st)) as [y|] eqn:Ef; cbn in H |- *.
      + unfold register in *. destruct (parse_o src) eqn:Ep; cbn in H |- *; inversion H; subst; clear H.
        * eexists. split; [reflexivity|exact I].
        * eexists. split; [reflexivity|]. cbn. now apply Sim_result.
        * eexists. split; [reflexivity|]. cbn. destruct Hwf as [Hp Hk], Hwf1 as [Hp1 Hk1].
          constructor; cbn.
          -- split; cbn; [assumption|now apply keys_ok_set].
          -- split; cbn; [assumption|now apply keys_ok_set].
          -- now rewrite !find_set_same, <- Hview, Ef.
          -- destruct Hph as [[? [? Ht1]]|?]; [|now right].
             rewrite Ht1 in Hview. cbn in Hview. congruence.
      + inversion H; subst; clear H. eexists. split; [reflexivity|]. cbn. now apply Sim_result.
    - (* AEmit t *)
      apply N.eqb_eq in Hab; subst t0.
      cbn [Model.api_step Model.step] in H. cbn [ren_call Model.api_step Model.step].
      rewrite <- Hview. destruct (find_task t (tasks st)) as [y|]; cbn in H |- *.
      + destruct (emit_o (t_root y) (t_files y)); cbn in H |- *; inversion H; subst; clear H;
          (eexists; split; [reflexivity|]); cbn; try exact I; now apply Sim_result.
      + inversion H; subst; clear H. eexists. split; [reflexivity|]. cbn. now apply Sim_result.
    - (* AFree t *)
      apply N.eqb_eq in Hab; subst t0.
      cbn [Model.api_step Model.step] in H. cbn [ren_call Model.api_step Model.step].
      inversion H; subst; clear H. eexists. split; [reflexivity|]. cbn.
      destruct Hwf as [Hp Hk], Hwf1 as [Hp1 Hk1]. constructor; cbn.
      + split; cbn; [assumption|now apply keys_ok_remove].
      + split; cbn; [assumption|now apply keys_ok_remove].
      + now rewrite !find_remove_same.
      + destruct Hph as [[? [? Ht1]]|?]; [|now right]. left. rewrite Ht1. cbn. auto.
  Qed.

  Lemma api_frame st s1 c st' x :
    Sim st s1 -> about t c x = false -> api_step st c = (Some st', x) -> Sim st' s1.
  Proof.
    intros HS Hab H. pose proof HS as [Hwf Hwf1 Hview Hph].
    destruct c; cbn [about] in Hab.
    - cbn [Model.api_step Model.step] in H. unfold register in *.
      destruct (parse_o src) eqn:Ep; cbn in H.
      + inversion H.
      + inversion H; subst; clear H. now apply Sim_result_l.
      + destruct Hwf as [Hp Hk].
        destruct (N.eqb (next_id st) 0) eqn:E0; [apply N.eqb_eq in E0; lia|].
        inversion H; subst; clear H. apply N.eqb_neq in Hab.
        constructor; cbn.
        * split; cbn; [lia|]. apply Forall_app. split.
          -- eapply keys_ok_mono; [|exact Hk]. lia.
          -- constructor; [cbn; lia|constructor].
        * assumption.
        * rewrite find_app, <- Hview. destruct (find_task t (tasks st)); [reflexivity|].
          destruct (N.eqb (next_id st) t) eqn:E; [apply N.eqb_eq in E; congruence|reflexivity].
        * destruct Hph as [[Hle ?]|[Hlt ?]]; [left|right]; (split; [lia|assumption]).
    - cbn [Model.api_step Model.step] in H.
      destruct (find_task t0 (tasks st)) as [y|]; cbn in H; inversion H; subst; now apply Sim_result_l.
    - apply N.eqb_neq in Hab. cbn [Model.api_step Model.step] in H.
      destruct (find_task t0 (tasks st)) as [y|] eqn:Ef; cbn in H.
      + unfold register in *. destruct (parse_o src) eqn:Ep; cbn in H; inversion H; subst; clear H.
        * now apply Sim_result_l.
        * destruct Hwf as [Hp Hk]. constructor; cbn; auto.
          -- split; cbn; [assumption|now apply keys_ok_set].
          -- rewrite find_set_other by congruence. assumption.
      + inversion H; subst; now apply Sim_result_l.
    - cbn [Model.api_step Model.step] in H.
      destruct (find_task t0 (tasks st)) as [y|]; cbn in H.
      + destruct (emit_o (t_root y) (t_files y)); cbn in H; inversion H; subst; now apply Sim_result_l.
      + inversion H; subst; now apply Sim_result_l.
    - apply N.eqb_neq in Hab. cbn [Model.api_step Model.step] in H. inversion H; subst; clear H.
      destruct Hwf as [Hp Hk]. constructor; cbn; auto.
      + split; cbn; [assumption|now apply keys_ok_remove].
      + rewrite find_remove_other by congruence. assumption.
  Qed.

  Lemma iso_gen h : forall st s1, Sim st s1 ->
    api_run s1 (map fst (proj t h (api_run st h))) = map snd (proj t h (api_run st h)).
  Proof.
    induction h as [|c r IH]; intros st s1 HS; [reflexivity|].
    cbn [Model.api_run]. destruct (api_step st c) as [[st'|] x] eqn:E; cbn [proj].
    - destruct (about t c x) eqn:Ea.
      + destruct (api_about _ _ _ _ _ HS Ea E) as [o1 [E1 Ho]].
        destruct o1 as [s1'|]; [|contradiction]. cbn [map fst snd Model.api_run]. rewrite E1.
        f_equal. now apply IH.
      + apply IH. eapply api_frame; eauto.
    - assert (Hnil : proj t r [] = []) by (destruct r; reflexivity). rewrite Hnil.
      destruct (about t c x) eqn:Ea; [|reflexivity].
      destruct (api_about _ _ _ _ _ HS Ea E) as [o1 [E1 Ho]].
      destruct o1 as [s1'|]; [contradiction|]. cbn [map fst snd Model.api_run]. now rewrite E1.
  Qed.

  Lemma isolation h :
    let rs := api_run init_state h in
    api_run init_state (map fst (proj t h rs)) = map snd (proj t h rs).
  Proof. cbn. apply iso_gen. apply Sim_init. Qed.
End P.
