(** C19 — proofs, part 3: every history of the model passes the executable specification
    (C19/Spec.v: [spec_check]), i.e. the model refines the per-task abstract machine. *)
From V Require Import Base.Util C20.Model C19.Model C19.Spec C19.Proofs C19.Proofs2.

Definition to_a (x : task) : atask := mkA (t_root x) (t_files x).

Lemma a_find_app t l k x :
  a_find t (l ++ [(k, x)]) =
  match a_find t l with Some y => Some y | None => if N.eqb k t then Some x else None end.
Proof.
  induction l as [|[k' y] r IH]; cbn; [reflexivity|]. destruct (N.eqb k' t); [reflexivity|exact IH].
Qed.

Lemma a_find_set_same t x l :
  a_find t (a_set t x l) = match a_find t l with Some _ => Some x | None => None end.
Proof.
  induction l as [|[k y] r IH]; cbn; [reflexivity|].
  destruct (N.eqb k t) eqn:E; cbn; rewrite E; [reflexivity|exact IH].
Qed.

Lemma a_find_set_other t t' x l : t <> t' -> a_find t (a_set t' x l) = a_find t l.
Proof.
  intros Hn. induction l as [|[k y] r IH]; cbn; [reflexivity|].
  destruct (N.eqb k t') eqn:E; cbn.
  - apply N.eqb_eq in E; subst k. destruct (N.eqb t' t) eqn:E2; [apply N.eqb_eq in E2; congruence|exact IH].
  - destruct (N.eqb k t); [reflexivity|exact IH].
Qed.

Lemma a_find_remove_same t l : a_find t (a_remove t l) = None.
Proof.
  induction l as [|[k y] r IH]; cbn; [reflexivity|].
  destruct (N.eqb k t) eqn:E; cbn; [exact IH|]. rewrite E. exact IH.
Qed.

Lemma a_find_remove_other t t' l : t <> t' -> a_find t (a_remove t' l) = a_find t l.
Proof.
  intros Hn. induction l as [|[k y] r IH]; cbn; [reflexivity|].
  destruct (N.eqb k t') eqn:E; cbn.
  - apply N.eqb_eq in E; subst k. destruct (N.eqb t' t) eqn:E2; [apply N.eqb_eq in E2; congruence|exact IH].
  - destruct (N.eqb k t); [reflexivity|exact IH].
Qed.

Lemma m_supply_insert f src m : m_supply f src m = insert_file f src m.
Proof. induction m as [|[k v] r IH]; cbn; [reflexivity|]. now rewrite IH. Qed.

Definition last_rel (r : option rval) (e : expect) : Prop :=
  match r, e with
  | None, XNone => True
  | Some (VText m), XText m' => m = m'
  | Some (VFiles l), XFiles l' => nodup_path l = true /\ same_set l l' = true
  | _, _ => False
  end.

Record Rel (st : lstate) (ss : sstate) : Prop := mkRel {
  R_wf : wf st;
  R_live : forall t, a_find t (s_live ss) = option_map to_a (find_task t (tasks st));
  R_issued : Forall (fun t => (t < next_id st)%N) (s_issued ss);
  R_last : last_rel (result st) (s_last ss)
}.

Lemma Rel_init : Rel init_state s_init.
Proof. constructor; [apply wf_init|reflexivity|constructor|exact I]. Qed.

Section P.
  Variable parse_o : str -> presult.
  Variable emit_o : str -> list (str * str) -> eresult.
  Notation step := (step parse_o emit_o).
  Notation run := (run parse_o emit_o).
  Notation scheck := (scheck parse_o emit_o).
  Notation trap_ok := (trap_ok parse_o emit_o).
  Notation spec_check := (spec_check parse_o emit_o).

  (** neither oracle ever panics *)
  Definition total : Prop := (forall src, parse_o src <> PTrap) /\ (forall r fs, emit_o r fs <> ETrap).

  Lemma Rel_set_text st ss m : Rel st ss -> Rel (set_result st (VText m)) (with_last ss (XText m)).
  Proof. intros [H1 H2 H3 H4]. constructor; cbn; auto. Qed.

  Lemma not_issued n l : Forall (fun t => (t < n)%N) l -> existsb (N.eqb n) l = false.
  Proof.
    induction 1 as [|t r Ht _ IH]; cbn; [reflexivity|].
    rewrite IH, orb_false_r. apply N.eqb_neq. lia.
  Qed.

  Lemma step_ok tol st ss c o x :
    Rel st ss -> tol = true \/ total -> step st c = (o, x) ->
    match o with
    | Some st' => x <> Trap /\ exists ss', scheck ss c x = Some ss' /\ Rel st' ss'
    | None => x = Trap /\ trap_ok tol ss c = true
    end.
  Proof.
    intros HR Htol H. pose proof HR as [Hwf Hlive Hiss Hlast].
    destruct c; cbn [Model.step] in H.
    - (* Initiate *)
      unfold register in H. cbn [Spec.scheck Spec.trap_ok].
      destruct (parse_o src) eqn:Ep.
      + inversion H; subst. split; [reflexivity|].
        destruct Htol as [->|[Ht _]]; [reflexivity|]. now apply Ht in Ep.
      + inversion H; subst. split; [discriminate|]. eexists. split; [reflexivity|].
        now apply Rel_set_text.
      + inversion H; subst; clear H. split; [discriminate|].
        destruct Hwf as [Hp Hk].
        assert (E0 : N.eqb (next_id st) 0 = false) by (apply N.eqb_neq; lia).
        rewrite E0, (not_issued _ _ Hiss). cbn [orb]. eexists. split; [reflexivity|].
        constructor; cbn.
        * eapply (wf_step parse_o emit_o st (Initiate f src)); [split; eassumption|].
          cbn [Model.step]. unfold register. rewrite Ep. reflexivity.
        * intros t. rewrite a_find_app, find_app, Hlive.
          destruct (find_task t (tasks st)); cbn; [reflexivity|].
          destruct (N.eqb (next_id st) t); reflexivity.
        * constructor; [lia|]. eapply Forall_impl; [|exact Hiss]. cbn. intros; lia.
        * exact Hlast.
    - (* Required *)
      cbn [Spec.scheck Spec.trap_ok]. rewrite Hlive.
      destruct (find_task t (tasks st)) as [y|] eqn:Ef; inversion H; subst; clear H; cbn [option_map].
      + split; [discriminate|]. eexists. split; [reflexivity|].
        constructor; cbn; auto. split; [apply required_nodup|apply required_same_set].
      + split; [discriminate|]. eexists. split; [reflexivity|]. now apply Rel_set_text.
    - (* Load *)
      cbn [Spec.scheck Spec.trap_ok]. rewrite Hlive.
      destruct (find_task t (tasks st)) as [y|] eqn:Ef; cbn [option_map].
      + unfold register in H. destruct (parse_o src) eqn:Ep; inversion H; subst; clear H.
        * split; [reflexivity|]. destruct Htol as [->|[Ht _]]; [reflexivity|]. now apply Ht in Ep.
        * split; [discriminate|]. eexists. split; [reflexivity|]. now apply Rel_set_text.
        * split; [discriminate|]. eexists. split; [reflexivity|].
          constructor; cbn.
          -- destruct Hwf as [Hp Hk]. split; cbn; [assumption|now apply keys_ok_set].
          -- intros t0. destruct (N.eq_dec t0 t) as [->|Hn].
             ++ rewrite a_find_set_same, find_set_same, Hlive, Ef. cbn.
                unfold to_a. cbn. now rewrite m_supply_insert.
             ++ rewrite a_find_set_other, find_set_other by assumption. apply Hlive.
          -- exact Hiss.
          -- exact Hlast.
      + inversion H; subst; clear H. split; [discriminate|]. eexists. split; [reflexivity|].
        now apply Rel_set_text.
    - (* Emit *)
      cbn [Spec.scheck Spec.trap_ok]. rewrite Hlive.
      destruct (find_task t (tasks st)) as [y|] eqn:Ef; cbn [option_map].
      + cbn [to_a a_root a_map]. destruct (emit_o (t_root y) (t_files y)) eqn:Ee; inversion H; subst; clear H.
        * split; [reflexivity|]. destruct Htol as [->|[_ Ht]]; [reflexivity|]. now apply Ht in Ee.
        * split; [discriminate|]. eexists. split; [reflexivity|]. now apply Rel_set_text.
        * split; [discriminate|]. eexists. split; [reflexivity|]. now apply Rel_set_text.
      + inversion H; subst; clear H. split; [discriminate|]. eexists. split; [reflexivity|].
        now apply Rel_set_text.
    - (* Free *)
      inversion H; subst; clear H. split; [discriminate|]. cbn [Spec.scheck]. eexists. split; [reflexivity|].
      constructor; cbn.
      + destruct Hwf as [Hp Hk]. split; cbn; [assumption|now apply keys_ok_remove].
      + intros t0. destruct (N.eq_dec t0 t) as [->|Hn].
        * now rewrite a_find_remove_same, find_remove_same.
        * rewrite a_find_remove_other, find_remove_other by assumption. apply Hlive.
      + exact Hiss.
      + exact Hlast.
    - (* ReadResult *)
      cbn [Spec.scheck Spec.trap_ok]. unfold last_rel in Hlast.
      destruct (result st) as [[m|l]|] eqn:Er; inversion H; subst; clear H.
      + destruct (s_last ss) eqn:El; try contradiction. subst m0.
        split; [discriminate|]. exists ss. split; [|assumption]. cbn. now rewrite str_eqb_refl.
      + destruct (s_last ss) eqn:El; try contradiction. destruct Hlast as [Hn Hs].
        split; [discriminate|]. exists ss. split; [|assumption]. cbn. now rewrite Hn, Hs.
      + destruct (s_last ss) eqn:El; try contradiction. split; reflexivity.
  Qed.

  Lemma meets tol h : forall st ss,
    Rel st ss -> tol = true \/ total -> spec_check tol ss h (run st h) = true.
  Proof.
    induction h as [|c r IH]; intros st ss HR Htol; [reflexivity|].
    cbn [Model.run]. destruct (step st c) as [[st'|] x] eqn:E.
    - destruct (step_ok tol _ _ _ _ _ HR Htol E) as [Hx [ss' [Hs HR']]].
      cbn [Spec.spec_check]. rewrite Hs.
      destruct x; try congruence; try (now apply IH);
        destruct (run st' r); now apply IH.
    - destruct (step_ok tol _ _ _ _ _ HR Htol E) as [-> Ht]. cbn [Spec.spec_check]. exact Ht.
  Qed.

  (** Every history's responses pass the specification, up to traps explained by an oracle trap. *)
  Lemma model_meets_spec_tol h : spec_check true s_init h (run init_state h) = true.
  Proof. apply meets; [apply Rel_init|now left]. Qed.

  (** With a parser/printer that never panic, every history passes the property itself. *)
  Lemma model_meets_spec h : total -> spec_check false s_init h (run init_state h) = true.
  Proof. intros Ht. apply meets; [apply Rel_init|now right]. Qed.
End P.
