(** C19 — the property, written from its text as an executable check of a trace
    (calls + the responses some implementation gave), independent of C19/Model.v's [step].

    Per-task abstract state = (root file, map file |-> source last supplied successfully to
    THAT task).  The check threads, for every task id the implementation has handed out, that
    abstract state, and demands of every response:

    - initiate(f,src): a source that does not parse gives id 0 (and stores the error text);
      otherwise a non-zero id that was never handed out before;
    - required(t), load(t,..), emit(t) on an id that is not live (never issued, or freed):
      [false] and the stored result is "Task not found" — an error result, not a trap;
    - required(t) on a live task: [true], and the stored result read back is, as a set, exactly
      the import targets of the task's loaded files that have not been supplied to it;
    - load(t,f,src) on a live task: [true] iff src parses (then f |-> src), else the error text;
    - emit(t) on a live task: what a fresh task given the same root and files produces
      ([emit_o root files]: the oracle is by construction a function of the task's own files);
    - a read returns the last stored result;
    - no call traps.  (Reading RESULT before anything was ever stored is outside the protocol
      and is not judged.)

    [tol = true] additionally tolerates a trap that is explained by an oracle trapping (the
    parser or the printer panicking on the task's own files); [tol = false] is the property. *)
From V Require Import Base.Util C20.Model C19.Model.

Inductive expect := XNone | XText (m : str) | XFiles (l : list str).

Record atask := mkA { a_root : str; a_map : list (str * str) }.

Record sstate := mkS {
  s_issued : list N;
  s_live : list (N * atask);
  s_last : expect
}.

Definition s_init : sstate := mkS [] [] XNone.

Fixpoint a_find (t : N) (l : list (N * atask)) : option atask :=
  match l with [] => None | (k, x) :: r => if N.eqb k t then Some x else a_find t r end.

Definition a_remove (t : N) (l : list (N * atask)) : list (N * atask) :=
  filter (fun kx => negb (N.eqb (fst kx) t)) l.

Definition a_set (t : N) (x : atask) (l : list (N * atask)) : list (N * atask) :=
  map (fun kx => if N.eqb (fst kx) t then (fst kx, x) else kx) l.

(** f |-> src in a map keyed by paths (first spelling of a path is kept) *)
Fixpoint m_supply (f src : str) (m : list (str * str)) : list (str * str) :=
  match m with
  | [] => [(f, src)]
  | (k, v) :: r => if path_eqb k f then (k, src) :: r else (k, v) :: m_supply f src r
  end.

Definition m_has (f : str) (m : list (str * str)) : bool := existsb (fun kv => path_eqb (fst kv) f) m.

(** lists of paths are compared as sets of paths ([PathBuf] equality = equality of components) *)
Fixpoint nodup_path (l : list str) : bool :=
  match l with [] => true | x :: r => negb (mem_path x r) && nodup_path r end.

Definition NL : N := 10.

(** Rust's [str::split('\n')] *)
Fixpoint split_nl (x : str) : list str :=
  match x with
  | [] => [[]]
  | c :: r =>
      if N.eqb c NL then [] :: split_nl r
      else match split_nl r with [] => [[c]] | seg :: segs => (c :: seg) :: segs end
  end.

(** what [Vec<String>::join("\n")] of [l] splits back into *)
Definition lines_of (l : list str) : list str := match l with [] => [[]] | _ => l end.

Section Spec.
  Variable parse_o : str -> presult.
  Variable emit_o : str -> list (str * str) -> eresult.

  Definition targets_of (m : list (str * str)) : list str :=
    flat_map (fun kv => match parse_o (snd kv) with
                        | POk imps => map (resolve_s (fst kv)) imps
                        | _ => [] end) m.

  (** the not-yet-supplied import targets of the loaded files *)
  Definition unsupplied (m : list (str * str)) : list str :=
    filter (fun p => negb (m_has p m)) (targets_of m).

  Definition same_set (a b : list str) : bool :=
    forallb (fun x => mem_path x b) a && forallb (fun x => mem_path x a) b.

  Definition read_ok (e : expect) (x : resp) : bool :=
    match e, x with
    | XNone, _ => true
    | XText m, RStr v => str_eqb m v
    | XFiles l, RStr v =>
        let got := split_nl v in
        match l with
        | [] => list_eqb str_eqb got [[]]
        | _ => nodup_path got && same_set got l
        end
    | XFiles l, RFiles got => nodup_path got && same_set got l    (* the model's own form *)
    | _, _ => false
    end.

  Definition with_last (ss : sstate) (e : expect) : sstate := mkS (s_issued ss) (s_live ss) e.

  (** one (call, non-trap response) pair; [None] = the property is violated here *)
  Definition scheck (ss : sstate) (c : call) (x : resp) : option sstate :=
    match c with
    | Initiate f src =>
        match parse_o src, x with
        | POk _, RId t =>
            if N.eqb t 0 || existsb (N.eqb t) (s_issued ss) then None
            else Some (mkS (t :: s_issued ss) (s_live ss ++ [(t, mkA f [(f, src)])]) (s_last ss))
        | PErr m, RId t => if N.eqb t 0 then Some (with_last ss (XText m)) else None
        | _, _ => None
        end
    | Required t =>
        match a_find t (s_live ss), x with
        | None, RBool false => Some (with_last ss (XText TASK_NOT_FOUND))
        | Some a, RBool true => Some (with_last ss (XFiles (unsupplied (a_map a))))
        | _, _ => None
        end
    | Load t f src =>
        match a_find t (s_live ss), x with
        | None, RBool false => Some (with_last ss (XText TASK_NOT_FOUND))
        | Some a, RBool b =>
            match parse_o src with
            | POk _ => if b then Some (mkS (s_issued ss) (a_set t (mkA (a_root a) (m_supply f src (a_map a))) (s_live ss)) (s_last ss))
                       else None
            | PErr m => if b then None else Some (with_last ss (XText m))
            | PTrap => None
            end
        | _, _ => None
        end
    | Emit t =>
        match a_find t (s_live ss), x with
        | None, RBool false => Some (with_last ss (XText TASK_NOT_FOUND))
        | Some a, RBool b =>
            match emit_o (a_root a) (a_map a) with
            | EOk js => if b then Some (with_last ss (XText js)) else None
            | EErr m => if b then None else Some (with_last ss (XText m))
            | ETrap => None
            end
        | _, _ => None
        end
    | Free t =>
        match x with
        | RUnit => Some (mkS (s_issued ss) (a_remove t (s_live ss)) (s_last ss))
        | _ => None
        end
    | ReadResult => if read_ok (s_last ss) x then Some ss else None
    end.

  (** is a trap at call [c] acceptable? *)
  Definition trap_ok (tol : bool) (ss : sstate) (c : call) : bool :=
    match c with
    | ReadResult => match s_last ss with XNone => true | _ => false end
    | Initiate f src => tol && match parse_o src with PTrap => true | _ => false end
    | Load t f src =>
        tol && match a_find t (s_live ss), parse_o src with Some _, PTrap => true | _, _ => false end
    | Emit t =>
        tol && match a_find t (s_live ss) with
               | Some a => match emit_o (a_root a) (a_map a) with ETrap => true | _ => false end
               | None => false
               end
    | _ => false
    end.

  Fixpoint spec_check (tol : bool) (ss : sstate) (calls : list call) (resps : list resp) : bool :=
    match calls, resps with
    | [], [] => true
    | c :: _, [Trap] => trap_ok tol ss c            (* the process is gone; nothing follows *)
    | c :: cs, x :: xs =>
        match x with
        | Trap => false
        | _ => match scheck ss c x with Some ss' => spec_check tol ss' cs xs | None => false end
        end
    | _, _ => false
    end.
End Spec.

(** * Vocabulary of the isolation statement (protocol level, [Model.api_step])

    The pairs (call, response) of a run that are ABOUT task [t]: the initiate that returned [t]
    and every call addressed to [t].  [proj] keeps those pairs and re-addresses them to id 1,
    the id a fresh loader instance gives its first task. *)
Definition about (t : N) (c : acall) (x : aresp) : bool :=
  match c with
  | AInitiate _ _ => match x with AId t' => N.eqb t' t | _ => false end
  | ARequired t' | ALoad t' _ _ | AEmit t' | AFree t' => N.eqb t' t
  end.

Definition ren_call (c : acall) : acall :=
  match c with
  | AInitiate f src => AInitiate f src
  | ARequired _ => ARequired 1
  | ALoad _ f src => ALoad 1 f src
  | AEmit _ => AEmit 1
  | AFree _ => AFree 1
  end.

Definition ren_resp (x : aresp) : aresp := match x with AId _ => AId 1 | y => y end.

Fixpoint proj (t : N) (h : list acall) (rs : list aresp) : list (acall * aresp) :=
  match h, rs with
  | c :: h', x :: rs' =>
      if about t c x then (ren_call c, ren_resp x) :: proj t h' rs' else proj t h' rs'
  | _, _ => []
  end.

(** the calls that give a fresh instance the files of task [x] (root first, as initiate does) *)
Definition fresh_acalls (x : task) : list acall :=
  match t_files x with
  | [] => []
  | (_, s0) :: rest => AInitiate (t_root x) s0 :: map (fun kv => ALoad 1 (fst kv) (snd kv)) rest
  end.
