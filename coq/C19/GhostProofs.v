(** C19 — proofs about the ghost heap (C19/Ghost.v): with the capacity = length strings that
    [read_str_ptr] produces, no history makes the loader free a buffer twice, free one with a
    layout other than the allocated one, or read a document whose buffer is freed; and every
    buffer ever allocated is either freed or listed by exactly the live task it was made for. *)
From V Require Import Base.Util C20.Model C19.Model C19.Proofs C19.Ghost.

Definition ids (gt : gtask) : list N := map (fun r => fst (fst r)) (g_drops gt).
Definition mem_n (b : N) (l : list N) : bool := existsb (N.eqb b) l.

Lemma mem_n_in b l : mem_n b l = true <-> In b l.
Proof.
  unfold mem_n. rewrite existsb_exists. split.
  - intros [x [Hx He]]. apply N.eqb_eq in He. now subst.
  - intros H. exists b. split; [assumption|apply N.eqb_refl].
Qed.

Lemma mem_n_false b l : mem_n b l = false <-> ~ In b l.
Proof.
  rewrite <- mem_n_in. destruct (mem_n b l); split; intros; congruence.
Qed.

Lemma NoDup_app_snoc {A} (l : list A) x : NoDup l -> ~ In x l -> NoDup (l ++ [x]).
Proof.
  induction l as [|y r IH]; cbn; intros Hn Hx.
  - constructor; [intros []|constructor].
  - inversion Hn as [|? ? Hy Hr]; subst. constructor.
    + intros Hin. apply in_app_or in Hin as [?|[<-|[]]]; [contradiction|]. apply Hx. now left.
    + apply IH; [assumption|]. intros Hin. apply Hx. now right.
Qed.

(** * lookups in the ghost task table *)
Lemma g_find_set_same t x l :
  g_find t (g_set t x l) = match g_find t l with Some _ => Some x | None => None end.
Proof.
  induction l as [|[k y] r IH]; cbn; [reflexivity|].
  destruct (N.eqb k t) eqn:E; cbn; rewrite E; [reflexivity|exact IH].
Qed.
Lemma g_find_set_other t t' x l : t <> t' -> g_find t (g_set t' x l) = g_find t l.
Proof.
  intros Hn. induction l as [|[k y] r IH]; cbn; [reflexivity|].
  destruct (N.eqb k t') eqn:E; cbn.
  - apply N.eqb_eq in E; subst k. destruct (N.eqb t' t) eqn:E2; [apply N.eqb_eq in E2; congruence|reflexivity].
  - destruct (N.eqb k t); [reflexivity|exact IH].
Qed.
Lemma g_find_remove_same t l : g_find t (g_remove t l) = None.
Proof.
  induction l as [|[k y] r IH]; cbn; [reflexivity|].
  destruct (N.eqb k t) eqn:E; [exact IH|]. cbn. rewrite E. exact IH.
Qed.
Lemma g_find_remove_other t t' l : t <> t' -> g_find t (g_remove t' l) = g_find t l.
Proof.
  intros Hn. induction l as [|[k y] r IH]; cbn; [reflexivity|].
  destruct (N.eqb k t') eqn:E.
  - apply N.eqb_eq in E; subst k. destruct (N.eqb t' t) eqn:E2; [apply N.eqb_eq in E2; congruence|exact IH].
  - cbn. destruct (N.eqb k t); [reflexivity|exact IH].
Qed.
Lemma g_find_app t l k x :
  g_find t (l ++ [(k, x)]) =
  match g_find t l with Some y => Some y | None => if N.eqb k t then Some x else None end.
Proof.
  induction l as [|[k' y] r IH]; cbn; [reflexivity|]. destruct (N.eqb k' t); [reflexivity|exact IH].
Qed.

(** * the invariant *)

Record tok (gh : ghost) (t : N) (gt : gtask) : Prop := mkTok {
  T_rec : forall b len cap, In (b, len, cap) (g_drops gt) ->
          size_of b (gh_sizes gh) = Some (cap, t) /\ is_freed b gh = false;
  T_nodup : NoDup (ids gt);
  T_borrow : forall k b, In (k, b) (g_borrows gt) -> In b (ids gt)
}.

Record GI (n : N) (gh : ghost) : Prop := mkGI {
  G_tasks : forall t gt, g_find t (gh_tasks gh) = Some gt -> tok gh t gt /\ (t < n)%N;
  G_sizes : forall b v, size_of b (gh_sizes gh) = Some v -> (b < gh_next gh)%N;
  G_freed : forall b, is_freed b gh = true -> (b < gh_next gh)%N;
  G_faults : gh_faults gh = [];
  G_noleak : forall b, (b < gh_next gh)%N ->
             is_freed b gh = true \/ exists t gt, g_find t (gh_tasks gh) = Some gt /\ In b (ids gt);
  G_keys : NoDup (map fst (gh_tasks gh))
}.

Lemma GI_init : GI 1 ghost_init.
Proof.
  constructor; cbn; try discriminate; try reflexivity.
  - intros b Hb. lia.
  - constructor.
Qed.

Lemma keys_g_set t x l : map fst (g_set t x l) = map fst l.
Proof.
  induction l as [|[k y] r IH]; cbn; [reflexivity|]. destruct (N.eqb k t); cbn; [reflexivity|now rewrite IH].
Qed.

Lemma in_keys_remove k t l : In k (map fst (g_remove t l)) -> In k (map fst l).
Proof.
  induction l as [|[k' y] r IH]; cbn; [tauto|]. destruct (N.eqb k' t); cbn; [auto|]. intros [?|?]; auto.
Qed.

Lemma nodup_keys_remove t l : NoDup (map fst l) -> NoDup (map fst (g_remove t l)).
Proof.
  induction l as [|[k y] r IH]; cbn; intros H; [constructor|].
  inversion H as [|? ? Hk Hr]; subst. destruct (N.eqb k t); cbn; [auto|].
  constructor; [|auto]. intros Hin. apply Hk. eapply in_keys_remove; eauto.
Qed.

Lemma in_find t gt l : NoDup (map fst l) -> In (t, gt) l -> g_find t l = Some gt.
Proof.
  induction l as [|[k y] r IH]; cbn; intros Hn Hin; [contradiction|].
  inversion Hn as [|? ? Hk Hr]; subst. destruct Hin as [[= -> ->]|Hin].
  - now rewrite N.eqb_refl.
  - destruct (N.eqb k t) eqn:E; [|auto]. apply N.eqb_eq in E. subst k.
    exfalso. apply Hk. apply in_map_iff. exists (t, gt). split; [reflexivity|assumption].
Qed.

Lemma g_find_in t gt l : g_find t l = Some gt -> In (t, gt) l.
Proof.
  induction l as [|[k y] r IH]; cbn; [discriminate|]. destruct (N.eqb k t) eqn:E.
  - apply N.eqb_eq in E. intros [= ->]. left. now subst.
  - intros H. right. auto.
Qed.

Lemma GI_mono n m gh : (n <= m)%N -> GI n gh -> GI m gh.
Proof.
  intros Hle [H1 H2 H3 H4 H5 H6]. constructor; auto.
  intros t gt Hf. destruct (H1 t gt Hf). split; [assumption|lia].
Qed.

Lemma in_ids b gt : In b (ids gt) -> exists len cap, In (b, len, cap) (g_drops gt).
Proof.
  unfold ids. rewrite in_map_iff. intros [[[b' len] cap] [E H]]. cbn in E. subst. eauto.
Qed.

Lemma ids_in b len cap gt : In (b, len, cap) (g_drops gt) -> In b (ids gt).
Proof. intros H. unfold ids. apply in_map_iff. exists (b, len, cap). split; [reflexivity|assumption]. Qed.

(** ** allocation *)
Lemma tok_alloc gh t gt size owner :
  (forall b v, size_of b (gh_sizes gh) = Some v -> (b < gh_next gh)%N) ->
  tok gh t gt -> tok (snd (alloc gh size owner)) t gt.
Proof.
  intros Hs [H1 H2 H3]. constructor; auto.
  intros b len cap Hin. destruct (H1 _ _ _ Hin) as [Hsz Hfr]. split; [|exact Hfr].
  cbn. destruct (N.eqb (gh_next gh) b) eqn:E; [|exact Hsz].
  apply N.eqb_eq in E. apply Hs in Hsz. lia.
Qed.

Lemma sizes_alloc gh size owner :
  (forall b v, size_of b (gh_sizes gh) = Some v -> (b < gh_next gh)%N) ->
  forall b v, size_of b ((gh_next gh, (size, owner)) :: gh_sizes gh) = Some v -> (b < N.succ (gh_next gh))%N.
Proof.
  intros Gs b v. cbn [size_of]. destruct (N.eqb (gh_next gh) b) eqn:E.
  - apply N.eqb_eq in E. intros _. lia.
  - intros Hs. apply Gs in Hs. lia.
Qed.

Lemma is_freed_with_tasks b gh ts : is_freed b (with_tasks gh ts) = is_freed b gh.
Proof. reflexivity. Qed.

Lemma b_insert_in k b0 f b l : In (k, b0) (b_insert f b l) -> b0 = b \/ In (k, b0) l.
Proof.
  induction l as [|[k' v] r IH]; cbn.
  - intros [[= <- <-]|[]]. now left.
  - destruct (path_eqb k' f); cbn.
    + intros [[= <- <-]|H]; [now left|right; now right].
    + intros [H|H]; [right; now left|]. destruct (IH H); [now left|right; now right].
Qed.

Section G.
  Variable parse_o : str -> presult.
  Variable emit_o : str -> list (str * str) -> eresult.

  (** ** register, with slack 0 *)
  Lemma register0 gh owner gt f src :
    g_register 0 parse_o gh owner gt f src =
    (snd (alloc gh (utf8_len src) owner),
     let raw := (gh_next gh, utf8_len src, utf8_len src) in
     match parse_o src with
     | POk _ => mkGT (b_insert f (gh_next gh) (g_borrows gt)) (g_drops gt ++ [raw])
     | _ => mkGT (g_borrows gt) (g_drops gt ++ [raw])
     end).
  Proof.
    unfold g_register. rewrite N.add_0_r. cbn [alloc]. rewrite N.eqb_refl. cbn.
    destruct (parse_o src); reflexivity.
  Qed.

  Lemma tok_register n gh t gt f src gh1 gt' :
    GI n gh -> tok gh t gt -> g_register 0 parse_o gh t gt f src = (gh1, gt') ->
    gh1 = snd (alloc gh (utf8_len src) t) /\ tok gh1 t gt' /\ In (gh_next gh) (ids gt')
    /\ (forall b, In b (ids gt') -> b = gh_next gh \/ In b (ids gt))
    /\ (forall b, In b (ids gt) -> In b (ids gt')).
  Proof.
    intros HG Ht. rewrite register0. intros [= <- <-]. split; [reflexivity|].
    pose proof (tok_alloc gh t gt (utf8_len src) t (G_sizes _ _ HG) Ht) as [H1 H2 H3].
    destruct Ht as [K1 K2 K3].
    assert (Hfresh : ~ In (gh_next gh) (ids gt)).
    { intros Hin. apply in_ids in Hin as [len [cap Hin]]. destruct (K1 _ _ _ Hin) as [Hsz _].
      apply (G_sizes _ _ HG) in Hsz. lia. }
    assert (Hids : forall bs, ids (mkGT bs (g_drops gt ++ [(gh_next gh, utf8_len src, utf8_len src)])) = ids gt ++ [gh_next gh]).
    { intros bs. unfold ids. cbn [g_drops]. now rewrite map_app. }
    assert (Hrec : forall b len cap, In (b, len, cap) (g_drops gt ++ [(gh_next gh, utf8_len src, utf8_len src)]) ->
                   size_of b (gh_sizes (snd (alloc gh (utf8_len src) t))) = Some (cap, t)
                   /\ is_freed b (snd (alloc gh (utf8_len src) t)) = false).
    { intros b len cap Hin. apply in_app_or in Hin as [Hin|[[= <- <- <-]|[]]]; [eapply H1; eassumption|].
      split; [cbn; now rewrite N.eqb_refl|].
      cbn. destruct (is_freed (gh_next gh) gh) eqn:E; [|unfold is_freed in *; cbn; exact E].
      apply (G_freed _ _ HG) in E. lia. }
    assert (Hnd : NoDup (ids gt ++ [gh_next gh])).
    { apply NoDup_app_snoc; assumption. }
    split; [|split; [|split]].
    - destruct (parse_o src); constructor; cbn [g_drops g_borrows]; try exact Hrec; rewrite ?Hids; try exact Hnd.
      + intros k b Hin. apply in_or_app. left. now apply (K3 k).
      + intros k b Hin. apply in_or_app. left. now apply (K3 k).
      + intros k b Hin. apply in_or_app. destruct (b_insert_in _ _ _ _ _ Hin) as [->|Hin'];
          [right; now left|left; now apply (K3 k)].
    - destruct (parse_o src); rewrite Hids; apply in_or_app; right; now left.
    - intros b. destruct (parse_o src); rewrite Hids; intros Hin; apply in_app_or in Hin as [?|[<-|[]]]; auto.
    - intros b Hin. destruct (parse_o src); rewrite Hids; apply in_or_app; now left.
  Qed.

  (** ** dropping a task's buffers *)
  Lemma drop_list_ok t : forall l gh,
    (forall b len cap, In (b, len, cap) l -> size_of b (gh_sizes gh) = Some (cap, t) /\ is_freed b gh = false) ->
    NoDup (map (fun r : N * N * N => fst (fst r)) l) ->
    let gh' := fold_left (fun g (r : N * N * N) => dealloc g (fst (fst r)) (snd r)) l gh in
    gh_faults gh' = gh_faults gh /\ gh_sizes gh' = gh_sizes gh /\ gh_next gh' = gh_next gh
    /\ gh_tasks gh' = gh_tasks gh
    /\ forall b, is_freed b gh' = is_freed b gh || mem_n b (map (fun r : N * N * N => fst (fst r)) l).
  Proof.
    induction l as [|[[b0 len0] cap0] r IH]; intros gh Hrec Hnd; cbn [fold_left map fst snd].
    - repeat split. intros b. cbn. now rewrite orb_false_r.
    - destruct (Hrec b0 len0 cap0 (or_introl eq_refl)) as [Hsz Hfr].
      inversion Hnd as [|? ? Hnot Hnd']; subst.
      set (gh1 := mkGhost (gh_next gh) (gh_sizes gh) (b0 :: gh_freed gh) (gh_tasks gh) (gh_faults gh)).
      assert (Hd : dealloc gh b0 cap0 = gh1) by (unfold dealloc; now rewrite Hsz, Hfr, N.eqb_refl).
      rewrite Hd.
      destruct (IH gh1) as [F1 [F2 [F3 [F4 F5]]]].
      + intros b len cap Hin. destruct (Hrec b len cap (or_intror Hin)) as [Hs Hf]. split; [exact Hs|].
        unfold is_freed in *. cbn. rewrite Hf, orb_false_r. apply N.eqb_neq. intros ->.
        apply Hnot. apply in_map_iff. exists (b0, len, cap). split; [reflexivity|assumption].
      + exact Hnd'.
      + repeat split; try assumption. intros b. rewrite F5. unfold is_freed, mem_n. cbn.
        destruct (N.eqb b b0), (existsb (N.eqb b) (gh_freed gh)); reflexivity.
  Qed.

  Lemma drop_ok gh t gt : tok gh t gt ->
    gh_faults (g_drop gh gt) = gh_faults gh /\ gh_sizes (g_drop gh gt) = gh_sizes gh
    /\ gh_next (g_drop gh gt) = gh_next gh /\ gh_tasks (g_drop gh gt) = gh_tasks gh
    /\ forall b, is_freed b (g_drop gh gt) = is_freed b gh || mem_n b (ids gt).
  Proof. intros [H1 H2 H3]. unfold g_drop. now apply (drop_list_ok t). Qed.

  Lemma use_list_ok gh : forall l,
    (forall k b, In (k, b) l -> is_freed b gh = false) ->
    fold_left (fun g (kb : str * N) => use g (snd kb)) l gh = gh.
  Proof.
    induction l as [|[k b] r IH]; intros H; cbn [fold_left snd]; [reflexivity|].
    unfold use at 2. rewrite (H k b (or_introl eq_refl)). apply IH. intros k' b' Hin. apply (H k'). now right.
  Qed.

  Lemma use_ok gh t gt : tok gh t gt -> g_use gh gt = gh.
  Proof.
    intros [H1 H2 H3]. unfold g_use. apply use_list_ok. intros k b Hin.
    apply H3 in Hin. apply in_ids in Hin as [len [cap Hin]]. now destruct (H1 _ _ _ Hin).
  Qed.

  Lemma tok_ext gh gh' t gt :
    gh_sizes gh' = gh_sizes gh -> (forall b, In b (ids gt) -> is_freed b gh' = is_freed b gh) ->
    tok gh t gt -> tok gh' t gt.
  Proof.
    intros Hs Hf [H1 H2 H3]. constructor; auto. intros b len cap Hin.
    destruct (H1 _ _ _ Hin) as [A B]. rewrite Hs, (Hf b (ids_in _ _ _ _ Hin)). now split.
  Qed.

  Notation step := (step parse_o emit_o).
  Notation gstep := (gstep 0 parse_o).

  Lemma tok_empty gh n : tok gh n (mkGT [] []).
  Proof. constructor; cbn; [intros ? ? ? []|constructor|intros ? ? []]. Qed.

  Lemma gstep_GI st c st' x gh :
    GI (next_id st) gh -> step st c = (Some st', x) -> GI (next_id st') (gstep st gh c).
  Proof.
    intros HG H. pose proof HG as [Gt Gs Gf Gx Gl Gk].
    destruct c; cbn [Model.step] in H; cbn [Ghost.gstep].
    - (* Initiate *)
      destruct (g_register 0 parse_o gh (next_id st) (mkGT [] []) f src) as [gh1 gt] eqn:Er.
      destruct (tok_register _ _ _ _ _ _ _ _ HG (tok_empty gh (next_id st)) Er) as [-> [Htok [Hnew [Hsub _]]]].
      assert (Hsub' : forall b, In b (ids gt) -> b = gh_next gh) by (intros b Hb; destruct (Hsub b Hb) as [?|[]]; assumption).
      unfold Model.register in H. destruct (parse_o src) eqn:Ep; inversion H; subst; clear H.
      + (* PErr: the task is dropped at once *)
        cbn [set_result next_id].
        destruct (drop_ok _ _ _ Htok) as [D1 [D2 [D3 [D4 D5]]]].
        constructor.
        * rewrite D4. cbn [alloc snd gh_tasks]. intros t gt0 Hf. destruct (Gt t gt0 Hf) as [Ht Hlt]. split; [|exact Hlt].
          eapply tok_ext; [exact D2| |apply tok_alloc; [exact Gs|exact Ht]].
          intros b Hb. rewrite D5. replace (mem_n b (ids gt)) with false; [now rewrite orb_false_r|].
          symmetry. apply mem_n_false. intros Hin. apply Hsub' in Hin. subst b.
          apply in_ids in Hb as [len [cap Hb]]. destruct Ht as [K1 _ _]. destruct (K1 _ _ _ Hb) as [Hsz _].
          apply Gs in Hsz. lia.
        * rewrite D2, D3. cbn [alloc snd gh_sizes gh_next]. now apply sizes_alloc.
        * rewrite D3. cbn. intros b. rewrite D5. intros Hb. apply orb_true_iff in Hb as [Hb|Hb].
          -- apply Gf in Hb. lia.
          -- apply mem_n_in in Hb. apply Hsub' in Hb. lia.
        * rewrite D1. cbn. exact Gx.
        * rewrite D3, D4. cbn [alloc snd gh_next gh_tasks]. intros b Hb. rewrite D5.
          destruct (N.eq_dec b (gh_next gh)) as [->|Hn].
          -- left. apply orb_true_iff. right. now apply mem_n_in.
          -- destruct (Gl b ltac:(lia)) as [Hfr|Hex]; [left|right; exact Hex].
             unfold is_freed in *. cbn. now rewrite Hfr.
        * rewrite D4. cbn [alloc snd gh_tasks]. exact Gk.
      + (* POk: the task enters the table under next_id *)
        cbn [next_id]. constructor; cbn [with_tasks gh_tasks gh_sizes gh_next gh_freed gh_faults alloc snd].
        * intros t gt0. rewrite g_find_app. destruct (g_find t (gh_tasks gh)) as [g0|] eqn:Ef.
          -- intros [= <-]. destruct (Gt t g0 Ef) as [Ht Hlt]. split; [|lia].
             eapply tok_ext; [| |apply tok_alloc; [exact Gs|exact Ht]]; reflexivity.
          -- destruct (N.eqb (next_id st) t) eqn:E; [|discriminate]. apply N.eqb_eq in E. subst t.
             intros [= <-]. split; [|lia]. eapply tok_ext; [| |exact Htok]; reflexivity.
        * now apply sizes_alloc.
        * intros b Hb. apply Gf in Hb. lia.
        * exact Gx.
        * intros b Hb. destruct (N.eq_dec b (gh_next gh)) as [->|Hn].
          -- right. exists (next_id st), gt. split; [|exact Hnew]. rewrite g_find_app.
             destruct (g_find (next_id st) (gh_tasks gh)) as [g0|] eqn:Ef.
             ++ destruct (Gt _ _ Ef) as [_ Hlt]. lia.
             ++ now rewrite N.eqb_refl.
          -- destruct (Gl b ltac:(lia)) as [Hfr|[t [g0 [Hf Hin]]]]; [now left|].
             right. exists t, g0. split; [|exact Hin]. rewrite g_find_app, Hf. reflexivity.
        * rewrite map_app. cbn [map fst]. apply NoDup_app_snoc; [exact Gk|].
          intros Hin. apply in_map_iff in Hin as [[k g0] [E Hin]]. cbn in E. subst k.
          apply (in_find _ _ _ Gk) in Hin. destruct (Gt _ _ Hin) as [_ Hlt]. lia.
    - (* Required *)
      assert (Hn : next_id st' = next_id st) by
        (destruct (find_task t (tasks st)); inversion H; subst; reflexivity).
      rewrite Hn. destruct (g_find t (gh_tasks gh)) as [gt|] eqn:Ef; [|exact HG].
      destruct (Gt _ _ Ef) as [Ht _]. now rewrite (use_ok _ _ _ Ht).
    - (* Load *)
      assert (Hn : next_id st' = next_id st).
      { destruct (find_task t (tasks st)) as [y|]; [|inversion H; subst; reflexivity].
        destruct (register parse_o y f src) as [[y' [m|]]|]; inversion H; subst; reflexivity. }
      rewrite Hn. destruct (g_find t (gh_tasks gh)) as [gt|] eqn:Ef; [|exact HG].
      destruct (Gt _ _ Ef) as [Ht Hlt].
      destruct (g_register 0 parse_o gh t gt f src) as [gh1 gt'] eqn:Er.
      destruct (tok_register _ _ _ _ _ _ _ _ HG Ht Er) as [-> [Htok [Hnew [Hsub Hsup]]]].
      constructor; cbn [with_tasks gh_tasks gh_sizes gh_next gh_freed gh_faults alloc snd].
      + intros t0 gt0. destruct (N.eq_dec t0 t) as [->|Hne].
        * rewrite g_find_set_same, Ef. intros [= <-]. split; [|exact Hlt].
          eapply tok_ext; [| |exact Htok]; reflexivity.
        * rewrite g_find_set_other by assumption. intros Hf0. destruct (Gt _ _ Hf0) as [Ht0 Hlt0].
          split; [|exact Hlt0]. eapply tok_ext; [| |apply tok_alloc; [exact Gs|exact Ht0]]; reflexivity.
      + now apply sizes_alloc.
      + intros b Hb. apply Gf in Hb. lia.
      + exact Gx.
      + intros b Hb. destruct (N.eq_dec b (gh_next gh)) as [->|Hne].
        * right. exists t, gt'. split; [|exact Hnew]. now rewrite g_find_set_same, Ef.
        * destruct (Gl b ltac:(lia)) as [Hfr|[t0 [g0 [Hf0 Hin]]]]; [now left|]. right.
          destruct (N.eq_dec t0 t) as [->|Hne0].
          -- exists t, gt'. split; [now rewrite g_find_set_same, Ef|]. apply Hsup. congruence.
          -- exists t0, g0. split; [|exact Hin]. now rewrite g_find_set_other.
      + rewrite keys_g_set. exact Gk.
    - (* Emit *)
      assert (Hn : next_id st' = next_id st).
      { destruct (find_task t (tasks st)) as [y|]; [|inversion H; subst; reflexivity].
        destruct (emit_o (t_root y) (t_files y)); inversion H; subst; reflexivity. }
      rewrite Hn. destruct (g_find t (gh_tasks gh)) as [gt|] eqn:Ef; [|exact HG].
      destruct (Gt _ _ Ef) as [Ht _]. now rewrite (use_ok _ _ _ Ht).
    - (* Free *)
      inversion H; subst; clear H. cbn [next_id].
      destruct (g_find t (gh_tasks gh)) as [gt|] eqn:Ef; [|exact HG].
      destruct (Gt _ _ Ef) as [Ht Hlt]. destruct (drop_ok _ _ _ Ht) as [D1 [D2 [D3 [D4 D5]]]].
      constructor; cbn [with_tasks gh_tasks gh_sizes gh_next gh_freed gh_faults]; rewrite ?D1, ?D2, ?D3, ?D4.
      + intros t0 gt0. destruct (N.eq_dec t0 t) as [->|Hne]; [now rewrite g_find_remove_same|].
        rewrite g_find_remove_other by assumption. intros Hf0. destruct (Gt _ _ Hf0) as [Ht0 Hlt0].
        split; [|exact Hlt0]. eapply tok_ext; [exact D2| |exact Ht0].
        intros b Hb. rewrite is_freed_with_tasks, D5.
        replace (mem_n b (ids gt)) with false; [now rewrite orb_false_r|].
        symmetry. apply mem_n_false. intros Hin.
        apply in_ids in Hb as [l0 [c0 Hb]]. apply in_ids in Hin as [l1 [c1 Hin]].
        destruct Ht0 as [K0 _ _], Ht as [K1 _ _].
        destruct (K0 _ _ _ Hb) as [S0 _], (K1 _ _ _ Hin) as [S1 _]. congruence.
      + exact Gs.
      + intros b. rewrite is_freed_with_tasks, D5.
        intros Hb. apply orb_true_iff in Hb as [Hb|Hb]; [now apply Gf|].
        apply mem_n_in in Hb. apply in_ids in Hb as [l1 [c1 Hb]]. destruct Ht as [K1 _ _].
        destruct (K1 _ _ _ Hb) as [S1 _]. now apply Gs in S1.
      + exact Gx.
      + intros b Hb. rewrite is_freed_with_tasks, D5.
        destruct (Gl b Hb) as [Hfr|[t0 [g0 [Hf0 Hin]]]]; [left; now rewrite Hfr|].
        destruct (N.eq_dec t0 t) as [->|Hne].
        * left. assert (g0 = gt) by congruence. subst g0. apply orb_true_iff. right. now apply mem_n_in.
        * right. exists t0, g0. split; [|exact Hin]. now rewrite g_find_remove_other.
      + now apply nodup_keys_remove.
    - (* ReadResult *)
      assert (Hn : next_id st' = next_id st) by
        (destruct (result st) as [[m|l]|]; inversion H; subst; reflexivity).
      now rewrite Hn.
  Qed.

  Notation grun := (grun 0 parse_o emit_o).

  Lemma grun_GI h : forall st gh, GI (next_id st) gh -> exists n, GI n (grun st gh h).
  Proof.
    induction h as [|c r IH]; intros st gh HG; cbn [Ghost.grun]; [eauto|].
    destruct (step st c) as [[st'|] x] eqn:E; cbn [fst]; [|eauto].
    apply (IH st'). eapply gstep_GI; eauto.
  Qed.

  (** no history makes the loader free a buffer twice / with a wrong layout / read a freed
      buffer, and no source buffer is lost: each is freed or listed by a live task *)
  Lemma ghost_safe h :
    let gh := grun init_state ghost_init h in
    gh_faults gh = []
    /\ forall b, (b < gh_next gh)%N ->
         is_freed b gh = true \/ exists t gt, g_find t (gh_tasks gh) = Some gt /\ In b (ids gt).
  Proof.
    cbn. destruct (grun_GI h init_state ghost_init GI_init) as [n [_ _ _ Hx Hl _]]. split; assumption.
  Qed.

  (** ** thread exit: TASKS is dropped, every remaining task with it *)
  Lemma exit_list_ok : forall l gh,
    NoDup (map fst l) -> (forall t gt, In (t, gt) l -> tok gh t gt) ->
    let gh' := fold_left (fun g (kt : N * gtask) => g_drop g (snd kt)) l gh in
    gh_faults gh' = gh_faults gh /\ gh_next gh' = gh_next gh
    /\ forall b, is_freed b gh' = is_freed b gh || existsb (fun kt => mem_n b (ids (snd kt))) l.
  Proof.
    induction l as [|[t gt] r IH]; intros gh Hn Ht; cbn [fold_left snd existsb].
    - repeat split. intros b. now rewrite orb_false_r.
    - inversion Hn as [|? ? Hk Hr]; subst.
      destruct (drop_ok _ _ _ (Ht t gt (or_introl eq_refl))) as [D1 [D2 [D3 [D4 D5]]]].
      destruct (IH (g_drop gh gt) Hr) as [F1 [F2 F3]].
      + intros t' gt' Hin. pose proof (Ht t' gt' (or_intror Hin)) as Ht'.
        eapply tok_ext; [exact D2| |exact Ht'].
        intros b Hb. rewrite D5. replace (mem_n b (ids gt)) with false; [now rewrite orb_false_r|].
        symmetry. apply mem_n_false. intros Hin2.
        apply in_ids in Hb as [l0 [c0 Hb]]. apply in_ids in Hin2 as [l1 [c1 Hin2]].
        destruct Ht' as [K0 _ _]. destruct (Ht t gt (or_introl eq_refl)) as [K1 _ _].
        destruct (K0 _ _ _ Hb) as [S0 _], (K1 _ _ _ Hin2) as [S1 _].
        assert (t' = t) by congruence. subst t'. apply Hk. apply in_map_iff. exists (t, gt'). split; [reflexivity|assumption].
      + repeat split; [congruence|congruence|]. intros b. rewrite F3, D5. now rewrite orb_assoc.
  Qed.

  (** if the process does not abort, thread exit frees every buffer ever allocated, exactly once *)
  Lemma ghost_exit_safe h :
    let gh := g_exit (grun init_state ghost_init h) in
    gh_faults gh = [] /\ forall b, (b < gh_next gh)%N -> is_freed b gh = true.
  Proof.
    cbn. destruct (grun_GI h init_state ghost_init GI_init) as [n [Gt Gs Gf Gx Gl Gk]].
    set (g := grun init_state ghost_init h) in *. unfold g_exit.
    destruct (exit_list_ok (gh_tasks g) g Gk) as [F1 [F2 F3]].
    - intros t gt Hin. apply (in_find _ _ _ Gk) in Hin. now destruct (Gt _ _ Hin).
    - split; [congruence|]. intros b Hb. rewrite F2 in Hb. rewrite F3.
      destruct (Gl b Hb) as [Hfr|[t [gt [Hf Hin]]]]; [now rewrite Hfr|].
      apply orb_true_iff. right. apply existsb_exists. exists (t, gt). split; [now apply g_find_in|].
      now apply mem_n_in.
  Qed.
End G.

(** the theorem depends on capacity = length: with one spare byte [into_boxed_str] reallocates,
    the recorded pointer goes stale, and dropping the task frees it a second time *)
Lemma ghost_unsafe_with_slack :
  gh_faults (grun 1 (fun _ => POk []) (fun _ _ => EOk []) init_state ghost_init
                  [Initiate (s "/p/a.graphql") (s "query A { a }"); Free 1]) = [BadFree 0].
Proof. vm_compute. reflexivity. Qed.
