(** C19 — proofs, part 6: the staged emit (as the code is after /repo 539df4b) never traps and
    errs exactly when import resolution errs or a spread of the resolved document is undefined;
    a failing call changes nothing but RESULT (no id is allocated, no task is touched). *)
From V Require Import Base.Util C20.Model C19.Model C19.Spec C19.Proofs C19.Proofs3.

Lemma first_undefined_some defs spreads n :
  first_undefined defs spreads = Some n -> In n spreads /\ ~ In n defs.
Proof.
  unfold first_undefined. intros H. apply find_some in H as [Hin Hn]. split; [assumption|].
  intros Hd. apply negb_true_iff in Hn. assert (existsb (str_eqb n) defs = true); [|congruence].
  apply existsb_exists. exists n. split; [assumption|apply str_eqb_refl].
Qed.

Lemma first_undefined_none defs spreads :
  first_undefined defs spreads = None -> forall n, In n spreads -> In n defs.
Proof.
  unfold first_undefined. intros H n Hin. pose proof (find_none _ _ H n Hin) as Hn. cbn in Hn.
  apply negb_false_iff in Hn. apply existsb_exists in Hn as [m [Hm He]].
  destruct (str_eqb_spec n m); [now subst|discriminate].
Qed.

Lemma emit_of_never_traps r : emit_of r <> ETrap.
Proof. destruct r as [m|defs spreads js]; cbn; [discriminate|]. destruct (first_undefined defs spreads); discriminate. Qed.

(** [emit_of] errs iff resolution erred or some spread is undefined; the text says which *)
Lemma emit_of_err_iff r :
  (exists m, emit_of r = EErr m) <->
  (exists m, r = RErr m) \/ (exists defs spreads js n, r = ROk defs spreads js /\ In n spreads /\ ~ In n defs).
Proof.
  destruct r as [m|defs spreads js]; cbn.
  - split; [intros _; left; eauto|intros _; eauto].
  - destruct (first_undefined defs spreads) as [n|] eqn:E.
    + split; [|eauto]. intros _. right. destruct (first_undefined_some _ _ _ E). exists defs, spreads, js, n. auto.
    + split; [intros [m Hm]; discriminate|].
      intros [[m Hm]|[d [sp [j [n [Hr [Hin Hnd]]]]]]]; [discriminate|].
      inversion Hr; subst. exfalso. apply Hnd. eapply first_undefined_none; eauto.
Qed.

Lemma emit_of_undefined_text defs spreads js n :
  first_undefined defs spreads = Some n -> emit_of (ROk defs spreads js) = EErr (undefined_msg n).
Proof. cbn. now intros ->. Qed.

Section P.
  Variable parse_o : str -> presult.
  Variable resolve_o : str -> list (str * str) -> rresult.
  Notation emit_o := (staged_emit resolve_o).
  Notation step := (step parse_o emit_o).

  Lemma staged_never_traps root fs : emit_o root fs <> ETrap.
  Proof. apply emit_of_never_traps. Qed.

  (** with the staged emit, "no oracle panics" is a statement about the parser alone *)
  Lemma total_staged : (forall src, parse_o src <> PTrap) -> total parse_o emit_o.
  Proof. intros H. split; [exact H|]. intros r fs. apply staged_never_traps. Qed.

  (** emit_js on a live task: never a trap; [false] iff resolution errs or a spread is undefined *)
  Lemma emit_live st t x :
    find_task t (tasks st) = Some x ->
    snd (step st (Emit t)) <> Trap
    /\ (snd (step st (Emit t)) = RBool false <->
        (exists m, resolve_o (t_root x) (t_files x) = RErr m)
        \/ (exists defs spreads js n, resolve_o (t_root x) (t_files x) = ROk defs spreads js
                                      /\ In n spreads /\ ~ In n defs))
    /\ (snd (step st (Emit t)) = RBool false \/ snd (step st (Emit t)) = RBool true).
  Proof.
    intros Hf. cbn [Model.step]. rewrite Hf. unfold staged_emit.
    pose proof (emit_of_never_traps (resolve_o (t_root x) (t_files x))) as Hnt.
    pose proof (emit_of_err_iff (resolve_o (t_root x) (t_files x))) as Hiff.
    destruct (emit_of (resolve_o (t_root x) (t_files x))) as [|m|js] eqn:E; [congruence| |]; cbn [snd].
    - split; [discriminate|]. split; [|now left]. split; [intros _; apply Hiff; eauto|reflexivity].
    - split; [discriminate|]. split; [|now right]. split; [discriminate|].
      intros H. apply Hiff in H as [m Hm]. discriminate.
  Qed.
End P.

Section Q.
  Variable parse_o : str -> presult.
  Variable emit_o : str -> list (str * str) -> eresult.
  Notation step := (step parse_o emit_o).

  (** a call that reports failure (id 0 / false) allocates no id and leaves every task as it was:
      only RESULT changes *)
  Lemma failure_changes_only_result st c st' x :
    step st c = (Some st', x) -> x = RId 0 \/ x = RBool false ->
    wf st -> next_id st' = next_id st /\ tasks st' = tasks st.
  Proof.
    intros H Hx [Hp _]. destruct c; cbn [Model.step] in H.
    - destruct (register parse_o (mkTask f []) f src) as [[y [m|]]|]; inversion H; subst; clear H; cbn; [auto|].
      destruct Hx as [Hx|Hx]; [|discriminate]. inversion Hx. lia.
    - destruct (find_task t (tasks st)); inversion H; subst; cbn; auto.
    - destruct (find_task t (tasks st)) as [y|]; [|inversion H; subst; cbn; auto].
      destruct (register parse_o y f src) as [[y' [m|]]|]; inversion H; subst; clear H; cbn; [auto|].
      destruct Hx; discriminate.
    - destruct (find_task t (tasks st)) as [y|]; [|inversion H; subst; cbn; auto].
      destruct (emit_o (t_root y) (t_files y)); inversion H; subst; cbn; auto.
    - inversion H; subst. destruct Hx; discriminate.
    - destruct (result st) as [[m|l]|]; inversion H; subst; auto.
  Qed.
End Q.
