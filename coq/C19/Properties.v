(** C19 — property theorems only.  Each is closed by [exact] of a lemma of Proofs*.v (or by
    [vm_compute] on a witness for the refutations/examples) and followed by [Print Assumptions].
    All are parametric in the two oracles (what the real parser / printer return). *)
From V Require Import Base.Util C20.Model C19.Model C19.Spec C19.Proofs C19.Proofs2 C19.Proofs3
  C19.Proofs4 C19.Proofs5 C19.Proofs6 C19.Ghost C19.GhostProofs C19.Corr.
From Coq Require Import Sorted.

(** 1. task ids: strictly increasing over any history, never 0 — hence never reused *)
Theorem C19_ids_fresh : forall parse_o emit_o h,
  StronglySorted N.lt (new_ids (run parse_o emit_o init_state h))
  /\ Forall (fun t => (1 <= t)%N) (new_ids (run parse_o emit_o init_state h)).
Proof. exact ids_fresh. Qed.
Print Assumptions C19_ids_fresh.

(** 2. calls on an id that is not live give the error result, change nothing else, never trap —
       whatever source they carry (even one the parser would panic on) *)
Theorem C19_dead_id_is_error : forall parse_o emit_o st t,
  find_task t (tasks st) = None ->
  step parse_o emit_o st (Required t) = (Some (set_result st (VText TASK_NOT_FOUND)), RBool false)
  /\ (forall f src, step parse_o emit_o st (Load t f src) = (Some (set_result st (VText TASK_NOT_FOUND)), RBool false))
  /\ step parse_o emit_o st (Emit t) = (Some (set_result st (VText TASK_NOT_FOUND)), RBool false)
  /\ step parse_o emit_o st (Free t) = (Some st, RUnit).
Proof. exact dead_calls. Qed.
Print Assumptions C19_dead_id_is_error.

(** ... and "not live" covers: id 0, ids never issued, and ids freed at any earlier point *)
Theorem C19_never_issued_or_zero_is_dead : forall parse_o emit_o h st t,
  exec parse_o emit_o init_state h = Some st ->
  (t = 0%N \/ (next_id st <= t)%N) -> find_task t (tasks st) = None.
Proof.
  intros parse_o emit_o h st t He [->|Hle];
    destruct (wf_exec parse_o emit_o h _ _ wf_init He) as [Hwf _].
  - exact (zero_dead st Hwf).
  - exact (never_issued_dead st t Hwf Hle).
Qed.
Print Assumptions C19_never_issued_or_zero_is_dead.

Theorem C19_freed_stays_dead : forall parse_o emit_o h1 h2 t st1 st2,
  exec parse_o emit_o init_state h1 = Some st1 -> (t < next_id st1)%N ->
  exec parse_o emit_o st1 (Free t :: h2) = Some st2 -> find_task t (tasks st2) = None.
Proof. exact freed_stays_dead. Qed.
Print Assumptions C19_freed_stays_dead.

(** 3. the required-files answer of a task = the import targets of its loaded files that are not
       loaded, as a set of paths, without duplicates *)
Theorem C19_required_exact : forall parse_o x,
  (forall p, In p (required_of parse_o x) ->
     exists from src imp, In (from, src) (t_files x) /\ In imp (imports_of parse_o src)
                          /\ p = resolve_s from imp /\ contains_file p (t_files x) = false)
  /\ (forall from src imp, In (from, src) (t_files x) -> In imp (imports_of parse_o src) ->
        contains_file (resolve_s from imp) (t_files x) = false ->
        mem_path (resolve_s from imp) (required_of parse_o x) = true)
  /\ nodup_path (required_of parse_o x) = true.
Proof.
  intros parse_o x. split; [exact (required_sound parse_o x)|].
  split; [exact (required_complete parse_o x)|exact (required_nodup parse_o x)].
Qed.
Print Assumptions C19_required_exact.

(** 4. every history passes the executable specification written from the property text
       ([Spec.spec_check], the same function [Corr.holds] evaluates on the implementation's
       responses): with oracles that never panic, outright; in general, up to traps that are an
       oracle's own panic on the task's own files (the known-finding class) *)
Theorem C19_model_meets_spec : forall parse_o emit_o h,
  total parse_o emit_o ->
  spec_check parse_o emit_o false s_init h (run parse_o emit_o init_state h) = true.
Proof. exact model_meets_spec. Qed.
Print Assumptions C19_model_meets_spec.

Theorem C19_model_meets_spec_modulo_oracle_traps : forall parse_o emit_o h,
  spec_check parse_o emit_o true s_init h (run parse_o emit_o init_state h) = true.
Proof. exact model_meets_spec_tol. Qed.
Print Assumptions C19_model_meets_spec_modulo_oracle_traps.

(** 5. isolation (protocol level of loader-core): in any history over any number of tasks, the
       (call, response) pairs about task [t] are what a fresh single-task instance answers *)
Theorem C19_isolation : forall parse_o emit_o t h, (0 < t)%N ->
  let rs := api_run parse_o emit_o init_state h in
  api_run parse_o emit_o init_state (map fst (proj t h rs)) = map snd (proj t h rs).
Proof. intros parse_o emit_o t h Ht. exact (isolation parse_o emit_o t Ht h). Qed.
Print Assumptions C19_isolation.

(** 6. emit on any reachable task = emit of a fresh instance given the same files *)
Theorem C19_emit_equals_fresh : forall parse_o emit_o h st t x,
  exec parse_o emit_o init_state h = Some st -> find_task t (tasks st) = Some x ->
  api_run parse_o emit_o init_state (fresh_acalls x ++ [AEmit 1])
  = AId 1 :: repeat AOk (length (tl (t_files x))) ++ [snd (api_step parse_o emit_o st (AEmit t))].
Proof. exact emit_equals_fresh. Qed.
Print Assumptions C19_emit_equals_fresh.

(** 7. ghost ownership of the leaked source buffers ([C19/Ghost.v], capacity = length as
       [read_str_ptr] produces): over any history no buffer is freed twice or with a layout other
       than the allocated one, no document is read after its buffer was freed, and every buffer
       ever allocated is freed or listed by a live task *)
Theorem C19_ghost_ownership : forall parse_o emit_o h,
  let gh := grun 0 parse_o emit_o init_state ghost_init h in
  gh_faults gh = []
  /\ forall b, (b < gh_next gh)%N ->
       is_freed b gh = true \/ exists t gt, g_find t (gh_tasks gh) = Some gt /\ In b (ids gt).
Proof. exact ghost_safe. Qed.
Print Assumptions C19_ghost_ownership.

(** ... and if the process does not abort, thread exit (TASKS dropped) frees every source buffer
    ever allocated, still without any fault *)
Theorem C19_ghost_exit_frees_all : forall parse_o emit_o h,
  let gh := g_exit (grun 0 parse_o emit_o init_state ghost_init h) in
  gh_faults gh = [] /\ forall b, (b < gh_next gh)%N -> is_freed b gh = true.
Proof. exact ghost_exit_safe. Qed.
Print Assumptions C19_ghost_exit_frees_all.

(** ... which rests on that capacity: one spare byte and the first free_task is a double free *)
Theorem C19_ghost_needs_exact_capacity :
  gh_faults (grun 1 (fun _ => POk []) (fun _ _ => EOk []) init_state ghost_init
                  [Initiate (s "/p/a.graphql") (s "query A { a }"); Free 1]) = [BadFree 0].
Proof. exact ghost_unsafe_with_slack. Qed.
Print Assumptions C19_ghost_needs_exact_capacity.

(** 8. the emit step as the code has it now ([Model.staged_emit]: resolve imports, look for an
       undefined spread, print) never traps, and on a live task answers [false] exactly when import
       resolution erred or the resolved document spreads a fragment it does not define *)
Theorem C19_emit_never_traps_errs_iff : forall parse_o resolve_o st t x,
  find_task t (tasks st) = Some x ->
  snd (step parse_o (staged_emit resolve_o) st (Emit t)) <> Trap
  /\ (snd (step parse_o (staged_emit resolve_o) st (Emit t)) = RBool false <->
      (exists m, resolve_o (t_root x) (t_files x) = RErr m)
      \/ (exists defs spreads js n, resolve_o (t_root x) (t_files x) = ROk defs spreads js
                                    /\ In n spreads /\ ~ In n defs))
  /\ (snd (step parse_o (staged_emit resolve_o) st (Emit t)) = RBool false
      \/ snd (step parse_o (staged_emit resolve_o) st (Emit t)) = RBool true).
Proof. exact emit_live. Qed.
Print Assumptions C19_emit_never_traps_errs_iff.

(** ... so with it theorem 4's guard is a statement about the parser alone *)
Theorem C19_model_meets_spec_staged : forall parse_o resolve_o h,
  (forall src, parse_o src <> PTrap) ->
  spec_check parse_o (staged_emit resolve_o) false s_init h
             (run parse_o (staged_emit resolve_o) init_state h) = true.
Proof.
  intros parse_o resolve_o h Hp. apply model_meets_spec. now apply total_staged.
Qed.
Print Assumptions C19_model_meets_spec_staged.

(** 9. a call that reports failure — initiate_task returning 0 (source does not parse),
       load_file / emit_js / get_required_files returning false — allocates no id and leaves every
       task exactly as it was, in any reachable state: only RESULT changes *)
Theorem C19_failure_changes_only_result : forall parse_o emit_o h st c st' x,
  exec parse_o emit_o init_state h = Some st ->
  step parse_o emit_o st c = (Some st', x) -> x = RId 0 \/ x = RBool false ->
  next_id st' = next_id st /\ tasks st' = tasks st.
Proof.
  intros parse_o emit_o h st c st' x He Hs Hx.
  destruct (wf_exec parse_o emit_o h _ _ wf_init He) as [Hwf _].
  exact (failure_changes_only_result parse_o emit_o st c st' x Hs Hx Hwf).
Qed.
Print Assumptions C19_failure_changes_only_result.

(** * Former findings, now regression witnesses.  Until /repo commits a4a3647 and 539df4b these
      histories aborted the process (panic inside extern "C"); the cases below are as the
      correspondence run records them now: error results, model = implementation, property holds,
      and the task is still usable afterwards. *)

Definition w_file : str := s "/p/a.graphql".
Definition w_missing : str := s "query A { a ...Missing }".
Definition w_undefined_msg : str := s "Fragment 'Missing' is not defined".
Definition w_emit_undefined : case :=
  mkCase [(w_missing, POk [])]
         [(w_file, [(w_file, w_missing)], ROk [] [s "Missing"] (s ""), EErr w_undefined_msg)]
         [Initiate w_file w_missing; Emit 1; ReadResult; Required 1; ReadResult; Free 1; Emit 1; ReadResult]
         [RId 1; RBool false; RStr w_undefined_msg; RBool true; RStr []; RUnit; RBool false; RStr TASK_NOT_FOUND].

Example C19_emit_undefined_is_error : agree w_emit_undefined = true /\ holds w_emit_undefined = true.
Proof. vm_compute. split; reflexivity. Qed.

Definition w_surrogate : str := s "query A { a(s: ""\uD800"") }".
Definition w_plain : str := s "query A { a }".
Definition w_surrogate_msg : str := s "Parse error: Invalid unicode escape sequence '\uD800'".
Definition w_js : str := s "const AQuery = ...".
Definition w_parse_error : case :=
  mkCase [(w_plain, POk []); (w_surrogate, PErr w_surrogate_msg)]
         [(w_file, [(w_file, w_plain)], ROk [] [] w_js, EOk w_js)]
         [Initiate w_file w_surrogate; ReadResult; Initiate w_file w_plain;
          Load 1 (s "/p/b.graphql") w_surrogate; ReadResult; Load 1 w_file w_surrogate; ReadResult;
          Required 1; ReadResult; Emit 1; ReadResult; Required 2]
         [RId 0; RStr w_surrogate_msg; RId 1; RBool false; RStr w_surrogate_msg; RBool false; RStr w_surrogate_msg;
          RBool true; RStr []; RBool true; RStr w_js; RBool false].

(** the failed initiate took no id (the next one is 1), the failed loads left task 1 as it was *)
Example C19_parse_error_is_error : agree w_parse_error = true /\ holds w_parse_error = true.
Proof. vm_compute. split; reflexivity. Qed.

(** the check still has teeth: had the implementation aborted there, [holds] would be false *)
Example C19_abort_would_fail :
  holds (mkCase [(w_missing, POk [])] [(w_file, [(w_file, w_missing)], ROk [] [s "Missing"] (s ""), ETrap)]
                [Initiate w_file w_missing; Emit 1] [RId 1; Trap]) = false.
Proof. vm_compute. reflexivity. Qed.

(** * Non-vacuity *)

(** the guard [total] of theorem 4 is satisfiable, and by oracles under which tasks do things *)
Definition ex_parse (src : str) : presult :=
  if str_eqb src (s "A") then POk [s "./b.graphql"] else if str_eqb src (s "bad") then PErr (s "no") else POk [].
Definition ex_emit (root : str) (fs : list (str * str)) : eresult :=
  if contains_file (s "/p/b.graphql") fs then EOk (s "js:" ++ root) else EErr (s "File './b.graphql' not found.").

Example ex_total : total ex_parse ex_emit.
Proof.
  split.
  - intros src. unfold ex_parse. destruct (str_eqb src (s "A")); [discriminate|].
    destruct (str_eqb src (s "bad")); discriminate.
  - intros r fs. unfold ex_emit. destruct (contains_file (s "/p/b.graphql") fs); discriminate.
Qed.

(** two interleaved tasks, a freed id and a never-issued id: the projections of theorem 5 are
    non-empty and differ between the tasks *)
Definition ex_hist : list acall :=
  [AInitiate (s "/p/a.graphql") (s "A"); AInitiate (s "/p/a.graphql") (s "A"); ARequired 1;
   ALoad 2 (s "/p/b.graphql") (s "F"); AEmit 1; AEmit 2; AFree 1; ARequired 1; ARequired 7;
   ALoad 2 (s "/p/c.graphql") (s "bad"); ARequired 2].

Example ex_isolation_nontrivial :
  let rs := api_run ex_parse ex_emit init_state ex_hist in
  map snd (proj 1 ex_hist rs)
  = [AId 1; AFilesR [s "/p/b.graphql"]; AErr (s "File './b.graphql' not found."); AOk; AErr TASK_NOT_FOUND]
  /\ map snd (proj 2 ex_hist rs)
  = [AId 1; AOk; AJs (s "js:/p/a.graphql"); AErr (s "no"); AFilesR []].
Proof. vm_compute. split; reflexivity. Qed.

(** why isolation is stated at the protocol level: a raw read after a SUCCESSFUL load on task 2
    returns what the last storing call — about task 1 — left in RESULT *)
Example ex_stale_read_crosses_tasks :
  run ex_parse ex_emit init_state
      [Initiate (s "/p/a.graphql") (s "A"); Initiate (s "/p/a.graphql") (s "F"); Required 1;
       Load 2 (s "/p/b.graphql") (s "F"); ReadResult]
  = [RId 1; RId 2; RBool true; RBool true; RFiles [s "/p/b.graphql"]].
Proof. vm_compute. reflexivity. Qed.

(** the ghost theorem is not vacuous: buffers are allocated, listed, and freed *)
Example ex_ghost_nontrivial :
  let gh := grun 0 ex_parse ex_emit init_state ghost_init
              [Initiate (s "/p/a.graphql") (s "A"); Load 1 (s "/p/b.graphql") (s "F"); Load 1 (s "/p/b.graphql") (s "bad");
               Initiate (s "/p/a.graphql") (s "bad"); Initiate (s "/p/c.graphql") (s "F"); Emit 1; Free 1; Free 1] in
  (gh_next gh, gh_freed gh, map (fun kt => (fst kt, ids (snd kt))) (gh_tasks gh), gh_faults gh)
  = (5%N, [2; 1; 0; 3]%N, [(2%N, [4%N])], []).
Proof. vm_compute. reflexivity. Qed.

(** the guard of the [get_result] clause: before anything was stored, a read aborts *)
Example ex_read_before_result_traps : forall parse_o emit_o, run parse_o emit_o init_state [ReadResult] = [Trap].
Proof. reflexivity. Qed.
