(** C06 — executable model (definitions only) of the source-map machinery of nitrogql:

    - [crates/sourcemap-writer/src/base64_vlq/mod.rs]              [base64_vlq]            ([vlq_encode])
    - [crates/sourcemap-writer/src/source_writer/mapping_writer.rs] [MappingWriter]         ([add_entry])
    - [crates/sourcemap-writer/src/source_writer/name_mapper.rs]    [NameMapper]            ([map_name])
    - [crates/sourcemap-writer/src/source_writer/utf16_len.rs]      [utf16_len]
    - [crates/sourcemap-writer/src/source_writer.rs]                [SourceWriter], [print_source_map_json]
    - [crates/cli/src/generate.rs]                                  [FileMap] construction, [write_file_and_sourcemap]
    - [crates/cli/src/file_store.rs]                                index arithmetic

    Conventions.  [usize] values are [N] (the harness only supplies values < 2^64); [isize] values are
    [Z].  A Rust panic is the result [None].  Arithmetic that the code performs on [usize]/[isize] and
    that can overflow for inputs reachable through the public API is written out with the overflow
    check of a debug build ([overflow-checks = true], which is how both the harness and the CLI binary
    used by the checks are built); additions that only overflow for texts longer than 2^64 UTF-16 units
    (line/column counters of the generated text) are left unbounded.
    The alphabet and [NAME_MEMORY_SIZE] are read from /repo on every run ([Gen/C06_tables_gen.v]). *)
From V Require Import Base.Util Gen.C06_tables_gen.
From V Require C20.Model.
Local Open Scope N_scope.

(** * Strings *)

Definition LF : N := 10.
Definition SPACE : N := 32.
Definition COMMA : N := 44.
Definition SEMI : N := 59.

(** [char::len_utf16] *)
Definition utf16_len1 (c : N) : N := if c <? 65536 then 1 else 2.
(** [utf16_len]: [s.chars().map(|c| c.len_utf16()).sum()] *)
Definition utf16_len (t : str) : N := fold_right (fun c a => utf16_len1 c + a) 0 t.

(** Rust [str::split(sep)] for a one-character separator: never empty. *)
Fixpoint split_on (sep : N) (p : str) : list str :=
  match p with
  | [] => [[]]
  | c :: r =>
      if N.eqb c sep then [] :: split_on sep r
      else match split_on sep r with
           | [] => [[c]]
           | seg :: segs => (c :: seg) :: segs
           end
  end.

(** * base64 VLQ *)

(** [BASE64_CHARS[i]]; the indices the code produces are < 64 ([b64_char_total] in Proofs). *)
Definition b64_char (i : N) : N := nth (N.to_nat i) base64_chars 0.

(** The [while value > 0] loop of [base64_vlq].  It runs at most [size value] times; [None] is
    "out of fuel" and is shown unreachable for [fuel >= N.size_nat v] ([vlq_cont_fuel]). *)
Fixpoint vlq_cont (fuel : nat) (v : N) : option (list N) :=
  if v =? 0 then Some []
  else match fuel with
       | O => None
       | S f =>
           let this_char_value := N.land v 31 in
           let v' := N.shiftr v 5 in
           let continuation_bit := if 0 <? v' then 32 else 0 in
           option_map (cons (N.lor continuation_bit this_char_value)) (vlq_cont f v')
       end.

(** the sextets [base64_vlq(input)] indexes [BASE64_CHARS] with, for an arbitrary integer *)
Definition vlq_sextets (n : Z) : option (list N) :=
  let sign_bit := if (n <? 0)%Z then 1 else 0 in
  let value := Z.abs_N n in                              (* unsigned_abs *)
  if value <? 16 then Some [N.lor sign_bit (N.shiftl value 1)]
  else
    let first := N.lor (N.lor sign_bit (N.shiftl (N.land value 15) 1)) 32 in
    option_map (cons first) (vlq_cont (N.size_nat value) (N.shiftr value 4)).

Definition vlq_encode (n : Z) : option str := option_map (map b64_char) (vlq_sextets n).

(** the same computation in 64-bit machine arithmetic: every intermediate [usize] result is reduced
    modulo 2^64 ([<<] drops bits, it does not panic); [vlq_model_is_rust] shows it is the unbounded
    function on the whole [isize] range. *)
Definition w64 (x : N) : N := x mod 2^64.
Definition vlq_sextets64 (n : Z) : option (list N) :=
  let sign_bit := if (n <? 0)%Z then 1 else 0 in
  let value := w64 (Z.abs_N n) in
  if value <? 16 then Some [N.lor sign_bit (w64 (N.shiftl value 1))]
  else
    let first := N.lor (N.lor sign_bit (w64 (N.shiftl (N.land value 15) 1))) 32 in
    option_map (cons first) (vlq_cont (N.size_nat value) (N.shiftr value 4)).

(** * MappingWriter *)

Record mstate := {
  mbuf : str;
  lgl : N;   (* last_generated_line *)
  lgc : N;   (* last_generated_column *)
  lol : N;   (* last_original_line *)
  loc : N;   (* last_original_column *)
  lni : N;   (* last_name_index *)
  lfi : N    (* last_file_index *)
}.

Definition m0 : mstate := {| mbuf := []; lgl := 0; lgc := 0; lol := 0; loc := 0; lni := 0; lfi := 0 |}.

(** [x as isize] for a [usize] *)
Definition isize_of (u : N) : Z :=
  let u := u mod 2^64 in
  if u <? 2^63 then Z.of_N u else (Z.of_N u - 2^64)%Z.

(** [a - b] on [isize] with overflow checks *)
Definition isub (a b : Z) : option Z :=
  let d := (a - b)%Z in
  if ((- 2^63 <=? d) && (d <? 2^63))%Z then Some d else None.

Definition bind {A B} (x : option A) (f : A -> option B) : option B :=
  match x with Some a => f a | None => None end.

(** [base64_vlq((a as isize) - (b as isize))] *)
Definition vlq_diff (a b : N) : option str := bind (isub (isize_of a) (isize_of b)) vlq_encode.

(** one generated entry as [add_entry] receives it *)
Record entry := mkent {
  e_gl : N; e_gc : N; e_ol : N; e_oc : N; e_fi : N; e_ni : option N
}.

Definition add_entry (m : mstate) (e : entry) : option mstate :=
  if e_gl e <? lgl m then None          (* generated_line - self.last_generated_line underflows *)
  else
    let is_newline := negb (lgl m =? e_gl e) in
    let semis := repeat SEMI (N.to_nat (e_gl e - lgl m)) in
    bind (if is_newline then vlq_encode (isize_of (e_gc e))
          else option_map (cons COMMA) (vlq_diff (e_gc e) (lgc m))) (fun col =>
    bind (vlq_diff (e_fi e) (lfi m)) (fun src =>
    bind (vlq_diff (e_ol e) (lol m)) (fun ol =>
    bind (vlq_diff (e_oc e) (loc m)) (fun oc =>
    bind (match e_ni e with
          | Some ni => option_map (fun x => (x, ni)) (vlq_diff ni (lni m))
          | None => Some ([], lni m)
          end) (fun nm =>
    Some {| mbuf := mbuf m ++ semis ++ col ++ src ++ ol ++ oc ++ fst nm;
            lgl := e_gl e; lgc := e_gc e; lol := e_ol e; loc := e_oc e;
            lni := snd nm; lfi := e_fi e |}))))).

Fixpoint add_entries (m : mstate) (es : list entry) : option mstate :=
  match es with
  | [] => Some m
  | e :: r => bind (add_entry m e) (fun m' => add_entries m' r)
  end.

(** * NameMapper: [all_list] plus an LRU cache of [NAME_MEMORY_SIZE] entries (most recent first) *)

Record nmapper := { nm_all : list str; nm_cache : list (str * N) }.
Definition nm0 : nmapper := {| nm_all := []; nm_cache := [] |}.

(** [LruCache::get]: the value and the cache without that entry (the caller puts it back in front) *)
Fixpoint cache_take (k : str) (c : list (str * N)) : option (N * list (str * N)) :=
  match c with
  | [] => None
  | (k', v) :: r =>
      if str_eqb k k' then Some (v, r)
      else match cache_take k r with
           | Some (v', r') => Some (v', (k', v) :: r')
           | None => None
           end
  end.

Definition map_name (m : nmapper) (name : str) : nmapper * N :=
  match cache_take name (nm_cache m) with
  | Some (i, rest) => ({| nm_all := nm_all m; nm_cache := (name, i) :: rest |}, i)
  | None =>
      let i := N.of_nat (length (nm_all m)) in
      let c := nm_cache m in
      let c' := if name_memory_size <=? N.of_nat (length c) then removelast c else c in
      ({| nm_all := nm_all m ++ [name]; nm_cache := (name, i) :: c' |}, i)
  end.

(** * SourceWriter *)

Record pos := mkpos { p_line : N; p_col : N; p_file : N; p_builtin : bool }.

(** the operations of the public trait [SourceMapWriter]; [WF chunk pos name] is
    [write_for(chunk, node)] with [node.position() = pos], [node.name() = name] *)
Inductive wop := W (c : str) | WF (c : str) (p : pos) (name : option str) | Indent | Dedent.

(** the write cursor: [buffer], [has_indent_flag], [current_line], [current_column] *)
Record cursor := { c_buf : str; c_flag : bool; c_ln : N; c_cl : N }.
Definition cur0 : cursor := {| c_buf := []; c_flag := false; c_ln := 0; c_cl := 0 |}.

Definition flush (ind : N) (c : cursor) : cursor :=
  if c_flag c then
    {| c_buf := c_buf c ++ repeat SPACE (N.to_nat ind); c_flag := false; c_ln := c_ln c; c_cl := c_cl c + ind |}
  else c.

Definition newline (c : cursor) : cursor :=
  {| c_buf := c_buf c ++ [LF]; c_flag := true; c_ln := c_ln c + 1; c_cl := 0 |}.

Definition put_line (ind : N) (c : cursor) (l : str) : cursor :=
  match l with
  | [] => c
  | _ => let c' := flush ind c in
         {| c_buf := c_buf c' ++ l; c_flag := c_flag c'; c_ln := c_ln c'; c_cl := c_cl c' + utf16_len l |}
  end.

(** the iterations of the loop in [write] with [idx > 0] *)
Fixpoint write_lines (ind : N) (c : cursor) (ls : list str) : cursor :=
  match ls with
  | [] => c
  | l :: r => write_lines ind (put_line ind (newline c) l) r
  end.

Definition write (ind : N) (c : cursor) (chunk : str) : cursor :=
  match split_on LF chunk with
  | [] => c
  | l :: r => write_lines ind (put_line ind c l) r
  end.

Record sw := {
  sw_cur : cursor;
  sw_ind : N;
  sw_map : mstate;
  sw_names : nmapper;
  sw_fmap : option (list N)      (* file_index_mapper *)
}.

Definition sw_init (fmap : option (list N)) : sw :=
  {| sw_cur := cur0; sw_ind := 0; sw_map := m0; sw_names := nm0; sw_fmap := fmap |}.

Definition sw_write (s : sw) (chunk : str) : sw :=
  {| sw_cur := write (sw_ind s) (sw_cur s) chunk; sw_ind := sw_ind s; sw_map := sw_map s;
     sw_names := sw_names s; sw_fmap := sw_fmap s |}.

Definition USIZE_MAX : N := 2^64 - 1.

(** [usize + usize] with overflow check *)
Definition uadd (a b : N) : option N := if a + b <=? USIZE_MAX then Some (a + b) else None.

Definition sw_write_for (s : sw) (chunk : str) (p : pos) (name : option str) : option sw :=
  if p_builtin p then Some (sw_write s chunk)
  else
    bind (match sw_fmap s with
          | None => Some (p_file p)
          | Some m => nth_error m (N.to_nat (p_file p))        (* map[original_pos.file] *)
          end) (fun fi =>
    match name with
    | Some nm =>
        let '(names', ni) := map_name (sw_names s) nm in
        let c1 := flush (sw_ind s) (sw_cur s) in
        bind (add_entry (sw_map s)
                {| e_gl := c_ln c1; e_gc := c_cl c1; e_ol := p_line p; e_oc := p_col p; e_fi := fi; e_ni := Some ni |})
             (fun m1 =>
        let c2 := write (sw_ind s) c1 chunk in
        bind (uadd (p_col p) (utf16_len nm)) (fun endcol =>
        bind (add_entry m1
                {| e_gl := c_ln c2; e_gc := c_cl c2; e_ol := p_line p; e_oc := endcol; e_fi := fi; e_ni := None |})
             (fun m2 =>
        Some {| sw_cur := c2; sw_ind := sw_ind s; sw_map := m2; sw_names := names'; sw_fmap := sw_fmap s |})))
    | None =>
        let c := sw_cur s in
        bind (add_entry (sw_map s)
                {| e_gl := c_ln c; e_gc := c_cl c; e_ol := p_line p; e_oc := p_col p; e_fi := fi; e_ni := None |})
             (fun m1 =>
        Some {| sw_cur := write (sw_ind s) c chunk; sw_ind := sw_ind s; sw_map := m1;
                sw_names := sw_names s; sw_fmap := sw_fmap s |})
    end).

Definition sw_set_ind (s : sw) (i : N) : sw :=
  {| sw_cur := sw_cur s; sw_ind := i; sw_map := sw_map s; sw_names := sw_names s; sw_fmap := sw_fmap s |}.

Definition sw_step (s : sw) (o : wop) : option sw :=
  match o with
  | W c => Some (sw_write s c)
  | WF c p name => sw_write_for s c p name
  | Indent => Some (sw_set_ind s (sw_ind s + 2))
  | Dedent => Some (sw_set_ind s (sw_ind s - 2))          (* saturating_sub; N subtraction truncates *)
  end.

Fixpoint sw_run_from (s : sw) (os : list wop) : option sw :=
  match os with
  | [] => Some s
  | o :: r => bind (sw_step s o) (fun s' => sw_run_from s' r)
  end.

Definition sw_run (fmap : option (list N)) (os : list wop) : option sw := sw_run_from (sw_init fmap) os.

(** [into_buffers]: (buffer, source_map, names) *)
Definition sw_buffers (s : sw) : str * str * list str :=
  (c_buf (sw_cur s), mbuf (sw_map s), nm_all (sw_names s)).

(** * print_source_map_json: the fields that are computed (the rest are constants) *)

(** [Path::file_name] as a string ("" when there is none) *)
Definition file_name_s (p : str) : str :=
  match rev (C20.Model.components p) with
  | C20.Model.Name n :: _ => n
  | _ => []
  end.

Fixpoint opt_all {A} (l : list (option A)) : option (list A) :=
  match l with
  | [] => Some []
  | x :: r => bind x (fun a => option_map (cons a) (opt_all r))
  end.

(** ["sources"]: [relative_path(file, path)] for every source file; [None] = [relative_path] panics *)
Definition sm_sources (file : str) (source_files : list str) : option (list str) :=
  opt_all (map (C20.Model.relative_s file) source_files).

(** * cli/generate.rs: FileMap, and file_store.rs index arithmetic *)

Inductive fkind := KSchema | KOperation.
Definition fkind_eqb (a b : fkind) : bool :=
  match a, b with KSchema, KSchema | KOperation, KOperation => true | _, _ => false end.

(** [FileStore]: the two vectors (kinds are implied by the vector) *)
Record file_store := { fs_schema : list str; fs_ops : list str }.

(** [FileStore::add_file]; [None] = the panic "Cannot add schema file after operation file is added" *)
Definition fs_add (fs : file_store) (path : str) (k : fkind) : option (file_store * N) :=
  match k with
  | KSchema =>
      match fs_ops fs with
      | [] => Some ({| fs_schema := fs_schema fs ++ [path]; fs_ops := fs_ops fs |}, N.of_nat (length (fs_schema fs)))
      | _ => None
      end
  | KOperation =>
      Some ({| fs_schema := fs_schema fs; fs_ops := fs_ops fs ++ [path] |},
            N.of_nat (length (fs_schema fs)) + N.of_nat (length (fs_ops fs ++ [path])) - 1)
  end.

(** [FileStore::iter] without the index: (path, kind) in store order *)
Definition fs_iter (fs : file_store) : list (str * fkind) :=
  map (fun p => (p, KSchema)) (fs_schema fs) ++ map (fun p => (p, KOperation)) (fs_ops fs).

Definition fs_schema_len (fs : file_store) : N := N.of_nat (length (fs_schema fs)).

(** [FileStore::get_file] *)
Definition fs_get (fs : file_store) (i : N) : option (str * fkind) :=
  if i <? fs_schema_len fs then option_map (fun p => (p, KSchema)) (nth_error (fs_schema fs) (N.to_nat i))
  else option_map (fun p => (p, KOperation)) (nth_error (fs_ops fs) (N.to_nat (i - fs_schema_len fs))).

(** which operation document is being printed: its file-store index and [contributing_files], the
    [position().file] of every definition of the (import-resolved) document *)
Definition opdoc := (N * list N)%type.

(** [idx == *file_index || contributing_files.contains(&idx)] *)
Definition contributes (op : option opdoc) (i : N) : bool :=
  match op with
  | Some (fi, contrib) => (i =? fi) || existsb (N.eqb i) contrib
  | None => false
  end.

(** the closure mapped over [file_store.iter()]; [next] is [next_source_index] *)
Fixpoint file_indices_from (i : N) (next : N) (op : option opdoc) (l : list (str * fkind)) : list N :=
  match l with
  | [] => []
  | (_, k) :: r =>
      match k with
      | KSchema => i :: file_indices_from (N.succ i) next op r
      | KOperation =>
          if contributes op i then next :: file_indices_from (N.succ i) (next + 1) op r
          else USIZE_MAX :: file_indices_from (N.succ i) next op r
      end
  end.

(** [FileMap::file_indices]: [op = None] for the schema and resolver outputs (every operation file maps to
    usize::MAX), [Some (file_index, contributing_files)] for the declaration file of an operation
    document: the operation files that contribute a definition get consecutive indices from
    [schema_len] on, in store order *)
Definition file_indices (fs : file_store) (op : option opdoc) : list N :=
  file_indices_from 0 (fs_schema_len fs) op (fs_iter fs).

(** [source_files] in [write_file_and_sourcemap] *)
Fixpoint source_files (idx : list N) (files : list (str * fkind)) : list str :=
  match idx, files with
  | i :: ir, (p, _) :: fr => if i =? USIZE_MAX then source_files ir fr else p :: source_files ir fr
  | _, _ => []
  end.

(** the ["sources"] array of the map written next to [output_file] *)
Definition cli_sources (fs : file_store) (op : option opdoc) (output_file : str) : option (list str) :=
  sm_sources output_file (source_files (file_indices fs op) (fs_iter fs)).
