(** C06 — proofs, part 9: every entry of ["sources"] resolves, relative to the generated file (the map
    sits next to it), to the source file it was computed from — at the level of path STRINGS.

    C20 proves [resolve a (relative a b) = normalize b] on component lists.  What [print_source_map_json]
    writes is the string [render (relative …)], and a consumer reads that string back through
    [components]; this file shows the reading is faithful ([components (render r) = r] for the component
    lists [relative] produces from well-formed paths) and lifts C20's theorem to strings. *)
From V Require Import Base.Util C20.Model C20.Proofs.
From V Require C06.Model.
Local Open Scope N_scope.

(** * names that [components] can produce *)
Definition wfn (n : str) : Prop := n <> [] /\ ~ In SLASH n /\ n <> [DOT] /\ n <> [DOT; DOT].
Definition wfc (c : comp) : Prop := match c with Name n => wfn n | _ => True end.

Lemma split_slash_no_slash : forall p, Forall (fun sg => ~ In SLASH sg) (split_slash p).
Proof.
  induction p as [|c p IH]; cbn [split_slash]; [repeat constructor; intros []|].
  destruct (N.eqb_spec c SLASH) as [->|Hn].
  - constructor; [intros [] | exact IH].
  - destruct (split_slash p) as [|sg sgs]; [repeat constructor; intros [H|[]]; congruence|].
    inversion IH; subst. constructor; [intros [H|H]; [congruence | contradiction] | assumption].
Qed.

Lemma seg_comp_name : forall b sg n, seg_comp b sg = Some (Name n) -> n = sg /\ sg <> [] /\ sg <> [DOT] /\ sg <> [DOT; DOT].
Proof.
  intros b sg n H. destruct sg as [|d [|e [|f r]]]; cbn [seg_comp] in H.
  - discriminate.
  - destruct (N.eqb_spec d DOT) as [->|Hd].
    + destruct b; discriminate.
    + injection H as <-. repeat split; congruence.
  - destruct (N.eqb_spec d DOT) as [->|Hd]; destruct (N.eqb_spec e DOT) as [->|He]; cbn [andb] in H;
      try discriminate; injection H as <-; repeat split; congruence.
  - injection H as <-. repeat split; congruence.
Qed.

Lemma segs_comps_wf : forall segs b, Forall (fun sg => ~ In SLASH sg) segs -> Forall wfc (segs_comps b segs).
Proof.
  induction segs as [|sg segs IH]; intros b H; cbn [segs_comps]; [constructor|].
  inversion H as [|? ? Hsg Hsegs]; subst. destruct (seg_comp b sg) as [c|] eqn:E; [|apply IH; assumption].
  constructor; [|apply IH; assumption].
  destruct c as [| | |n]; cbn [wfc]; try exact I.
  destruct (seg_comp_name _ _ _ E) as (-> & K1 & K2 & K3). repeat split; assumption.
Qed.

Lemma components_wf : forall p, Forall wfc (components p).
Proof.
  intros p. unfold components. destruct p as [|c r]; [constructor|].
  destruct (N.eqb c SLASH).
  - constructor; [exact I|]. apply segs_comps_wf, split_slash_no_slash.
  - apply segs_comps_wf, split_slash_no_slash.
Qed.

Lemma fold_nstep_in : forall cs st x, In x (fold_left nstep cs st) -> In x st \/ In x cs.
Proof.
  induction cs as [|c cs IH]; intros st x H; [left; exact H|]. cbn [fold_left] in H.
  destruct (IH _ _ H) as [H1|H1]; [|right; right; exact H1].
  destruct c; cbn [nstep] in H1.
  - destruct H1 as [<-|[]]. right. left. reflexivity.
  - left. exact H1.
  - left. destruct st; [destruct H1 | right; exact H1].
  - destruct H1 as [<-|H1]; [right; left; reflexivity | left; exact H1].
Qed.

Lemma normalize_in : forall cs x, In x (normalize cs) -> In x cs.
Proof.
  intros cs x H. unfold normalize in H. apply in_rev in H. destruct (fold_nstep_in _ _ _ H) as [[]|H1]. exact H1.
Qed.

(** * reading back a rendered relative path *)

(** components after the first of a relative path: [..] or a well-formed name *)
Definition plainc (c : comp) : Prop := match c with Par => True | Name n => wfn n | _ => False end.

Definition tailstr (cs : list comp) : str := flat_map (fun c => SLASH :: comp_str c) cs.

Lemma render_from_plain : forall cs, Forall plainc cs -> render_from false cs = tailstr cs.
Proof.
  induction cs as [|c cs IH]; intros H; [reflexivity|]. inversion H as [|? ? Hc Hcs]; subst.
  destruct c; cbn [plainc] in Hc; try contradiction; cbn [render_from tailstr flat_map app]; rewrite (IH Hcs); reflexivity.
Qed.

Lemma comp_str_no_slash : forall c, plainc c -> ~ In SLASH (comp_str c).
Proof.
  intros c H. destruct c; cbn [plainc] in H; try contradiction; cbn [comp_str].
  - intros [E|[E|[]]]; discriminate.
  - destruct H as (_ & H & _). exact H.
Qed.

Lemma split_slash_none : forall a, ~ In SLASH a -> split_slash a = [a].
Proof.
  induction a as [|c a IH]; intros H; [reflexivity|]. cbn [split_slash].
  destruct (N.eqb_spec c SLASH) as [->|Hn]; [exfalso; apply H; left; reflexivity|].
  rewrite IH by (intros K; apply H; right; exact K). reflexivity.
Qed.

Lemma split_slash_app : forall a rest, ~ In SLASH a -> split_slash (a ++ SLASH :: rest) = a :: split_slash rest.
Proof.
  induction a as [|c a IH]; intros rest H; cbn [app split_slash].
  - rewrite N.eqb_refl. reflexivity.
  - destruct (N.eqb_spec c SLASH) as [->|Hn]; [exfalso; apply H; left; reflexivity|].
    rewrite IH by (intros K; apply H; right; exact K). reflexivity.
Qed.

Lemma split_tail : forall cs a, Forall plainc cs -> ~ In SLASH a -> split_slash (a ++ tailstr cs) = a :: map comp_str cs.
Proof.
  induction cs as [|c cs IH]; intros a H Ha.
  - cbn [tailstr flat_map map]. rewrite app_nil_r. apply split_slash_none, Ha.
  - inversion H as [|? ? Hc Hcs]; subst. cbn [tailstr flat_map map]. fold (tailstr cs).
    change ((SLASH :: comp_str c) ++ tailstr cs) with (SLASH :: (comp_str c ++ tailstr cs)).
    rewrite split_slash_app by exact Ha. rewrite (IH _ Hcs (comp_str_no_slash _ Hc)). reflexivity.
Qed.

Lemma seg_comp_plain : forall c b, plainc c -> seg_comp b (comp_str c) = Some c.
Proof.
  intros c b H. destruct c; cbn [plainc] in H; try contradiction; cbn [comp_str].
  - reflexivity.
  - destruct H as (H0 & _ & H1 & H2). destruct n as [|d [|e [|f r]]]; cbn [seg_comp].
    + congruence.
    + destruct (N.eqb_spec d DOT) as [->|Hd]; [congruence | reflexivity].
    + destruct (N.eqb_spec d DOT) as [->|Hd]; destruct (N.eqb_spec e DOT) as [->|He]; cbn [andb]; try reflexivity. congruence.
    + reflexivity.
Qed.

Lemma segs_comps_plain : forall cs, Forall plainc cs -> segs_comps false (map comp_str cs) = cs.
Proof.
  induction cs as [|c cs IH]; intros H; [reflexivity|]. inversion H; subst. cbn [map segs_comps].
  rewrite seg_comp_plain by assumption. rewrite IH by assumption. reflexivity.
Qed.

Lemma components_render_rel : forall c0 cs, c0 = Cur \/ c0 = Par -> Forall plainc cs ->
  components (render (c0 :: cs)) = c0 :: cs.
Proof.
  intros c0 cs H0 H. unfold render.
  assert (E : render_from true (c0 :: cs) = comp_str c0 ++ tailstr cs).
  { destruct H0 as [->| ->]; cbn [render_from app comp_str]; rewrite (render_from_plain _ H); reflexivity. }
  rewrite E. unfold components.
  assert (Hns : ~ In SLASH (comp_str c0)) by (destruct H0 as [->| ->]; cbn; intuition discriminate).
  destruct H0 as [->| ->]; cbn [comp_str app] in *.
  - change (DOT :: tailstr cs) with ([DOT] ++ tailstr cs). 
    replace (N.eqb DOT SLASH) with false by reflexivity.
    rewrite (split_tail cs [DOT] H Hns). cbn [segs_comps seg_comp]. rewrite N.eqb_refl.
    rewrite segs_comps_plain by exact H. reflexivity.
  - change (DOT :: DOT :: tailstr cs) with ([DOT; DOT] ++ tailstr cs).
    replace (N.eqb DOT SLASH) with false by reflexivity.
    rewrite (split_tail cs [DOT; DOT] H Hns). cbn [segs_comps seg_comp]. rewrite N.eqb_refl. cbn [andb].
    rewrite segs_comps_plain by exact H. reflexivity.
Qed.

Lemma plain_names : forall y, Forall wfn y -> Forall plainc (map Name y).
Proof. induction y; intros H; cbn [map]; [constructor|]. inversion H; subst. constructor; [assumption | auto]. Qed.
Lemma plain_pars : forall k, Forall plainc (repeat Par k).
Proof. induction k; cbn [repeat]; constructor; [exact I | assumption]. Qed.

(** ** sources_resolve, on strings *)
Lemma sources_resolve_lemma : forall out src : str,
  abs_ok (components out) = true -> is_file (components out) = true -> abs_ok (components src) = true ->
  exists rel, relative_s out src = Some rel /\ resolve_s out rel = normalize_s src.
Proof.
  intros out src Ha Hf Hb.
  destruct (roundtrip _ _ Ha Hb Hf) as (r & Hr & Hres).
  destruct (relative_shape_full _ _ Ha Hb) as (c & x & y & _ & Hn & Hr' & _).
  rewrite Hr in Hr'. injection Hr' as Hshape. rewrite build_result_shape in Hshape.
  unfold relative_s, resolve_s, normalize_s. rewrite Hr. cbn [option_map]. eexists. split; [reflexivity|].
  (* the names of [y] are names of [components src] *)
  assert (Hy : Forall wfn y).
  { apply Forall_forall. intros n Hin.
    assert (Hc : In (Name n) (normalize (components src))) by (rewrite Hn; right; apply in_map, in_or_app; right; exact Hin).
    apply normalize_in in Hc. pose proof (components_wf src) as W. rewrite Forall_forall in W. exact (W _ Hc). }
  assert (Hread : components (render r) = r).
  { rewrite Hshape. destruct (length x) as [|k].
    - destruct y as [|n y']; [reflexivity|]. apply components_render_rel; [left; reflexivity | apply plain_names, Hy].
    - cbn [repeat app]. apply components_render_rel; [right; reflexivity|].
      apply Forall_app. split; [apply plain_pars | apply plain_names, Hy]. }
  rewrite Hread, Hres. reflexivity.
Qed.

(** the same for the whole ["sources"] array [print_source_map_json] computes *)
Lemma sm_sources_resolve_lemma : forall file srcs rels,
  abs_ok (components file) = true -> is_file (components file) = true ->
  Forall (fun p => abs_ok (components p) = true) srcs ->
  C06.Model.sm_sources file srcs = Some rels ->
  Forall2 (fun rel src => resolve_s file rel = normalize_s src) rels srcs.
Proof.
  intros file srcs rels Ha Hf Hs. revert rels. unfold C06.Model.sm_sources.
  induction srcs as [|p srcs IH]; intros rels H; cbn [map C06.Model.opt_all] in H.
  - injection H as <-. constructor.
  - inversion Hs as [|? ? Hp Hs']; subst.
    destruct (sources_resolve_lemma file p Ha Hf Hp) as (rel & Hr & Hres).
    rewrite Hr in H. cbn [C06.Model.bind] in H.
    destruct (C06.Model.opt_all (map (relative_s file) srcs)) as [rs|] eqn:E; [|discriminate].
    injection H as <-. constructor; [exact Hres | exact (IH Hs' rs eq_refl)].
Qed.

(** ** the model satisfies the spec-side predicate of a [print_source_map_json] case *)
From V Require C06.Corr.
Lemma holds_json_lemma : forall file srcs rels,
  C06.Model.sm_sources file srcs = Some rels ->
  C06.Corr.holds (C06.Corr.CJson file srcs true (Some (C06.Model.file_name_s file, rels))) = true.
Proof.
  intros file srcs rels H. cbn [C06.Corr.holds].
  destruct (abs_ok (components file) && is_file (components file) &&
            forallb (fun p => abs_ok (components p)) srcs) eqn:G; [|reflexivity].
  apply andb_true_iff in G as [G Hs]. apply andb_true_iff in G as [Ha Hf].
  assert (Hs' : Forall (fun p => abs_ok (components p) = true) srcs) by (apply Forall_forall; rewrite forallb_forall in Hs; exact Hs).
  pose proof (sm_sources_resolve_lemma file srcs rels Ha Hf Hs' H) as F.
  cbn [andb]. apply andb_true_iff. split.
  - apply Nat.eqb_eq. clear -F. induction F; cbn; [reflexivity | now rewrite IHF].
  - clear -F. induction F as [|rel src rels srcs E _ IH]; [reflexivity|]. cbn [combine forallb fst snd].
    rewrite E, str_eqb_refl. exact IH.
Qed.

(** ** the CLI's ["sources"]: entry [k] resolves, relative to the generated file, to the store file
       [sources_of fs op] holds at [k] — which by [C06_sources_in_range] is the file a segment with
       source index [k] came from *)
From V Require C06.ProofsCli.
Lemma source_files_in : forall idx files p, In p (C06.Model.source_files idx files) -> In p (map fst files).
Proof.
  induction idx as [|i idx IH]; intros files p H; destruct files as [|[q k] files]; cbn [C06.Model.source_files] in H; try contradiction.
  destruct (N.eqb i C06.Model.USIZE_MAX); [right; exact (IH _ _ H)|].
  destruct H as [<-|H]; [left; reflexivity | right; exact (IH _ _ H)].
Qed.

Lemma cli_sources_resolve_lemma : forall fs op output rels,
  abs_ok (components output) = true -> is_file (components output) = true ->
  Forall (fun p => abs_ok (components p) = true) (C06.Model.fs_schema fs ++ C06.Model.fs_ops fs) ->
  C06.Model.cli_sources fs op output = Some rels ->
  Forall2 (fun rel p => resolve_s output rel = normalize_s p) rels (C06.ProofsCli.sources_of fs op).
Proof.
  intros fs op output rels Ha Hf Hs H. unfold C06.Model.cli_sources in H.
  apply (sm_sources_resolve_lemma output _ rels Ha Hf); [|exact H].
  apply Forall_forall. intros p Hp. apply source_files_in in Hp.
  rewrite Forall_forall in Hs. apply Hs. unfold C06.Model.fs_iter in Hp. rewrite map_app, !map_map in Hp. cbn [fst] in Hp.
  rewrite !map_id in Hp. exact Hp.
Qed.
