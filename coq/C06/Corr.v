(** C06 — correspondence ([agree]: model output = implementation output) and the property's spec-side
    predicate evaluated on the implementation's outputs ([holds]). *)
From V Require Import Base.Util Gen.C06_tables_gen C06.Model C06.Spec.
From V Require C20.Model.
Local Open Scope N_scope.

(** [u8 "…"]: the harness writes file contents as Coq string literals holding the UTF-8 bytes; this
    turns them back into Unicode scalar values (well-formed input only: the harness writes Rust [String]s) *)
Fixpoint utf8_dec (b : list N) : str :=
  match b with
  | [] => []
  | c :: r =>
      if c <? 128 then c :: utf8_dec r
      else if c <? 224 then
        match r with c1 :: r' => ((c - 192) * 64 + (c1 - 128)) :: utf8_dec r' | _ => [] end
      else if c <? 240 then
        match r with c1 :: c2 :: r' => ((c - 224) * 4096 + (c1 - 128) * 64 + (c2 - 128)) :: utf8_dec r' | _ => [] end
      else
        match r with
        | c1 :: c2 :: c3 :: r' => ((c - 240) * 262144 + (c1 - 128) * 4096 + (c2 - 128) * 64 + (c3 - 128)) :: utf8_dec r'
        | _ => []
        end
  end.
Definition u8 (x : String.string) : str := utf8_dec (s x).
Arguments u8 x%string_scope.

(** one emitted map of a CLI project, as the harness read it back from disk *)
Record mapfile := mk_mapfile {
  mf_output : str;                 (* absolute path of the generated file G *)
  mf_op : option opdoc;            (* None: schema/resolver output; Some (i, files): declaration file of file-store entry i,
                                      whose document has definitions from the store files [files] *)
  mf_text : str;                   (* contents of G *)
  mf_json_ok : bool;               (* the .map parsed as JSON with version 3, string file, array sources/names, string mappings *)
  mf_file : str;                   (* "file" *)
  mf_sources : list str;           (* "sources" *)
  mf_names : list str;             (* "names" *)
  mf_mappings : str;               (* "mappings" *)
  mf_defs : list (str * str * N * N * N * N);
     (* definitions printed in G: (generated identifier, source file path, header start line/col,
        header end line/col (exclusive)); positions in Unicode scalar values as the parser reports them *)
  mf_tol_scalar_cols : bool        (* lenient twin: read original columns in Unicode scalar values, not UTF-16 *)
}.

Inductive case :=
| CVlq (n : Z) (out : str)                                   (* out = base64_vlq(n) *)
| CVlqRange (lo : Z) (cnt : N) (digest : N)                  (* digest of base64_vlq(lo), …, base64_vlq(lo+cnt-1) *)
| CMap (es : list entry) (out : option str)                  (* MappingWriter: add_entry for each, into_buffer; None = panic *)
| CWriter (fmap : option (list N)) (ops : list wop) (out : option (str * str * list str))
     (* SourceWriter::new, set_file_index_mapper, the ops, into_buffers = (buffer, source_map, names) *)
| CJson (file : str) (srcs : list str) (passthru : bool) (out : option (str * list str))
     (* print_source_map_json(file, srcs, names, mappings): ("file", "sources") of the JSON written; passthru =
        version is 3, sourceRoot "", names and mappings are the arguments *)
| CProj (schema_files op_files : list (str * str))           (* file store: (absolute path, contents), in load order *)
        (maps : list mapfile).

(** * agree *)

Definition digest_step (h c : N) : N := N.land (h * 1099511628211 + c + 1) (2^64 - 1).

Definition range_digest (lo : Z) (cnt : N) : option N :=
  snd (N.iter cnt (fun '(n, h) =>
         match h with
         | None => (n, None)
         | Some h =>
             match vlq_encode n with
             | None => (n, None)
             | Some t => ((n + 1)%Z, Some (digest_step (fold_left digest_step t h) 255))
             end
         end) (lo, Some 14695981039346656037)).

Definition triple_eqb (a b : str * str * list str) : bool :=
  let '(a1, a2, a3) := a in let '(b1, b2, b3) := b in
  str_eqb a1 b1 && str_eqb a2 b2 && list_eqb str_eqb a3 b3.

Definition store_of (schema_files op_files : list (str * str)) : file_store :=
  {| fs_schema := map fst schema_files; fs_ops := map fst op_files |}.

Definition agree_map (fs : file_store) (m : mapfile) : bool :=
  option_eqb (list_eqb str_eqb) (cli_sources fs (mf_op m) (mf_output m)) (Some (mf_sources m))
  && str_eqb (file_name_s (mf_output m)) (mf_file m).

Definition agree (c : case) : bool :=
  match c with
  | CVlq n out => option_eqb str_eqb (vlq_encode n) (Some out)
  | CVlqRange lo cnt d => option_eqb N.eqb (range_digest lo cnt) (Some d)
  | CMap es out => option_eqb str_eqb (option_map mbuf (add_entries m0 es)) out
  | CWriter fmap ops out => option_eqb triple_eqb (option_map sw_buffers (sw_run fmap ops)) out
  | CJson file srcs passthru out =>
      passthru &&
      option_eqb (fun a b => str_eqb (fst a) (fst b) && list_eqb str_eqb (snd a) (snd b))
        (option_map (fun l => (file_name_s file, l)) (sm_sources file srcs)) out
  | CProj sf of maps => forallb (agree_map (store_of sf of)) maps
  end.

(** * holds *)

Definition small (x : N) : bool := x <? 2^31.

Definition entry_small (e : entry) : bool :=
  small (e_gl e) && small (e_gc e) && small (e_ol e) && small (e_oc e) && small (e_fi e) &&
  match e_ni e with Some k => small k | None => true end.

Definition seg_of_entry_spec (e : entry) : seg :=
  {| g_line := e_gl e; g_col := Z.of_N (e_gc e);
     g_orig := Some (Z.of_N (e_fi e), Z.of_N (e_ol e), Z.of_N (e_oc e), option_map Z.of_N (e_ni e)) |}.

Definition oz_eqb := option_eqb Z.eqb.
Definition seg_eqb (a b : seg) : bool :=
  (g_line a =? g_line b) && (g_col a =? g_col b)%Z &&
  option_eqb (fun x y => let '(a1, a2, a3, a4) := x in let '(b1, b2, b3, b4) := y in
                         (a1 =? b1)%Z && (a2 =? b2)%Z && (a3 =? b3)%Z && oz_eqb a4 b4) (g_orig a) (g_orig b).

(** what a correct writer must emit for one op, read from the op list alone *)
Record xseg := { x_src : N; x_ol : N; x_oc : N; x_name : option str; x_text : option str }.

Definition lookup_file (fmap : option (list N)) (f : N) : option N :=
  match fmap with None => Some f | Some m => nth_error m (N.to_nat f) end.

Fixpoint expect (fmap : option (list N)) (ops : list wop) : option (list xseg) :=
  match ops with
  | [] => Some []
  | WF c p name :: r =>
      if p_builtin p then expect fmap r
      else match lookup_file fmap (p_file p), expect fmap r with
           | Some fi, Some xs =>
               match name with
               | Some nm =>
                   Some ({| x_src := fi; x_ol := p_line p; x_oc := p_col p; x_name := Some nm;
                            x_text := Some (hd [] (lines_of c)) |}
                         :: {| x_src := fi; x_ol := p_line p; x_oc := p_col p + utf16_len_spec nm; x_name := None;
                               x_text := None |} :: xs)
               | None =>
                   Some ({| x_src := fi; x_ol := p_line p; x_oc := p_col p; x_name := None; x_text := None |} :: xs)
               end
           | _, _ => None
           end
  | _ :: r => expect fmap r
  end.

Fixpoint match_segs (lines names : list str) (gs : list seg) (xs : list xseg) : bool :=
  match gs, xs with
  | [], [] => true
  | g :: gr, x :: xr =>
      match g_orig g with
      | Some (sr, ol, oc, nm) =>
          (sr =? Z.of_N (x_src x))%Z && (ol =? Z.of_N (x_ol x))%Z && (oc =? Z.of_N (x_oc x))%Z &&
          match nm, x_name x with
          | None, None => true
          | Some k, Some n =>
              (0 <=? k)%Z && match nth_error names (Z.to_nat k) with Some n' => str_eqb n n' | None => false end
          | _, _ => false
          end &&
          match x_text x with Some w => text_at lines g w | None => true end
      | None => false
      end && match_segs lines names gr xr
  | _, _ => false
  end.

Definition op_small (o : wop) : bool :=
  match o with
  | WF _ p name => small (p_line p) && small (p_col p) && small (p_file p) &&
                   match name with Some n => small (utf16_len_spec n) | None => true end
  | _ => true
  end.

(** a file-index mapper as the CLI builds them: every entry is usize::MAX or an index below the number
    of entries that are not usize::MAX (the length of "sources") *)
Definition fmap_wf (fmap : option (list N)) : bool :=
  match fmap with
  | None => true
  | Some m => let n := N.of_nat (length (filter (fun i => negb (i =? USIZE_MAX)) m)) in
              small n && forallb (fun k => (k =? USIZE_MAX) || (k <? n)) m
  end.

(** outputs of ordinary size: a text shorter than 2^31 UTF-16 units, fewer than 2^31 names *)
Definition out_small (buf : str) (names : list str) : bool :=
  small (utf16_len_spec buf) && small (N.of_nat (length names)).

(** the contract of [write_for]: the node's file is one the mapper gives an index of "sources" to (the
    CLI maps every file a printed definition comes from; a file mapped to usize::MAX must not be used) *)
Definition op_mapped (fmap : option (list N)) (o : wop) : bool :=
  match o with
  | WF _ p _ => p_builtin p || match lookup_file fmap (p_file p) with Some k => negb (k =? USIZE_MAX) | None => true end
  | _ => true
  end.

Definition nsources_of (fmap : option (list N)) : N :=
  match fmap with
  | None => 2^31
  | Some m => N.of_nat (length (filter (fun i => negb (i =? USIZE_MAX)) m))
  end.

(** ** CLI layer *)

Definition find_file (files : list (str * str)) (path : str) : option str :=
  option_map snd (find (fun f => str_eqb (fst f) path) files).

(** for every entry of "sources": the path it resolves to relative to the generated file (the map
    sits next to it), the contents of that GraphQL input file, and its token starts *)
Definition source_table (files : list (str * str)) (output : str) (sources : list str)
  : list (option (str * str * list tokpos)) :=
  map (fun rel => let p := C20.Model.resolve_s output rel in
                  option_map (fun t => (p, t, token_starts t)) (find_file files p)) sources.

Definition source_entry (tab : list (option (str * str * list tokpos))) (k : Z) : option (str * str * list tokpos) :=
  if (k <? 0)%Z then None
  else match nth_error tab (Z.to_nat k) with Some (Some e) => Some e | _ => None end.

Definition at_token (scalar_cols : bool) (toks : list tokpos) (l c : Z) : bool :=
  existsb (fun t => (Z.of_N (t_line t) =? l)%Z &&
                    (Z.of_N (if scalar_cols then t_colc t else t_col16 t) =? c)%Z) toks.

Fixpoint name_at (t : str) : str :=
  match t with
  | c :: r => if is_name_cont c then c :: name_at r else []
  | [] => []
  end.
Fixpoint skip_ignored (t : str) : str :=
  match t with
  | c :: r => if (c =? 32) || (c =? 9) || (c =? 10) || (c =? 13) || (c =? 44) then skip_ignored r else t
  | [] => []
  end.
Fixpoint drop_chars (n : nat) (t : str) : str :=
  match n, t with O, _ => t | S k, _ :: r => drop_chars k r | _, [] => [] end.

(** the text of line [l] from column [c] on *)
Definition text_from (scalar_cols : bool) (t : str) (l c : Z) : option str :=
  if (l <? 0)%Z || (c <? 0)%Z then None
  else match nth_error (lines_of t) (Z.to_nat l) with
       | Some ln => if scalar_cols then Some (drop_chars (Z.to_nat c) ln) else drop_utf16 (Z.to_N c) ln
       | None => None
       end.

(** a named segment at original position (l, c): the token there is the name itself (an identifier or a
    keyword mapped under its own text), or it is the keyword / sigil ([query], [fragment], [type], [@], [$])
    of the construct and the name is the next token *)
Definition name_matches (scalar_cols : bool) (t : str) (l c : Z) (nm : str) : bool :=
  match text_from scalar_cols t l c with
  | None => false
  | Some rest =>
      let w := name_at rest in
      str_eqb w nm ||
      str_eqb (name_at (skip_ignored (drop_chars (match w with [] => 1%nat | _ => length w end) rest))) nm
  end.

Definition seg_orig_ok (tab : list (option (str * str * list tokpos))) (m : mapfile) (gs : list seg) (g : seg) : bool :=
  match g_orig g with
  | None => true
  | Some (sr, ol, oc, nm) =>
      match source_entry tab sr with
      | None => false
      | Some (_, t, toks) =>
          let sc := mf_tol_scalar_cols m in
          match nm with
          | Some k =>
              at_token sc toks ol oc &&
              match (if (k <? 0)%Z then None else nth_error (mf_names m) (Z.to_nat k)) with
              | Some n => name_matches sc t ol oc n
              | None => false
              end
          | None =>
              at_token sc toks ol oc ||
              (* range-closing segment: just past the name of a named segment with the same origin line *)
              existsb (fun h => match g_orig h with
                                | Some (sr', ol', oc', Some k') =>
                                    (sr' =? sr)%Z && (ol' =? ol)%Z &&
                                    match (if (k' <? 0)%Z then None else nth_error (mf_names m) (Z.to_nat k')) with
                                    | Some n => (oc =? oc' + Z.of_N (utf16_len_spec n))%Z
                                    | None => false
                                    end
                                | _ => false
                                end) gs
          end
      end
  end.

Definition pos_leb (l0 c0 : N) (l c : Z) : bool := ((Z.of_N l0 <? l) || ((Z.of_N l0 =? l) && (Z.of_N c0 <=? c)))%Z.
Definition pos_ltb (l c : Z) (l1 c1 : N) : bool := ((l <? Z.of_N l1) || ((l =? Z.of_N l1) && (c <? Z.of_N c1)))%Z.

(** a definition printed in G has a named segment whose generated text is its identifier and whose
    origin lies in the definition's header, in the right file *)
Definition def_mapped (tab : list (option (str * str * list tokpos))) (m : mapfile) (lines : list str) (gs : list seg)
           (d : str * str * N * N * N * N) : bool :=
  let '(ident, path, l0, c0, l1, c1) := d in
  existsb (fun g =>
    match g_orig g with
    | Some (sr, ol, oc, Some _) =>
        match source_entry tab sr with
        | Some (p, _, _) => str_eqb p path && pos_leb l0 c0 ol oc && pos_ltb ol oc l1 c1 && text_at lines g ident
        | None => false
        end
    | _ => false
    end) gs.

Definition map_holds (files : list (str * str)) (m : mapfile) : bool :=
  mf_json_ok m &&
  match decode_mappings (mf_mappings m) with
  | None => false
  | Some gs =>
      let lines := lines_of (mf_text m) in
      let tab := source_table files (mf_output m) (mf_sources m) in
      segs_sorted gs && forallb (seg_in_text lines) gs &&
      forallb (seg_refs_ok (N.of_nat (length (mf_sources m))) (N.of_nat (length (mf_names m)))) gs &&
      forallb (fun e => match e with Some _ => true | None => false end) tab &&
      forallb (seg_orig_ok tab m gs) gs &&
      forallb (def_mapped tab m lines gs) (mf_defs m)
  end.

Definition holds (c : case) : bool :=
  match c with
  | CVlq n out => match vlq_decode out with Some (n', []) => (n' =? n)%Z | _ => false end
  | CVlqRange lo cnt _ =>
      (* on the model (a digest cannot be decoded): every value of the range round-trips *)
      fst (N.iter cnt (fun '(ok, n) =>
             (ok && match vlq_encode n with
                    | Some t => match vlq_decode t with Some (n', []) => (n' =? n)%Z | _ => false end
                    | None => false
                    end, (n + 1)%Z)) (true, lo))
  | CMap es out =>
      match out with
      | None => true                         (* a panic of add_entry is an API-contract matter (C08), not C06 *)
      | Some o =>
          if forallb entry_small es
          then option_eqb (list_eqb seg_eqb) (decode_mappings o) (Some (map seg_of_entry_spec es))
          else true
      end
  | CWriter fmap ops out =>
      match out with
      | None => true
      | Some (buf, mp, names) =>
          if forallb op_small ops && forallb (op_mapped fmap) ops && fmap_wf fmap && out_small buf names then
            match decode_mappings mp, expect fmap ops with
            | Some gs, Some xs =>
                let lines := lines_of buf in
                segs_sorted gs && forallb (seg_in_text lines) gs &&
                forallb (seg_refs_ok (nsources_of fmap) (N.of_nat (length names))) gs &&
                match_segs lines names gs xs
            | None, _ => false
            | Some _, None => true
            end
          else true
      end
  | CJson file srcs passthru out =>
      let cf := C20.Model.components file in
      if C20.Model.abs_ok cf && C20.Model.is_file cf && forallb (fun p => C20.Model.abs_ok (C20.Model.components p)) srcs then
        match out with
        | None => false
        | Some (f, rels) =>
            passthru &&
            (length rels =? length srcs)%nat &&
            forallb (fun pr => str_eqb (C20.Model.resolve_s file (fst pr)) (C20.Model.normalize_s (snd pr))) (combine rels srcs)
        end
      else true
  | CProj sf of maps => forallb (map_holds (sf ++ of)) maps
  end.
