(** C06 — the model satisfies the spec-side predicate [holds] of Corr.v (so, where [agree] holds, the
    implementation's output does too): VLQ values and entry lists. *)
From V Require Import Base.Util Gen.C06_tables_gen C06.Model C06.Spec C06.Proofs C06.ProofsMap C06.Corr.
Local Open Scope N_scope.

Lemma holds_vlq_lemma : forall n t, vlq_encode n = Some t -> holds (CVlq n t) = true.
Proof.
  intros n t H. cbn [holds]. pose proof (vlq_roundtrip_lemma n t [] H) as R. rewrite app_nil_r in R.
  rewrite R. apply Z.eqb_refl.
Qed.

Lemma small_isize : forall x, small x = true -> isize_of x = Z.of_N x.
Proof.
  intros x H. unfold small in H. apply N.ltb_lt in H. unfold isize_of.
  assert (x < 2 ^ 63) by (eapply N.lt_trans; [exact H | reflexivity]).
  rewrite N.mod_small by (change (2 ^ 64) with (2 * 2 ^ 63); lia).
  replace (x <? 2 ^ 63) with true by (symmetry; apply N.ltb_lt; assumption). reflexivity.
Qed.

Lemma seg_of_entry_small : forall e, entry_small e = true -> seg_of_entry e = seg_of_entry_spec e.
Proof.
  intros e H. unfold entry_small in H.
  repeat (apply andb_true_iff in H; destruct H as [H ?]).
  unfold seg_of_entry, seg_of_entry_spec. rewrite !small_isize by assumption.
  destruct (e_ni e) as [k|]; cbn [option_map]; [rewrite small_isize by assumption|]; reflexivity.
Qed.

Lemma seg_eqb_refl : forall g, seg_eqb g g = true.
Proof.
  intros [l c o]. unfold seg_eqb. cbn [g_line g_col g_orig]. rewrite N.eqb_refl, Z.eqb_refl. cbn [andb].
  destruct o as [[[[a b] c'] d]|]; cbn [option_eqb]; [|reflexivity].
  rewrite !Z.eqb_refl. cbn [andb]. destruct d as [z|]; cbn; [apply Z.eqb_refl | reflexivity].
Qed.

Lemma list_eqb_refl {A} (eqb : A -> A -> bool) : (forall x, eqb x x = true) -> forall l, list_eqb eqb l l = true.
Proof. intros H. induction l as [|x l IH]; cbn; [reflexivity | now rewrite H, IH]. Qed.

Lemma holds_map_lemma : forall es m, add_entries m0 es = Some m -> holds (CMap es (Some (mbuf m))) = true.
Proof.
  intros es m H. cbn [holds]. destruct (forallb entry_small es) eqn:Es; [|reflexivity].
  rewrite (mappings_decode_lemma es m H).
  replace (map seg_of_entry es) with (map seg_of_entry_spec es).
  - cbn [option_eqb]. apply list_eqb_refl, seg_eqb_refl.
  - apply map_ext_in. intros e He. symmetry. apply seg_of_entry_small.
    rewrite forallb_forall in Es. exact (Es e He).
Qed.
