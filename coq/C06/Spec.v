(** C06 — specification side (definitions only), written from the Source Map v3 text ("Source Map
    Revision 3 Proposal", section "mappings") and RFC 4648, independently of nitrogql's code:

    - the base64 digit values (RFC 4648 table 1, as character ranges — not the table nitrogql uses);
    - base64 VLQ: little-endian groups of 5 data bits, bit 5 of a digit = "continues", bit 0 of the
      assembled number = sign;
    - [mappings]: lines separated by [;], segments by [,], each segment 1, 4 or 5 VLQ fields
      (generated column; source index, original line, original column; name index), every field
      relative to the previous occurrence of the same field, the generated column being reset at each
      new line.  Empty segments are skipped (as the reference consumers do).

    The decoder is a single left-to-right pass ([dstep] folded over the characters) so that decoding a
    concatenation is the composition of the decodings; the examples at the end of Proofs.v replay maps
    produced by other tools. *)
From V Require Import Base.Util.
Local Open Scope N_scope.

(** * base64 digits *)
Definition b64_val (c : N) : option N :=
  if (65 <=? c) && (c <=? 90) then Some (c - 65)                (* A-Z -> 0..25 *)
  else if (97 <=? c) && (c <=? 122) then Some (c - 97 + 26)     (* a-z -> 26..51 *)
  else if (48 <=? c) && (c <=? 57) then Some (c - 48 + 52)      (* 0-9 -> 52..61 *)
  else if c =? 43 then Some 62                                   (* + *)
  else if c =? 47 then Some 63                                   (* / *)
  else None.

(** the integer a completed VLQ number stands for: bit 0 is the sign, the rest the magnitude *)
Definition z_of_vlq (v : N) : Z := if N.odd v then (- Z.of_N (N.div2 v))%Z else Z.of_N (N.div2 v).

(** one VLQ from the front of a string, with the rest *)
Fixpoint vlq_decode_go (t : str) (shift acc : N) : option (N * str) :=
  match t with
  | [] => None
  | c :: r =>
      match b64_val c with
      | None => None
      | Some d =>
          let acc' := acc + N.shiftl (N.land d 31) shift in
          if N.testbit d 5 then vlq_decode_go r (shift + 5) acc' else Some (acc', r)
      end
  end.
Definition vlq_decode (t : str) : option (Z * str) :=
  match vlq_decode_go t 0 0 with
  | Some (v, r) => Some (z_of_vlq v, r)
  | None => None
  end.

(** * mappings *)

(** a decoded segment, all fields absolute *)
Record seg := {
  g_line : N;                                   (* generated line, 0-based *)
  g_col : Z;                                    (* generated column *)
  g_orig : option (Z * Z * Z * option Z)        (* source index, original line, original column, name index *)
}.

Record dstate := mk_d {
  d_line : N; d_gc : Z; d_src : Z; d_ol : Z; d_oc : Z; d_nm : Z;   (* running absolute values *)
  d_fields : list Z;                  (* fields of the segment being read, last first *)
  d_shift : N; d_acc : N; d_pend : bool;      (* VLQ number being read *)
  d_out : list seg                    (* segments so far, last first *)
}.

Definition d0 : dstate := mk_d 0 0 0 0 0 0 [] 0 0 false [].

(** end of a segment ([,], [;] or end of input) *)
Definition close_seg (d : dstate) : option dstate :=
  if d_pend d then None
  else match rev (d_fields d) with
       | [] => Some d
       | [a] =>
           let gc := (d_gc d + a)%Z in
           Some (mk_d (d_line d) gc (d_src d) (d_ol d) (d_oc d) (d_nm d) [] 0 0 false
                      ({| g_line := d_line d; g_col := gc; g_orig := None |} :: d_out d))
       | [a; b; c; e] =>
           let gc := (d_gc d + a)%Z in let sr := (d_src d + b)%Z in
           let ol := (d_ol d + c)%Z in let oc := (d_oc d + e)%Z in
           Some (mk_d (d_line d) gc sr ol oc (d_nm d) [] 0 0 false
                      ({| g_line := d_line d; g_col := gc; g_orig := Some (sr, ol, oc, None) |} :: d_out d))
       | [a; b; c; e; f] =>
           let gc := (d_gc d + a)%Z in let sr := (d_src d + b)%Z in
           let ol := (d_ol d + c)%Z in let oc := (d_oc d + e)%Z in let nm := (d_nm d + f)%Z in
           Some (mk_d (d_line d) gc sr ol oc nm [] 0 0 false
                      ({| g_line := d_line d; g_col := gc; g_orig := Some (sr, ol, oc, Some nm) |} :: d_out d))
       | _ => None
       end.

Definition next_line (d : dstate) : dstate :=
  mk_d (d_line d + 1) 0 (d_src d) (d_ol d) (d_oc d) (d_nm d) (d_fields d) (d_shift d) (d_acc d) (d_pend d) (d_out d).

Definition push_digit (d : dstate) (x : N) : dstate :=
  let acc' := d_acc d + N.shiftl (N.land x 31) (d_shift d) in
  if N.testbit x 5 then
    mk_d (d_line d) (d_gc d) (d_src d) (d_ol d) (d_oc d) (d_nm d) (d_fields d) (d_shift d + 5) acc' true (d_out d)
  else
    mk_d (d_line d) (d_gc d) (d_src d) (d_ol d) (d_oc d) (d_nm d) (z_of_vlq acc' :: d_fields d) 0 0 false (d_out d).

Definition dstep (d : dstate) (c : N) : option dstate :=
  if c =? 44 then close_seg d                                       (* , *)
  else if c =? 59 then option_map next_line (close_seg d)           (* ; *)
  else option_map (push_digit d) (b64_val c).

Fixpoint drun (d : dstate) (t : str) : option dstate :=
  match t with
  | [] => Some d
  | c :: r => match dstep d c with Some d' => drun d' r | None => None end
  end.

Definition decode_mappings (t : str) : option (list seg) :=
  match drun d0 t with
  | Some d => option_map (fun d' => rev (d_out d')) (close_seg d)
  | None => None
  end.

(** * What a consumer needs of the decoded segments *)

Definition utf16_len_spec (t : str) : N :=
  fold_right (fun c a => (if c <? 65536 then 1 else 2) + a) 0 t.

(** lines of a text (separator LF), never empty *)
Fixpoint lines_of (t : str) : list str :=
  match t with
  | [] => [[]]
  | c :: r =>
      if c =? 10 then [] :: lines_of r
      else match lines_of r with
           | [] => [[c]]
           | l :: ls => (c :: l) :: ls
           end
  end.

(** [seg] lies inside [text]: its line exists and its column is between 0 and the UTF-16 length of
    that line *)
Definition seg_in_text (lines : list str) (g : seg) : bool :=
  match nth_error lines (N.to_nat (g_line g)) with
  | None => false
  | Some l => ((0 <=? g_col g) && (g_col g <=? Z.of_N (utf16_len_spec l)))%Z
  end.

(** segments are ordered by (generated line, generated column) *)
Fixpoint segs_sorted (gs : list seg) : bool :=
  match gs with
  | [] => true
  | g :: r =>
      match r with
      | [] => true
      | h :: _ =>
          ((g_line g <? g_line h) || ((g_line g =? g_line h) && (g_col g <=? g_col h)%Z)) && segs_sorted r
      end
  end.

(** the text of line [l] from UTF-16 column [col] on ([None] if [col] is not at a character boundary
    of the line) *)
Fixpoint drop_utf16 (col : N) (l : str) : option str :=
  if col =? 0 then Some l
  else match l with
       | [] => None
       | c :: r => let w := if c <? 65536 then 1 else 2 in
                   if w <=? col then drop_utf16 (col - w) r else None
       end.

Fixpoint is_prefix (p t : str) : bool :=
  match p, t with
  | [], _ => true
  | x :: p', y :: t' => (x =? y) && is_prefix p' t'
  | _, [] => false
  end.

(** the generated text at segment [g] starts with [w] ([w] without line breaks) *)
Definition text_at (lines : list str) (g : seg) (w : str) : bool :=
  match nth_error lines (N.to_nat (g_line g)) with
  | None => false
  | Some l => if (g_col g <? 0)%Z then false
              else match drop_utf16 (Z.to_N (g_col g)) l with
                   | Some rest => is_prefix w rest
                   | None => false
                   end
  end.

(** the position (line, UTF-16 column) reached after writing [t] from position [lc]: a line feed starts
    a new line, any other character advances the column by its UTF-16 length *)
Definition pos_step (lc : N * N) (ch : N) : N * N :=
  if ch =? 10 then (fst lc + 1, 0) else (fst lc, snd lc + (if ch <? 65536 then 1 else 2)).
Definition end_pos_from (lc : N * N) (t : str) : N * N := fold_left pos_step t lc.
Definition end_pos (t : str) : N * N := end_pos_from (0, 0) t.

(** source index and name index refer to existing entries *)
Definition seg_refs_ok (nsources nnames : N) (g : seg) : bool :=
  match g_orig g with
  | None => true
  | Some (sr, ol, oc, nm) =>
      ((0 <=? sr) && (sr <? Z.of_N nsources) && (0 <=? ol) && (0 <=? oc))%Z &&
      match nm with
      | None => true
      | Some k => ((0 <=? k) && (k <? Z.of_N nnames))%Z
      end
  end.

(** * GraphQL tokens (October 2021 specification, section 2.1 "Source text"), for [token_start]

    Ignored: BOM, tab, space, line terminators, comma, comments ([#] to end of line).
    Tokens: punctuators, names, numbers (int/float lexemes), strings and block strings.
    Positions are (line, column) with lines broken at LF, CR LF and lone CR... the input files the
    check generates contain no CR, so only LF matters; columns are counted in UTF-16 code units
    (what a source-map consumer uses) and, separately, in Unicode scalar values. *)

Definition is_name_start (c : N) : bool :=
  ((65 <=? c) && (c <=? 90)) || ((97 <=? c) && (c <=? 122)) || (c =? 95).
Definition is_digit (c : N) : bool := (48 <=? c) && (c <=? 57).
Definition is_name_cont (c : N) : bool := is_name_start c || is_digit c.

Inductive lexmode :=
| LIgn                (* between tokens *)
| LName
| LNum
| LComment
| LStr (esc : bool)   (* inside a quoted string; esc = previous char was a backslash *)
| LBlock (q : nat) (esc : bool)  (* inside a block string; q = consecutive quotes just seen; esc = they follow a backslash *)
| LQuote (q : nat)    (* q opening quotes seen so far (1 or 2), token already started *)
| LDots (k : nat).    (* inside the three-dot punctuator *)

(** one token start: line, column in UTF-16 units, column in scalar values *)
Record tokpos := { t_line : N; t_col16 : N; t_colc : N }.

Record lexst := { x_mode : lexmode; x_line : N; x_c16 : N; x_cc : N; x_toks : list tokpos (* last first *) }.

Definition lex_start (x : lexst) (m : lexmode) : lexst :=
  {| x_mode := m; x_line := x_line x; x_c16 := x_c16 x; x_cc := x_cc x;
     x_toks := {| t_line := x_line x; t_col16 := x_c16 x; t_colc := x_cc x |} :: x_toks x |}.
Definition lex_mode (x : lexst) (m : lexmode) : lexst :=
  {| x_mode := m; x_line := x_line x; x_c16 := x_c16 x; x_cc := x_cc x; x_toks := x_toks x |}.
Definition lex_adv (x : lexst) (c : N) : lexst :=
  if c =? 10 then {| x_mode := x_mode x; x_line := x_line x + 1; x_c16 := 0; x_cc := 0; x_toks := x_toks x |}
  else {| x_mode := x_mode x; x_line := x_line x; x_c16 := x_c16 x + (if c <? 65536 then 1 else 2);
          x_cc := x_cc x + 1; x_toks := x_toks x |}.

(** what starts at character [c] when no token is open *)
Definition lex_ign (x : lexst) (c : N) : lexst :=
  if (c =? 32) || (c =? 9) || (c =? 10) || (c =? 13) || (c =? 44) || (c =? 65279) then lex_mode x LIgn
  else if c =? 35 then lex_mode x LComment
  else if is_name_start c then lex_start x LName
  else if is_digit c || (c =? 45) then lex_start x LNum
  else if c =? 34 then lex_start x (LQuote 1%nat)
  else if c =? 46 then lex_start x (LDots 1%nat)
  else lex_start x LIgn.        (* one-character punctuator (or an illegal character: treated alike) *)

(** the mode after reading [c] in the current mode, recording a token start where one begins at [c];
    the position is advanced by the caller *)
Definition lex_char (x : lexst) (c : N) : lexst :=
  match x_mode x with
  | LIgn => lex_ign x c
  | LName => if is_name_cont c then x else lex_ign x c
  | LNum => if is_digit c || (c =? 46) || (c =? 101) || (c =? 69) || (c =? 43) || (c =? 45) then x else lex_ign x c
  | LComment => if c =? 10 then lex_mode x LIgn else x
  | LDots k => if c =? 46 then (match k with 1%nat => lex_mode x (LDots 2%nat) | _ => lex_mode x LIgn end) else lex_ign x c
  | LQuote 1%nat => if c =? 34 then lex_mode x (LQuote 2%nat)                     (* two quotes so far *)
                else if c =? 92 then lex_mode x (LStr true) else lex_mode x (LStr false)
  | LQuote _ => if c =? 34 then lex_mode x (LBlock 0%nat false)              (* opening triple quote complete *)
                else lex_ign (lex_mode x LIgn) c                          (* the two quotes were an empty string *)
  | LStr true => lex_mode x (LStr false)
  | LStr false => if c =? 34 then lex_mode x LIgn
                  else if c =? 92 then lex_mode x (LStr true)
                  else if c =? 10 then lex_mode x LIgn                    (* unterminated *)
                  else x
  | LBlock q true =>                       (* a backslash and then q quotes: backslash + three quotes is an escaped delimiter *)
      if c =? 34 then (match q with 2%nat => lex_mode x (LBlock 0%nat false) | _ => lex_mode x (LBlock (S q) true) end)
      else if c =? 92 then lex_mode x (LBlock 0%nat true)
      else lex_mode x (LBlock 0%nat false)
  | LBlock q false =>
      if c =? 34 then (match q with 2%nat => lex_mode x LIgn | _ => lex_mode x (LBlock (S q) false) end)
      else if c =? 92 then lex_mode x (LBlock 0%nat true)
      else lex_mode x (LBlock 0%nat false)
  end.

Fixpoint lex_run (x : lexst) (t : str) : lexst :=
  match t with
  | [] => x
  | c :: r => lex_run (lex_adv (lex_char x c) c) r
  end.

Definition token_starts (t : str) : list tokpos :=
  rev (x_toks (lex_run {| x_mode := LIgn; x_line := 0; x_c16 := 0; x_cc := 0; x_toks := [] |} t)).
