(** C06 — proofs, part 8: whatever the [SourceWriter] model outputs for an op list satisfies the
    spec-side predicate [holds] of a writer case — the per-run check of Corr.v as an unbounded theorem.

    Step 1 ([run_match]): the entries the run appends correspond one to one, in order, to the segments
    the op list prescribes ([Corr.expect]): source, origin, closer column, name, and the place where the
    chunk's text starts.  Step 2: the boolean predicates of Spec.v follow from the invariant of
    ProofsWriter.v through ProofsLines.v. *)
From V Require Import Base.Util Gen.C06_tables_gen C06.Model C06.Spec C06.Proofs C06.ProofsMap C06.ProofsWriter
  C06.Corr C06.ProofsCorr C06.ProofsLines.
From Coq Require Import Sorting.Sorted.
Local Open Scope N_scope.

Lemma lines_of_split : forall t, lines_of t = split_on LF t.
Proof.
  induction t as [|c t IH]; [reflexivity|]. cbn [lines_of split_on]. rewrite IH. reflexivity.
Qed.

Lemma no_lf_spec_iff t : no_lf_spec t <-> no_lf t.
Proof. reflexivity. Qed.

Lemma first_line_no_lf : forall c, no_lf_spec (hd [] (lines_of c)).
Proof.
  intros c. rewrite lines_of_split. pose proof (split_on_no_sep LF c) as H.
  destruct (split_on LF c) as [|l r]; [constructor|]. inversion H; subst. assumption.
Qed.

(** entry [e] realises the prescribed segment [x] on the buffers [(buf, names)] *)
Definition ematch (buf : str) (names : list str) (e : entry) (x : xseg) : Prop :=
  e_fi e = x_src x /\ e_ol e = x_ol x /\ e_oc e = x_oc x /\
  match e_ni e, x_name x with
  | None, None => True
  | Some k, Some n => nth_error names (N.to_nat k) = Some n
  | _, _ => False
  end /\
  match x_text x with
  | Some w => exists pre post, buf = pre ++ post /\ end_pos pre = epos e /\ is_prefix w post = true /\ no_lf_spec w
  | None => True
  end.

Lemma ematch_grow : forall buf names y ext e x, ematch buf names e x -> ematch (buf ++ y) (names ++ ext) e x.
Proof.
  intros buf names y ext e x (H1 & H2 & H3 & H4 & H5). repeat split; try assumption.
  - destruct (e_ni e) as [k|], (x_name x) as [n|]; try assumption.
    rewrite nth_error_app1; [exact H4 | apply nth_error_Some; rewrite H4; discriminate].
  - destruct (x_text x) as [w|]; [|exact I]. destruct H5 as (pre & post & -> & Hp & Hw & Hn).
    exists pre, (post ++ y). rewrite app_assoc. repeat split; try assumption. apply is_prefix_app_r'. exact Hw.
Qed.

Lemma Forall2_ematch_grow : forall buf names y ext es xs,
  Forall2 (ematch buf names) es xs -> Forall2 (ematch (buf ++ y) (names ++ ext)) es xs.
Proof. intros buf names y ext es xs H. induction H; constructor; [apply ematch_grow; assumption | assumption]. Qed.

Definition sbuf (s : sw) : str := c_buf (sw_cur s).
Definition snames (s : sw) : list str := nm_all (sw_names s).

Lemma run_match : forall os s s' res xs0,
  winv s res -> Forall2 (ematch (sbuf s) (snames s)) (rev res) xs0 ->
  sw_run_from s os = Some s' ->
  exists res' xs1,
    winv s' (res' ++ res) /\ expect (sw_fmap s) os = Some xs1 /\
    Forall2 (ematch (sbuf s') (snames s')) (rev (res' ++ res)) (xs0 ++ xs1).
Proof.
  induction os as [|o os IH]; intros s s' res xs0 W F H.
  - injection H as <-. exists [], []. rewrite app_nil_r. split; [exact W|]. split; [reflexivity | exact F].
  - cbn [sw_run_from] in H. unfold bind in H. destruct (sw_step s o) as [s1|] eqn:E; [|discriminate].
    destruct (step_grows _ _ _ E (wi_names _ _ W)) as ((y & Hy) & (ext & Hext)).
    assert (F1 : Forall2 (ematch (sbuf s1) (snames s1)) (rev res) xs0).
    { unfold sbuf, snames. rewrite Hy, Hext. apply Forall2_ematch_grow. exact F. }
    assert (plain : match o with WF _ p _ => p_builtin p = true | _ => True end ->
                    exists res' xs1, winv s' (res' ++ res) /\ expect (sw_fmap s) (o :: os) = Some xs1 /\
                                     Forall2 (ematch (sbuf s') (snames s')) (rev (res' ++ res)) (xs0 ++ xs1)).
    { intros Ho. destruct (plain_step _ _ _ _ W E Ho) as (W1 & M1).
      destruct (IH _ _ _ _ W1 F1 H) as (res' & xs1 & A & B & C). exists res', xs1. split; [exact A|]. split; [|exact C].
      rewrite M1 in B. destruct o as [c|c p name| |]; cbn [expect]; try exact B. rewrite Ho. exact B. }
    destruct o as [c|c p name| |]; try (apply plain; exact I).
    destruct (p_builtin p) eqn:Eb; [apply plain; reflexivity|]. clear plain.
    cbn [sw_step] in E. destruct name as [nm|].
    + destruct (named_step _ _ _ _ _ _ W Eb E) as (e1 & e2 & pre & post & k & W2 & Hbuf & Hpos & Hpre & Hol & Hoc & Hni & Hnm & Hfi & M2 & Hf2 & Hol2 & Hoc2 & Hni2).
      set (x1 := {| x_src := e_fi e1; x_ol := p_line p; x_oc := p_col p; x_name := Some nm; x_text := Some (hd [] (lines_of c)) |}).
      set (x2 := {| x_src := e_fi e1; x_ol := p_line p; x_oc := p_col p + utf16_len_spec nm; x_name := None; x_text := None |}).
      assert (F2 : Forall2 (ematch (sbuf s1) (snames s1)) (rev (e2 :: e1 :: res)) (xs0 ++ [x1; x2])).
      { cbn [rev]. rewrite <- app_assoc. cbn [app]. apply Forall2_app; [exact F1|].
        constructor; [|constructor; [|constructor]].
        - unfold ematch, x1. cbn [x_src x_ol x_oc x_name x_text]. rewrite Hni. repeat split; try assumption.
          exists pre, post. repeat split; try assumption.
          + rewrite lines_of_split. exact Hpre.
          + apply first_line_no_lf.
        - unfold ematch, x2. cbn [x_src x_ol x_oc x_name x_text]. rewrite Hni2. repeat split; assumption. }
      destruct (IH _ _ _ _ W2 F2 H) as (res' & xs1 & A & B & C).
      exists (res' ++ [e2; e1]), (x1 :: x2 :: xs1). rewrite <- !app_assoc. cbn [app].
      split; [exact A|]. split; [|rewrite <- app_assoc in C; exact C].
      cbn [expect]. rewrite Eb. change (lookup_file (sw_fmap s) (p_file p)) with (fmap_lookup (sw_fmap s) (p_file p)).
      rewrite Hfi. rewrite M2 in B. rewrite B. reflexivity.
    + destruct (unnamed_step _ _ _ _ _ W Eb E) as (e1 & W2 & Hfi & M2 & Hol & Hoc & Hni).
      set (x1 := {| x_src := e_fi e1; x_ol := p_line p; x_oc := p_col p; x_name := None; x_text := None |}).
      assert (F2 : Forall2 (ematch (sbuf s1) (snames s1)) (rev (e1 :: res)) (xs0 ++ [x1])).
      { cbn [rev]. apply Forall2_app; [exact F1|]. constructor; [|constructor].
        unfold ematch, x1. cbn [x_src x_ol x_oc x_name x_text]. rewrite Hni. repeat split; assumption. }
      destruct (IH _ _ _ _ W2 F2 H) as (res' & xs1 & A & B & C).
      exists (res' ++ [e1]), (x1 :: xs1). rewrite <- !app_assoc. cbn [app].
      split; [exact A|]. split; [|rewrite <- app_assoc in C; exact C].
      cbn [expect]. rewrite Eb. change (lookup_file (sw_fmap s) (p_file p)) with (fmap_lookup (sw_fmap s) (p_file p)).
      rewrite Hfi. rewrite M2 in B. rewrite B. reflexivity.
Qed.

(** ** the entries of a run are, in order, the segments the op list prescribes *)
Lemma writer_segments_match_ops_lemma : forall fmap os s, sw_run fmap os = Some s ->
  exists es xs,
    add_entries m0 es = Some (sw_map s) /\
    decode_mappings (mbuf (sw_map s)) = Some (map seg_of_entry es) /\
    expect fmap os = Some xs /\
    Forall2 (ematch (c_buf (sw_cur s)) (nm_all (sw_names s))) es xs /\
    entries_sorted es /\ Forall (at_prefix (c_buf (sw_cur s))) es.
Proof.
  intros fmap os s H.
  destruct (run_match os (sw_init fmap) s [] [] (winv_init fmap) (Forall2_nil _) H) as (res & xs & W & E & F).
  rewrite app_nil_r in *. cbn [app] in F. exists (rev res), xs.
  split; [exact (wi_map _ _ W)|]. split; [apply mappings_decode_lemma, (wi_map _ _ W)|].
  split; [exact E|]. split; [exact F|]. split; [apply sorted_rev_rev, (wi_sorted _ _ W) | apply Forall_rev, (wi_pre _ _ W)].
Qed.

(** * Step 2: the boolean predicates *)

Lemma two31_lt_63 : 2 ^ 31 < 2 ^ 63.
Proof. reflexivity. Qed.
Lemma two32_lt_63 : 2 ^ 32 < 2 ^ 63.
Proof. reflexivity. Qed.

Lemma isize_lt63 : forall k, k < 2 ^ 63 -> isize_of k = Z.of_N k.
Proof.
  intros k H. unfold isize_of. rewrite N.mod_small by (change (2 ^ 64) with (2 * 2 ^ 63); lia).
  apply N.ltb_lt in H. rewrite H. reflexivity.
Qed.

Lemma at_prefix_gc_le : forall buf e, at_prefix buf e -> e_gc e <= utf16_len_spec buf.
Proof.
  intros buf e (p & q & -> & H). unfold epos in H.
  destruct (prefix_line p q _ _ H) as [_ ->]. rewrite utf16_len_spec_app.
  pose proof (utf16_lastl_le p). lia.
Qed.

Definition gc_small (e : entry) : Prop := e_gc e < 2 ^ 63.

Lemma sorted_bool : forall es, entries_sorted es -> Forall gc_small es -> segs_sorted (map seg_of_entry es) = true.
Proof.
  induction es as [|a es IH]; intros Hs Hg; [reflexivity|].
  inversion Hs as [|? ? Hs' Hall]; subst. inversion Hg as [|? ? Ha Hg']; subst.
  destruct es as [|b r]; [reflexivity|]. cbn [map segs_sorted]. change (map seg_of_entry (b :: r)) with (seg_of_entry b :: map seg_of_entry r) in IH.
  apply andb_true_iff. split; [|exact (IH Hs' Hg')].
  inversion Hall as [|? ? Hab _]; subst. inversion Hg' as [|? ? Hb _]; subst.
  unfold seg_of_entry. cbn [g_line g_col]. unfold gc_small in *. rewrite !isize_lt63 by assumption.
  destruct Hab as [H|[H1 H2]]; cbn [epos fst snd] in *.
  - apply orb_true_iff. left. apply N.ltb_lt. exact H.
  - apply orb_true_iff. right. apply andb_true_iff. split; [apply N.eqb_eq; exact H1 | apply Z.leb_le; lia].
Qed.

Lemma in_text_bool : forall buf es, Forall (at_prefix buf) es -> Forall gc_small es ->
  forallb (seg_in_text (lines_of buf)) (map seg_of_entry es) = true.
Proof.
  intros buf es Hp Hg. apply forallb_forall. intros g Hin. apply in_map_iff in Hin as (e & <- & He).
  rewrite Forall_forall in Hp, Hg. destruct (Hp e He) as (p & q & -> & H). pose proof (Hg e He) as Hs. unfold gc_small in Hs.
  unfold epos in H. pose proof (seg_in_text_prefix p q _ _ H) as T.
  unfold seg_in_text in *. unfold seg_of_entry. cbn [g_line g_col] in *. rewrite isize_lt63 by exact Hs. exact T.
Qed.

(** what [expect] yields under the guards of [holds] *)
Definition xok (fmap : option (list N)) (x : xseg) : Prop :=
  x_src x < nsources_of fmap /\ x_src x < 2 ^ 31 /\ x_ol x < 2 ^ 31 /\ x_oc x < 2 ^ 32.

Lemma small_lt : forall x, small x = true -> x < 2 ^ 31.
Proof. intros x H. apply N.ltb_lt. exact H. Qed.

Lemma lookup_ok : forall fmap f k, fmap_wf fmap = true -> small f = true -> lookup_file fmap f = Some k ->
  match lookup_file fmap f with Some k' => negb (k' =? USIZE_MAX) | None => true end = true ->
  k < nsources_of fmap /\ k < 2 ^ 31.
Proof.
  intros fmap f k Hwf Hf Hl Hm. rewrite Hl in Hm. destruct fmap as [m|]; cbn [lookup_file nsources_of fmap_wf] in *.
  - apply andb_true_iff in Hwf as [Hn Hall]. rewrite forallb_forall in Hall.
    pose proof (Hall k (nth_error_In _ _ Hl)) as Hk. apply orb_true_iff in Hk as [Hk|Hk].
    + rewrite Hk in Hm. discriminate.
    + apply N.ltb_lt in Hk. apply small_lt in Hn. split; [exact Hk | lia].
  - injection Hl as <-. apply small_lt in Hf. split; exact Hf.
Qed.

Lemma expect_ok : forall fmap ops xs, expect fmap ops = Some xs ->
  forallb op_small ops = true -> forallb (op_mapped fmap) ops = true -> fmap_wf fmap = true ->
  Forall (xok fmap) xs.
Proof.
  intros fmap. induction ops as [|o ops IH]; intros xs H Hs Hm Hwf.
  - injection H as <-. constructor.
  - cbn [forallb] in Hs, Hm. apply andb_true_iff in Hs as [Hs1 Hs]. apply andb_true_iff in Hm as [Hm1 Hm].
    destruct o as [c|c p name| |]; cbn [expect] in H; try (exact (IH _ H Hs Hm Hwf)).
    destruct (p_builtin p) eqn:Eb; [exact (IH _ H Hs Hm Hwf)|].
    destruct (lookup_file fmap (p_file p)) as [fi|] eqn:El; [|discriminate].
    destruct (expect fmap ops) as [xs'|] eqn:Ex; [|discriminate].
    pose proof (IH _ eq_refl Hs Hm Hwf) as Hxs.
    cbn [op_small] in Hs1. apply andb_true_iff in Hs1 as [Hs1 Hnm]. apply andb_true_iff in Hs1 as [Hs1 Hfile].
    apply andb_true_iff in Hs1 as [Hline Hcol].
    cbn [op_mapped] in Hm1. rewrite Eb in Hm1. cbn [orb] in Hm1.
    destruct (lookup_ok fmap (p_file p) fi Hwf Hfile El Hm1) as [K1 K2].
    apply small_lt in Hline. apply small_lt in Hcol.
    pose proof two31_lt_63. assert (2 ^ 32 = 2 ^ 31 + 2 ^ 31) by reflexivity.
    destruct name as [nm|]; injection H as <-.
    + apply small_lt in Hnm. constructor; [|constructor; [|exact Hxs]]; unfold xok; cbn [x_src x_ol x_oc]; repeat split; lia.
    + constructor; [|exact Hxs]. unfold xok; cbn [x_src x_ol x_oc]; repeat split; lia.
Qed.

Lemma match_segs_bool : forall fmap buf names es xs,
  Forall2 (ematch buf names) es xs -> Forall (xok fmap) xs -> Forall gc_small es ->
  N.of_nat (length names) < 2 ^ 31 ->
  match_segs (lines_of buf) names (map seg_of_entry es) xs = true /\
  forallb (seg_refs_ok (nsources_of fmap) (N.of_nat (length names))) (map seg_of_entry es) = true.
Proof.
  intros fmap buf names es xs F. induction F as [|e x es xs He _ IH]; intros Hx Hg Hn; [split; reflexivity|].
  inversion Hx as [|? ? Hx1 Hx']; subst. inversion Hg as [|? ? Hg1 Hg']; subst.
  destruct (IH Hx' Hg' Hn) as [IH1 IH2]. clear IH.
  destruct He as (E1 & E2 & E3 & E4 & E5). destruct Hx1 as (X1 & X2 & X3 & X4).
  pose proof two31_lt_63 as T31. pose proof two32_lt_63 as T32.
  assert (Hni : match e_ni e with Some k => k < N.of_nat (length names) | None => True end).
  { destruct (e_ni e) as [k|]; [|exact I]. destruct (x_name x) as [n|]; [|destruct E4].
    assert (N.to_nat k < length names)%nat by (apply nth_error_Some; rewrite E4; discriminate). lia. }
  cbn [map match_segs forallb]. unfold seg_refs_ok at 1.
  change (g_orig (seg_of_entry e)) with (Some (isize_of (e_fi e), isize_of (e_ol e), isize_of (e_oc e), option_map isize_of (e_ni e))).
  cbv beta iota.
  rewrite E1, E2, E3. rewrite (isize_lt63 (x_src x)), (isize_lt63 (x_ol x)), (isize_lt63 (x_oc x)) by lia.
  rewrite !Z.eqb_refl. cbn [andb]. split.
  - rewrite IH1, andb_true_r. apply andb_true_iff. split.
    + destruct (e_ni e) as [k|] eqn:Ek, (x_name x) as [n|]; cbn [option_map]; try (destruct E4; fail); [|reflexivity].
      rewrite isize_lt63 by lia. replace (0 <=? Z.of_N k)%Z with true by (symmetry; apply Z.leb_le; lia). cbn [andb].
      replace (Z.to_nat (Z.of_N k)) with (N.to_nat k) by lia. rewrite E4. apply str_eqb_refl.
    + destruct (x_text x) as [w|]; [|reflexivity]. destruct E5 as (pre & post & -> & Hp & Hw & Hnl).
      unfold epos in Hp. pose proof (text_at_prefix pre post _ _ w (g_orig (seg_of_entry e)) Hp Hnl Hw) as T.
      unfold gc_small in Hg1. unfold seg_of_entry in *. cbn [g_orig] in T. rewrite (isize_lt63 (e_gc e)) by exact Hg1.
      rewrite E1, E2, E3 in T. exact T.
  - rewrite IH2, andb_true_r.
    apply andb_true_iff. split.
    + repeat (apply andb_true_iff; split); try (apply Z.leb_le; lia). apply Z.ltb_lt. lia.
    + destruct (e_ni e) as [k|]; cbn [option_map]; [|reflexivity].
      rewrite isize_lt63 by lia. apply andb_true_iff. split; [apply Z.leb_le | apply Z.ltb_lt]; lia.
Qed.

(** ** the model satisfies the spec-side predicate of a writer case, for every mapper and op list *)
Lemma holds_writer_lemma : forall fmap ops s, sw_run fmap ops = Some s ->
  holds (CWriter fmap ops (Some (sw_buffers s))) = true.
Proof.
  intros fmap ops s H. unfold sw_buffers. cbn [holds].
  destruct (forallb op_small ops && forallb (op_mapped fmap) ops && fmap_wf fmap &&
            out_small (c_buf (sw_cur s)) (nm_all (sw_names s))) eqn:G; [|reflexivity].
  apply andb_true_iff in G as [G Hout]. apply andb_true_iff in G as [G Hwf]. apply andb_true_iff in G as [Hsm Hmp].
  unfold out_small in Hout. apply andb_true_iff in Hout as [Hb Hnm]. apply small_lt in Hb. apply small_lt in Hnm.
  destruct (writer_segments_match_ops_lemma fmap ops s H) as (es & xs & _ & Hd & Hx & F & Hso & Hpre).
  rewrite Hd, Hx.
  assert (Hg : Forall gc_small es).
  { eapply Forall_impl; [|exact Hpre]. intros e He. unfold gc_small. pose proof (at_prefix_gc_le _ _ He). pose proof two31_lt_63. lia. }
  destruct (match_segs_bool fmap _ _ _ _ F (expect_ok _ _ _ Hx Hsm Hmp Hwf) Hg Hnm) as [M1 M2].
  rewrite (sorted_bool _ Hso Hg), (in_text_bool _ _ Hpre Hg), M2, M1. reflexivity.
Qed.
