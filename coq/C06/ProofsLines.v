(** C06 — proofs, part 7: lines of a text, positions and the boolean predicates of Spec.v
    ([seg_in_text], [text_at]) for a position that is the end of a prefix of the text. *)
From V Require Import Base.Util C06.Spec.
Local Open Scope N_scope.

Lemma lines_of_nonempty : forall t, lines_of t <> [].
Proof.
  induction t as [|c t IH]; cbn [lines_of]; [discriminate|].
  destruct (c =? 10); [discriminate|]. destruct (lines_of t); discriminate.
Qed.

Definition lastl (t : str) : str := last (lines_of t) [].
Definition firstl (t : str) : str := hd [] (lines_of t).

Lemma lines_of_cons_lf : forall t, lines_of (10 :: t) = [] :: lines_of t.
Proof. reflexivity. Qed.
Lemma lines_of_cons_other : forall c t, c <> 10 -> lines_of (c :: t) = (c :: firstl t) :: tl (lines_of t).
Proof.
  intros c t H. cbn [lines_of]. apply N.eqb_neq in H. rewrite H. unfold firstl.
  pose proof (lines_of_nonempty t). destruct (lines_of t); [congruence | reflexivity].
Qed.

(** the lines of a concatenation: the last line of the first part is continued by the first line of
    the second *)
Lemma lines_of_app : forall a b,
  lines_of (a ++ b) = removelast (lines_of a) ++ [lastl a ++ firstl b] ++ tl (lines_of b).
Proof.
  induction a as [|c a IH]; intros b.
  - cbn [app lines_of removelast]. unfold lastl, firstl. cbn [lines_of last app].
    pose proof (lines_of_nonempty b). destruct (lines_of b); [congruence | reflexivity].
  - cbn [app]. destruct (N.eq_dec c 10) as [->|Hc].
    + rewrite !lines_of_cons_lf, IH. unfold lastl. rewrite lines_of_cons_lf.
      pose proof (lines_of_nonempty a). destruct (lines_of a) as [|x L]; [congruence|]. reflexivity.
    + rewrite !lines_of_cons_other by exact Hc. unfold firstl at 1. rewrite IH.
      unfold lastl, firstl. rewrite lines_of_cons_other by exact Hc. unfold firstl.
      pose proof (lines_of_nonempty a). destruct (lines_of a) as [|x L]; [congruence|].
      destruct L as [|y L']; cbn [removelast app hd tl last]; reflexivity.
Qed.

Lemma lines_of_single : forall c, lines_of [c] = if c =? 10 then [[]; []] else [[c]].
Proof. intros c. cbn. destruct (c =? 10); reflexivity. Qed.

(** the position reached after [t] is (number of lines - 1, UTF-16 length of the last line) *)
Lemma end_pos_lines : forall t,
  end_pos t = (N.of_nat (length (lines_of t)) - 1, utf16_len_spec (lastl t)).
Proof.
  induction t as [|c t IH] using rev_ind; [reflexivity|].
  unfold end_pos, end_pos_from in *. rewrite fold_left_app. cbn [fold_left]. rewrite IH. clear IH.
  change (lastl (t ++ [c])) with (last (lines_of (t ++ [c])) []). rewrite (lines_of_app t [c]).
  pose proof (lines_of_nonempty t) as Hn.
  assert (Hl : (length (removelast (lines_of t)) = length (lines_of t) - 1)%nat).
  { destruct (lines_of t) as [|x L] using rev_ind; [congruence|]. rewrite removelast_last, app_length. cbn. lia. }
  unfold pos_step. cbn [fst snd]. unfold firstl. rewrite lines_of_single.
  destruct (c =? 10) eqn:Ec.
  - cbn [hd tl]. rewrite !app_length, Hl. cbn [length]. rewrite app_nil_r.
    rewrite app_assoc, last_last. cbn [utf16_len_spec fold_right]. f_equal.
    destruct (lines_of t); [congruence|]. cbn [length]. lia.
  - cbn [hd tl]. rewrite !app_length, Hl. cbn [length app]. rewrite last_last. f_equal.
    + destruct (lines_of t); [congruence|]. cbn [length]. lia.
    + unfold utf16_len_spec. rewrite fold_right_app. cbn [fold_right].
      generalize (lastl t). intros l. induction l as [|x l IHl]; cbn [fold_right]; [lia|]. rewrite <- IHl. lia.
Qed.

Lemma utf16_len_spec_app : forall a b, utf16_len_spec (a ++ b) = utf16_len_spec a + utf16_len_spec b.
Proof.
  intros a b. unfold utf16_len_spec. induction a as [|x a IH]; cbn [app fold_right]; [reflexivity|]. rewrite IH. lia.
Qed.

(** a position that is the end of a prefix: its line exists in the whole text and is the prefix's
    last line continued by the first line of the rest; its column is the UTF-16 length of that last line *)
Lemma prefix_line : forall pre post l c, end_pos pre = (l, c) ->
  nth_error (lines_of (pre ++ post)) (N.to_nat l) = Some (lastl pre ++ firstl post) /\ c = utf16_len_spec (lastl pre).
Proof.
  intros pre post l c H. rewrite end_pos_lines in H. injection H as <- <-. split; [|reflexivity].
  rewrite lines_of_app. pose proof (lines_of_nonempty pre) as Hn.
  assert (Hl : (length (removelast (lines_of pre)) = length (lines_of pre) - 1)%nat).
  { destruct (lines_of pre) as [|x L] using rev_ind; [congruence|]. rewrite removelast_last, app_length. cbn. lia. }
  rewrite nth_error_app2 by lia.
  replace (N.to_nat (N.of_nat (length (lines_of pre)) - 1) - length (removelast (lines_of pre)))%nat with 0%nat by lia.
  reflexivity.
Qed.

Lemma seg_in_text_prefix : forall pre post l c, end_pos pre = (l, c) ->
  seg_in_text (lines_of (pre ++ post)) {| g_line := l; g_col := Z.of_N c; g_orig := None |} = true.
Proof.
  intros pre post l c H. destruct (prefix_line pre post l c H) as [Hn ->].
  unfold seg_in_text. cbn [g_line g_col]. rewrite Hn. rewrite utf16_len_spec_app.
  apply andb_true_iff. split; [apply Z.leb_le | apply Z.leb_le]; lia.
Qed.

Lemma seg_in_text_orig_irrelevant : forall lines l c o o',
  seg_in_text lines {| g_line := l; g_col := c; g_orig := o |} = seg_in_text lines {| g_line := l; g_col := c; g_orig := o' |}.
Proof. reflexivity. Qed.

Lemma drop_utf16_app : forall a b, drop_utf16 (utf16_len_spec a) (a ++ b) = Some b.
Proof.
  induction a as [|x a IH]; intros b.
  - cbn. destruct b; reflexivity.
  - change (utf16_len_spec (x :: a)) with ((if x <? 65536 then 1 else 2) + utf16_len_spec a).
    cbn [app drop_utf16].
    set (w := if x <? 65536 then 1 else 2). assert (Hw : 0 < w) by (subst w; destruct (x <? 65536); lia).
    replace (w + utf16_len_spec a =? 0) with false by (symmetry; apply N.eqb_neq; lia).
    replace (w <=? w + utf16_len_spec a) with true by (symmetry; apply N.leb_le; lia).
    replace (w + utf16_len_spec a - w) with (utf16_len_spec a) by lia. apply IH.
Qed.

Definition no_lf_spec (t : str) : Prop := Forall (fun c => c <> 10) t.

Lemma lines_of_no_lf : forall w, no_lf_spec w -> lines_of w = [w].
Proof.
  induction w as [|c w IH]; intros H; [reflexivity|]. inversion H; subst.
  rewrite lines_of_cons_other by assumption. unfold firstl. rewrite IH by assumption. reflexivity.
Qed.

(** a line-break-free [w] that starts [post] starts the first line of [post] *)
Lemma is_prefix_firstl : forall w post, no_lf_spec w -> is_prefix w post = true -> is_prefix w (firstl post) = true.
Proof.
  induction w as [|c w IH]; intros post Hw H; [reflexivity|]. destruct post as [|d post]; [discriminate|].
  cbn [is_prefix] in H. apply andb_true_iff in H as [H1 H2]. apply N.eqb_eq in H1. subst d.
  inversion Hw; subst. unfold firstl. rewrite lines_of_cons_other by assumption. cbn [hd is_prefix].
  rewrite N.eqb_refl. exact (IH post H3 H2).
Qed.

Lemma is_prefix_app_r' : forall a b x, is_prefix a b = true -> is_prefix a (b ++ x) = true.
Proof.
  induction a as [|c a IH]; intros b x H; [reflexivity|]. destruct b as [|d b]; [discriminate|].
  cbn [is_prefix app] in *. apply andb_true_iff in H as [H1 H2]. rewrite H1, (IH _ _ H2). reflexivity.
Qed.

Lemma text_at_prefix : forall pre post l c w o, end_pos pre = (l, c) -> no_lf_spec w -> is_prefix w post = true ->
  text_at (lines_of (pre ++ post)) {| g_line := l; g_col := Z.of_N c; g_orig := o |} w = true.
Proof.
  intros pre post l c w o H Hw Hp. destruct (prefix_line pre post l c H) as [Hn ->].
  unfold text_at. cbn [g_line g_col]. rewrite Hn.
  replace (Z.of_N (utf16_len_spec (lastl pre)) <? 0)%Z with false by (symmetry; apply Z.ltb_ge; lia).
  rewrite N2Z.id, drop_utf16_app. apply is_prefix_firstl; assumption.
Qed.

(** the column of a prefix end never exceeds the UTF-16 length of the prefix *)
Lemma utf16_lastl_le : forall t, utf16_len_spec (lastl t) <= utf16_len_spec t.
Proof.
  induction t as [|c t IH] using rev_ind; [cbn; lia|].
  change (lastl (t ++ [c])) with (last (lines_of (t ++ [c])) []). rewrite (lines_of_app t [c]).
  unfold firstl. rewrite lines_of_single. rewrite utf16_len_spec_app. destruct (c =? 10); cbn [hd tl].
  - rewrite app_assoc, last_last. cbn. lia.
  - cbn [app]. rewrite last_last, utf16_len_spec_app. lia.
Qed.
