(** Pinned statements of the C06 property theorems: compiled on every check, so a theorem cannot be
    weakened silently. *)
From V Require Import Base.Util Gen.C06_tables_gen C06.Model C06.Spec C06.Proofs C06.ProofsMap C06.ProofsWriter C06.ProofsCli C06.ProofsDefs C06.ProofsDefsSchema C06.Corr C06.ProofsCorr C06.ProofsLines C06.ProofsHolds C06.ProofsPaths C06.Properties C06.PropertiesDefs.
From V Require C20.Model.
From V Require Gql.Ast Ts.TsType C10.Model C10.ResolverProofs C10.SitesForC06.
From V Require C14.Model.

Check (C06_alphabet_decodes :
  forall i, (i < 64)%N -> b64_val (b64_char i) = Some i).
Check (C06_alphabet_injective :
  forall i j, (i < 64)%N -> (j < 64)%N -> b64_char i = b64_char j -> i = j).
Check (C06_vlq_encode_total :
  forall n : Z, exists t, vlq_encode n = Some t).
Check (C06_vlq_roundtrip :
  forall (n : Z) t rest, vlq_encode n = Some t -> vlq_decode (t ++ rest) = Some (n, rest)).
Check (C06_vlq_encode_wf :
  forall n l, vlq_sextets n = Some l ->
  exists init last, l = init ++ [last] /\ Forall (fun x => (32 <= x < 64)%N) init /\ (last < 32)%N).
Check (C06_vlq_model_is_rust :
  forall n, (- 2 ^ 63 <= n < 2 ^ 63)%Z -> vlq_sextets64 n = vlq_sextets n).
Check (C06_mappings_decode :
  forall es m, add_entries m0 es = Some m -> decode_mappings (mbuf m) = Some (map seg_of_entry es)).
Check (C06_add_entry_total :
  forall m e, entry_ok m e = true -> exists m', add_entry m e = Some m').
Check (C06_writer_position_inv :
  forall fmap os st, sw_run fmap os = Some st ->
  end_pos (c_buf (sw_cur st)) = (c_ln (sw_cur st), c_cl (sw_cur st))).
Check (C06_segments_sorted_in_text :
  forall fmap os st, sw_run fmap os = Some st ->
  exists es,
    decode_mappings (mbuf (sw_map st)) = Some (map seg_of_entry es) /\
    entries_sorted es /\
    Forall (at_prefix (c_buf (sw_cur st))) es /\
    Forall (fun e => exists o, In o os /\ from_op fmap o e) es).
Check (C06_named_segment_text :
  forall fmap os st chunk p nm st',
  sw_run fmap os = Some st -> p_builtin p = false -> sw_write_for st chunk p (Some nm) = Some st' ->
  exists e1 e2 pre post k,
    add_entries (sw_map st) [e1; e2] = Some (sw_map st') /\
    c_buf (sw_cur st') = pre ++ post /\ end_pos pre = epos e1 /\ is_prefix (hd [] (split_on LF chunk)) post = true /\
    e_ol e1 = p_line p /\ e_oc e1 = p_col p /\ e_ni e1 = Some k /\
    nth_error (nm_all (sw_names st')) (N.to_nat k) = Some nm /\
    end_pos (c_buf (sw_cur st')) = epos e2 /\
    e_ol e2 = p_line p /\ e_oc e2 = (p_col p + utf16_len nm)%N /\ e_ni e2 = None /\ e_fi e2 = e_fi e1).
Check (C06_writer_buffers_grow :
  forall fmap os os' s1 s2,
  sw_run fmap os = Some s1 -> sw_run fmap (os ++ os') = Some s2 ->
  (exists x, c_buf (sw_cur s2) = c_buf (sw_cur s1) ++ x) /\ (exists ext, nm_all (sw_names s2) = nm_all (sw_names s1) ++ ext)).
Check (C06_filemap_schema :
  forall fs op i p, store_small fs ->
  nth_error (fs_schema fs) (N.to_nat i) = Some p ->
  fmap_lookup (Some (file_indices fs op)) i = Some i /\ nth_error (sources_of fs op) (N.to_nat i) = Some p).
Check (C06_orig_column_units_refuted :
  exists tok, In tok (token_starts astral_line) /\ t_line tok = 0%N /\ t_colc tok = 11%N /\ t_col16 tok = 12%N).
Check (C06_model_holds_vlq :
  forall n t, vlq_encode n = Some t -> holds (CVlq n t) = true).
Check (C06_model_holds_map :
  forall es m, add_entries m0 es = Some m -> holds (CMap es (Some (mbuf m))) = true).
Check (C06_filemap_contributing :
  forall fs op j p, store_small fs ->
  nth_error (fs_ops fs) j = Some p ->
  contributes op (fs_schema_len fs + N.of_nat j)%N = true ->
  exists k, fmap_lookup (Some (file_indices fs op)) (fs_schema_len fs + N.of_nat j)%N = Some k /\
            nth_error (sources_of fs op) (N.to_nat k) = Some p /\ (k < 2 ^ 63)%N).
Check (C06_filemap_other_op :
  forall fs op j p, store_small fs ->
  nth_error (fs_ops fs) j = Some p ->
  contributes op (fs_schema_len fs + N.of_nat j)%N = false ->
  fmap_lookup (Some (file_indices fs op)) (fs_schema_len fs + N.of_nat j)%N = Some USIZE_MAX).
Check (C06_sources_in_range :
  forall fs op os st,
  store_small fs -> ops_mapped fs op os = true ->
  sw_run (Some (file_indices fs op)) os = Some st ->
  exists es,
    decode_mappings (mbuf (sw_map st)) = Some (map seg_of_entry es) /\
    Forall (fun e =>
      isize_of (e_fi e) = Z.of_N (e_fi e) /\
      exists c p name path kind,
        In (WF c p name) os /\ e_ol e = p_line p /\ fs_get fs (p_file p) = Some (path, kind) /\
        nth_error (sources_of fs op) (N.to_nat (e_fi e)) = Some path) es).
Check (C06_imported_fragment_mapped :
  exists st gs g,
    sw_run (Some (file_indices wit_store (Some (1, [1; 2])%N))) wit_ops = Some st /\
    decode_mappings (mbuf (sw_map st)) = Some gs /\ In g gs /\
    g_orig g = Some (2%Z, 0%Z, 9%Z, Some 0%Z) /\
    sources_of wit_store (Some (1, [1; 2])%N) = [s "/p/schema.graphql"; s "/p/main.graphql"; s "/p/y.graphql"] /\
    ops_mapped wit_store (Some (1, [1; 2])%N) wit_ops = true).
Check (C06_sources_in_range_guard_needed :
  exists st gs,
    sw_run (Some [0%N; USIZE_MAX]) [WF (s "F") (mkpos 0 9 1 false) (Some (s "F"))] = Some st /\
    mbuf (sw_map st) = s ",ADASA,CAAC" /\
    decode_mappings (mbuf (sw_map st)) = Some gs /\
    map g_orig gs = [Some ((-1)%Z, 0%Z, 9%Z, Some 0%Z); Some ((-1)%Z, 0%Z, 10%Z, None)]).
Check (C06_named_write_for_mapped :
  forall fmap os st chunk p nm,
  sw_run fmap os = Some st -> In (WF chunk p (Some nm)) os -> p_builtin p = false ->
  exists es e pre post k,
    decode_mappings (mbuf (sw_map st)) = Some (map seg_of_entry es) /\ In e es /\
    c_buf (sw_cur st) = pre ++ post /\ end_pos pre = epos e /\ is_prefix (hd [] (split_on LF chunk)) post = true /\
    e_ol e = p_line p /\ e_oc e = p_col p /\ e_ni e = Some k /\
    nth_error (nm_all (sw_names st)) (N.to_nat k) = Some nm /\
    fmap_lookup fmap (p_file p) = Some (e_fi e)).
Check (C06_operation_definitions_are_mapped :
  forall fmap t d B st,
  sw_run fmap (map conv_wop (C14.Model.dts_ops t d B)) = Some st ->
  (forall i k n np p sel b,
     nth_error (C14.Model.defs d) i = Some (C14.Model.OpDef k (Some (n, np)) p sel) -> nth_error B i = Some b ->
     C14.Model.pbuiltin np = false ->
     let o := C14.Model.t_base t in
     mapped_in fmap st (C14.Model.operation_name o (Some (n, np)) ++ C14.Model.operation_result_type_suffix t) (conv_pos np) n /\
     mapped_in fmap st (C14.Model.operation_name o (Some (n, np)) ++ C14.Model.variables_type_suffix t) (conv_pos np) n /\
     mapped_in fmap st (C14.Model.operation_var o k (Some (n, np))) (conv_pos np) n) /\
  (forall i name p b,
     nth_error (C14.Model.defs d) i = Some (C14.Model.FragDef name p) -> nth_error B i = Some b ->
     C14.Model.pbuiltin p = false ->
     mapped_in fmap st (name ++ C14.Model.fragment_type_suffix t) (conv_pos p) name /\
     mapped_in fmap st (C14.Model.fragment_var (C14.Model.t_base t) name) (conv_pos p) name)).
Check (C06_schema_definitions_are_mapped :
  forall fmap o doc ops st,
  C10.Model.print_schema o doc = C10.Model.Ok ops ->
  sw_run fmap (map conv_wop10 ops) = Some st ->
  (forall td, In td (C10.Model.typedefs doc) -> Gql.Ast.pbuiltin (Gql.Ast.ipos (Gql.Ast.typedef_name td)) = false ->
     mapped_in fmap st (C10.SitesForC06.declared_name o doc (C10.Model.tname td))
               (conv_pos10 (Gql.Ast.ipos (Gql.Ast.typedef_name td))) (C10.Model.tname td)) /\
  (forall d p n impls dirs fields kw fd,
     In (Gql.Ast.TDObject d p n impls dirs fields kw) (C10.Model.typedefs doc) -> In fd fields ->
     Ts.TsType.is_raw_ident (Gql.Ast.iname (Gql.Ast.fd_name fd)) = true -> Gql.Ast.pbuiltin (Gql.Ast.ipos (Gql.Ast.fd_name fd)) = false ->
     mapped_in fmap st (Gql.Ast.iname (Gql.Ast.fd_name fd)) (conv_pos10 (Gql.Ast.ipos (Gql.Ast.fd_name fd))) (Gql.Ast.iname (Gql.Ast.fd_name fd))) /\
  (forall d p n dirs fields kw iv,
     In (Gql.Ast.TDInput d p n dirs fields kw) (C10.Model.typedefs doc) -> In iv fields ->
     Ts.TsType.is_raw_ident (Gql.Ast.iname (Gql.Ast.iv_name iv)) = true -> Gql.Ast.pbuiltin (Gql.Ast.ipos (Gql.Ast.iv_name iv)) = false ->
     mapped_in fmap st (Gql.Ast.iname (Gql.Ast.iv_name iv)) (conv_pos10 (Gql.Ast.ipos (Gql.Ast.iv_name iv))) (Gql.Ast.iname (Gql.Ast.iv_name iv)))).
Check (C06_resolver_definitions_are_mapped :
  forall fmap o n doc ops st,
  C10.Model.print_resolvers o n doc = C10.Model.Ok ops ->
  sw_run fmap (map conv_wop10 ops) = Some st ->
  (forall td, In td (C10.Model.typedefs doc) -> C10.Model.is_input_def td = false ->
     Gql.Ast.pbuiltin (Gql.Ast.ipos (Gql.Ast.typedef_name td)) = false ->
     mapped_in fmap st (C10.Model.tname td) (conv_pos10 (Gql.Ast.ipos (Gql.Ast.typedef_name td))) (C10.Model.tname td)) /\
  (forall d p nm impls dirs fields kw fd,
     In (Gql.Ast.TDObject d p nm impls dirs fields kw) (C10.Model.typedefs (C10.ResolverProofs.resolver_doc n doc)) -> In fd fields ->
     Ts.TsType.is_raw_ident (Gql.Ast.iname (Gql.Ast.fd_name fd)) = true -> Gql.Ast.pbuiltin (Gql.Ast.ipos (Gql.Ast.fd_name fd)) = false ->
     mapped_in fmap st (Gql.Ast.iname (Gql.Ast.fd_name fd)) (conv_pos10 (Gql.Ast.ipos (Gql.Ast.fd_name fd))) (Gql.Ast.iname (Gql.Ast.fd_name fd)))).
Check (C06_writer_segments_match_ops :
  forall fmap os st, sw_run fmap os = Some st ->
  exists es xs,
    add_entries m0 es = Some (sw_map st) /\
    decode_mappings (mbuf (sw_map st)) = Some (map seg_of_entry es) /\
    expect fmap os = Some xs /\
    Forall2 (ematch (c_buf (sw_cur st)) (nm_all (sw_names st))) es xs /\
    entries_sorted es /\ Forall (at_prefix (c_buf (sw_cur st))) es).
Check (C06_model_holds_writer :
  forall fmap ops st, sw_run fmap ops = Some st ->
  holds (CWriter fmap ops (Some (sw_buffers st))) = true).
Check (C06_mappings_injective :
  forall es es' m m',
  add_entries m0 es = Some m -> add_entries m0 es' = Some m' -> mbuf m = mbuf m' ->
  map seg_of_entry es = map seg_of_entry es').
Check (C06_sources_resolve :
  forall out src : str,
  C20.Model.abs_ok (C20.Model.components out) = true -> C20.Model.is_file (C20.Model.components out) = true ->
  C20.Model.abs_ok (C20.Model.components src) = true ->
  exists rel, C20.Model.relative_s out src = Some rel /\ C20.Model.resolve_s out rel = C20.Model.normalize_s src).
Check (C06_sm_sources_resolve :
  forall file srcs rels,
  C20.Model.abs_ok (C20.Model.components file) = true -> C20.Model.is_file (C20.Model.components file) = true ->
  Forall (fun p => C20.Model.abs_ok (C20.Model.components p) = true) srcs ->
  sm_sources file srcs = Some rels ->
  Forall2 (fun rel src => C20.Model.resolve_s file rel = C20.Model.normalize_s src) rels srcs).
Check (C06_model_holds_json :
  forall file srcs rels,
  sm_sources file srcs = Some rels ->
  holds (CJson file srcs true (Some (file_name_s file, rels))) = true).
Check (C06_cli_sources_resolve :
  forall fs op output rels,
  C20.Model.abs_ok (C20.Model.components output) = true -> C20.Model.is_file (C20.Model.components output) = true ->
  Forall (fun p => C20.Model.abs_ok (C20.Model.components p) = true) (fs_schema fs ++ fs_ops fs) ->
  cli_sources fs op output = Some rels ->
  Forall2 (fun rel p => C20.Model.resolve_s output rel = C20.Model.normalize_s p) rels (sources_of fs op)).

Print Assumptions C06_alphabet_decodes.
Print Assumptions C06_alphabet_injective.
Print Assumptions C06_vlq_encode_total.
Print Assumptions C06_vlq_roundtrip.
Print Assumptions C06_vlq_encode_wf.
Print Assumptions C06_vlq_model_is_rust.
Print Assumptions C06_mappings_decode.
Print Assumptions C06_add_entry_total.
Print Assumptions C06_writer_position_inv.
Print Assumptions C06_segments_sorted_in_text.
Print Assumptions C06_named_segment_text.
Print Assumptions C06_writer_buffers_grow.
Print Assumptions C06_filemap_schema.
Print Assumptions C06_orig_column_units_refuted.
Print Assumptions C06_model_holds_vlq.
Print Assumptions C06_model_holds_map.
Print Assumptions C06_filemap_contributing.
Print Assumptions C06_filemap_other_op.
Print Assumptions C06_sources_in_range.
Print Assumptions C06_imported_fragment_mapped.
Print Assumptions C06_sources_in_range_guard_needed.
Print Assumptions C06_named_write_for_mapped.
Print Assumptions C06_operation_definitions_are_mapped.
Print Assumptions C06_schema_definitions_are_mapped.
Print Assumptions C06_resolver_definitions_are_mapped.
Print Assumptions C06_writer_segments_match_ops.
Print Assumptions C06_model_holds_writer.
Print Assumptions C06_mappings_injective.
Print Assumptions C06_sources_resolve.
Print Assumptions C06_sm_sources_resolve.
Print Assumptions C06_model_holds_json.
Print Assumptions C06_cli_sources_resolve.
