(** Pinned statements of the C06 property theorems. *)
From V Require Import Base.Util Gen.C06_tables_gen C06.Model C06.Spec C06.Properties.
