(** C06 — examples: the guards of the theorems are satisfiable by non-trivial inputs; the spec-side
    decoder reads maps produced by other tools; the literals of the crate's own unit test. *)
From V Require Import Base.Util Gen.C06_tables_gen C06.Model C06.Spec C06.Proofs C06.ProofsMap C06.ProofsWriter C06.ProofsCli.

(** * the 22 literals of crates/sourcemap-writer/src/base64_vlq/mod.rs's test, and their decoding *)
Example vlq_test_literals :
  map vlq_encode [0; 1; 2; 3; 4; 5; 6; 7; 8; 9; 10; 11; 12; 13; 14; 15; 16; 17; 175; -1; -15; -16]%Z =
  map Some [s "A"; s "C"; s "E"; s "G"; s "I"; s "K"; s "M"; s "O"; s "Q"; s "S"; s "U"; s "W"; s "Y"; s "a"; s "c"; s "e"; s "gB"; s "iB"; s "+K"; s "D"; s "f"; s "hB"].
Proof. vm_compute. reflexivity. Qed.

Example vlq_decode_examples :
  vlq_decode (s "gB,rest") = Some (16%Z, s ",rest") /\ vlq_decode (s "hB") = Some ((-16)%Z, []) /\
  vlq_decode (s "+K") = Some (175%Z, []) /\ vlq_decode (s "hgggggggggggQ") = Some ((- 2 ^ 63)%Z, []) /\
  vlq_decode (s "g") = None /\ vlq_decode (s "!") = None.
Proof. vm_compute. repeat split. Qed.

(** * the decoder on a map produced by another tool: the test map of mozilla/source-map (test/util.js,
      [testMap]: sources one.js/two.js, names bar/baz/n; positions there are given with 1-based lines) *)
Example decode_mozilla_test_map :
  option_map (map (fun g => (Z.of_N (g_line g), g_col g, g_orig g)))
    (decode_mappings (s "CAAC,IAAI,IAAM,SAAUA,GAClB,OAAOC,IAAID;CCDb,IAAI,IAAM,SAAUE,GAClB,OAAOA")) =
  Some [(0, 1, Some (0, 0, 1, None)); (0, 5, Some (0, 0, 5, None)); (0, 9, Some (0, 0, 11, None));
        (0, 18, Some (0, 0, 21, Some 0)); (0, 21, Some (0, 1, 3, None)); (0, 28, Some (0, 1, 10, Some 1));
        (0, 32, Some (0, 1, 14, Some 0));
        (1, 1, Some (1, 0, 1, None)); (1, 5, Some (1, 0, 5, None)); (1, 9, Some (1, 0, 11, None));
        (1, 18, Some (1, 0, 21, Some 2)); (1, 21, Some (1, 1, 3, None)); (1, 28, Some (1, 1, 10, Some 2))]%Z.
Proof. vm_compute. reflexivity. Qed.

(** malformed maps are rejected: 2- and 3-field segments, a dangling continuation digit, a character
    outside the alphabet; empty segments and empty lines are skipped *)
Example decode_rejects :
  decode_mappings (s "AA") = None /\ decode_mappings (s "AAA") = None /\ decode_mappings (s "AAAAAA") = None /\
  decode_mappings (s "AAAg") = None /\ decode_mappings (s "AA A") = None /\
  decode_mappings (s ",,;;,") = Some [] /\ decode_mappings [] = Some [].
Proof. vm_compute. repeat split. Qed.

(** * token starts of a small GraphQL document *)
Example token_starts_example :
  map (fun t => (t_line t, t_colc t)) (token_starts (s "query Q($a: Int = 3) { f(x: ""s"") ...F }")) =
  [(0,0); (0,6); (0,7); (0,8); (0,9); (0,10); (0,12); (0,16); (0,18); (0,19); (0,21); (0,23); (0,24); (0,25); (0,26); (0,28);
   (0,31); (0,33); (0,36); (0,38)]%N.
Proof. vm_compute. reflexivity. Qed.

(** * non-vacuity of the guards *)

(** [C06_add_entry_total]: an entry on a later line with a name *)
Example entry_ok_example : entry_ok m0 (mkent 2 5 7 3 1 (Some 4%N)) = true /\
  entry_ok m0 (mkent 0 5 7 3 USIZE_MAX None) = true.
Proof. vm_compute. split; reflexivity. Qed.

(** [C06_sources_in_range]: two schema files, three operation files, the second being printed with a
    fragment imported from the third; nodes of both schema files and of both contributing operation
    files are mapped, named and unnamed, over several lines with indentation *)
Definition ex_store : file_store :=
  {| fs_schema := [s "/p/a.graphql"; s "/p/b.graphql"]; fs_ops := [s "/p/q1.graphql"; s "/p/q2.graphql"; s "/p/z.graphql"] |}.
Definition ex_ops : list wop :=
  [WF (s "export type ") (mkpos 3 0 0 false) (Some (s "type")); WF (s "User") (mkpos 3 5 0 false) (Some (s "User"));
   W (s " = {"); Indent; W [10%N];
   WF (s "id") (mkpos 1 2 1 false) (Some (s "id")); W (s ": string;"); Dedent; W (10%N :: s "};" ++ [10%N]);
   W (s "type "); WF (s "Q2Result") (mkpos 0 6 3 false) (Some (s "Q2")); WF (s " = ") (mkpos 0 9 3 false) None;
   W [10%N]; W (s "type "); WF (s "F") (mkpos 0 0 4 false) (Some (s "F"))].

Definition ex_doc : option opdoc := Some (3, [3; 4; 3])%N.

Example sources_in_range_guard_example :
  store_small ex_store /\ ops_mapped ex_store ex_doc ex_ops = true /\
  option_map (fun st => option_map (map (fun g => match g_orig g with Some (sr, _, _, _) => sr | None => (-9)%Z end))
                                   (decode_mappings (mbuf (sw_map st))))
             (sw_run (Some (file_indices ex_store ex_doc)) ex_ops) = Some (Some [0; 0; 0; 0; 1; 1; 2; 2; 2; 3; 3]%Z) /\
  sources_of ex_store ex_doc = [s "/p/a.graphql"; s "/p/b.graphql"; s "/p/q2.graphql"; s "/p/z.graphql"] /\
  file_indices ex_store ex_doc = [0; 1; USIZE_MAX; 2; 3]%N /\
  file_indices ex_store None = [0; 1; USIZE_MAX; USIZE_MAX; USIZE_MAX]%N.
Proof. split; [vm_compute; reflexivity|]. vm_compute. repeat split. Qed.

(** … and the guard fails for a node of an operation file that contributes no definition *)
Example sources_in_range_guard_fails : ops_mapped ex_store (Some (3, [3])%N) ex_ops = false.
Proof. vm_compute. reflexivity. Qed.

(** [C06_named_segment_text]: hypotheses hold on a reachable state with pending indentation *)
Example named_segment_hyps_example :
  exists st st', sw_run None [Indent; W (s "{" ++ [10%N])] = Some st /\
                 sw_write_for st (s "field" ++ [10%N] ++ s "x") (mkpos 4 2 0 false) (Some (s "field")) = Some st' /\
                 c_buf (sw_cur st') = s "{" ++ [10%N] ++ s "  field" ++ [10%N] ++ s "  x" /\
                 mbuf (sw_map st') = s ";EAIEA;GAAK".
Proof. eexists. eexists. split; [vm_compute; reflexivity|]. split; [vm_compute; reflexivity|]. split; vm_compute; reflexivity. Qed.

(** [C06_vlq_model_is_rust]: the range is the whole of isize; outside it the 64-bit computation differs *)
Example vlq64_differs_outside : vlq_sextets64 (2 ^ 64 + 5)%Z <> vlq_sextets (2 ^ 64 + 5)%Z.
Proof. vm_compute. discriminate. Qed.

(** [C06_model_holds_writer]: the guards inside [holds] of a writer case ([op_small], [op_mapped],
    [fmap_wf], [out_small]) are all true on the example above, so the theorem speaks about the real
    branch of the predicate there *)
From V Require C06.Corr.
Example holds_writer_guards_example :
  let fmap := Some (file_indices ex_store ex_doc) in
  forallb Corr.op_small ex_ops && forallb (Corr.op_mapped fmap) ex_ops && Corr.fmap_wf fmap &&
  match sw_run fmap ex_ops with
  | Some st => Corr.out_small (c_buf (sw_cur st)) (nm_all (sw_names st))
  | None => false
  end = true.
Proof. vm_compute. reflexivity. Qed.

(** [C06_sources_resolve]: an output below, beside and above its sources, odd names included *)
From V Require C20.Model.
Example sources_resolve_example :
  let out := s "/p/gen/deep/schema.d.ts" in
  forallb (fun src => C20.Model.abs_ok (C20.Model.components out) && C20.Model.is_file (C20.Model.components out) &&
                      C20.Model.abs_ok (C20.Model.components src) &&
                      match C20.Model.relative_s out src with
                      | Some rel => str_eqb (C20.Model.resolve_s out rel) (C20.Model.normalize_s src)
                      | None => false
                      end)
          [s "/p/schema/a.graphql"; s "/p/gen/deep/x.graphql"; s "/p/gen/deep/sub/y.graphql"; s "/q r/..a/z.graphql"; s "/p/./gen/../b.graphql"] = true /\
  C20.Model.relative_s out (s "/p/schema/a.graphql") = Some (s "../../schema/a.graphql").
Proof. vm_compute. split; reflexivity. Qed.
