(** C06 — proofs, part 1: base64 VLQ and the [mappings] encoder against the specification-side decoder. *)
From V Require Import Base.Util Gen.C06_tables_gen C06.Model C06.Spec.
Local Open Scope N_scope.

(** * Finite checks on the translated alphabet (re-evaluated against /repo's table on every run) *)

Definition upto (n : nat) : list N := map N.of_nat (seq 0 n).

Lemma in_upto n i : i < N.of_nat n -> In i (upto n).
Proof.
  intros H. unfold upto. apply in_map_iff. exists (N.to_nat i). split; [apply N2Nat.id|].
  apply in_seq. lia.
Qed.

Lemma forall_upto (P : N -> bool) n : forallb P (upto n) = true -> forall i, i < N.of_nat n -> P i = true.
Proof. intros H i Hi. rewrite forallb_forall in H. apply H, in_upto, Hi. Qed.

(** the alphabet nitrogql indexes is the RFC 4648 one: digit [i] decodes to [i] *)
Lemma b64_val_char : forall i, i < 64 -> b64_val (b64_char i) = Some i.
Proof.
  intros i Hi.
  assert (H : forallb (fun i => option_eqb N.eqb (b64_val (b64_char i)) (Some i)) (upto 64) = true) by (vm_compute; reflexivity).
  pose proof (forall_upto _ 64 H i Hi) as E. cbn beta in E.
  destruct (b64_val (b64_char i)) as [x|]; cbn in E; [|discriminate].
  apply N.eqb_eq in E. now subst.
Qed.

Lemma base64_chars_length : length base64_chars = 64%nat.
Proof. vm_compute. reflexivity. Qed.

(** injectivity of the table (a consequence, stated because it is what makes decoding possible) *)
Lemma b64_char_inj : forall i j, i < 64 -> j < 64 -> b64_char i = b64_char j -> i = j.
Proof.
  intros i j Hi Hj E. pose proof (b64_val_char i Hi) as A. pose proof (b64_val_char j Hj) as B.
  rewrite E in A. congruence.
Qed.

Lemma b64_val_lt : forall c x, b64_val c = Some x -> x < 64.
Proof.
  intros c x. unfold b64_val.
  repeat match goal with |- context [if ?b then _ else _] => destruct b eqn:? end; intros [= <-];
    rewrite ?andb_true_iff, ?N.leb_le, ?N.eqb_eq in *; lia.
Qed.

Lemma b64_val_not_sep : forall c x, b64_val c = Some x -> c <> 44 /\ c <> 59.
Proof. intros c x H. split; intros ->; vm_compute in H; discriminate. Qed.

(** digit-level facts, by enumeration of the 64 digits *)
Lemma digit_facts : forall x, x < 64 ->
  N.land x 31 = x mod 32 /\ N.testbit x 5 = (32 <=? x).
Proof.
  intros x Hx.
  assert (H : forallb (fun x => (N.land x 31 =? x mod 32) && Bool.eqb (N.testbit x 5) (32 <=? x)) (upto 64) = true)
    by (vm_compute; reflexivity).
  pose proof (forall_upto _ 64 H x Hx) as E. cbn beta in E.
  apply andb_true_iff in E as [E1 E2]. apply N.eqb_eq in E1. apply Bool.eqb_prop in E2. now split.
Qed.

Lemma lor32 : forall d, d < 32 -> N.lor 32 d = 32 + d.
Proof.
  intros d Hd.
  assert (H : forallb (fun d => N.lor 32 d =? 32 + d) (upto 32) = true) by (vm_compute; reflexivity).
  apply N.eqb_eq. exact (forall_upto _ 32 H d Hd).
Qed.

Lemma first_sextet_long : forall sg m, sg < 2 -> m < 16 ->
  N.lor (N.lor sg (N.shiftl m 1)) 32 = 32 + (sg + 2 * m).
Proof.
  intros sg m Hs Hm.
  assert (H : forallb (fun sg => forallb (fun m => N.lor (N.lor sg (N.shiftl m 1)) 32 =? 32 + (sg + 2 * m)) (upto 16)) (upto 2) = true)
    by (vm_compute; reflexivity).
  pose proof (forall_upto _ 2 H sg Hs) as E. cbn beta in E.
  apply N.eqb_eq. exact (forall_upto _ 16 E m Hm).
Qed.

Lemma first_sextet_short : forall sg m, sg < 2 -> m < 16 -> N.lor sg (N.shiftl m 1) = sg + 2 * m.
Proof.
  intros sg m Hs Hm.
  assert (H : forallb (fun sg => forallb (fun m => N.lor sg (N.shiftl m 1) =? sg + 2 * m) (upto 16)) (upto 2) = true)
    by (vm_compute; reflexivity).
  pose proof (forall_upto _ 2 H sg Hs) as E. cbn beta in E.
  apply N.eqb_eq. exact (forall_upto _ 16 E m Hm).
Qed.

(** * The continuation loop *)

Lemma land31 v : N.land v 31 = v mod 32.
Proof. change 31 with (N.ones 5). rewrite N.land_ones. reflexivity. Qed.
Lemma land15 v : N.land v 15 = v mod 16.
Proof. change 15 with (N.ones 4). rewrite N.land_ones. reflexivity. Qed.
Lemma shiftr5 v : N.shiftr v 5 = v / 32.
Proof. rewrite N.shiftr_div_pow2. reflexivity. Qed.
Lemma shiftr4 v : N.shiftr v 4 = v / 16.
Proof. rewrite N.shiftr_div_pow2. reflexivity. Qed.

(** one iteration, in arithmetic form *)
Lemma vlq_cont_S f v : v <> 0 ->
  vlq_cont (S f) v = option_map (cons ((if 0 <? v / 32 then 32 else 0) + v mod 32)) (vlq_cont f (v / 32)).
Proof.
  intros Hv. cbn [vlq_cont]. apply N.eqb_neq in Hv. rewrite Hv. rewrite shiftr5, land31.
  assert (Hm : v mod 32 < 32) by (apply N.mod_lt; lia).
  destruct (0 <? v / 32); [rewrite lor32 by exact Hm; reflexivity | rewrite N.lor_0_l; reflexivity].
Qed.

Lemma vlq_cont_0 f : vlq_cont f 0 = Some [].
Proof. destruct f; reflexivity. Qed.

Lemma vlq_cont_total : forall fuel v, v < 2 ^ N.of_nat fuel -> exists l, vlq_cont fuel v = Some l.
Proof.
  induction fuel as [|f IH]; intros v Hv.
  - cbn in Hv. assert (v = 0) by lia. subst. exists []. reflexivity.
  - destruct (N.eq_dec v 0) as [->|Hn]; [exists []; reflexivity|].
    rewrite vlq_cont_S by exact Hn.
    destruct (IH (v / 32)) as [l Hl].
    + rewrite Nat2N.inj_succ, N.pow_succ_r' in Hv.
      apply N.div_lt_upper_bound; [lia|].
      assert (0 < 2 ^ N.of_nat f) by (apply N.neq_0_lt_0, N.pow_nonzero; lia). lia.
    + rewrite Hl. eexists. reflexivity.
Qed.

Lemma pos_lt_pow_size : forall p, N.pos p < 2 ^ N.of_nat (Pos.size_nat p).
Proof.
  induction p as [p IH|p IH|]; cbn [Pos.size_nat].
  - rewrite Nat2N.inj_succ, N.pow_succ_r'. change (N.pos p~1) with (2 * N.pos p + 1). lia.
  - rewrite Nat2N.inj_succ, N.pow_succ_r'. change (N.pos p~0) with (2 * N.pos p). lia.
  - reflexivity.
Qed.

Lemma lt_pow_size_nat : forall v, v < 2 ^ N.of_nat (N.size_nat v).
Proof. intros [|p]; [reflexivity | apply pos_lt_pow_size]. Qed.

(** the loop never runs out of the fuel [base64_vlq]'s model gives it *)
Lemma vlq_cont_fuel : forall v, exists l, vlq_cont (N.size_nat v) (N.shiftr v 4) = Some l.
Proof.
  intros v. apply vlq_cont_total. rewrite shiftr4.
  eapply N.le_lt_trans; [|apply lt_pow_size_nat].
  apply N.div_le_upper_bound; lia.
Qed.

Lemma vlq_sextets_total : forall n, exists l, vlq_sextets n = Some l.
Proof.
  intros n. unfold vlq_sextets. destruct (Z.abs_N n <? 16); [eexists; reflexivity|].
  destruct (vlq_cont_fuel (Z.abs_N n)) as [l Hl]. rewrite Hl. eexists. reflexivity.
Qed.

Lemma vlq_encode_total : forall n, exists t, vlq_encode n = Some t.
Proof.
  intros n. unfold vlq_encode. destruct (vlq_sextets_total n) as [l Hl]. rewrite Hl. eexists. reflexivity.
Qed.

(** * Decoding what the loop emits *)

Lemma shiftl_mul a k : N.shiftl a k = a * 2 ^ k.
Proof. apply N.shiftl_mul_pow2. Qed.

Lemma decode_go_cons c r shift acc :
  vlq_decode_go (c :: r) shift acc =
  match b64_val c with
  | None => None
  | Some d => let acc' := acc + N.shiftl (N.land d 31) shift in
              if N.testbit d 5 then vlq_decode_go r (shift + 5) acc' else Some (acc', r)
  end.
Proof. reflexivity. Qed.

Lemma cont_decode : forall fuel v l, vlq_cont fuel v = Some l ->
  forall d shift acc rest, d < 32 ->
  vlq_decode_go (b64_char ((if 0 <? v then 32 else 0) + d) :: map b64_char l ++ rest) shift acc
  = Some (acc + N.shiftl (d + 32 * v) shift, rest).
Proof.
  induction fuel as [|f IH]; intros v l Hl d shift acc rest Hd.
  - cbn in Hl. destruct (v =? 0) eqn:Ev; [|discriminate]. apply N.eqb_eq in Ev. subst v.
    injection Hl as <-. cbn [map app]. rewrite decode_go_cons. rewrite N.ltb_irrefl, N.add_0_l.
    rewrite b64_val_char by lia. cbv zeta.
    destruct (digit_facts d ltac:(lia)) as [E1 E2]. rewrite E1, E2.
    replace (32 <=? d) with false by (symmetry; apply N.leb_gt; lia).
    rewrite N.mod_small by lia. rewrite N.mul_0_r, N.add_0_r. reflexivity.
  - destruct (N.eq_dec v 0) as [->|Hn].
    + rewrite vlq_cont_0 in Hl. injection Hl as <-. cbn [map app]. rewrite decode_go_cons. rewrite N.ltb_irrefl, N.add_0_l.
      rewrite b64_val_char by lia. cbv zeta.
      destruct (digit_facts d ltac:(lia)) as [E1 E2]. rewrite E1, E2.
      replace (32 <=? d) with false by (symmetry; apply N.leb_gt; lia).
      rewrite N.mod_small by lia. rewrite N.mul_0_r, N.add_0_r. reflexivity.
    + rewrite vlq_cont_S in Hl by exact Hn.
      destruct (vlq_cont f (v / 32)) as [l'|] eqn:Hl'; [|discriminate]. injection Hl as <-.
      replace (0 <? v) with true by (symmetry; apply N.ltb_lt; lia).
      cbn [map app]. rewrite decode_go_cons.
      rewrite b64_val_char by lia. cbv zeta.
      destruct (digit_facts (32 + d) ltac:(lia)) as [E1 E2]. rewrite E1, E2.
      replace (32 <=? 32 + d) with true by (symmetry; apply N.leb_le; lia).
      assert (Hm : v mod 32 < 32) by (apply N.mod_lt; lia).
      rewrite (IH (v / 32) l' Hl' (v mod 32) (shift + 5) _ rest Hm).
      f_equal. f_equal.
      replace ((32 + d) mod 32) with d.
      2:{ rewrite N.add_comm. rewrite <- (N.mul_1_l 32) at 1. rewrite N.mod_add by lia. rewrite N.mod_small; lia. }
      rewrite !shiftl_mul, N.pow_add_r. change (2 ^ 5) with 32.
      pose proof (N.div_mod v 32 ltac:(lia)) as Hv.
      replace (v mod 32 + 32 * (v / 32)) with v by lia. ring.
Qed.

(** the number the decoder assembles from [base64_vlq(n)] is [2*|n| + sign] *)
Lemma sextets_decode : forall n l rest, vlq_sextets n = Some l ->
  vlq_decode_go (map b64_char l ++ rest) 0 0 = Some ((if (n <? 0)%Z then 1 else 0) + 2 * Z.abs_N n, rest).
Proof.
  intros n l rest H. unfold vlq_sextets in H.
  set (sg := if (n <? 0)%Z then 1 else 0) in *. set (m := Z.abs_N n) in *.
  assert (Hsg : sg < 2) by (subst sg; destruct (n <? 0)%Z; lia).
  destruct (m <? 16) eqn:Em.
  - apply N.ltb_lt in Em. injection H as <-. rewrite first_sextet_short by assumption.
    cbn [map app]. rewrite decode_go_cons. rewrite b64_val_char by lia. cbv zeta.
    destruct (digit_facts (sg + 2 * m) ltac:(lia)) as [E1 E2]. rewrite E1, E2.
    replace (32 <=? sg + 2 * m) with false by (symmetry; apply N.leb_gt; lia).
    rewrite N.mod_small by lia. rewrite N.shiftl_0_r. reflexivity.
  - apply N.ltb_ge in Em.
    destruct (vlq_cont (N.size_nat m) (N.shiftr m 4)) as [l'|] eqn:Hl'; [|discriminate]. injection H as <-.
    rewrite land15, shiftr4 in *.
    assert (Hm : m mod 16 < 16) by (apply N.mod_lt; lia).
    rewrite first_sextet_long by assumption.
    assert (Hq : 0 < m / 16) by (apply N.div_str_pos; lia).
    pose proof (cont_decode _ _ _ Hl' (sg + 2 * (m mod 16)) 0 0 rest ltac:(lia)) as D.
    replace (0 <? m / 16) with true in D by (symmetry; apply N.ltb_lt; exact Hq).
    cbn [map app]. rewrite D. f_equal. f_equal.
    rewrite N.shiftl_0_r, N.add_0_l.
    pose proof (N.div_mod m 16 ltac:(lia)) as Hv. lia.
Qed.

Lemma z_of_vlq_spec : forall n, z_of_vlq ((if (n <? 0)%Z then 1 else 0) + 2 * Z.abs_N n) = n.
Proof.
  intros n. unfold z_of_vlq. destruct (n <? 0)%Z eqn:En.
  - apply Z.ltb_lt in En.
    replace (1 + 2 * Z.abs_N n) with (N.succ_double (Z.abs_N n)) by (rewrite N.succ_double_spec; lia).
    assert (H : N.odd (N.succ_double (Z.abs_N n)) = true) by (destruct (Z.abs_N n); reflexivity).
    rewrite H, N.div2_succ_double, N2Z.inj_abs_N. lia.
  - apply Z.ltb_ge in En.
    replace (0 + 2 * Z.abs_N n) with (N.double (Z.abs_N n)) by (rewrite N.double_spec; lia).
    assert (H : N.odd (N.double (Z.abs_N n)) = false) by (destruct (Z.abs_N n); reflexivity).
    rewrite H, N.div2_double, N2Z.inj_abs_N. lia.
Qed.

(** ** vlq_roundtrip: for EVERY integer, decoding what [base64_vlq] emits (followed by anything)
       yields the integer and leaves the rest *)
Lemma vlq_roundtrip_lemma : forall (n : Z) t rest, vlq_encode n = Some t -> vlq_decode (t ++ rest) = Some (n, rest).
Proof.
  intros n t rest H. unfold vlq_encode in H.
  destruct (vlq_sextets n) as [l|] eqn:Hl; [|discriminate]. injection H as <-.
  unfold vlq_decode. rewrite (sextets_decode n l rest Hl). rewrite z_of_vlq_spec. reflexivity.
Qed.

(** ** vlq_encode_wf: digits are < 64, all but the last carry the continuation bit, the last does not *)
Definition wf_sextets (l : list N) : Prop :=
  exists init last, l = init ++ [last] /\ Forall (fun x => 32 <= x < 64) init /\ last < 32.

Lemma vlq_cont_wf : forall fuel v l, vlq_cont fuel v = Some l -> v <> 0 -> wf_sextets l.
Proof.
  induction fuel as [|f IH]; intros v l H Hv.
  - cbn in H. apply N.eqb_neq in Hv. rewrite Hv in H. discriminate.
  - rewrite vlq_cont_S in H by exact Hv.
    destruct (vlq_cont f (v / 32)) as [l'|] eqn:Hl'; [|discriminate]. injection H as <-.
    assert (Hm : v mod 32 < 32) by (apply N.mod_lt; lia).
    destruct (N.eq_dec (v / 32) 0) as [E|E].
    + rewrite E in *. rewrite vlq_cont_0 in Hl'. injection Hl' as <-. rewrite N.ltb_irrefl.
      exists [], (v mod 32). split; [reflexivity|]. split; [constructor | lia].
    + destruct (IH _ _ Hl' E) as (init & last & -> & Hi & Hlast).
      replace (0 <? v / 32) with true by (symmetry; apply N.ltb_lt, N.neq_0_lt_0; exact E).
      exists ((32 + v mod 32) :: init), last. split; [reflexivity|]. split; [|exact Hlast]. constructor; [|exact Hi]. cbv beta. clear - Hm. set (r := v mod 32) in *. clearbody r. lia.
Qed.

Lemma vlq_sextets_wf : forall n l, vlq_sextets n = Some l -> wf_sextets l.
Proof.
  intros n l H. unfold vlq_sextets in H.
  set (sg := if (n <? 0)%Z then 1 else 0) in *. set (m := Z.abs_N n) in *.
  assert (Hsg : sg < 2) by (subst sg; destruct (n <? 0)%Z; lia).
  destruct (m <? 16) eqn:Em.
  - apply N.ltb_lt in Em. injection H as <-. rewrite first_sextet_short by assumption.
    exists [], (sg + 2 * m). split; [reflexivity|]. split; [constructor | lia].
  - apply N.ltb_ge in Em.
    destruct (vlq_cont (N.size_nat m) (N.shiftr m 4)) as [l'|] eqn:Hl'; [|discriminate]. injection H as <-.
    rewrite land15, shiftr4 in *.
    assert (Hm : m mod 16 < 16) by (apply N.mod_lt; lia).
    rewrite first_sextet_long by assumption.
    assert (Hq : m / 16 <> 0) by (apply N.neq_0_lt_0, N.div_str_pos; lia).
    destruct (vlq_cont_wf _ _ _ Hl' Hq) as (init & last & -> & Hi & Hlast).
    exists ((32 + (sg + 2 * (m mod 16))) :: init), last. split; [reflexivity|]. split; [|exact Hlast]. constructor; [|exact Hi]. cbv beta. clear - Hm Hsg. set (r := m mod 16) in *. clearbody r sg. lia.
Qed.

(** ** vlq_model_is_rust: on the whole [isize] range (and for 2^63 = |isize::MIN|) the 64-bit
       computation is the unbounded one *)
Lemma vlq_model_is_rust_lemma : forall n, (- 2 ^ 63 <= n < 2 ^ 63)%Z -> vlq_sextets64 n = vlq_sextets n.
Proof.
  intros n Hn. unfold vlq_sextets64, vlq_sextets, w64.
  assert (Hm : Z.abs_N n <= 2 ^ 63) by lia.
  rewrite (N.mod_small (Z.abs_N n)) by (change (2 ^ 64) with (2 * 2 ^ 63); lia).
  set (m := Z.abs_N n) in *.
  destruct (m <? 16) eqn:Em.
  - apply N.ltb_lt in Em. rewrite N.mod_small; [reflexivity|].
    rewrite shiftl_mul. change (2 ^ 1) with 2. change (2 ^ 64) with 18446744073709551616. lia.
  - rewrite N.mod_small; [reflexivity|].
    rewrite shiftl_mul, land15. assert (m mod 16 < 16) by (apply N.mod_lt; lia).
    change (2 ^ 1) with 2. change (2 ^ 64) with 18446744073709551616. lia.
Qed.
