(** C06 — proofs. *)
From V Require Import Base.Util Gen.C06_tables_gen C06.Model C06.Spec.
Local Open Scope N_scope.
