(** C06 — proofs, part 4: the CLI's [FileMap] (file-store index -> index into ["sources"]), the
    sources-in-range theorem under its guard, and the witnesses showing the guard is needed. *)
From V Require Import Base.Util Gen.C06_tables_gen C06.Model C06.Spec C06.Proofs C06.ProofsMap C06.ProofsWriter.
Local Open Scope N_scope.

(** * file_indices and source_files on the two halves of the store *)

Fixpoint nats (i : N) (n : nat) : list N :=
  match n with O => [] | S k => i :: nats (N.succ i) k end.

Lemma nats_length i n : length (nats i n) = n.
Proof. revert i; induction n; intros; cbn; [reflexivity | now rewrite IHn]. Qed.

Lemma nats_nth : forall n i k, (k < n)%nat -> nth_error (nats i n) k = Some (i + N.of_nat k).
Proof.
  induction n as [|n IH]; intros i k H; [lia|]. destruct k as [|k]; cbn [nats nth_error].
  - f_equal. lia.
  - rewrite IH by lia. f_equal. lia.
Qed.

Lemma fi_app : forall a b i sl op,
  file_indices_from i sl op (a ++ b) = file_indices_from i sl op a ++ file_indices_from (i + N.of_nat (length a)) sl op b.
Proof.
  induction a as [|[p k] a IH]; intros b i sl op; cbn [app file_indices_from length].
  - now rewrite N.add_0_r.
  - rewrite IH. f_equal. f_equal. f_equal. lia.
Qed.

Lemma fi_schema : forall l i sl op,
  file_indices_from i sl op (map (fun p => (p, KSchema)) l) = nats i (length l).
Proof. induction l as [|p l IH]; intros; cbn; [reflexivity | now rewrite IH]. Qed.

Definition op_index (i : N) (op : option N) (sl : N) : N :=
  match op with Some fi => if i =? fi then sl else USIZE_MAX | None => USIZE_MAX end.

Lemma fi_ops_nth : forall l i sl op k p, nth_error l k = Some p ->
  nth_error (file_indices_from i sl op (map (fun p => (p, KOperation)) l)) k = Some (op_index (i + N.of_nat k) op sl).
Proof.
  induction l as [|q l IH]; intros i sl op k p H; destruct k as [|k]; try discriminate; cbn [map file_indices_from nth_error].
  - unfold op_index. now rewrite N.add_0_r.
  - rewrite (IH _ _ _ _ _ H). f_equal. f_equal. lia.
Qed.

Lemma sf_app : forall ia a ib b, length ia = length a ->
  source_files (ia ++ ib) (a ++ b) = source_files ia a ++ source_files ib b.
Proof.
  induction ia as [|i ia IH]; intros a ib b H; destruct a as [|[p k] a]; try discriminate; [reflexivity|].
  cbn [app source_files]. injection H as H. rewrite IH by exact H. destruct (i =? USIZE_MAX); reflexivity.
Qed.

Lemma sf_schema : forall l i, i + N.of_nat (length l) <= USIZE_MAX ->
  source_files (nats i (length l)) (map (fun p => (p, KSchema)) l) = l.
Proof.
  induction l as [|p l IH]; intros i H; [reflexivity|]. cbn [length nats map source_files].
  cbn [length] in H. replace (i =? USIZE_MAX) with false by (symmetry; apply N.eqb_neq; lia).
  rewrite IH by lia. reflexivity.
Qed.

(** the operation half contributes exactly the file being printed (if any) *)
Lemma sf_ops : forall l i sl op, sl <> USIZE_MAX ->
  source_files (file_indices_from i sl op (map (fun p => (p, KOperation)) l)) (map (fun p => (p, KOperation)) l) =
  match op with
  | Some fi => if (i <=? fi) && (fi <? i + N.of_nat (length l)) then
                 match nth_error l (N.to_nat (fi - i)) with Some p => [p] | None => [] end
               else []
  | None => []
  end.
Proof.
  induction l as [|q l IH]; intros i sl op Hsl; cbn [map file_indices_from source_files length].
  - destruct op as [fi|]; [|reflexivity]. destruct ((i <=? fi) && (fi <? i + N.of_nat 0)) eqn:E; [|reflexivity].
    apply andb_true_iff in E as [E1 E2]. apply N.leb_le in E1. apply N.ltb_lt in E2. cbn in E2. lia.
  - rewrite IH by exact Hsl. destruct op as [fi|].
    + destruct (N.eqb_spec i fi) as [->|Hn].
      * apply N.eqb_neq in Hsl. rewrite Hsl.
        replace ((fi <=? fi) && (fi <? fi + N.of_nat (S (length l)))) with true
          by (symmetry; apply andb_true_iff; split; [apply N.leb_le; lia | apply N.ltb_lt; lia]).
        rewrite N.sub_diag. cbn [N.to_nat nth_error].
        replace ((N.succ fi <=? fi) && (fi <? N.succ fi + N.of_nat (length l))) with false
          by (symmetry; apply andb_false_iff; left; apply N.leb_gt; lia).
        reflexivity.
      * rewrite N.eqb_refl.
        destruct ((N.succ i <=? fi) && (fi <? N.succ i + N.of_nat (length l))) eqn:E.
        -- apply andb_true_iff in E as [E1 E2]. apply N.leb_le in E1. apply N.ltb_lt in E2.
           replace ((i <=? fi) && (fi <? i + N.of_nat (S (length l)))) with true
             by (symmetry; apply andb_true_iff; split; [apply N.leb_le; lia | apply N.ltb_lt; lia]).
           replace (N.to_nat (fi - i)) with (S (N.to_nat (fi - N.succ i))) by lia. reflexivity.
        -- destruct ((i <=? fi) && (fi <? i + N.of_nat (S (length l)))) eqn:E'; [|reflexivity].
           apply andb_true_iff in E' as [E1 E2]. apply N.leb_le in E1. apply N.ltb_lt in E2.
           apply andb_false_iff in E as [E|E]; [apply N.leb_gt in E | apply N.ltb_ge in E]; lia.
    + rewrite N.eqb_refl. reflexivity.
Qed.

(** * FileMap: every schema file, and the operation file being printed, is in ["sources"] at the index
      the mapper sends it to; every other operation file is sent to usize::MAX *)

Definition store_small (fs : file_store) : Prop :=
  N.of_nat (length (fs_schema fs)) + N.of_nat (length (fs_ops fs)) < 2 ^ 63.

Lemma two63_lt_max : 2 ^ 63 < USIZE_MAX.
Proof. reflexivity. Qed.

Definition sources_of (fs : file_store) (op : option N) : list str :=
  source_files (file_indices fs op) (fs_iter fs).

Lemma sources_of_eq : forall fs op, store_small fs ->
  sources_of fs op =
  fs_schema fs ++
  match op with
  | Some fi => if (fs_schema_len fs <=? fi) && (fi <? fs_schema_len fs + N.of_nat (length (fs_ops fs))) then
                 match nth_error (fs_ops fs) (N.to_nat (fi - fs_schema_len fs)) with Some p => [p] | None => [] end
               else []
  | None => []
  end.
Proof.
  intros fs op Hs. unfold sources_of, file_indices, fs_iter, store_small, fs_schema_len in *.
  pose proof two63_lt_max as HM.
  rewrite fi_app, fi_schema, map_length, N.add_0_l.
  rewrite sf_app by (now rewrite nats_length, map_length).
  rewrite sf_schema by lia. rewrite sf_ops by lia. reflexivity.
Qed.

Lemma filemap_schema : forall fs op i p, store_small fs ->
  nth_error (fs_schema fs) (N.to_nat i) = Some p ->
  fmap_lookup (Some (file_indices fs op)) i = Some i /\ nth_error (sources_of fs op) (N.to_nat i) = Some p.
Proof.
  intros fs op i p Hs H. assert (Hl : (N.to_nat i < length (fs_schema fs))%nat) by (apply nth_error_Some; congruence).
  split.
  - unfold fmap_lookup, file_indices, fs_iter. rewrite fi_app, fi_schema.
    rewrite nth_error_app1 by (now rewrite nats_length). rewrite nats_nth by exact Hl. f_equal. lia.
  - rewrite sources_of_eq by exact Hs. rewrite nth_error_app1 by exact Hl. exact H.
Qed.

Lemma filemap_this_op : forall fs j p, store_small fs ->
  nth_error (fs_ops fs) j = Some p ->
  let i := fs_schema_len fs + N.of_nat j in
  fmap_lookup (Some (file_indices fs (Some i))) i = Some (fs_schema_len fs) /\
  nth_error (sources_of fs (Some i)) (N.to_nat (fs_schema_len fs)) = Some p.
Proof.
  intros fs j p Hs H i. assert (Hl : (j < length (fs_ops fs))%nat) by (apply nth_error_Some; congruence).
  unfold fs_schema_len in *. split.
  - unfold fmap_lookup, file_indices, fs_iter, fs_schema_len. rewrite fi_app, fi_schema, map_length, N.add_0_l.
    rewrite nth_error_app2 by (rewrite nats_length; lia). rewrite nats_length.
    replace (N.to_nat i - length (fs_schema fs))%nat with j by lia.
    rewrite (fi_ops_nth _ _ _ _ _ _ H). unfold op_index. subst i. rewrite N.eqb_refl. reflexivity.
  - rewrite sources_of_eq by exact Hs. unfold fs_schema_len.
    rewrite nth_error_app2 by lia. rewrite Nat2N.id, Nat.sub_diag.
    replace ((N.of_nat (length (fs_schema fs)) <=? i) && (i <? N.of_nat (length (fs_schema fs)) + N.of_nat (length (fs_ops fs)))) with true
      by (symmetry; apply andb_true_iff; split; [apply N.leb_le | apply N.ltb_lt]; lia).
    replace (N.to_nat (i - N.of_nat (length (fs_schema fs)))) with j by lia. rewrite H. reflexivity.
Qed.

Lemma filemap_other_op : forall fs op j p,
  nth_error (fs_ops fs) j = Some p ->
  op <> Some (fs_schema_len fs + N.of_nat j) ->
  fmap_lookup (Some (file_indices fs op)) (fs_schema_len fs + N.of_nat j) = Some USIZE_MAX.
Proof.
  intros fs op j p H Hop. unfold fmap_lookup, file_indices, fs_iter, fs_schema_len in *.
  rewrite fi_app, fi_schema, map_length, N.add_0_l.
  rewrite nth_error_app2 by (rewrite nats_length; lia). rewrite nats_length.
  replace (N.to_nat (N.of_nat (length (fs_schema fs)) + N.of_nat j) - length (fs_schema fs))%nat with j by lia.
  rewrite (fi_ops_nth _ _ _ _ _ _ H). unfold op_index. destruct op as [fi|]; [|reflexivity].
  destruct (N.eqb_spec (N.of_nat (length (fs_schema fs)) + N.of_nat j) fi) as [E|E]; [|reflexivity].
  exfalso. apply Hop. now rewrite E.
Qed.

(** * sources_in_range, under the guard that every mapped node comes from a schema file or from the
      operation file being printed *)

Definition file_mapped (fs : file_store) (op : option N) (i : N) : bool :=
  match fs_get fs i with
  | Some (_, KSchema) => true
  | Some (_, KOperation) => option_eqb N.eqb op (Some i)
  | None => false
  end.

Definition ops_mapped (fs : file_store) (op : option N) (os : list wop) : bool :=
  forallb (fun o => match o with WF _ p _ => p_builtin p || file_mapped fs op (p_file p) | _ => true end) os.

Lemma file_mapped_spec : forall fs op i, store_small fs -> file_mapped fs op i = true ->
  exists k p, fs_get fs i = Some p /\ fmap_lookup (Some (file_indices fs op)) i = Some k /\
              nth_error (sources_of fs op) (N.to_nat k) = Some (fst p) /\ k < 2 ^ 63.
Proof.
  intros fs op i Hs H. unfold file_mapped in H. destruct (fs_get fs i) as [[p k]|] eqn:G; [|discriminate].
  unfold fs_get in G. assert (Hsm := Hs). unfold store_small in Hsm.
  destruct (i <? fs_schema_len fs) eqn:Ei.
  - destruct (nth_error (fs_schema fs) (N.to_nat i)) as [q|] eqn:En; [|discriminate]. injection G as <- <-.
    destruct (filemap_schema fs op i q Hs En) as [A B]. exists i, (q, KSchema).
    apply N.ltb_lt in Ei. unfold fs_schema_len in Ei.
    split; [reflexivity|]. split; [exact A|]. split; [exact B | lia].
  - destruct (nth_error (fs_ops fs) (N.to_nat (i - fs_schema_len fs))) as [q|] eqn:En; [|discriminate]. injection G as <- <-.
    apply N.ltb_ge in Ei.
    assert (Hop : op = Some i).
    { destruct op as [fi|]; [|discriminate]. cbn in H. apply N.eqb_eq in H. now subst. }
    pose proof (filemap_this_op fs _ q Hs En) as [A B]. cbv zeta in A, B.
    replace (fs_schema_len fs + N.of_nat (N.to_nat (i - fs_schema_len fs))) with i in A, B by lia.
    subst op. exists (fs_schema_len fs), (q, KOperation).
    split; [reflexivity|]. split; [exact A|]. split; [exact B | unfold fs_schema_len; lia].
Qed.

Lemma isize_of_small : forall k, k < 2 ^ 63 -> isize_of k = Z.of_N k.
Proof.
  intros k H. unfold isize_of. rewrite N.mod_small by (change (2 ^ 64) with (2 * 2 ^ 63); lia).
  apply N.ltb_lt in H. rewrite H. reflexivity.
Qed.

(** ** sources_in_range (partial: guard [ops_mapped]) *)
Lemma sources_in_range_partial_lemma : forall fs op os s,
  store_small fs -> ops_mapped fs op os = true ->
  sw_run (Some (file_indices fs op)) os = Some s ->
  exists es,
    decode_mappings (mbuf (sw_map s)) = Some (map seg_of_entry es) /\
    Forall (fun e =>
      isize_of (e_fi e) = Z.of_N (e_fi e) /\
      exists c p name path kind,
        In (WF c p name) os /\ e_ol e = p_line p /\ fs_get fs (p_file p) = Some (path, kind) /\
        nth_error (sources_of fs op) (N.to_nat (e_fi e)) = Some path) es.
Proof.
  intros fs op os s Hs Hm H.
  destruct (segments_sorted_in_text_lemma _ _ _ H) as (es & Hd & _ & _ & Hf).
  exists es. split; [exact Hd|]. eapply Forall_impl; [|exact Hf].
  intros e (o & Hin & c & p & name & -> & Hb & Hl & Hol).
  unfold ops_mapped in Hm. rewrite forallb_forall in Hm. pose proof (Hm _ Hin) as Hp. cbv beta iota in Hp.
  rewrite Hb in Hp. cbn [orb] in Hp.
  destruct (file_mapped_spec fs op (p_file p) Hs Hp) as (k & [path kind] & G & L & Nn & Hk).
  rewrite L in Hl. injection Hl as ->.
  split; [apply isize_of_small, Hk|]. exists c, p, name, path, kind. repeat split; assumption.
Qed.

(** ** the unguarded statement is false for the current code *)

Definition seg_src_ok (nsources : nat) (g : seg) : Prop :=
  match g_orig g with
  | Some (sr, _, _, _) => (0 <= sr < Z.of_nat nsources)%Z
  | None => True
  end.

Definition sources_in_range_full : Prop := forall fs op os s gs,
  store_small fs ->
  sw_run (Some (file_indices fs op)) os = Some s ->
  decode_mappings (mbuf (sw_map s)) = Some gs ->
  Forall (seg_src_ok (length (sources_of fs op))) gs.

(** the witness: store [schema.graphql | main.graphql, y.graphql]; while printing main.graphql's
    declaration file (file-store index 1), a node of y.graphql (index 2: an imported fragment) is
    written with [write_for] *)
Definition wit_store : file_store :=
  {| fs_schema := [s "/p/schema.graphql"]; fs_ops := [s "/p/main.graphql"; s "/p/y.graphql"] |}.
Definition wit_ops : list wop := [W (s "type "); WF (s "F") (mkpos 0 9 2 false) (Some (s "F"))].

Lemma imported_fragment_source_index_refuted_lemma :
  exists st gs g,
    sw_run (Some (file_indices wit_store (Some 1))) wit_ops = Some st /\
    decode_mappings (mbuf (sw_map st)) = Some gs /\ In g gs /\
    g_orig g = Some ((-1)%Z, 0%Z, 9%Z, Some 0%Z) /\
    sources_of wit_store (Some 1) = [s "/p/schema.graphql"; s "/p/main.graphql"].
Proof.
  eexists. eexists. eexists.
  split; [vm_compute; reflexivity|]. split; [vm_compute; reflexivity|].
  split; [left; reflexivity|]. split; vm_compute; reflexivity.
Qed.

Lemma sources_in_range_full_refuted : ~ sources_in_range_full.
Proof.
  intros H. destruct imported_fragment_source_index_refuted_lemma as (st & gs & g & H1 & H2 & H3 & H4 & H5).
  assert (Hs : store_small wit_store) by (vm_compute; reflexivity).
  pose proof (H wit_store (Some 1) wit_ops st gs Hs H1 H2) as F. rewrite Forall_forall in F.
  pose proof (F g H3) as G. unfold seg_src_ok in G. rewrite H4 in G. lia.
Qed.

(** the same mechanism at the level of the writer alone: any file index the mapper sends to usize::MAX *)
Lemma unmapped_file_index_refuted_lemma :
  exists st gs,
    sw_run (Some [0; USIZE_MAX]) [WF (s "F") (mkpos 0 9 1 false) (Some (s "F"))] = Some st /\
    mbuf (sw_map st) = s ",ADASA,CAAC" /\
    decode_mappings (mbuf (sw_map st)) = Some gs /\
    map g_orig gs = [Some ((-1)%Z, 0%Z, 9%Z, Some 0%Z); Some ((-1)%Z, 0%Z, 10%Z, None)].
Proof.
  eexists. eexists. split; [vm_compute; reflexivity|]. split; [vm_compute; reflexivity|].
  split; vm_compute; reflexivity.
Qed.

(** ** original columns: the two readings of "column" differ as soon as an astral character precedes a
       token on its line; the parser (and so every emitted segment) uses scalar values, consumers UTF-16 *)
Definition astral_line : str := s "  """ ++ [128512] ++ s " note"" name: String".
Lemma orig_column_units_refuted_lemma :
  exists tok, In tok (token_starts astral_line) /\ t_line tok = 0 /\ t_colc tok = 11 /\ t_col16 tok = 12.
Proof.
  exists {| t_line := 0; t_col16 := 12; t_colc := 11 |}. split; [vm_compute; right; left; reflexivity | repeat split].
Qed.
