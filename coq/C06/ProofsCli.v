(** C06 — proofs, part 4: the CLI's [FileMap] (file-store index -> index into ["sources"]) and the
    sources-in-range theorem. *)
From V Require Import Base.Util Gen.C06_tables_gen C06.Model C06.Spec C06.Proofs C06.ProofsMap C06.ProofsWriter.
Local Open Scope N_scope.

(** * file_indices and source_files on the two halves of the store *)

Fixpoint nats (i : N) (n : nat) : list N :=
  match n with O => [] | S k => i :: nats (N.succ i) k end.

Lemma nats_length i n : length (nats i n) = n.
Proof. revert i; induction n; intros; cbn; [reflexivity | now rewrite IHn]. Qed.

Lemma nats_nth : forall n i k, (k < n)%nat -> nth_error (nats i n) k = Some (i + N.of_nat k).
Proof.
  induction n as [|n IH]; intros i k H; [lia|]. destruct k as [|k]; cbn [nats nth_error].
  - f_equal. lia.
  - rewrite IH by lia. f_equal. lia.
Qed.

Definition sck (p : str) : str * fkind := (p, KSchema).
Definition opk (p : str) : str * fkind := (p, KOperation).

Lemma fi_schema_app : forall l b i next op,
  file_indices_from i next op (map sck l ++ b) =
  nats i (length l) ++ file_indices_from (i + N.of_nat (length l)) next op b.
Proof.
  induction l as [|p l IH]; intros b i next op; cbn [map app length nats].
  - now rewrite N.add_0_r.
  - unfold sck at 1. cbn [file_indices_from app]. rewrite IH. f_equal. f_equal. f_equal. lia.
Qed.

Lemma fi_length : forall l i next op, length (file_indices_from i next op l) = length l.
Proof.
  induction l as [|[p k] l IH]; intros; cbn [file_indices_from length]; [reflexivity|].
  destruct k; [|destruct (contributes op i)]; cbn [length]; now rewrite IH.
Qed.

Lemma sf_app : forall ia a ib b, length ia = length a ->
  source_files (ia ++ ib) (a ++ b) = source_files ia a ++ source_files ib b.
Proof.
  induction ia as [|i ia IH]; intros a ib b H; destruct a as [|[p k] a]; try discriminate; [reflexivity|].
  cbn [app source_files]. injection H as H. rewrite IH by exact H. destruct (i =? USIZE_MAX); reflexivity.
Qed.

Lemma sf_schema : forall l i, i + N.of_nat (length l) <= USIZE_MAX ->
  source_files (nats i (length l)) (map sck l) = l.
Proof.
  induction l as [|p l IH]; intros i H; [reflexivity|]. cbn [length nats map source_files]. unfold sck at 1.
  cbn [length] in H. replace (i =? USIZE_MAX) with false by (symmetry; apply N.eqb_neq; lia).
  rewrite IH by lia. reflexivity.
Qed.

(** the operation half: a contributing file gets the next index, and ["sources"] holds its path there;
    any other operation file gets usize::MAX *)
Lemma ops_part : forall l i next op, next + N.of_nat (length l) < USIZE_MAX ->
  forall j p, nth_error l j = Some p ->
  (contributes op (i + N.of_nat j) = true ->
     exists k, nth_error (file_indices_from i next op (map opk l)) j = Some k /\ next <= k /\ k < next + N.of_nat (length l) /\
               nth_error (source_files (file_indices_from i next op (map opk l)) (map opk l)) (N.to_nat (k - next)) = Some p) /\
  (contributes op (i + N.of_nat j) = false ->
     nth_error (file_indices_from i next op (map opk l)) j = Some USIZE_MAX).
Proof.
  induction l as [|q l IH]; intros i next op H j p Hn; [destruct j; discriminate|].
  cbn [length] in H. cbn [map length]. change (opk q) with (q, KOperation). cbn [file_indices_from].
  destruct j as [|j].
  - injection Hn as ->. rewrite N.add_0_r. destruct (contributes op i) eqn:E.
    + split; [|discriminate]. intros _. exists next. cbn [nth_error]. split; [reflexivity|]. split; [lia|]. split; [lia|].
      cbn [source_files]. replace (next =? USIZE_MAX) with false by (symmetry; apply N.eqb_neq; lia).
      rewrite N.sub_diag. reflexivity.
    + split; [discriminate|]. intros _. reflexivity.
  - cbn [nth_error] in Hn. replace (i + N.of_nat (S j)) with (N.succ i + N.of_nat j) by lia.
    destruct (contributes op i) eqn:E.
    + destruct (IH (N.succ i) (next + 1) op ltac:(lia) j p Hn) as [A B]. split.
      * intros C. destruct (A C) as (k & K1 & K2 & K3 & K4). exists k. cbn [nth_error]. split; [exact K1|]. split; [lia|]. split; [lia|].
        cbn [source_files]. replace (next =? USIZE_MAX) with false by (symmetry; apply N.eqb_neq; lia).
        replace (N.to_nat (k - next)) with (S (N.to_nat (k - (next + 1)))) by lia. exact K4.
      * intros C. cbn [nth_error]. exact (B C).
    + destruct (IH (N.succ i) next op ltac:(lia) j p Hn) as [A B]. split.
      * intros C. destruct (A C) as (k & K1 & K2 & K3 & K4). exists k. cbn [nth_error]. split; [exact K1|]. split; [lia|]. split; [lia|].
        cbn [source_files]. rewrite N.eqb_refl. exact K4.
      * intros C. cbn [nth_error]. exact (B C).
Qed.

(** * FileMap *)

Definition store_small (fs : file_store) : Prop :=
  N.of_nat (length (fs_schema fs)) + N.of_nat (length (fs_ops fs)) < 2 ^ 63.

Lemma two63_lt_max : 2 ^ 63 < USIZE_MAX.
Proof. reflexivity. Qed.

Definition sources_of (fs : file_store) (op : option opdoc) : list str :=
  source_files (file_indices fs op) (fs_iter fs).

Lemma fs_iter_eq fs : fs_iter fs = map sck (fs_schema fs) ++ map opk (fs_ops fs).
Proof. reflexivity. Qed.

Lemma file_indices_eq : forall fs op,
  file_indices fs op = nats 0 (length (fs_schema fs)) ++
                       file_indices_from (fs_schema_len fs) (fs_schema_len fs) op (map opk (fs_ops fs)).
Proof. intros. unfold file_indices. rewrite fs_iter_eq, fi_schema_app, N.add_0_l. reflexivity. Qed.

Lemma sources_of_eq : forall fs op, store_small fs ->
  sources_of fs op = fs_schema fs ++
    source_files (file_indices_from (fs_schema_len fs) (fs_schema_len fs) op (map opk (fs_ops fs))) (map opk (fs_ops fs)).
Proof.
  intros fs op Hs. unfold sources_of. rewrite file_indices_eq, fs_iter_eq. pose proof two63_lt_max as HM. unfold store_small in Hs.
  rewrite sf_app by (now rewrite nats_length, map_length). rewrite sf_schema by lia. reflexivity.
Qed.

(** schema file [i] is mapped to [i], and [sources[i]] is its path *)
Lemma filemap_schema : forall fs op i p, store_small fs ->
  nth_error (fs_schema fs) (N.to_nat i) = Some p ->
  fmap_lookup (Some (file_indices fs op)) i = Some i /\ nth_error (sources_of fs op) (N.to_nat i) = Some p.
Proof.
  intros fs op i p Hs H. assert (Hl : (N.to_nat i < length (fs_schema fs))%nat) by (apply nth_error_Some; congruence).
  split.
  - unfold fmap_lookup. rewrite file_indices_eq. rewrite nth_error_app1 by (now rewrite nats_length).
    rewrite nats_nth by exact Hl. f_equal. lia.
  - rewrite sources_of_eq by exact Hs. rewrite nth_error_app1 by exact Hl. exact H.
Qed.

(** an operation file that contributes a definition (in particular the file being printed) is mapped to
    an index [k] of ["sources"], and [sources[k]] is its path *)
Lemma filemap_contributing : forall fs op j p, store_small fs ->
  nth_error (fs_ops fs) j = Some p ->
  contributes op (fs_schema_len fs + N.of_nat j) = true ->
  exists k, fmap_lookup (Some (file_indices fs op)) (fs_schema_len fs + N.of_nat j) = Some k /\
            nth_error (sources_of fs op) (N.to_nat k) = Some p /\ k < 2 ^ 63.
Proof.
  intros fs op j p Hs H C. assert (Hl : (j < length (fs_ops fs))%nat) by (apply nth_error_Some; congruence).
  pose proof two63_lt_max as HM. assert (Hs' := Hs). unfold store_small in Hs'. unfold fs_schema_len in *.
  destruct (ops_part (fs_ops fs) (N.of_nat (length (fs_schema fs))) (N.of_nat (length (fs_schema fs))) op ltac:(lia) j p H) as [A _].
  destruct (A C) as (k & K1 & K2 & K3 & K4). exists k. split; [|split; [|lia]].
  - unfold fmap_lookup. rewrite file_indices_eq. unfold fs_schema_len.
    rewrite nth_error_app2 by (rewrite nats_length; lia). rewrite nats_length.
    replace (N.to_nat (N.of_nat (length (fs_schema fs)) + N.of_nat j) - length (fs_schema fs))%nat with j by lia. exact K1.
  - rewrite sources_of_eq by exact Hs. unfold fs_schema_len. rewrite nth_error_app2 by lia.
    replace (N.to_nat k - length (fs_schema fs))%nat with (N.to_nat (k - N.of_nat (length (fs_schema fs)))) by lia. exact K4.
Qed.

Lemma contributes_self : forall i c, contributes (Some (i, c)) i = true.
Proof. intros. cbn. now rewrite N.eqb_refl. Qed.

(** an operation file that contributes nothing is mapped to usize::MAX (schema and resolver outputs: all
    of them) *)
Lemma filemap_other_op : forall fs op j p, store_small fs ->
  nth_error (fs_ops fs) j = Some p ->
  contributes op (fs_schema_len fs + N.of_nat j) = false ->
  fmap_lookup (Some (file_indices fs op)) (fs_schema_len fs + N.of_nat j) = Some USIZE_MAX.
Proof.
  intros fs op j p Hs H C. assert (Hl : (j < length (fs_ops fs))%nat) by (apply nth_error_Some; congruence).
  pose proof two63_lt_max as HM. unfold store_small in Hs. unfold fs_schema_len in *.
  destruct (ops_part (fs_ops fs) (N.of_nat (length (fs_schema fs))) (N.of_nat (length (fs_schema fs))) op ltac:(lia) j p H) as [_ B].
  unfold fmap_lookup. rewrite file_indices_eq. unfold fs_schema_len.
  rewrite nth_error_app2 by (rewrite nats_length; lia). rewrite nats_length.
  replace (N.to_nat (N.of_nat (length (fs_schema fs)) + N.of_nat j) - length (fs_schema fs))%nat with j by lia. exact (B C).
Qed.

(** * sources_in_range: every mapped node comes from a schema file or from an operation file that
      contributes a definition to the document being printed ([contributing_files] is computed from the
      positions of the document's definitions, so this is: a node lies in the file of a definition) *)

Definition file_mapped (fs : file_store) (op : option opdoc) (i : N) : bool :=
  match fs_get fs i with
  | Some (_, KSchema) => true
  | Some (_, KOperation) => contributes op i
  | None => false
  end.

Definition ops_mapped (fs : file_store) (op : option opdoc) (os : list wop) : bool :=
  forallb (fun o => match o with WF _ p _ => p_builtin p || file_mapped fs op (p_file p) | _ => true end) os.

Lemma file_mapped_spec : forall fs op i, store_small fs -> file_mapped fs op i = true ->
  exists k p, fs_get fs i = Some p /\ fmap_lookup (Some (file_indices fs op)) i = Some k /\
              nth_error (sources_of fs op) (N.to_nat k) = Some (fst p) /\ k < 2 ^ 63.
Proof.
  intros fs op i Hs H. unfold file_mapped in H. destruct (fs_get fs i) as [[p k]|] eqn:G; [|discriminate].
  unfold fs_get in G. assert (Hsm := Hs). unfold store_small in Hsm.
  destruct (i <? fs_schema_len fs) eqn:Ei.
  - destruct (nth_error (fs_schema fs) (N.to_nat i)) as [q|] eqn:En; [|discriminate]. injection G as <- <-.
    destruct (filemap_schema fs op i q Hs En) as [A B]. exists i, (q, KSchema).
    apply N.ltb_lt in Ei. unfold fs_schema_len in Ei.
    split; [reflexivity|]. split; [exact A|]. split; [exact B | lia].
  - destruct (nth_error (fs_ops fs) (N.to_nat (i - fs_schema_len fs))) as [q|] eqn:En; [|discriminate]. injection G as <- <-.
    apply N.ltb_ge in Ei.
    assert (Ei' : fs_schema_len fs + N.of_nat (N.to_nat (i - fs_schema_len fs)) = i) by lia.
    rewrite <- Ei' in H.
    destruct (filemap_contributing fs op _ q Hs En H) as (k & A & B & C). rewrite Ei' in A.
    exists k, (q, KOperation). split; [reflexivity|]. split; [exact A|]. split; [exact B | exact C].
Qed.

Lemma isize_of_small : forall k, k < 2 ^ 63 -> isize_of k = Z.of_N k.
Proof.
  intros k H. unfold isize_of. rewrite N.mod_small by (change (2 ^ 64) with (2 * 2 ^ 63); lia).
  apply N.ltb_lt in H. rewrite H. reflexivity.
Qed.

(** ** sources_in_range *)
Lemma sources_in_range_lemma : forall fs op os s,
  store_small fs -> ops_mapped fs op os = true ->
  sw_run (Some (file_indices fs op)) os = Some s ->
  exists es,
    decode_mappings (mbuf (sw_map s)) = Some (map seg_of_entry es) /\
    Forall (fun e =>
      isize_of (e_fi e) = Z.of_N (e_fi e) /\
      exists c p name path kind,
        In (WF c p name) os /\ e_ol e = p_line p /\ fs_get fs (p_file p) = Some (path, kind) /\
        nth_error (sources_of fs op) (N.to_nat (e_fi e)) = Some path) es.
Proof.
  intros fs op os s Hs Hm H.
  destruct (segments_sorted_in_text_lemma _ _ _ H) as (es & Hd & _ & _ & Hf).
  exists es. split; [exact Hd|]. eapply Forall_impl; [|exact Hf].
  intros e (o & Hin & c & p & name & -> & Hb & Hl & Hol).
  unfold ops_mapped in Hm. rewrite forallb_forall in Hm. pose proof (Hm _ Hin) as Hp. cbv beta iota in Hp.
  rewrite Hb in Hp. cbn [orb] in Hp.
  destruct (file_mapped_spec fs op (p_file p) Hs Hp) as (k & [path kind] & G & L & Nn & Hk).
  rewrite L in Hl. injection Hl as ->.
  split; [apply isize_of_small, Hk|]. exists c, p, name, path, kind. repeat split; assumption.
Qed.

(** ** the guard is needed: a node whose file the mapper sends to usize::MAX is written with source
       index -1 ([write_for] casts the index to [isize]).  Since the fix of cli/generate.rs (the files of
       imported fragments contribute) no printer does that; it remains a fact about [SourceWriter]. *)
Lemma unmapped_file_index_lemma :
  exists st gs,
    sw_run (Some [0; USIZE_MAX]) [WF (s "F") (mkpos 0 9 1 false) (Some (s "F"))] = Some st /\
    mbuf (sw_map st) = s ",ADASA,CAAC" /\
    decode_mappings (mbuf (sw_map st)) = Some gs /\
    map g_orig gs = [Some ((-1)%Z, 0%Z, 9%Z, Some 0%Z); Some ((-1)%Z, 0%Z, 10%Z, None)].
Proof.
  eexists. eexists. split; [vm_compute; reflexivity|]. split; [vm_compute; reflexivity|].
  split; vm_compute; reflexivity.
Qed.

(** the witness of the former defect (DESIGN section 6, #11), now mapped: store
    [schema.graphql | main.graphql, y.graphql]; while printing main.graphql's declaration file (index 1),
    whose document has definitions from files 1 and 2, a node of y.graphql (an imported fragment) is
    written: it gets source index 2 = y.graphql *)
Definition wit_store : file_store :=
  {| fs_schema := [s "/p/schema.graphql"]; fs_ops := [s "/p/main.graphql"; s "/p/y.graphql"] |}.
Definition wit_ops : list wop := [W (s "type "); WF (s "F") (mkpos 0 9 2 false) (Some (s "F"))].

Lemma imported_fragment_mapped_lemma :
  exists st gs g,
    sw_run (Some (file_indices wit_store (Some (1, [1; 2])))) wit_ops = Some st /\
    decode_mappings (mbuf (sw_map st)) = Some gs /\ In g gs /\
    g_orig g = Some (2%Z, 0%Z, 9%Z, Some 0%Z) /\
    sources_of wit_store (Some (1, [1; 2])) = [s "/p/schema.graphql"; s "/p/main.graphql"; s "/p/y.graphql"] /\
    ops_mapped wit_store (Some (1, [1; 2])) wit_ops = true.
Proof.
  eexists. eexists. eexists.
  split; [vm_compute; reflexivity|]. split; [vm_compute; reflexivity|].
  split; [left; reflexivity|]. split; [vm_compute; reflexivity|]. split; vm_compute; reflexivity.
Qed.

(** ** original columns: the two readings of "column" differ as soon as an astral character precedes a
       token on its line; the parser (and so every emitted segment) uses scalar values, consumers UTF-16 *)
Definition astral_line : str := s "  """ ++ [128512] ++ s " note"" name: String".
Lemma orig_column_units_refuted_lemma :
  exists tok, In tok (token_starts astral_line) /\ t_line tok = 0 /\ t_colc tok = 11 /\ t_col16 tok = 12.
Proof.
  exists {| t_line := 0; t_col16 := 12; t_colc := 11 |}. split; [vm_compute; right; left; reflexivity | repeat split].
Qed.
