(** C06 — property theorems only.  Each is closed by [exact] of a lemma in Proofs*.v and followed by
    [Print Assumptions]. *)
From V Require Import Base.Util Gen.C06_tables_gen C06.Model C06.Spec C06.Proofs C06.ProofsMap C06.ProofsWriter C06.ProofsCli C06.Corr C06.ProofsCorr C06.ProofsLines C06.ProofsHolds C06.ProofsPaths.
From V Require C20.Model.
From V Require C06.Examples.

Theorem C06_alphabet_decodes :
  forall i, (i < 64)%N -> b64_val (b64_char i) = Some i.
Proof. exact b64_val_char. Qed.
Print Assumptions C06_alphabet_decodes.

Theorem C06_alphabet_injective :
  forall i j, (i < 64)%N -> (j < 64)%N -> b64_char i = b64_char j -> i = j.
Proof. exact b64_char_inj. Qed.
Print Assumptions C06_alphabet_injective.

Theorem C06_vlq_encode_total :
  forall n : Z, exists t, vlq_encode n = Some t.
Proof. exact vlq_encode_total. Qed.
Print Assumptions C06_vlq_encode_total.

Theorem C06_vlq_roundtrip :
  forall (n : Z) t rest, vlq_encode n = Some t -> vlq_decode (t ++ rest) = Some (n, rest).
Proof. exact vlq_roundtrip_lemma. Qed.
Print Assumptions C06_vlq_roundtrip.

Theorem C06_vlq_encode_wf :
  forall n l, vlq_sextets n = Some l ->
  exists init last, l = init ++ [last] /\ Forall (fun x => (32 <= x < 64)%N) init /\ (last < 32)%N.
Proof. exact vlq_sextets_wf. Qed.
Print Assumptions C06_vlq_encode_wf.

Theorem C06_vlq_model_is_rust :
  forall n, (- 2 ^ 63 <= n < 2 ^ 63)%Z -> vlq_sextets64 n = vlq_sextets n.
Proof. exact vlq_model_is_rust_lemma. Qed.
Print Assumptions C06_vlq_model_is_rust.

Theorem C06_mappings_decode :
  forall es m, add_entries m0 es = Some m -> decode_mappings (mbuf m) = Some (map seg_of_entry es).
Proof. exact mappings_decode_lemma. Qed.
Print Assumptions C06_mappings_decode.

Theorem C06_add_entry_total :
  forall m e, entry_ok m e = true -> exists m', add_entry m e = Some m'.
Proof. exact add_entry_total. Qed.
Print Assumptions C06_add_entry_total.

Theorem C06_writer_position_inv :
  forall fmap os st, sw_run fmap os = Some st ->
  end_pos (c_buf (sw_cur st)) = (c_ln (sw_cur st), c_cl (sw_cur st)).
Proof. exact writer_position_inv_lemma. Qed.
Print Assumptions C06_writer_position_inv.

Theorem C06_segments_sorted_in_text :
  forall fmap os st, sw_run fmap os = Some st ->
  exists es,
    decode_mappings (mbuf (sw_map st)) = Some (map seg_of_entry es) /\
    entries_sorted es /\
    Forall (at_prefix (c_buf (sw_cur st))) es /\
    Forall (fun e => exists o, In o os /\ from_op fmap o e) es.
Proof. exact segments_sorted_in_text_lemma. Qed.
Print Assumptions C06_segments_sorted_in_text.

Theorem C06_named_segment_text :
  forall fmap os st chunk p nm st',
  sw_run fmap os = Some st -> p_builtin p = false -> sw_write_for st chunk p (Some nm) = Some st' ->
  exists e1 e2 pre post k,
    add_entries (sw_map st) [e1; e2] = Some (sw_map st') /\
    c_buf (sw_cur st') = pre ++ post /\ end_pos pre = epos e1 /\ is_prefix (hd [] (split_on LF chunk)) post = true /\
    e_ol e1 = p_line p /\ e_oc e1 = p_col p /\ e_ni e1 = Some k /\
    nth_error (nm_all (sw_names st')) (N.to_nat k) = Some nm /\
    end_pos (c_buf (sw_cur st')) = epos e2 /\
    e_ol e2 = p_line p /\ e_oc e2 = (p_col p + utf16_len nm)%N /\ e_ni e2 = None /\ e_fi e2 = e_fi e1.
Proof. exact named_segment_text_run. Qed.
Print Assumptions C06_named_segment_text.

Theorem C06_writer_buffers_grow :
  forall fmap os os' s1 s2,
  sw_run fmap os = Some s1 -> sw_run fmap (os ++ os') = Some s2 ->
  (exists x, c_buf (sw_cur s2) = c_buf (sw_cur s1) ++ x) /\ (exists ext, nm_all (sw_names s2) = nm_all (sw_names s1) ++ ext).
Proof. exact writer_buffers_grow_lemma. Qed.
Print Assumptions C06_writer_buffers_grow.

Theorem C06_filemap_schema :
  forall fs op i p, store_small fs ->
  nth_error (fs_schema fs) (N.to_nat i) = Some p ->
  fmap_lookup (Some (file_indices fs op)) i = Some i /\ nth_error (sources_of fs op) (N.to_nat i) = Some p.
Proof. exact filemap_schema. Qed.
Print Assumptions C06_filemap_schema.

Theorem C06_orig_column_units_refuted :
  exists tok, In tok (token_starts astral_line) /\ t_line tok = 0%N /\ t_colc tok = 11%N /\ t_col16 tok = 12%N.
Proof. exact orig_column_units_refuted_lemma. Qed.
Print Assumptions C06_orig_column_units_refuted.

Theorem C06_model_holds_vlq :
  forall n t, vlq_encode n = Some t -> holds (CVlq n t) = true.
Proof. exact holds_vlq_lemma. Qed.
Print Assumptions C06_model_holds_vlq.

Theorem C06_model_holds_map :
  forall es m, add_entries m0 es = Some m -> holds (CMap es (Some (mbuf m))) = true.
Proof. exact holds_map_lemma. Qed.
Print Assumptions C06_model_holds_map.

Theorem C06_filemap_contributing :
  forall fs op j p, store_small fs ->
  nth_error (fs_ops fs) j = Some p ->
  contributes op (fs_schema_len fs + N.of_nat j)%N = true ->
  exists k, fmap_lookup (Some (file_indices fs op)) (fs_schema_len fs + N.of_nat j)%N = Some k /\
            nth_error (sources_of fs op) (N.to_nat k) = Some p /\ (k < 2 ^ 63)%N.
Proof. exact filemap_contributing. Qed.
Print Assumptions C06_filemap_contributing.

Theorem C06_filemap_other_op :
  forall fs op j p, store_small fs ->
  nth_error (fs_ops fs) j = Some p ->
  contributes op (fs_schema_len fs + N.of_nat j)%N = false ->
  fmap_lookup (Some (file_indices fs op)) (fs_schema_len fs + N.of_nat j)%N = Some USIZE_MAX.
Proof. exact filemap_other_op. Qed.
Print Assumptions C06_filemap_other_op.

Theorem C06_sources_in_range :
  forall fs op os st,
  store_small fs -> ops_mapped fs op os = true ->
  sw_run (Some (file_indices fs op)) os = Some st ->
  exists es,
    decode_mappings (mbuf (sw_map st)) = Some (map seg_of_entry es) /\
    Forall (fun e =>
      isize_of (e_fi e) = Z.of_N (e_fi e) /\
      exists c p name path kind,
        In (WF c p name) os /\ e_ol e = p_line p /\ fs_get fs (p_file p) = Some (path, kind) /\
        nth_error (sources_of fs op) (N.to_nat (e_fi e)) = Some path) es.
Proof. exact sources_in_range_lemma. Qed.
Print Assumptions C06_sources_in_range.

Theorem C06_imported_fragment_mapped :
  exists st gs g,
    sw_run (Some (file_indices wit_store (Some (1, [1; 2])%N))) wit_ops = Some st /\
    decode_mappings (mbuf (sw_map st)) = Some gs /\ In g gs /\
    g_orig g = Some (2%Z, 0%Z, 9%Z, Some 0%Z) /\
    sources_of wit_store (Some (1, [1; 2])%N) = [s "/p/schema.graphql"; s "/p/main.graphql"; s "/p/y.graphql"] /\
    ops_mapped wit_store (Some (1, [1; 2])%N) wit_ops = true.
Proof. exact imported_fragment_mapped_lemma. Qed.
Print Assumptions C06_imported_fragment_mapped.

Theorem C06_sources_in_range_guard_needed :
  exists st gs,
    sw_run (Some [0%N; USIZE_MAX]) [WF (s "F") (mkpos 0 9 1 false) (Some (s "F"))] = Some st /\
    mbuf (sw_map st) = s ",ADASA,CAAC" /\
    decode_mappings (mbuf (sw_map st)) = Some gs /\
    map g_orig gs = [Some ((-1)%Z, 0%Z, 9%Z, Some 0%Z); Some ((-1)%Z, 0%Z, 10%Z, None)].
Proof. exact unmapped_file_index_lemma. Qed.
Print Assumptions C06_sources_in_range_guard_needed.

Theorem C06_named_write_for_mapped :
  forall fmap os st chunk p nm,
  sw_run fmap os = Some st -> In (WF chunk p (Some nm)) os -> p_builtin p = false ->
  exists es e pre post k,
    decode_mappings (mbuf (sw_map st)) = Some (map seg_of_entry es) /\ In e es /\
    c_buf (sw_cur st) = pre ++ post /\ end_pos pre = epos e /\ is_prefix (hd [] (split_on LF chunk)) post = true /\
    e_ol e = p_line p /\ e_oc e = p_col p /\ e_ni e = Some k /\
    nth_error (nm_all (sw_names st)) (N.to_nat k) = Some nm /\
    fmap_lookup fmap (p_file p) = Some (e_fi e).
Proof. exact named_write_for_mapped_lemma. Qed.
Print Assumptions C06_named_write_for_mapped.

Theorem C06_writer_segments_match_ops :
  forall fmap os st, sw_run fmap os = Some st ->
  exists es xs,
    add_entries m0 es = Some (sw_map st) /\
    decode_mappings (mbuf (sw_map st)) = Some (map seg_of_entry es) /\
    expect fmap os = Some xs /\
    Forall2 (ematch (c_buf (sw_cur st)) (nm_all (sw_names st))) es xs /\
    entries_sorted es /\ Forall (at_prefix (c_buf (sw_cur st))) es.
Proof. exact writer_segments_match_ops_lemma. Qed.
Print Assumptions C06_writer_segments_match_ops.

Theorem C06_model_holds_writer :
  forall fmap ops st, sw_run fmap ops = Some st ->
  holds (CWriter fmap ops (Some (sw_buffers st))) = true.
Proof. exact holds_writer_lemma. Qed.
Print Assumptions C06_model_holds_writer.

Theorem C06_mappings_injective :
  forall es es' m m',
  add_entries m0 es = Some m -> add_entries m0 es' = Some m' -> mbuf m = mbuf m' ->
  map seg_of_entry es = map seg_of_entry es'.
Proof. exact mappings_injective_lemma. Qed.
Print Assumptions C06_mappings_injective.

Theorem C06_sources_resolve :
  forall out src : str,
  C20.Model.abs_ok (C20.Model.components out) = true -> C20.Model.is_file (C20.Model.components out) = true ->
  C20.Model.abs_ok (C20.Model.components src) = true ->
  exists rel, C20.Model.relative_s out src = Some rel /\ C20.Model.resolve_s out rel = C20.Model.normalize_s src.
Proof. exact sources_resolve_lemma. Qed.
Print Assumptions C06_sources_resolve.

Theorem C06_sm_sources_resolve :
  forall file srcs rels,
  C20.Model.abs_ok (C20.Model.components file) = true -> C20.Model.is_file (C20.Model.components file) = true ->
  Forall (fun p => C20.Model.abs_ok (C20.Model.components p) = true) srcs ->
  sm_sources file srcs = Some rels ->
  Forall2 (fun rel src => C20.Model.resolve_s file rel = C20.Model.normalize_s src) rels srcs.
Proof. exact sm_sources_resolve_lemma. Qed.
Print Assumptions C06_sm_sources_resolve.

Theorem C06_model_holds_json :
  forall file srcs rels,
  sm_sources file srcs = Some rels ->
  holds (CJson file srcs true (Some (file_name_s file, rels))) = true.
Proof. exact holds_json_lemma. Qed.
Print Assumptions C06_model_holds_json.

Theorem C06_cli_sources_resolve :
  forall fs op output rels,
  C20.Model.abs_ok (C20.Model.components output) = true -> C20.Model.is_file (C20.Model.components output) = true ->
  Forall (fun p => C20.Model.abs_ok (C20.Model.components p) = true) (fs_schema fs ++ fs_ops fs) ->
  cli_sources fs op output = Some rels ->
  Forall2 (fun rel p => C20.Model.resolve_s output rel = C20.Model.normalize_s p) rels (sources_of fs op).
Proof. exact cli_sources_resolve_lemma. Qed.
Print Assumptions C06_cli_sources_resolve.

