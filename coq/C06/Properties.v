(** C06 — property theorems only. *)
From V Require Import Base.Util Gen.C06_tables_gen C06.Model C06.Spec C06.Proofs.
