(** C06 — proofs, part 5: [definitions_are_mapped] for operation declaration files.

    The op lists the operation type printer produces are modelled in [C14/Model.v] ([dts_ops]: every
    [write]/[write_for] of [operation_type_printer/visitor.rs] and of [OperationPrinter::print_document],
    tied to the real printer by C14's correspondence run with a recording writer; the printed
    TypeScript types and the runtime JSON enter as data, [defbody]).  Feeding such an op list to the
    [SourceWriter] model gives, for every named operation and every fragment of the document, a named
    segment whose generated text is the declared identifier and whose origin is the definition's name
    (operations) or [fragment] keyword (fragments), in the file the definition came from. *)
From V Require Import Base.Util Gen.C06_tables_gen C06.Model C06.Spec C06.Proofs C06.ProofsMap C06.ProofsWriter.
From V Require C14.Model.
Local Open Scope N_scope.

Module P := C14.Model.

Definition conv_pos (p : P.pos) : pos := mkpos (P.pline p) (P.pcol p) (P.pfile p) (P.pbuiltin p).
Definition conv_wop (o : P.wop) : wop :=
  match o with
  | P.W c => W c
  | P.WF c p n => WF c (conv_pos p) n
  | P.Indent => Indent
  | P.Dedent => Dedent
  end.

Lemma nth_error_combine {A B} : forall (l : list A) (m : list B) i a b,
  nth_error l i = Some a -> nth_error m i = Some b -> In (a, b) (combine l m).
Proof.
  induction l as [|x l IH]; intros m i a b Ha Hb; destruct i; try discriminate; destruct m as [|y m]; try discriminate.
  - injection Ha as ->. injection Hb as ->. left. reflexivity.
  - right. exact (IH m i a b Ha Hb).
Qed.

(** the three identifiers declared for a named operation are written with [write_for] on the name *)
Lemma dts_operation_write_fors : forall t d B i k n np p sel b,
  nth_error (P.defs d) i = Some (P.OpDef k (Some (n, np)) p sel) -> nth_error B i = Some b ->
  let o := P.t_base t in
  In (P.WF (P.operation_name o (Some (n, np)) ++ P.operation_result_type_suffix t) np (Some n)) (P.dts_ops t d B) /\
  In (P.WF (P.operation_name o (Some (n, np)) ++ P.variables_type_suffix t) np (Some n)) (P.dts_ops t d B) /\
  In (P.WF (P.operation_var o k (Some (n, np))) np (Some n)) (P.dts_ops t d B).
Proof.
  intros t d B i k n np p sel b Hd Hb o.
  assert (Hin : In (P.OpDef k (Some (n, np)) p sel, b) (combine (P.defs d) B)) by exact (nth_error_combine _ _ _ _ _ Hd Hb).
  unfold P.dts_ops, P.print_document.
  assert (H : forall w, In w (P.dts_operation t o (P.named_export_for_operation o) k (Some (n, np)) p sel b) ->
                        In w (P.dts_header t ++ flat_map (P.print_def (P.dts_operation t) P.default_export_ops (P.dts_fragment t) o d) (combine (P.defs d) B))).
  { intros w Hw. apply in_or_app. right. apply in_flat_map. eexists. split; [exact Hin|].
    unfold P.print_def. cbn [fst snd]. apply in_or_app. left. exact Hw. }
  unfold P.dts_operation in H. cbv zeta in H. cbn [P.name_pos P.name_of] in H.
  repeat split; apply H; repeat (rewrite in_app_iff); cbn [In]; auto 20.
Qed.

(** the type and the constant declared for a fragment are written with [write_for] on the fragment *)
Lemma dts_fragment_write_fors : forall t d B i name p b,
  nth_error (P.defs d) i = Some (P.FragDef name p) -> nth_error B i = Some b ->
  In (P.WF (name ++ P.fragment_type_suffix t) p (Some name)) (P.dts_ops t d B) /\
  In (P.WF (P.fragment_var (P.t_base t) name) p (Some name)) (P.dts_ops t d B).
Proof.
  intros t d B i name p b Hd Hb.
  assert (Hin : In (P.FragDef name p, b) (combine (P.defs d) B)) by exact (nth_error_combine _ _ _ _ _ Hd Hb).
  unfold P.dts_ops, P.print_document.
  assert (H : forall w, In w (P.dts_fragment t (P.t_base t) (P.frag_exported d p) name p b) ->
                        In w (P.dts_header t ++ flat_map (P.print_def (P.dts_operation t) P.default_export_ops (P.dts_fragment t) (P.t_base t) d) (combine (P.defs d) B))).
  { intros w Hw. apply in_or_app. right. apply in_flat_map. eexists. split; [exact Hin|].
    unfold P.print_def. cbn [fst snd]. exact Hw. }
  unfold P.dts_fragment in H. cbv zeta in H.
  split; apply H; repeat (rewrite in_app_iff); cbn [In]; auto 20.
Qed.

Lemma mapped_of_write_for : forall fmap ops st ident p nm,
  sw_run fmap (map conv_wop ops) = Some st -> In (P.WF ident p (Some nm)) ops -> P.pbuiltin p = false ->
  mapped_in fmap st ident (conv_pos p) nm.
Proof.
  intros fmap ops st ident p nm H Hin Hb.
  apply (mapped_in_of_write_for fmap (map conv_wop ops) st ident (conv_pos p) nm H); [|exact Hb].
  change (WF ident (conv_pos p) (Some nm)) with (conv_wop (P.WF ident p (Some nm))). apply in_map. exact Hin.
Qed.

(** ** definitions_are_mapped (operation declaration files) *)
Lemma operation_definitions_are_mapped_lemma : forall fmap t d B st,
  sw_run fmap (map conv_wop (P.dts_ops t d B)) = Some st ->
  (forall i k n np p sel b,
     nth_error (P.defs d) i = Some (P.OpDef k (Some (n, np)) p sel) -> nth_error B i = Some b -> P.pbuiltin np = false ->
     let o := P.t_base t in
     mapped_in fmap st (P.operation_name o (Some (n, np)) ++ P.operation_result_type_suffix t) (conv_pos np) n /\
     mapped_in fmap st (P.operation_name o (Some (n, np)) ++ P.variables_type_suffix t) (conv_pos np) n /\
     mapped_in fmap st (P.operation_var o k (Some (n, np))) (conv_pos np) n) /\
  (forall i name p b,
     nth_error (P.defs d) i = Some (P.FragDef name p) -> nth_error B i = Some b -> P.pbuiltin p = false ->
     mapped_in fmap st (name ++ P.fragment_type_suffix t) (conv_pos p) name /\
     mapped_in fmap st (P.fragment_var (P.t_base t) name) (conv_pos p) name).
Proof.
  intros fmap t d B st H. split.
  - intros i k n np p sel b Hd Hb Hbi o.
    destruct (dts_operation_write_fors t d B i k n np p sel b Hd Hb) as (A1 & A2 & A3).
    repeat split; eapply mapped_of_write_for; eassumption.
  - intros i name p b Hd Hb Hbi.
    destruct (dts_fragment_write_fors t d B i name p b Hd Hb) as (A1 & A2).
    split; eapply mapped_of_write_for; eassumption.
Qed.
