(** C06 — property theorems that rest on other developments' printer models (C14: operation type printer,
    C10: schema and resolver declaration printers). *)
From V Require Import Base.Util Gen.C06_tables_gen C06.Model C06.Spec C06.Proofs C06.ProofsMap C06.ProofsWriter C06.ProofsDefs C06.ProofsDefsSchema.
From V Require C14.Model Gql.Ast Ts.TsType C10.Model C10.ResolverProofs C10.SitesForC06 C06.ExamplesDefs.

Theorem C06_operation_definitions_are_mapped :
  forall fmap t d B st,
  sw_run fmap (map conv_wop (C14.Model.dts_ops t d B)) = Some st ->
  (forall i k n np p sel b,
     nth_error (C14.Model.defs d) i = Some (C14.Model.OpDef k (Some (n, np)) p sel) -> nth_error B i = Some b ->
     C14.Model.pbuiltin np = false ->
     let o := C14.Model.t_base t in
     mapped_in fmap st (C14.Model.operation_name o (Some (n, np)) ++ C14.Model.operation_result_type_suffix t) (conv_pos np) n /\
     mapped_in fmap st (C14.Model.operation_name o (Some (n, np)) ++ C14.Model.variables_type_suffix t) (conv_pos np) n /\
     mapped_in fmap st (C14.Model.operation_var o k (Some (n, np))) (conv_pos np) n) /\
  (forall i name p b,
     nth_error (C14.Model.defs d) i = Some (C14.Model.FragDef name p) -> nth_error B i = Some b ->
     C14.Model.pbuiltin p = false ->
     mapped_in fmap st (name ++ C14.Model.fragment_type_suffix t) (conv_pos p) name /\
     mapped_in fmap st (C14.Model.fragment_var (C14.Model.t_base t) name) (conv_pos p) name).
Proof. exact operation_definitions_are_mapped_lemma. Qed.
Print Assumptions C06_operation_definitions_are_mapped.

Theorem C06_schema_definitions_are_mapped :
  forall fmap o doc ops st,
  C10.Model.print_schema o doc = C10.Model.Ok ops ->
  sw_run fmap (map conv_wop10 ops) = Some st ->
  (forall td, In td (C10.Model.typedefs doc) -> Gql.Ast.pbuiltin (Gql.Ast.ipos (Gql.Ast.typedef_name td)) = false ->
     mapped_in fmap st (C10.SitesForC06.declared_name o doc (C10.Model.tname td))
               (conv_pos10 (Gql.Ast.ipos (Gql.Ast.typedef_name td))) (C10.Model.tname td)) /\
  (forall d p n impls dirs fields kw fd,
     In (Gql.Ast.TDObject d p n impls dirs fields kw) (C10.Model.typedefs doc) -> In fd fields ->
     Ts.TsType.is_raw_ident (Gql.Ast.iname (Gql.Ast.fd_name fd)) = true -> Gql.Ast.pbuiltin (Gql.Ast.ipos (Gql.Ast.fd_name fd)) = false ->
     mapped_in fmap st (Gql.Ast.iname (Gql.Ast.fd_name fd)) (conv_pos10 (Gql.Ast.ipos (Gql.Ast.fd_name fd))) (Gql.Ast.iname (Gql.Ast.fd_name fd))) /\
  (forall d p n dirs fields kw iv,
     In (Gql.Ast.TDInput d p n dirs fields kw) (C10.Model.typedefs doc) -> In iv fields ->
     Ts.TsType.is_raw_ident (Gql.Ast.iname (Gql.Ast.iv_name iv)) = true -> Gql.Ast.pbuiltin (Gql.Ast.ipos (Gql.Ast.iv_name iv)) = false ->
     mapped_in fmap st (Gql.Ast.iname (Gql.Ast.iv_name iv)) (conv_pos10 (Gql.Ast.ipos (Gql.Ast.iv_name iv))) (Gql.Ast.iname (Gql.Ast.iv_name iv))).
Proof. exact schema_definitions_are_mapped_lemma. Qed.
Print Assumptions C06_schema_definitions_are_mapped.

Theorem C06_resolver_definitions_are_mapped :
  forall fmap o n doc ops st,
  C10.Model.print_resolvers o n doc = C10.Model.Ok ops ->
  sw_run fmap (map conv_wop10 ops) = Some st ->
  (forall td, In td (C10.Model.typedefs doc) -> C10.Model.is_input_def td = false ->
     Gql.Ast.pbuiltin (Gql.Ast.ipos (Gql.Ast.typedef_name td)) = false ->
     mapped_in fmap st (C10.Model.tname td) (conv_pos10 (Gql.Ast.ipos (Gql.Ast.typedef_name td))) (C10.Model.tname td)) /\
  (forall d p nm impls dirs fields kw fd,
     In (Gql.Ast.TDObject d p nm impls dirs fields kw) (C10.Model.typedefs (C10.ResolverProofs.resolver_doc n doc)) -> In fd fields ->
     Ts.TsType.is_raw_ident (Gql.Ast.iname (Gql.Ast.fd_name fd)) = true -> Gql.Ast.pbuiltin (Gql.Ast.ipos (Gql.Ast.fd_name fd)) = false ->
     mapped_in fmap st (Gql.Ast.iname (Gql.Ast.fd_name fd)) (conv_pos10 (Gql.Ast.ipos (Gql.Ast.fd_name fd))) (Gql.Ast.iname (Gql.Ast.fd_name fd))).
Proof. exact resolver_definitions_are_mapped_lemma. Qed.
Print Assumptions C06_resolver_definitions_are_mapped.

