(** C06 — proofs, part 6: [definitions_are_mapped] for schema.d.ts and (without the model plugin) for
    resolvers.d.ts.

    The op lists of the schema declaration printer are modelled in [C10/Model.v] ([print_schema]) and
    tied to the real printer by C10's recording-writer correspondence; [C10/SitesForC06.v] (builder-C10)
    shows which [write_for]s every successful [print_schema] contains.  Feeding the op list to the
    [SourceWriter] model turns each of them into a decoded named segment ([mapped_in]).  For the
    resolver declaration printer ([print_resolvers], same model file) the site lemma is proved here,
    for [plugins = 0]. *)
From V Require Import Base.Util Gen.C06_tables_gen C06.Model C06.Spec C06.Proofs C06.ProofsMap C06.ProofsWriter.
From V Require Gql.Ast Writer.Wop Ts.TsType C10.Model C10.Proofs C10.SitesForC06.
Local Open Scope N_scope.

Module A := Gql.Ast.
Module WO := Writer.Wop.
Module S := C10.Model.
Module SS := C10.SitesForC06.

Definition conv_pos10 (p : A.pos) : pos := mkpos (A.pline p) (A.pcol p) (A.pfile p) (A.pbuiltin p).
Definition conv_wop10 (o : WO.wop) : wop :=
  match o with
  | WO.W c => W c
  | WO.WF c p n => WF c (conv_pos10 p) n
  | WO.Indent => Indent
  | WO.Dedent => Dedent
  end.

Lemma mapped_of_write_for10 : forall fmap ops st ident p nm,
  sw_run fmap (map conv_wop10 ops) = Some st -> In (WO.WF ident p (Some nm)) ops -> A.pbuiltin p = false ->
  mapped_in fmap st ident (conv_pos10 p) nm.
Proof.
  intros fmap ops st ident p nm H Hin Hb.
  apply (mapped_in_of_write_for fmap (map conv_wop10 ops) st ident (conv_pos10 p) nm H); [|exact Hb].
  change (WF ident (conv_pos10 p) (Some nm)) with (conv_wop10 (WO.WF ident p (Some nm))). apply in_map. exact Hin.
Qed.

(** ** definitions_are_mapped (schema declaration file) *)
Lemma schema_definitions_are_mapped_lemma : forall fmap o doc ops st,
  S.print_schema o doc = S.Ok ops ->
  sw_run fmap (map conv_wop10 ops) = Some st ->
  (* every type definition: the declared (local) name, at the definition's name, under the GraphQL name *)
  (forall td, In td (S.typedefs doc) -> A.pbuiltin (A.ipos (A.typedef_name td)) = false ->
     mapped_in fmap st (SS.declared_name o doc (S.tname td)) (conv_pos10 (A.ipos (A.typedef_name td))) (S.tname td)) /\
  (* every field of every object type *)
  (forall d p n impls dirs fields kw fd,
     In (A.TDObject d p n impls dirs fields kw) (S.typedefs doc) -> In fd fields ->
     Ts.TsType.is_raw_ident (A.iname (A.fd_name fd)) = true -> A.pbuiltin (A.ipos (A.fd_name fd)) = false ->
     mapped_in fmap st (A.iname (A.fd_name fd)) (conv_pos10 (A.ipos (A.fd_name fd))) (A.iname (A.fd_name fd))) /\
  (* every field of every input object type *)
  (forall d p n dirs fields kw iv,
     In (A.TDInput d p n dirs fields kw) (S.typedefs doc) -> In iv fields ->
     Ts.TsType.is_raw_ident (A.iname (A.iv_name iv)) = true -> A.pbuiltin (A.ipos (A.iv_name iv)) = false ->
     mapped_in fmap st (A.iname (A.iv_name iv)) (conv_pos10 (A.ipos (A.iv_name iv))) (A.iname (A.iv_name iv))).
Proof.
  intros fmap o doc ops st Hp H. split; [|split].
  - intros td Hin Hb. eapply mapped_of_write_for10; [exact H | exact (SS.definition_name_mapped o doc ops Hp td Hin) | exact Hb].
  - intros d p n impls dirs fields kw fd Hin Hfd Hraw Hb.
    eapply mapped_of_write_for10; [exact H | exact (SS.object_field_mapped o doc ops Hp d p n impls dirs fields kw fd Hin Hfd Hraw) | exact Hb].
  - intros d p n dirs fields kw iv Hin Hiv Hraw Hb.
    eapply mapped_of_write_for10; [exact H | exact (SS.input_field_mapped o doc ops Hp d p n dirs fields kw iv Hin Hiv Hraw) | exact Hb].
Qed.

(** ** resolvers.d.ts, no model plugin: every non-input type definition is declared by
       [type <Name> = …] with a [write_for] on the definition's name *)
Lemma resolver_alias_site : forall o doc ops td,
  S.print_resolvers o 0 doc = S.Ok ops -> In td (S.typedefs doc) -> S.is_input_def td = false ->
  In (WO.WF (S.tname td) (A.ipos (A.typedef_name td)) (Some (S.tname td))) ops.
Proof.
  intros o doc ops td H Hin Hk. unfold S.print_resolvers in H.
  apply C10.Proofs.bind_ok in H as (d & Hd & H). injection H as <-.
  unfold S.resolver_structure in Hd. cbn [nat_rect] in Hd. cbn [S.bind] in Hd.
  apply C10.Proofs.bind_ok in Hd as (aliases & Ha & Hd). injection Hd as <-.
  apply C10.Proofs.mapM_ok in Ha.
  assert (Hf : In td (filter (fun t => negb (S.is_input_def t)) (S.typedefs doc))) by (apply filter_In; split; [exact Hin | now rewrite Hk]).
  destruct (C10.Proofs.Forall2_in_l _ _ _ _ Ha Hf) as (y & Hy & Hr). cbv beta in Hr.
  destruct (Ts.TsDen.assoc (S.tname td) _) as [ty|]; [|discriminate]. injection Hr as <-.
  unfold S.print_resolver_decls. cbn [S.rd_aliases].
  apply in_or_app. right. apply in_or_app. left. apply in_flat_map. eexists. split; [exact Hy|].
  cbn [fst snd]. right. left. reflexivity.
Qed.

Lemma resolver_definitions_are_mapped_lemma : forall fmap o doc ops st,
  S.print_resolvers o 0 doc = S.Ok ops ->
  sw_run fmap (map conv_wop10 ops) = Some st ->
  forall td, In td (S.typedefs doc) -> S.is_input_def td = false -> A.pbuiltin (A.ipos (A.typedef_name td)) = false ->
    mapped_in fmap st (S.tname td) (conv_pos10 (A.ipos (A.typedef_name td))) (S.tname td).
Proof.
  intros fmap o doc ops st Hp H td Hin Hk Hb.
  eapply mapped_of_write_for10; [exact H | exact (resolver_alias_site o doc ops td Hp Hin Hk) | exact Hb].
Qed.
