(** C06 — proofs, part 6: [definitions_are_mapped] for schema.d.ts and for resolvers.d.ts (with any
    number of model-plugin instances).

    The op lists of the schema declaration printer are modelled in [C10/Model.v] ([print_schema]) and
    tied to the real printer by C10's recording-writer correspondence; [C10/SitesForC06.v] (builder-C10)
    shows which [write_for]s every successful [print_schema] contains.  Feeding the op list to the
    [SourceWriter] model turns each of them into a decoded named segment ([mapped_in]).  For the
    resolver declaration printer ([print_resolvers], same model file) the site lemmas are proved here. *)
From V Require Import Base.Util Gen.C06_tables_gen C06.Model C06.Spec C06.Proofs C06.ProofsMap C06.ProofsWriter.
From V Require Gql.Ast Writer.Wop Ts.TsType Ts.TsDen C10.Model C10.Proofs C10.ResolverProofs C10.SitesForC06.
Local Open Scope N_scope.

Module A := Gql.Ast.
Module WO := Writer.Wop.
Module S := C10.Model.
Module SS := C10.SitesForC06.

Definition conv_pos10 (p : A.pos) : pos := mkpos (A.pline p) (A.pcol p) (A.pfile p) (A.pbuiltin p).
Definition conv_wop10 (o : WO.wop) : wop :=
  match o with
  | WO.W c => W c
  | WO.WF c p n => WF c (conv_pos10 p) n
  | WO.Indent => Indent
  | WO.Dedent => Dedent
  end.

Lemma mapped_of_write_for10 : forall fmap ops st ident p nm,
  sw_run fmap (map conv_wop10 ops) = Some st -> In (WO.WF ident p (Some nm)) ops -> A.pbuiltin p = false ->
  mapped_in fmap st ident (conv_pos10 p) nm.
Proof.
  intros fmap ops st ident p nm H Hin Hb.
  apply (mapped_in_of_write_for fmap (map conv_wop10 ops) st ident (conv_pos10 p) nm H); [|exact Hb].
  change (WF ident (conv_pos10 p) (Some nm)) with (conv_wop10 (WO.WF ident p (Some nm))). apply in_map. exact Hin.
Qed.

(** ** definitions_are_mapped (schema declaration file) *)
Lemma schema_definitions_are_mapped_lemma : forall fmap o doc ops st,
  S.print_schema o doc = S.Ok ops ->
  sw_run fmap (map conv_wop10 ops) = Some st ->
  (* every type definition: the declared (local) name, at the definition's name, under the GraphQL name *)
  (forall td, In td (S.typedefs doc) -> A.pbuiltin (A.ipos (A.typedef_name td)) = false ->
     mapped_in fmap st (SS.declared_name o doc (S.tname td)) (conv_pos10 (A.ipos (A.typedef_name td))) (S.tname td)) /\
  (* every field of every object type *)
  (forall d p n impls dirs fields kw fd,
     In (A.TDObject d p n impls dirs fields kw) (S.typedefs doc) -> In fd fields ->
     Ts.TsType.is_raw_ident (A.iname (A.fd_name fd)) = true -> A.pbuiltin (A.ipos (A.fd_name fd)) = false ->
     mapped_in fmap st (A.iname (A.fd_name fd)) (conv_pos10 (A.ipos (A.fd_name fd))) (A.iname (A.fd_name fd))) /\
  (* every field of every input object type *)
  (forall d p n dirs fields kw iv,
     In (A.TDInput d p n dirs fields kw) (S.typedefs doc) -> In iv fields ->
     Ts.TsType.is_raw_ident (A.iname (A.iv_name iv)) = true -> A.pbuiltin (A.ipos (A.iv_name iv)) = false ->
     mapped_in fmap st (A.iname (A.iv_name iv)) (conv_pos10 (A.ipos (A.iv_name iv))) (A.iname (A.iv_name iv))).
Proof.
  intros fmap o doc ops st Hp H. split; [|split].
  - intros td Hin Hb. eapply mapped_of_write_for10; [exact H | exact (SS.definition_name_mapped o doc ops Hp td Hin) | exact Hb].
  - intros d p n impls dirs fields kw fd Hin Hfd Hraw Hb.
    eapply mapped_of_write_for10; [exact H | exact (SS.object_field_mapped o doc ops Hp d p n impls dirs fields kw fd Hin Hfd Hraw) | exact Hb].
  - intros d p n dirs fields kw iv Hin Hiv Hraw Hb.
    eapply mapped_of_write_for10; [exact H | exact (SS.input_field_mapped o doc ops Hp d p n dirs fields kw iv Hin Hiv Hraw) | exact Hb].
Qed.

(** ** resolvers.d.ts, with any number of model-plugin instances.  The printer works on the
       plugin-transformed document [resolver_doc n doc] (C10/ResolverProofs.v): objects without
       [@model] lose their [@model] fields, nothing else changes — in particular every definition keeps
       its name identifier. *)
Module RP := C10.ResolverProofs.

Lemma model_td_name td : A.typedef_name (RP.model_td td) = A.typedef_name td.
Proof. destruct td; try reflexivity. cbn. destruct (S.has_model dirs); reflexivity. Qed.
Lemma model_td_input td : S.is_input_def (RP.model_td td) = S.is_input_def td.
Proof. destruct td; try reflexivity. cbn. destruct (S.has_model dirs); reflexivity. Qed.

Lemma in_resolver_doc : forall n doc td, In td (S.typedefs doc) ->
  exists td', In td' (S.typedefs (RP.resolver_doc n doc)) /\ A.typedef_name td' = A.typedef_name td /\
              S.is_input_def td' = S.is_input_def td.
Proof.
  induction n as [|n IH]; intros doc td Hin; [exists td; repeat split; exact Hin|].
  destruct (IH doc td Hin) as (t1 & H1 & H2 & H3).
  exists (RP.model_td t1). cbn [RP.resolver_doc nat_rect]. fold (RP.resolver_doc n doc).
  rewrite RP.typedefs_model. split; [apply in_map; exact H1|].
  rewrite model_td_name, model_td_input. split; assumption.
Qed.

(** every non-input type definition is declared by [type <Name> = …] with a [write_for] on its name *)
Lemma resolver_alias_site : forall o n doc ops td,
  S.print_resolvers o n doc = S.Ok ops -> In td (S.typedefs doc) -> S.is_input_def td = false ->
  In (WO.WF (S.tname td) (A.ipos (A.typedef_name td)) (Some (S.tname td))) ops.
Proof.
  intros o n doc ops td H Hin Hk. unfold S.print_resolvers in H.
  apply C10.Proofs.bind_ok in H as (d & Hd & H). injection H as <-.
  unfold S.resolver_structure in Hd.
  apply C10.Proofs.bind_ok in Hd as (tm & _ & Hd).
  apply C10.Proofs.bind_ok in Hd as (aliases & Ha & Hd). injection Hd as <-.
  fold (RP.resolver_doc n doc) in Ha.
  apply C10.Proofs.mapM_ok in Ha.
  destruct (in_resolver_doc n doc td Hin) as (td' & Hin' & Hname & Hinp).
  assert (Hf : In td' (filter (fun t => negb (S.is_input_def t)) (S.typedefs (RP.resolver_doc n doc))))
    by (apply filter_In; split; [exact Hin' | now rewrite Hinp, Hk]).
  destruct (C10.Proofs.Forall2_in_l _ _ _ _ Ha Hf) as (y & Hy & Hr). cbv beta in Hr.
  destruct (Ts.TsDen.assoc (S.tname td') tm) as [ty|]; [|discriminate]. injection Hr as <-.
  unfold S.print_resolver_decls. cbn [S.rd_aliases].
  apply in_or_app. right. apply in_or_app. left. apply in_flat_map. eexists. split; [exact Hy|].
  cbn [fst snd]. right. left. unfold S.id_wf, S.tname. rewrite Hname. reflexivity.
Qed.

(** what is printed for a field's type is part of what is printed for the object *)
Lemma obj_ops_nested : forall l k kp ty ro opt d x,
  In (Ts.TsType.mkField k kp ty ro opt d) l -> In x (Ts.TsType.print_type ty) -> In x (SS.obj_ops l).
Proof.
  induction l as [|[k' kp' ty' ro' opt' d'] l IH]; intros k kp ty ro opt d x Hin Hx; [destruct Hin|].
  cbn [SS.obj_ops]. destruct Hin as [He|Hin].
  - injection He as -> -> -> -> -> ->.
    apply in_or_app; right. apply in_or_app; right. apply in_or_app; right. apply in_or_app; right.
    apply in_or_app; right. apply in_or_app; left. exact Hx.
  - apply in_or_app; right. apply in_or_app; right. apply in_or_app; right. apply in_or_app; right.
    apply in_or_app; right. apply in_or_app; right. right. exact (IH _ _ _ _ _ _ _ Hin Hx).
Qed.

Lemma print_object_nested : forall fields k kp ty ro opt d x,
  In (Ts.TsType.mkField k kp ty ro opt d) fields -> In x (Ts.TsType.print_type ty) ->
  In x (Ts.TsType.print_type (Ts.TsType.TObject fields)).
Proof.
  intros fields k kp ty ro opt d x Hin Hx. destruct fields as [|f0 fs0]; [destruct Hin|].
  rewrite SS.print_object_eq. apply in_or_app; right. apply in_or_app; left. eapply obj_ops_nested; eassumption.
Qed.

(** every field of every object type of the transformed document is a key of that type's entry in
    [Resolvers<Context>], written with a [write_for] on the field's name *)
Lemma resolver_field_site : forall o n doc ops d p nm impls dirs fields kw fd,
  S.print_resolvers o n doc = S.Ok ops ->
  In (A.TDObject d p nm impls dirs fields kw) (S.typedefs (RP.resolver_doc n doc)) -> In fd fields ->
  Ts.TsType.is_raw_ident (A.iname (A.fd_name fd)) = true ->
  In (WO.WF (A.iname (A.fd_name fd)) (A.ipos (A.fd_name fd)) (Some (A.iname (A.fd_name fd)))) ops.
Proof.
  intros o n doc ops d p nm impls dirs fields kw fd H Hin Hfd Hraw. unfold S.print_resolvers in H.
  apply C10.Proofs.bind_ok in H as (rd & Hd & H). injection H as <-.
  unfold S.resolver_structure in Hd.
  apply C10.Proofs.bind_ok in Hd as (tm & _ & Hd).
  apply C10.Proofs.bind_ok in Hd as (aliases & _ & Hd). injection Hd as <-.
  fold (RP.resolver_doc n doc).
  unfold S.print_resolver_decls. cbn [S.rd_root].
  apply in_or_app. right. apply in_or_app. right. apply in_or_app. right. apply in_or_app. left.
  set (td := A.TDObject d p nm impls dirs fields kw) in *.
  eapply (print_object_nested _ (S.tname td)).
  - apply in_flat_map. exists td. split; [exact Hin|]. cbn [S.get_resolver_type td]. left. reflexivity.
  - eapply SS.print_object_key; [|exact Hraw]. apply in_map_iff. exists fd. split; [reflexivity | exact Hfd].
Qed.

Lemma resolver_definitions_are_mapped_lemma : forall fmap o n doc ops st,
  S.print_resolvers o n doc = S.Ok ops ->
  sw_run fmap (map conv_wop10 ops) = Some st ->
  (forall td, In td (S.typedefs doc) -> S.is_input_def td = false -> A.pbuiltin (A.ipos (A.typedef_name td)) = false ->
     mapped_in fmap st (S.tname td) (conv_pos10 (A.ipos (A.typedef_name td))) (S.tname td)) /\
  (forall d p nm impls dirs fields kw fd,
     In (A.TDObject d p nm impls dirs fields kw) (S.typedefs (RP.resolver_doc n doc)) -> In fd fields ->
     Ts.TsType.is_raw_ident (A.iname (A.fd_name fd)) = true -> A.pbuiltin (A.ipos (A.fd_name fd)) = false ->
     mapped_in fmap st (A.iname (A.fd_name fd)) (conv_pos10 (A.ipos (A.fd_name fd))) (A.iname (A.fd_name fd))).
Proof.
  intros fmap o n doc ops st Hp H. split.
  - intros td Hin Hk Hb.
    eapply mapped_of_write_for10; [exact H | exact (resolver_alias_site o n doc ops td Hp Hin Hk) | exact Hb].
  - intros d p nm impls dirs fields kw fd Hin Hfd Hraw Hb.
    eapply mapped_of_write_for10; [exact H | exact (resolver_field_site o n doc ops d p nm impls dirs fields kw fd Hp Hin Hfd Hraw) | exact Hb].
Qed.
