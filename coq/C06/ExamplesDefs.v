(** C06 — examples that depend on other developments' models (C14, C10); kept apart from Examples.v so
    that a change there cannot break the rest of C06. *)
From V Require Import Base.Util Gen.C06_tables_gen C06.Model C06.Spec C06.Proofs C06.ProofsMap C06.ProofsWriter.

(** [C06_operation_definitions_are_mapped]: a document with a named query and an imported fragment
    (file 2), default options; the run succeeds and the mappings decode to 16 segments *)
From V Require C14.Model C06.ProofsDefs.
Module PX := C14.Model.
Definition ex_doc14 : PX.doc :=
  PX.Doc 1 [PX.OpDef PX.KQuery (Some (s "me", PX.P 1 6 1 false)) (PX.P 1 0 1 false) (PX.P 1 9 1 false);
            PX.FragDef (s "F") (PX.P 0 0 2 false)].
Definition ex_bodies : list PX.defbody :=
  [PX.Body [PX.W (s "{"); PX.Indent; PX.W [10%N]; PX.WF (s "me") (PX.P 2 2 1 false) (Some (s "me")); PX.W (s ": string;"); PX.Dedent; PX.W (10%N :: s "}")]
           [PX.W (s "{}")] [PX.W (s "{}")] (s "{}");
   PX.Body [PX.W (s "{}")] [] [] (s "{}")].
Example operation_definitions_example :
  option_map (fun st => (option_map (@length seg) (decode_mappings (mbuf (sw_map st))), nm_all (sw_names st)))
    (sw_run (Some [0; 1; 2]%N) (map ProofsDefs.conv_wop (PX.dts_ops PX.type_default ex_doc14 ex_bodies)))
  = Some (Some 16%nat, [s "me"; s "F"]).
Proof. vm_compute. reflexivity. Qed.

(** [C06_schema_definitions_are_mapped] / [C06_resolver_definitions_are_mapped]: a schema with real
    (non-builtin) positions in two files — builtin scalar ID; type Query {me: User}; type User {id: ID!};
    input In {a: ID} — prints, the writer run on the op list succeeds, and the decoded map has named
    segments at the names of Query/User/In and of the fields me/id/a *)
From V Require Gql.Ast C10.Model C10.NameProofs C10.Examples C06.ProofsDefsSchema.
Module AX := Gql.Ast.
Definition idp (n : String.string) (l c f : N) : AX.ident := AX.mkId (s n) (AX.mkPos l c f false).
Arguments idp n%string_scope l c f.
Definition kwp (n : String.string) (l c f : N) : AX.keyword := AX.mkKw (s n) (AX.mkPos l c f false).
Arguments kwp n%string_scope l c f.
Definition ex_schema10 : AX.tsdoc :=
  [AX.TSType (AX.TDScalar None AX.pos0 (C10.NameProofs.id0 "ID") [] (C10.NameProofs.kw0 "scalar"));
   AX.TSType (AX.TDObject None (AX.mkPos 0 0 0 false) (idp "Query" 0 5 0) [] []
                [AX.mkFieldDef None (idp "me" 1 2 0) None (AX.TNamed (idp "User" 1 6 0)) []] (kwp "type" 0 0 0));
   AX.TSType (AX.TDObject None (AX.mkPos 3 0 1 false) (idp "User" 3 5 1) [] []
                [AX.mkFieldDef None (idp "id" 4 2 1) None (AX.TNonNull (AX.TNamed (idp "ID" 4 6 1))) []] (kwp "type" 3 0 1));
   AX.TSType (AX.TDInput None (AX.mkPos 6 0 1 false) (idp "In" 6 6 1) []
                [AX.mkInputVal None (AX.mkPos 7 2 1 false) (idp "a" 7 2 1) (AX.TNamed (idp "ID" 7 5 1)) None []] (kwp "input" 6 0 1))].
Definition origins_of (r : C10.Model.res (list Writer.Wop.wop)) : option (list (Z * Z * Z)) :=
  match r with
  | C10.Model.Ok ops =>
      match sw_run (Some [0; 1]%N) (map ProofsDefsSchema.conv_wop10 ops) with
      | Some st => option_map (fun gs => flat_map (fun g => match g_orig g with Some (sr, l, c, Some _) => [(sr, l, c)] | _ => [] end) gs)
                              (decode_mappings (mbuf (sw_map st)))
      | None => None
      end
  | _ => None
  end.
Definition has_origin (x : Z * Z * Z) (l : option (list (Z * Z * Z))) : bool :=
  match l with Some l => existsb (fun y => let '(a, b, c) := x in let '(a', b', c') := y in (a =? a')%Z && (b =? b')%Z && (c =? c')%Z) l | None => false end.
Example schema_definitions_example :
  let o := origins_of (C10.Model.print_schema C10.Examples.ex_opts ex_schema10) in
  forallb (fun x => has_origin x o) [(0, 0, 5); (0, 1, 2); (1, 3, 5); (1, 4, 2); (1, 6, 6); (1, 7, 2)]%Z = true.
Proof. vm_compute. reflexivity. Qed.
Example resolver_definitions_example :
  let o := origins_of (C10.Model.print_resolvers (C10.Model.mkROpts (s "Resolvers") (s "ResolverOutput") (s "./schema.js") (s "Schema")) 0 ex_schema10) in
  has_origin (0, 0, 5)%Z o && has_origin (1, 3, 5)%Z o && has_origin (0, 1, 2)%Z o && has_origin (1, 4, 2)%Z o &&
  negb (has_origin (1, 6, 6)%Z o) = true.
Proof. vm_compute. reflexivity. Qed.
