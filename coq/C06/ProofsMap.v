(** C06 — proofs, part 2: what [MappingWriter::add_entry] appends decodes, under the Source Map v3
    reading of Spec.v, to exactly the entries it was given. *)
From V Require Import Base.Util Gen.C06_tables_gen C06.Model C06.Spec C06.Proofs.
Local Open Scope N_scope.

(** the segment a consumer must see for an entry: the values [add_entry] received, read as [isize] *)
Definition seg_of_entry (e : entry) : seg :=
  {| g_line := e_gl e; g_col := isize_of (e_gc e);
     g_orig := Some (isize_of (e_fi e), isize_of (e_ol e), isize_of (e_oc e), option_map isize_of (e_ni e)) |}.

(** * The decoder on concatenations and on one VLQ number *)

Lemma drun_app : forall a b d, drun d (a ++ b) = match drun d a with Some d' => drun d' b | None => None end.
Proof.
  induction a as [|c a IH]; intros b d; cbn [app drun]; [reflexivity|].
  destruct (dstep d c); [apply IH | reflexivity].
Qed.

Definition push_field (d : dstate) (z : Z) : dstate :=
  mk_d (d_line d) (d_gc d) (d_src d) (d_ol d) (d_oc d) (d_nm d) (z :: d_fields d) 0 0 false (d_out d).

Lemma dstep_digit : forall d c x, b64_val c = Some x -> dstep d c = Some (push_digit d x).
Proof.
  intros d c x H. unfold dstep. destruct (b64_val_not_sep c x H) as [H1 H2].
  apply N.eqb_neq in H1, H2. rewrite H1, H2, H. reflexivity.
Qed.

Lemma drun_vlq : forall t d v, vlq_decode_go t (d_shift d) (d_acc d) = Some (v, []) ->
  drun d t = Some (push_field d (z_of_vlq v)).
Proof.
  induction t as [|c r IH]; intros d v H; [discriminate|].
  rewrite decode_go_cons in H. destruct (b64_val c) as [x|] eqn:Ex; [|discriminate].
  cbn [drun]. rewrite (dstep_digit d c x Ex). cbv zeta in H. unfold push_digit.
  destruct (N.testbit x 5).
  - rewrite (IH _ v); [reflexivity | exact H].
  - injection H as Hv Hr. subst v r. reflexivity.
Qed.

Lemma drun_encode : forall n t d, vlq_encode n = Some t -> d_shift d = 0 -> d_acc d = 0 ->
  drun d t = Some (push_field d n).
Proof.
  intros n t d H Hs Ha. unfold vlq_encode in H.
  destruct (vlq_sextets n) as [l|] eqn:Hl; [|discriminate]. injection H as <-.
  pose proof (sextets_decode n l [] Hl) as D. rewrite app_nil_r in D.
  rewrite (drun_vlq _ d ((if (n <? 0)%Z then 1 else 0) + 2 * Z.abs_N n)); [rewrite z_of_vlq_spec; reflexivity|].
  rewrite Hs, Ha. exact D.
Qed.

Lemma isub_spec : forall a b z, isub a b = Some z -> z = (a - b)%Z.
Proof. intros a b z. unfold isub. destruct (_ && _); [intros [= <-]; reflexivity | discriminate]. Qed.

Lemma drun_diff : forall a b t d, vlq_diff a b = Some t -> d_shift d = 0 -> d_acc d = 0 ->
  drun d t = Some (push_field d (isize_of a - isize_of b)).
Proof.
  intros a b t d H Hs Ha. unfold vlq_diff, bind in H.
  destruct (isub (isize_of a) (isize_of b)) as [z|] eqn:Ez; [|discriminate].
  rewrite (isub_spec _ _ _ Ez) in H. exact (drun_encode _ _ _ H Hs Ha).
Qed.

(** * The invariant linking the writer state and the decoder state *)

(** the decoder state just after a segment end, as determined by the writer's [last_*] fields *)
Definition closed (m : mstate) (out : list seg) : dstate :=
  mk_d (lgl m) (isize_of (lgc m)) (isize_of (lfi m)) (isize_of (lol m)) (isize_of (loc m)) (isize_of (lni m))
       [] 0 0 false out.

Definition Inv (m : mstate) (out : list seg) : Prop :=
  exists d, drun d0 (mbuf m) = Some d /\ close_seg d = Some (closed m out).

Lemma isize_of_0 : isize_of 0 = 0%Z.
Proof. reflexivity. Qed.

Lemma Inv_m0 : Inv m0 [].
Proof. exists d0. split; reflexivity. Qed.

(** a state with no open segment, at line [l] with the generated column reset *)
Definition at_line (c : dstate) (l : N) : dstate :=
  mk_d l 0 (d_src c) (d_ol c) (d_oc c) (d_nm c) [] 0 0 false (d_out c).

Lemma semis_run : forall j c l, drun (at_line c l) (repeat SEMI j) = Some (at_line c (l + N.of_nat j)).
Proof.
  induction j as [|j IH]; intros c l.
  - cbn [repeat drun]. rewrite N.add_0_r. reflexivity.
  - cbn [repeat drun]. change (dstep (at_line c l) SEMI) with (Some (at_line c (l + 1))).
    cbv iota beta. rewrite IH. f_equal. f_equal. lia.
Qed.

Lemma close4 : forall l gc sr ol oc nm a b c e out,
  close_seg (mk_d l gc sr ol oc nm [e; c; b; a] 0 0 false out) =
  Some (mk_d l (gc + a) (sr + b) (ol + c) (oc + e) nm [] 0 0 false
          ({| g_line := l; g_col := (gc + a)%Z; g_orig := Some ((sr + b)%Z, (ol + c)%Z, (oc + e)%Z, None) |} :: out)).
Proof. reflexivity. Qed.

Lemma close5 : forall l gc sr ol oc nm a b c e f out,
  close_seg (mk_d l gc sr ol oc nm [f; e; c; b; a] 0 0 false out) =
  Some (mk_d l (gc + a) (sr + b) (ol + c) (oc + e) (nm + f) [] 0 0 false
          ({| g_line := l; g_col := (gc + a)%Z; g_orig := Some ((sr + b)%Z, (ol + c)%Z, (oc + e)%Z, Some (nm + f)%Z) |} :: out)).
Proof. reflexivity. Qed.

(** the part of [add_entry] after the generated column: source, original line, original column,
    optional name — pushed onto a state [s] with exactly the column field open *)
Lemma tail_fields : forall m e src ol oc nmt nmi s,
  vlq_diff (e_fi e) (lfi m) = Some src ->
  vlq_diff (e_ol e) (lol m) = Some ol ->
  vlq_diff (e_oc e) (loc m) = Some oc ->
  match e_ni e with
  | Some ni => option_map (fun x => (x, ni)) (vlq_diff ni (lni m))
  | None => Some ([], lni m)
  end = Some (nmt, nmi) ->
  d_shift s = 0 -> d_acc s = 0 ->
  drun s (src ++ ol ++ oc ++ nmt) =
  Some (mk_d (d_line s) (d_gc s) (d_src s) (d_ol s) (d_oc s) (d_nm s)
          (match e_ni e with
           | Some ni => [(isize_of ni - isize_of (lni m))%Z]
           | None => []
           end ++ [(isize_of (e_oc e) - isize_of (loc m))%Z; (isize_of (e_ol e) - isize_of (lol m))%Z;
                   (isize_of (e_fi e) - isize_of (lfi m))%Z] ++ d_fields s) 0 0 false (d_out s))
  /\ nmi = match e_ni e with Some ni => ni | None => lni m end.
Proof.
  intros m e src ol oc nmt nmi s Hsrc Hol Hoc Hnm Hs Ha.
  rewrite drun_app, (drun_diff _ _ _ _ Hsrc Hs Ha).
  rewrite drun_app. erewrite (drun_diff _ _ _ _ Hol) by reflexivity.
  rewrite drun_app. erewrite (drun_diff _ _ _ _ Hoc) by reflexivity.
  destruct (e_ni e) as [ni|].
  - destruct (vlq_diff ni (lni m)) as [t|] eqn:Et; [|discriminate]. injection Hnm as <- <-.
    erewrite (drun_diff _ _ _ _ Et) by reflexivity. split; reflexivity.
  - injection Hnm as <- <-. split; reflexivity.
Qed.

Lemma add_entry_inv : forall m e m' out, Inv m out -> add_entry m e = Some m' -> Inv m' (seg_of_entry e :: out).
Proof.
  intros m e m' out (d & Hd & Hc) H. unfold add_entry in H.
  destruct (e_gl e <? lgl m) eqn:Egl; [discriminate|]. apply N.ltb_ge in Egl.
  unfold bind in H.
  destruct (if negb (lgl m =? e_gl e) then vlq_encode (isize_of (e_gc e))
            else option_map (cons COMMA) (vlq_diff (e_gc e) (lgc m))) as [col|] eqn:Ecol; [|discriminate].
  destruct (vlq_diff (e_fi e) (lfi m)) as [src|] eqn:Esrc; [|discriminate].
  destruct (vlq_diff (e_ol e) (lol m)) as [ol|] eqn:Eol; [|discriminate].
  destruct (vlq_diff (e_oc e) (loc m)) as [oc|] eqn:Eoc; [|discriminate].
  destruct (match e_ni e with
            | Some ni => option_map (fun x => (x, ni)) (vlq_diff ni (lni m))
            | None => Some ([], lni m)
            end) as [[nmt nmi]|] eqn:Enm; [|discriminate].
  injection H as <-. unfold Inv. cbn [mbuf fst snd].
  rewrite drun_app, Hd.
  (* the state after the separators and the generated-column field *)
  assert (Hcol : exists base, drun d (repeat SEMI (N.to_nat (e_gl e - lgl m)) ++ col) =
                   Some (mk_d (e_gl e) base (isize_of (lfi m)) (isize_of (lol m)) (isize_of (loc m)) (isize_of (lni m))
                           [(isize_of (e_gc e) - base)%Z] 0 0 false out)).
  { destruct (lgl m =? e_gl e) eqn:El; cbn [negb] in Ecol.
    - apply N.eqb_eq in El. rewrite <- El, N.sub_diag. cbn [N.to_nat repeat app].
      destruct (vlq_diff (e_gc e) (lgc m)) as [t|] eqn:Et; [|discriminate]. injection Ecol as <-.
      exists (isize_of (lgc m)). cbn [drun]. change (dstep d COMMA) with (close_seg d). rewrite Hc.
      erewrite (drun_diff _ _ _ _ Et) by reflexivity. reflexivity.
    - apply N.eqb_neq in El. exists 0%Z.
      assert (Hk : exists k, N.to_nat (e_gl e - lgl m) = S k /\ lgl m + 1 + N.of_nat k = e_gl e).
      { exists (Nat.pred (N.to_nat (e_gl e - lgl m))). split; lia. }
      destruct Hk as (k & -> & Hk). cbn [repeat app drun].
      change (dstep d SEMI) with (option_map next_line (close_seg d)). rewrite Hc. cbn [option_map].
      change (next_line (closed m out)) with (at_line (closed m out) (lgl m + 1)).
      rewrite drun_app, semis_run, Hk.
      erewrite (drun_encode _ _ _ Ecol) by reflexivity. unfold push_field, at_line, closed. cbn.
      rewrite Z.sub_0_r. reflexivity. }
  destruct Hcol as (base & Hcol).
  rewrite !app_assoc in *. rewrite <- !app_assoc in *.
  rewrite (app_assoc (repeat SEMI _) col), drun_app, Hcol.
  match type of Hcol with _ = Some ?s1 =>
    destruct (tail_fields m e src ol oc nmt nmi s1 Esrc Eol Eoc Enm eq_refl eq_refl) as [Ht ->] end.
  eexists. split; [exact Ht|].
  cbn [d_line d_gc d_src d_ol d_oc d_nm d_fields d_out].
  unfold closed, seg_of_entry. cbn [lgl lgc lol loc lni lfi].
  destruct (e_ni e) as [ni|]; cbn [app option_map].
  - rewrite close5. repeat f_equal; lia.
  - rewrite close4. repeat f_equal; lia.
Qed.

Lemma add_entries_inv : forall es m m' out,
  Inv m out -> add_entries m es = Some m' -> Inv m' (rev (map seg_of_entry es) ++ out).
Proof.
  induction es as [|e es IH]; intros m m' out HI H.
  - injection H as <-. exact HI.
  - cbn [add_entries] in H. unfold bind in H. destruct (add_entry m e) as [m1|] eqn:E1; [|discriminate].
    cbn [map rev]. rewrite <- app_assoc. cbn [app].
    apply (IH m1 m' _ (add_entry_inv _ _ _ _ HI E1) H).
Qed.

Lemma Inv_decode : forall m out, Inv m out -> decode_mappings (mbuf m) = Some (rev out).
Proof.
  intros m out (d & Hd & Hc). unfold decode_mappings. rewrite Hd, Hc. reflexivity.
Qed.

(** ** mappings_decode *)
Lemma mappings_decode_lemma : forall es m,
  add_entries m0 es = Some m -> decode_mappings (mbuf m) = Some (map seg_of_entry es).
Proof.
  intros es m H. pose proof (add_entries_inv es m0 m [] Inv_m0 H) as HI.
  rewrite (Inv_decode _ _ HI), app_nil_r, rev_involutive. reflexivity.
Qed.

(** when does [add_entry] succeed: lines do not go back and no [isize] difference overflows *)
Definition diff_ok (a b : N) : bool :=
  let d := (isize_of a - isize_of b)%Z in ((- 2 ^ 63 <=? d) && (d <? 2 ^ 63))%Z.

Definition entry_ok (m : mstate) (e : entry) : bool :=
  (lgl m <=? e_gl e) &&
  ((negb (lgl m =? e_gl e)) || diff_ok (e_gc e) (lgc m)) &&
  diff_ok (e_fi e) (lfi m) && diff_ok (e_ol e) (lol m) && diff_ok (e_oc e) (loc m) &&
  match e_ni e with Some ni => diff_ok ni (lni m) | None => true end.

Lemma vlq_diff_total : forall a b, diff_ok a b = true -> exists t, vlq_diff a b = Some t.
Proof.
  intros a b H. unfold vlq_diff, isub, bind. unfold diff_ok in H. rewrite H. apply vlq_encode_total.
Qed.

Lemma add_entry_total : forall m e, entry_ok m e = true -> exists m', add_entry m e = Some m'.
Proof.
  intros m e H. unfold entry_ok in H.
  apply andb_true_iff in H as [H Hni]. apply andb_true_iff in H as [H Hoc]. apply andb_true_iff in H as [H Hol].
  apply andb_true_iff in H as [H Hfi]. apply andb_true_iff in H as [H Hgc].
  unfold add_entry. apply N.leb_le in H. replace (e_gl e <? lgl m) with false by (symmetry; apply N.ltb_ge; exact H).
  destruct (vlq_diff_total _ _ Hfi) as [t2 E2]. destruct (vlq_diff_total _ _ Hol) as [t3 E3].
  destruct (vlq_diff_total _ _ Hoc) as [t4 E4]. rewrite E2, E3, E4.
  assert (Hc : exists col, (if negb (lgl m =? e_gl e) then vlq_encode (isize_of (e_gc e))
            else option_map (cons COMMA) (vlq_diff (e_gc e) (lgc m))) = Some col).
  { destruct (negb (lgl m =? e_gl e)); cbn [orb] in Hgc.
    - apply vlq_encode_total.
    - destruct (vlq_diff_total _ _ Hgc) as [t1 E1]. rewrite E1. eexists. reflexivity. }
  destruct Hc as [col ->].
  destruct (e_ni e) as [ni|].
  - destruct (vlq_diff_total _ _ Hni) as [t5 E5]. rewrite E5. cbn. eexists. reflexivity.
  - cbn. eexists. reflexivity.
Qed.

(** two accepted entry lists that produce the same [mappings] string describe the same segments: the
    encoding loses nothing a consumer can see *)
Lemma mappings_injective_lemma : forall es es' m m',
  add_entries m0 es = Some m -> add_entries m0 es' = Some m' -> mbuf m = mbuf m' ->
  map seg_of_entry es = map seg_of_entry es'.
Proof.
  intros es es' m m' H H' E. pose proof (mappings_decode_lemma _ _ H) as D. pose proof (mappings_decode_lemma _ _ H') as D'.
  rewrite E in D. rewrite D in D'. injection D' as ->. reflexivity.
Qed.
