(** C06 — proofs, part 3: the [SourceWriter] state machine.  Position invariant, segments sorted and
    inside the text, the generated text at a named segment, names table. *)
From V Require Import Base.Util Gen.C06_tables_gen C06.Model C06.Spec C06.Proofs C06.ProofsMap.
From Coq Require Import Sorting.Sorted.
Local Open Scope N_scope.

(** * Positions *)

Lemma end_pos_from_app : forall a b lc, end_pos_from lc (a ++ b) = end_pos_from (end_pos_from lc a) b.
Proof. intros. unfold end_pos_from. apply fold_left_app. Qed.

Definition no_lf (t : str) : Prop := Forall (fun c => c <> LF) t.

Lemma utf16_len_spec_eq : forall t, utf16_len_spec t = utf16_len t.
Proof. reflexivity. Qed.

Lemma end_pos_from_no_lf : forall t l c, no_lf t -> end_pos_from (l, c) t = (l, c + utf16_len t).
Proof.
  induction t as [|ch t IH]; intros l c H.
  - cbn. now rewrite N.add_0_r.
  - inversion H as [|? ? Hc Ht]; subst. unfold end_pos_from in *. cbn [fold_left].
    unfold pos_step at 2. apply N.eqb_neq in Hc. unfold LF in Hc. rewrite Hc. cbn [fst snd].
    rewrite IH by exact Ht. change (utf16_len (ch :: t)) with (utf16_len1 ch + utf16_len t).
    unfold utf16_len1. f_equal. lia.
Qed.

Lemma no_lf_spaces : forall n, no_lf (repeat SPACE n).
Proof. induction n; cbn; constructor; [discriminate | assumption]. Qed.

Lemma utf16_len_spaces : forall n, utf16_len (repeat SPACE n) = N.of_nat n.
Proof.
  induction n as [|n IH]; [reflexivity|]. cbn [repeat].
  change (utf16_len (SPACE :: repeat SPACE n)) with (utf16_len1 SPACE + utf16_len (repeat SPACE n)).
  rewrite IH. change (utf16_len1 SPACE) with 1. lia.
Qed.

Lemma split_on_no_sep : forall sep t, Forall (Forall (fun c => c <> sep)) (split_on sep t).
Proof.
  intros sep. induction t as [|c t IH]; cbn [split_on].
  - repeat constructor.
  - destruct (N.eqb_spec c sep) as [->|Hn].
    + constructor; [constructor | exact IH].
    + destruct (split_on sep t) as [|sg sgs]; [repeat constructor; exact Hn|].
      inversion IH; subst. constructor; [constructor; assumption | assumption].
Qed.

(** the invariant of the write cursor: (current_line, current_column) is the position reached by the
    text written so far *)
Definition pos_inv (c : cursor) : Prop := end_pos (c_buf c) = (c_ln c, c_cl c).

(** lexicographic order on positions *)
Definition pos_le (a b : N * N) : Prop := fst a < fst b \/ (fst a = fst b /\ snd a <= snd b).

Lemma pos_le_refl a : pos_le a a.
Proof. right. split; [reflexivity | lia]. Qed.
Lemma pos_le_trans a b c : pos_le a b -> pos_le b c -> pos_le a c.
Proof. unfold pos_le. intros [H|[H1 H2]] [K|[K1 K2]]; [left; lia | left; lia | left; lia | right; split; lia]. Qed.

Definition cpos (c : cursor) : N * N := (c_ln c, c_cl c).

(** [c'] extends [c]: more text, position invariant kept, position not before *)
Definition extends (c c' : cursor) : Prop :=
  (exists x, c_buf c' = c_buf c ++ x) /\ (pos_inv c -> pos_inv c') /\ pos_le (cpos c) (cpos c').

Lemma extends_refl c : extends c c.
Proof. split; [exists []; now rewrite app_nil_r | split; [auto | apply pos_le_refl]]. Qed.

Lemma extends_trans a b c : extends a b -> extends b c -> extends a c.
Proof.
  intros ((x & Hx) & Hi & Hp) ((y & Hy) & Hj & Hq). split; [|split].
  - exists (x ++ y). rewrite Hy, Hx, app_assoc. reflexivity.
  - auto.
  - eapply pos_le_trans; eassumption.
Qed.

Lemma extends_flush ind c : extends c (flush ind c).
Proof.
  unfold flush. destruct (c_flag c); [|apply extends_refl]. split; [|split].
  - eexists. reflexivity.
  - unfold pos_inv. cbn [c_buf c_ln c_cl]. intros H. unfold end_pos in *. rewrite end_pos_from_app, H.
    rewrite end_pos_from_no_lf by apply no_lf_spaces. rewrite utf16_len_spaces, N2Nat.id. reflexivity.
  - right. cbn. split; [reflexivity | lia].
Qed.

Lemma extends_newline c : extends c (newline c).
Proof.
  split; [|split].
  - eexists. reflexivity.
  - unfold pos_inv, newline. cbn [c_buf c_ln c_cl]. intros H. unfold end_pos in *. rewrite end_pos_from_app, H. reflexivity.
  - left. cbn. lia.
Qed.

Lemma extends_put_line ind c l : no_lf l -> extends c (put_line ind c l).
Proof.
  intros Hl. unfold put_line. destruct l as [|ch l']; [apply extends_refl|].
  eapply extends_trans; [apply (extends_flush ind)|].
  set (c1 := flush ind c). split; [|split].
  - eexists. reflexivity.
  - unfold pos_inv. cbn [c_buf c_ln c_cl]. intros H. unfold end_pos in *. rewrite end_pos_from_app, H.
    rewrite end_pos_from_no_lf by exact Hl. reflexivity.
  - right. cbn. split; [reflexivity | lia].
Qed.

Lemma extends_write_lines ind : forall ls c, Forall no_lf ls -> extends c (write_lines ind c ls).
Proof.
  induction ls as [|l r IH]; intros c H; [apply extends_refl|].
  inversion H as [|? ? Hl Hr]; subst. cbn [write_lines].
  eapply extends_trans; [apply extends_newline|].
  eapply extends_trans; [apply (extends_put_line ind (newline c) l Hl)|]. apply IH. exact Hr.
Qed.

Lemma extends_write ind c chunk : extends c (write ind c chunk).
Proof.
  unfold write. pose proof (split_on_no_sep LF chunk) as H.
  destruct (split_on LF chunk) as [|l r]; [apply extends_refl|]. inversion H as [|? ? Hl Hr]; subst.
  eapply extends_trans; [apply (extends_put_line ind c l Hl)|]. apply extends_write_lines. exact Hr.
Qed.

(** * The names table *)

Definition cache_inv (m : nmapper) : Prop :=
  Forall (fun ki => nth_error (nm_all m) (N.to_nat (snd ki)) = Some (fst ki)) (nm_cache m).

Lemma cache_take_spec : forall k c v rest, cache_take k c = Some (v, rest) ->
  In (k, v) c /\ (forall x, In x rest -> In x c).
Proof.
  induction c as [|[k' v'] r IH]; intros v rest H; [discriminate|]. cbn [cache_take] in H.
  destruct (str_eqb_spec k k') as [->|Hn].
  - injection H as <- <-. split; [left; reflexivity | intros x Hx; right; exact Hx].
  - destruct (cache_take k r) as [[v1 r1]|] eqn:E; [|discriminate]. injection H as <- <-.
    destruct (IH _ _ eq_refl) as [H1 H2]. split; [right; exact H1|].
    intros x [<-|Hx]; [left; reflexivity | right; apply H2, Hx].
Qed.

Lemma in_removelast {A} : forall (l : list A) x, In x (removelast l) -> In x l.
Proof.
  induction l as [|a l IH]; intros x H; [exact H|]. cbn [removelast] in H.
  destruct l as [|b l']; [destruct H|]. destruct H as [<-|H]; [left; reflexivity | right; apply IH, H].
Qed.

Lemma map_name_spec : forall m name m' i, map_name m name = (m', i) -> cache_inv m ->
  cache_inv m' /\ nth_error (nm_all m') (N.to_nat i) = Some name /\ exists ext, nm_all m' = nm_all m ++ ext.
Proof.
  intros m name m' i H Hc. unfold map_name in H. unfold cache_inv in *. rewrite Forall_forall in Hc.
  destruct (cache_take name (nm_cache m)) as [[v rest]|] eqn:E.
  - injection H as <- <-. destruct (cache_take_spec _ _ _ _ E) as [H1 H2].
    pose proof (Hc _ H1) as Hv. cbn [fst snd] in Hv. cbn [nm_all nm_cache]. split; [|split].
    + constructor; [exact Hv | apply Forall_forall; intros x Hx; apply Hc, H2, Hx].
    + exact Hv.
    + exists []. now rewrite app_nil_r.
  - injection H as <- <-. cbn [nm_all nm_cache].
    assert (Hnew : nth_error (nm_all m ++ [name]) (N.to_nat (N.of_nat (length (nm_all m)))) = Some name).
    { rewrite Nat2N.id, nth_error_app2 by lia. rewrite Nat.sub_diag. reflexivity. }
    split; [|split].
    + constructor; [exact Hnew|]. apply Forall_forall. intros x Hx.
      assert (Hin : In x (nm_cache m)).
      { destruct (name_memory_size <=? N.of_nat (length (nm_cache m))); [apply in_removelast, Hx | exact Hx]. }
      pose proof (Hc _ Hin) as Hv. rewrite nth_error_app1; [exact Hv|].
      apply nth_error_Some. rewrite Hv. discriminate.
    + exact Hnew.
    + eexists. reflexivity.
Qed.

(** * The invariant of a run *)

Definition epos (e : entry) : N * N := (e_gl e, e_gc e).

(** the entry's generated position is the end of a prefix of the text *)
Definition at_prefix (buf : str) (e : entry) : Prop := exists p q, buf = p ++ q /\ end_pos p = epos e.

Lemma at_prefix_grow buf x e : at_prefix buf e -> at_prefix (buf ++ x) e.
Proof. intros (p & q & -> & H). exists p, (q ++ x). split; [now rewrite app_assoc | exact H]. Qed.

(** entries, newest first *)
Definition sorted_rev (es : list entry) : Prop := StronglySorted (fun a b => pos_le (epos b) (epos a)) es.

Record winv (s : sw) (res : list entry) : Prop := {
  wi_map : add_entries m0 (rev res) = Some (sw_map s);
  wi_pos : pos_inv (sw_cur s);
  wi_pre : Forall (at_prefix (c_buf (sw_cur s))) res;
  wi_le : Forall (fun e => pos_le (epos e) (cpos (sw_cur s))) res;
  wi_sorted : sorted_rev res;
  wi_names : cache_inv (sw_names s)
}.

Lemma add_entries_app : forall a b m, add_entries m (a ++ b) = bind (add_entries m a) (fun m' => add_entries m' b).
Proof.
  induction a as [|e a IH]; intros b m; [reflexivity|]. cbn [app add_entries]. unfold bind at 1 3.
  destruct (add_entry m e); [apply IH | reflexivity].
Qed.

Lemma winv_init fmap : winv (sw_init fmap) [].
Proof. constructor; cbn; try constructor; reflexivity. Qed.

(** moving the cursor forward keeps the invariant *)
Lemma winv_move : forall s res c', winv s res -> extends (sw_cur s) c' ->
  winv {| sw_cur := c'; sw_ind := sw_ind s; sw_map := sw_map s; sw_names := sw_names s; sw_fmap := sw_fmap s |} res.
Proof.
  intros s res c' [H1 H2 H3 H4 H5 H6] ((x & Hx) & Hi & Hp). constructor; cbn [sw_cur sw_map sw_names]; auto.
  - rewrite Hx. eapply Forall_impl; [|exact H3]. intros e. apply at_prefix_grow.
  - eapply Forall_impl; [|exact H4]. intros e He. cbv beta in *. exact (pos_le_trans _ _ _ He Hp).
Qed.

(** adding an entry at the cursor keeps the invariant *)
Lemma winv_entry : forall s res e m' names',
  winv s res -> epos e = cpos (sw_cur s) -> add_entry (sw_map s) e = Some m' -> cache_inv names' ->
  winv {| sw_cur := sw_cur s; sw_ind := sw_ind s; sw_map := m'; sw_names := names'; sw_fmap := sw_fmap s |} (e :: res).
Proof.
  intros s res e m' names' [H1 H2 H3 H4 H5 H6] He Ha Hn. constructor; cbn [sw_cur sw_map sw_names]; auto.
  - cbn [rev]. rewrite add_entries_app, H1. cbn [bind add_entries]. rewrite Ha. reflexivity.
  - constructor; [|exact H3]. exists (c_buf (sw_cur s)), []. split; [now rewrite app_nil_r|]. rewrite He. exact H2.
  - constructor; [rewrite He; apply pos_le_refl | exact H4].
  - constructor; [exact H5|]. eapply Forall_impl; [|exact H4]. intros a Ha'. rewrite He. exact Ha'.
Qed.

Lemma sw_eta s : s = {| sw_cur := sw_cur s; sw_ind := sw_ind s; sw_map := sw_map s; sw_names := sw_names s; sw_fmap := sw_fmap s |}.
Proof. destruct s; reflexivity. Qed.

(** [fmap_lookup] is the expression [write_for] computes the file index with *)
Definition fmap_lookup (fmap : option (list N)) (f : N) : option N :=
  match fmap with Some m => nth_error m (N.to_nat f) | None => Some f end.

(** entry [e] was produced by op [o]: a non-builtin [write_for] whose position it maps to *)
Definition from_op (fmap : option (list N)) (o : wop) (e : entry) : Prop :=
  exists c p name, o = WF c p name /\ p_builtin p = false /\ fmap_lookup fmap (p_file p) = Some (e_fi e) /\ e_ol e = p_line p.

Lemma from_op_intro fmap c p name e :
  p_builtin p = false -> fmap_lookup fmap (p_file p) = Some (e_fi e) -> e_ol e = p_line p -> from_op fmap (WF c p name) e.
Proof. intros. exists c, p, name. repeat split; assumption. Qed.

Lemma winv_step : forall s o s' res, winv s res -> sw_step s o = Some s' ->
  exists res', winv s' (res' ++ res) /\ Forall (from_op (sw_fmap s) o) res' /\ sw_fmap s' = sw_fmap s.
Proof.
  intros s o s' res W H. destruct o as [c|c p name| |]; cbn [sw_step] in H.
  - injection H as <-. exists []. split; [apply (winv_move s res _ W), extends_write | split; [constructor | reflexivity]].
  - unfold sw_write_for in H. destruct (p_builtin p) eqn:Eb.
    + injection H as <-. exists []. split; [apply (winv_move s res _ W), extends_write | split; [constructor | reflexivity]].
    + unfold bind in H at 1.
      destruct (match sw_fmap s with Some m => nth_error m (N.to_nat (p_file p)) | None => Some (p_file p) end) as [fi|] eqn:Efi; [|discriminate].
      destruct name as [nm|].
      * destruct (map_name (sw_names s) nm) as [names' ni] eqn:En.
        destruct (map_name_spec _ _ _ _ En (wi_names _ _ W)) as (Hc' & _ & _).
        unfold bind in H.
        match type of H with match add_entry _ ?x with _ => _ end = _ => set (e1 := x) in * end.
        destruct (add_entry (sw_map s) e1) as [m1|] eqn:E1; [|discriminate].
        destruct (uadd (p_col p) (utf16_len nm)) as [endcol|]; [|discriminate].
        match type of H with match add_entry _ ?x with _ => _ end = _ => set (e2 := x) in * end.
        destruct (add_entry m1 e2) as [m2|] eqn:E2; [|discriminate]. injection H as <-.
        exists [e2; e1]. cbn [app].
        split; [|split; [|reflexivity]].
        2:{ constructor; [apply from_op_intro; [exact Eb | exact Efi | reflexivity]|].
            constructor; [apply from_op_intro; [exact Eb | exact Efi | reflexivity]|]. constructor. }
        (* flush, entry 1, write, entry 2 *)
        pose proof (winv_move s res _ W (extends_flush (sw_ind s) (sw_cur s))) as W1.
        pose proof (winv_entry _ _ e1 m1 names' W1 eq_refl E1 Hc') as W2. cbn [sw_cur sw_ind sw_map sw_names sw_fmap] in W2.
        pose proof (winv_move _ _ _ W2 (extends_write (sw_ind s) (flush (sw_ind s) (sw_cur s)) c)) as W3.
        cbn [sw_cur sw_ind sw_map sw_names sw_fmap] in W3.
        exact (winv_entry _ _ e2 m2 names' W3 eq_refl E2 Hc').
      * unfold bind in H.
        match type of H with match add_entry _ ?x with _ => _ end = _ => set (e1 := x) in * end.
        destruct (add_entry (sw_map s) e1) as [m1|] eqn:E1; [|discriminate]. injection H as <-.
        exists [e1]. cbn [app].
        split; [|split; [|reflexivity]].
        2:{ constructor; [apply from_op_intro; [exact Eb | exact Efi | reflexivity]|]. constructor. }
        pose proof (winv_entry _ _ e1 m1 (sw_names s) W eq_refl E1 (wi_names _ _ W)) as W2.
        exact (winv_move _ _ _ W2 (extends_write (sw_ind s) (sw_cur s) c)).
  - injection H as <-. exists []. split; [destruct W; constructor; assumption | split; [constructor | reflexivity]].
  - injection H as <-. exists []. split; [destruct W; constructor; assumption | split; [constructor | reflexivity]].
Qed.

Lemma winv_run : forall os s s' res, winv s res -> sw_run_from s os = Some s' ->
  exists res', winv s' (res' ++ res) /\ Forall (fun e => exists o, In o os /\ from_op (sw_fmap s) o e) res' /\ sw_fmap s' = sw_fmap s.
Proof.
  induction os as [|o os IH]; intros s s' res W H.
  - injection H as <-. exists []. split; [exact W | split; [constructor | reflexivity]].
  - cbn [sw_run_from] in H. unfold bind in H. destruct (sw_step s o) as [s1|] eqn:E; [|discriminate].
    destruct (winv_step _ _ _ _ W E) as (r1 & W1 & F1 & M1). destruct (IH _ _ _ W1 H) as (r2 & W2 & F2 & M2).
    exists (r2 ++ r1). rewrite <- app_assoc. split; [exact W2|]. split; [|congruence].
    apply Forall_app. split.
    + eapply Forall_impl; [|exact F2]. intros e (o' & Hin & Hf). exists o'. split; [right; exact Hin | rewrite <- M1; exact Hf].
    + eapply Forall_impl; [|exact F1]. intros e Hf. exists o. split; [left; reflexivity | exact Hf].
Qed.

(** ** writer_position_inv *)
Lemma writer_position_inv_lemma : forall fmap os s, sw_run fmap os = Some s ->
  end_pos (c_buf (sw_cur s)) = (c_ln (sw_cur s), c_cl (sw_cur s)).
Proof.
  intros fmap os s H. destruct (winv_run os _ _ [] (winv_init fmap) H) as (res & W & _). exact (wi_pos _ _ W).
Qed.

(** ** segments_sorted_in_text *)

(** entries in emission order are sorted by generated position *)
Definition entries_sorted (es : list entry) : Prop := StronglySorted (fun a b => pos_le (epos a) (epos b)) es.

Lemma sorted_rev_app_one : forall R (l : list entry) x,
  StronglySorted R l -> Forall (fun y => R y x) l -> StronglySorted R (l ++ [x]).
Proof.
  intros R. induction l as [|a l IH]; intros x Hs Hf; cbn [app].
  - repeat constructor.
  - inversion Hs; subst. inversion Hf; subst. constructor; [apply IH; assumption|].
    apply Forall_app. split; [assumption | repeat constructor; assumption].
Qed.

Lemma sorted_rev_rev : forall res, sorted_rev res -> entries_sorted (rev res).
Proof.
  induction res as [|e res IH]; intros H; [constructor|]. inversion H; subst. cbn [rev].
  apply sorted_rev_app_one; [apply IH; assumption|]. apply Forall_rev. assumption.
Qed.

Lemma segments_sorted_in_text_lemma : forall fmap os s, sw_run fmap os = Some s ->
  exists es,
    decode_mappings (mbuf (sw_map s)) = Some (map seg_of_entry es) /\
    entries_sorted es /\
    Forall (at_prefix (c_buf (sw_cur s))) es /\
    Forall (fun e => exists o, In o os /\ from_op fmap o e) es.
Proof.
  intros fmap os s H. destruct (winv_run os _ _ [] (winv_init fmap) H) as (res & W & F & _). rewrite app_nil_r in W.
  exists (rev res). split; [|split; [|split]].
  - apply mappings_decode_lemma, (wi_map _ _ W).
  - apply sorted_rev_rev, (wi_sorted _ _ W).
  - apply Forall_rev, (wi_pre _ _ W).
  - apply Forall_rev. exact F.
Qed.

(** ** named_segment_text: one [write_for] with a name, on a reachable state *)

Lemma is_prefix_app : forall a b, is_prefix a (a ++ b) = true.
Proof. induction a as [|x a IH]; intros b; [reflexivity|]. cbn. now rewrite N.eqb_refl, IH. Qed.

(** what [write] appends starts with the first line of the chunk *)
Lemma write_first_line : forall ind c chunk, c_flag c = false ->
  exists y, c_buf (write ind c chunk) = c_buf c ++ hd [] (split_on LF chunk) ++ y.
Proof.
  intros ind c chunk Hf. unfold write. pose proof (split_on_no_sep LF chunk) as Hs.
  destruct (split_on LF chunk) as [|l r]; [exists []; now rewrite !app_nil_r|]. cbn [hd].
  inversion Hs as [|? ? Hl Hr]; subst.
  destruct (extends_write_lines ind r (put_line ind c l) Hr) as ((x & Hx) & _ & _). rewrite Hx.
  unfold put_line. destruct l as [|ch l'].
  - exists x. reflexivity.
  - unfold flush. rewrite Hf. cbn [c_buf]. exists x. now rewrite <- app_assoc.
Qed.

Lemma flush_flag ind c : c_flag (flush ind c) = false.
Proof. unfold flush. destruct (c_flag c) eqn:E; [reflexivity | exact E]. Qed.

Lemma named_segment_text_lemma : forall s res chunk p nm s',
  winv s res -> p_builtin p = false -> sw_write_for s chunk p (Some nm) = Some s' ->
  exists e1 e2 pre post k,
    add_entries (sw_map s) [e1; e2] = Some (sw_map s') /\
    (* the opening segment sits where the chunk's text begins *)
    c_buf (sw_cur s') = pre ++ post /\ end_pos pre = epos e1 /\ is_prefix (hd [] (split_on LF chunk)) post = true /\
    (* it maps to the node's position and carries the node's name *)
    e_ol e1 = p_line p /\ e_oc e1 = p_col p /\ e_ni e1 = Some k /\
    nth_error (nm_all (sw_names s')) (N.to_nat k) = Some nm /\
    (* the closing segment sits at the end of the chunk and maps just past the name *)
    end_pos (c_buf (sw_cur s')) = epos e2 /\
    e_ol e2 = p_line p /\ e_oc e2 = p_col p + utf16_len nm /\ e_ni e2 = None /\ e_fi e2 = e_fi e1.
Proof.
  intros s res chunk p nm s' W Hb H. unfold sw_write_for in H. rewrite Hb in H. unfold bind in H at 1.
  destruct (match sw_fmap s with Some m => nth_error m (N.to_nat (p_file p)) | None => Some (p_file p) end) as [fi|]; [|discriminate].
  destruct (map_name (sw_names s) nm) as [names' ni] eqn:En.
  destruct (map_name_spec _ _ _ _ En (wi_names _ _ W)) as (Hc' & Hnth & _).
  unfold bind in H.
  match type of H with match add_entry _ ?x with _ => _ end = _ => set (e1 := x) in * end.
  destruct (add_entry (sw_map s) e1) as [m1|] eqn:E1; [|discriminate].
  unfold uadd in H. destruct (p_col p + utf16_len nm <=? USIZE_MAX); [|discriminate].
  match type of H with match add_entry _ ?x with _ => _ end = _ => set (e2 := x) in * end.
  destruct (add_entry m1 e2) as [m2|] eqn:E2; [|discriminate]. injection H as <-.
  set (c1 := flush (sw_ind s) (sw_cur s)) in *.
  destruct (write_first_line (sw_ind s) c1 chunk (flush_flag _ _)) as (y & Hy).
  destruct (extends_flush (sw_ind s) (sw_cur s)) as (_ & Hi1 & _).
  destruct (extends_write (sw_ind s) c1 chunk) as (_ & Hi2 & _).
  pose proof (Hi1 (wi_pos _ _ W)) as P1. fold c1 in P1. pose proof (Hi2 P1) as P2.
  exists e1, e2, (c_buf c1), (hd [] (split_on LF chunk) ++ y), ni. cbn [sw_cur sw_map sw_names].
  repeat split; try reflexivity.
  - cbn [add_entries bind]. rewrite E1. cbn [bind]. rewrite E2. reflexivity.
  - exact Hy.
  - exact P1.
  - apply is_prefix_app.
  - exact Hnth.
  - exact P2.
Qed.

(** the text and the names table only grow, so what [named_segment_text] says about the state right
    after the [write_for] still holds of the final buffers *)
Lemma run_grows : forall os s s', sw_run_from s os = Some s' ->
  (exists x, c_buf (sw_cur s') = c_buf (sw_cur s) ++ x) /\ (cache_inv (sw_names s) -> exists ext, nm_all (sw_names s') = nm_all (sw_names s) ++ ext).
Proof.
  assert (step : forall s o s', sw_step s o = Some s' ->
    (exists x, c_buf (sw_cur s') = c_buf (sw_cur s) ++ x) /\
    (cache_inv (sw_names s) -> cache_inv (sw_names s') /\ exists ext, nm_all (sw_names s') = nm_all (sw_names s) ++ ext)).
  { intros s o s' H. destruct o as [c|c p name| |]; cbn [sw_step] in H.
    - injection H as <-. cbn. split; [apply extends_write | intros Hc; split; [exact Hc | exists []; now rewrite app_nil_r]].
    - unfold sw_write_for in H. destruct (p_builtin p).
      + injection H as <-. cbn. split; [apply extends_write | intros Hc; split; [exact Hc | exists []; now rewrite app_nil_r]].
      + unfold bind in H at 1.
        destruct (match sw_fmap s with Some m => nth_error m (N.to_nat (p_file p)) | None => Some (p_file p) end) as [fi|]; [|discriminate].
        destruct name as [nm|].
        * destruct (map_name (sw_names s) nm) as [names' ni] eqn:En. unfold bind in H.
          destruct (add_entry _ _) as [m1|]; [|discriminate].
          destruct (uadd _ _) as [endcol|]; [|discriminate].
          destruct (add_entry m1 _) as [m2|]; [|discriminate]. injection H as <-. cbn [sw_cur sw_names]. split.
          -- destruct (extends_trans _ _ _ (extends_flush (sw_ind s) (sw_cur s)) (extends_write (sw_ind s) _ c)) as (Hx & _). exact Hx.
          -- intros Hc. destruct (map_name_spec _ _ _ _ En Hc) as (A & _ & B). split; assumption.
        * unfold bind in H. destruct (add_entry _ _) as [m1|]; [|discriminate]. injection H as <-. cbn [sw_cur sw_names].
          split; [apply extends_write | intros Hc; split; [exact Hc | exists []; now rewrite app_nil_r]].
    - injection H as <-. cbn. split; [exists []; now rewrite app_nil_r | intros Hc; split; [exact Hc | exists []; now rewrite app_nil_r]].
    - injection H as <-. cbn. split; [exists []; now rewrite app_nil_r | intros Hc; split; [exact Hc | exists []; now rewrite app_nil_r]]. }
  induction os as [|o os IH]; intros s s' H.
  - injection H as <-. split; [exists []; now rewrite app_nil_r | intros _; exists []; now rewrite app_nil_r].
  - cbn [sw_run_from] in H. unfold bind in H. destruct (sw_step s o) as [s1|] eqn:E; [|discriminate].
    destruct (step _ _ _ E) as ((x & Hx) & Hn). destruct (IH _ _ H) as ((y & Hy) & Hm). split.
    + exists (x ++ y). rewrite Hy, Hx, app_assoc. reflexivity.
    + intros Hc. destruct (Hn Hc) as (Hc1 & e1 & He1). destruct (Hm Hc1) as (e2 & He2).
      exists (e1 ++ e2). rewrite He2, He1, app_assoc. reflexivity.
Qed.

(** [named_segment_text] for any state a run can reach *)
Lemma named_segment_text_run : forall fmap os s chunk p nm s',
  sw_run fmap os = Some s -> p_builtin p = false -> sw_write_for s chunk p (Some nm) = Some s' ->
  exists e1 e2 pre post k,
    add_entries (sw_map s) [e1; e2] = Some (sw_map s') /\
    c_buf (sw_cur s') = pre ++ post /\ end_pos pre = epos e1 /\ is_prefix (hd [] (split_on LF chunk)) post = true /\
    e_ol e1 = p_line p /\ e_oc e1 = p_col p /\ e_ni e1 = Some k /\
    nth_error (nm_all (sw_names s')) (N.to_nat k) = Some nm /\
    end_pos (c_buf (sw_cur s')) = epos e2 /\
    e_ol e2 = p_line p /\ e_oc e2 = p_col p + utf16_len nm /\ e_ni e2 = None /\ e_fi e2 = e_fi e1.
Proof.
  intros fmap os s chunk p nm s' H Hb Hw.
  destruct (winv_run os _ _ [] (winv_init fmap) H) as (res & W & _).
  exact (named_segment_text_lemma s _ chunk p nm s' W Hb Hw).
Qed.

(** a run is a prefix-closed notion: running [os ++ os'] is running [os] and then [os'] *)
Lemma sw_run_from_app : forall os os' s, sw_run_from s (os ++ os') = bind (sw_run_from s os) (fun s1 => sw_run_from s1 os').
Proof.
  induction os as [|o os IH]; intros os' s; [reflexivity|]. cbn [app sw_run_from]. unfold bind at 1 3.
  destruct (sw_step s o); [apply IH | reflexivity].
Qed.

(** the final text and names extend those right after any prefix of the run *)
Lemma writer_buffers_grow_lemma : forall fmap os os' s1 s2,
  sw_run fmap os = Some s1 -> sw_run fmap (os ++ os') = Some s2 ->
  (exists x, c_buf (sw_cur s2) = c_buf (sw_cur s1) ++ x) /\ (exists ext, nm_all (sw_names s2) = nm_all (sw_names s1) ++ ext).
Proof.
  intros fmap os os' s1 s2 H1 H2. unfold sw_run in *. rewrite sw_run_from_app, H1 in H2. cbn [bind] in H2.
  destruct (run_grows _ _ _ H2) as (A & B). split; [exact A|]. apply B.
  destruct (winv_run os _ _ [] (winv_init fmap) H1) as (res & W & _). exact (wi_names _ _ W).
Qed.

(** * A named [write_for] anywhere in a run is a segment of the final map *)

Lemma is_prefix_app_r : forall a b x, is_prefix a b = true -> is_prefix a (b ++ x) = true.
Proof.
  induction a as [|c a IH]; intros b x H; [reflexivity|]. destruct b as [|d b]; [discriminate|].
  cbn [is_prefix app] in *. apply andb_true_iff in H as [H1 H2]. rewrite H1, (IH _ _ H2). reflexivity.
Qed.

(** [named_segment_text] and the invariant together, with the same two entries *)
Lemma named_step : forall s res chunk p nm s',
  winv s res -> p_builtin p = false -> sw_write_for s chunk p (Some nm) = Some s' ->
  exists e1 e2 pre post k,
    winv s' (e2 :: e1 :: res) /\
    c_buf (sw_cur s') = pre ++ post /\ end_pos pre = epos e1 /\ is_prefix (hd [] (split_on LF chunk)) post = true /\
    e_ol e1 = p_line p /\ e_oc e1 = p_col p /\ e_ni e1 = Some k /\
    nth_error (nm_all (sw_names s')) (N.to_nat k) = Some nm /\
    fmap_lookup (sw_fmap s) (p_file p) = Some (e_fi e1) /\ sw_fmap s' = sw_fmap s /\
    e_fi e2 = e_fi e1 /\ e_ol e2 = p_line p /\ e_oc e2 = p_col p + utf16_len nm /\ e_ni e2 = None.
Proof.
  intros s res chunk p nm s' W Hb H. unfold sw_write_for in H. rewrite Hb in H. unfold bind in H at 1.
  destruct (match sw_fmap s with Some m => nth_error m (N.to_nat (p_file p)) | None => Some (p_file p) end) as [fi|] eqn:Efi; [|discriminate].
  destruct (map_name (sw_names s) nm) as [names' ni] eqn:En.
  destruct (map_name_spec _ _ _ _ En (wi_names _ _ W)) as (Hc' & Hnth & _).
  unfold bind in H.
  match type of H with match add_entry _ ?x with _ => _ end = _ => set (e1 := x) in * end.
  destruct (add_entry (sw_map s) e1) as [m1|] eqn:E1; [|discriminate].
  destruct (uadd (p_col p) (utf16_len nm)) as [endcol|] eqn:Eu; [|discriminate].
  assert (Hend : endcol = p_col p + utf16_len nm) by (unfold uadd in Eu; destruct (_ <=? _); [injection Eu as <-; reflexivity | discriminate]).
  match type of H with match add_entry _ ?x with _ => _ end = _ => set (e2 := x) in * end.
  destruct (add_entry m1 e2) as [m2|] eqn:E2; [|discriminate]. injection H as <-.
  set (c1 := flush (sw_ind s) (sw_cur s)) in *.
  destruct (write_first_line (sw_ind s) c1 chunk (flush_flag _ _)) as (y & Hy).
  pose proof (winv_move s res _ W (extends_flush (sw_ind s) (sw_cur s))) as W1.
  pose proof (winv_entry _ _ e1 m1 names' W1 eq_refl E1 Hc') as W2. cbn [sw_cur sw_ind sw_map sw_names sw_fmap] in W2.
  pose proof (winv_move _ _ _ W2 (extends_write (sw_ind s) (flush (sw_ind s) (sw_cur s)) chunk)) as W3.
  cbn [sw_cur sw_ind sw_map sw_names sw_fmap] in W3.
  pose proof (winv_entry _ _ e2 m2 names' W3 eq_refl E2 Hc') as W4. cbn [sw_cur sw_ind sw_map sw_names sw_fmap] in W4.
  exists e1, e2, (c_buf c1), (hd [] (split_on LF chunk) ++ y), ni. cbn [sw_cur sw_map sw_names sw_fmap].
  split; [exact W4|]. split; [exact Hy|]. split; [exact (wi_pos _ _ W1)|]. split; [apply is_prefix_app|].
  repeat split; try reflexivity; try exact Hnth; try exact Efi. exact Hend.
Qed.

Lemma named_write_for_mapped_lemma : forall fmap os s chunk p nm,
  sw_run fmap os = Some s -> In (WF chunk p (Some nm)) os -> p_builtin p = false ->
  exists es e pre post k,
    decode_mappings (mbuf (sw_map s)) = Some (map seg_of_entry es) /\ In e es /\
    c_buf (sw_cur s) = pre ++ post /\ end_pos pre = epos e /\ is_prefix (hd [] (split_on LF chunk)) post = true /\
    e_ol e = p_line p /\ e_oc e = p_col p /\ e_ni e = Some k /\
    nth_error (nm_all (sw_names s)) (N.to_nat k) = Some nm /\
    fmap_lookup fmap (p_file p) = Some (e_fi e).
Proof.
  intros fmap os s chunk p nm H Hin Hb.
  destruct (in_split _ _ Hin) as (os1 & os2 & ->).
  unfold sw_run in H. rewrite sw_run_from_app in H. unfold bind in H.
  destruct (sw_run_from (sw_init fmap) os1) as [s1|] eqn:R1; [|discriminate].
  cbn [sw_run_from] in H. unfold bind in H. cbn [sw_step] in H.
  destruct (sw_write_for s1 chunk p (Some nm)) as [s2|] eqn:R2; [|discriminate].
  destruct (winv_run os1 _ _ [] (winv_init fmap) R1) as (res1 & W1 & _ & M1). rewrite app_nil_r in W1.
  destruct (named_step _ _ _ _ _ _ W1 Hb R2) as (e1 & e2 & pre & post & k & W2 & Hbuf & Hpos & Hpre & Hol & Hoc & Hni & Hnm & Hfi & M2 & _).
  destruct (winv_run os2 _ _ _ W2 H) as (res3 & W3 & _ & _).
  destruct (run_grows _ _ _ H) as ((x & Hx) & Hn). destruct (Hn (wi_names _ _ W2)) as (ext & Hext).
  exists (rev (res3 ++ e2 :: e1 :: res1)), e1, pre, (post ++ x), k.
  split; [apply mappings_decode_lemma, (wi_map _ _ W3)|].
  split; [apply -> in_rev; apply in_or_app; right; right; left; reflexivity|].
  split; [rewrite Hx, Hbuf, app_assoc; reflexivity|]. split; [exact Hpos|].
  split; [apply is_prefix_app_r, Hpre|]. split; [exact Hol|]. split; [exact Hoc|]. split; [exact Hni|].
  split; [rewrite Hext; rewrite nth_error_app1; [exact Hnm | apply nth_error_Some; rewrite Hnm; discriminate]|].
  rewrite M1 in Hfi. exact Hfi.
Qed.

(** what "the identifier [ident] of a definition is mapped to original position [p] under name [nm]"
    means on the buffers a [SourceWriter] run ends with *)
Definition mapped_in (fmap : option (list N)) (st : sw) (ident : str) (p : pos) (nm : str) : Prop :=
  exists es e pre post k,
    decode_mappings (mbuf (sw_map st)) = Some (map seg_of_entry es) /\ In e es /\
    c_buf (sw_cur st) = pre ++ post /\ end_pos pre = epos e /\ is_prefix (hd [] (split_on LF ident)) post = true /\
    e_ol e = p_line p /\ e_oc e = p_col p /\ e_ni e = Some k /\
    nth_error (nm_all (sw_names st)) (N.to_nat k) = Some nm /\
    fmap_lookup fmap (p_file p) = Some (e_fi e).

Lemma mapped_in_of_write_for : forall fmap os st ident p nm,
  sw_run fmap os = Some st -> In (WF ident p (Some nm)) os -> p_builtin p = false -> mapped_in fmap st ident p nm.
Proof. intros. unfold mapped_in. eapply named_write_for_mapped_lemma; eassumption. Qed.

(** an unnamed (non-builtin) [write_for]: one entry at the cursor *)
Lemma unnamed_step : forall s res chunk p s',
  winv s res -> p_builtin p = false -> sw_write_for s chunk p None = Some s' ->
  exists e1,
    winv s' (e1 :: res) /\ fmap_lookup (sw_fmap s) (p_file p) = Some (e_fi e1) /\ sw_fmap s' = sw_fmap s /\
    e_ol e1 = p_line p /\ e_oc e1 = p_col p /\ e_ni e1 = None.
Proof.
  intros s res chunk p s' W Hb H. unfold sw_write_for in H. rewrite Hb in H. unfold bind in H at 1.
  destruct (match sw_fmap s with Some m => nth_error m (N.to_nat (p_file p)) | None => Some (p_file p) end) as [fi|] eqn:Efi; [|discriminate].
  unfold bind in H.
  match type of H with match add_entry _ ?x with _ => _ end = _ => set (e1 := x) in * end.
  destruct (add_entry (sw_map s) e1) as [m1|] eqn:E1; [|discriminate]. injection H as <-.
  exists e1. cbn [sw_fmap].
  pose proof (winv_entry _ _ e1 m1 (sw_names s) W eq_refl E1 (wi_names _ _ W)) as W2.
  split; [exact (winv_move _ _ _ W2 (extends_write (sw_ind s) (sw_cur s) chunk))|].
  repeat split; try reflexivity. exact Efi.
Qed.

(** steps that add no entry *)
Lemma plain_step : forall s o s' res, winv s res -> sw_step s o = Some s' ->
  match o with WF _ p _ => p_builtin p = true | _ => True end ->
  winv s' res /\ sw_fmap s' = sw_fmap s.
Proof.
  intros s o s' res W H Ho. destruct o as [c|c p name| |]; cbn [sw_step] in H.
  - injection H as <-. split; [apply (winv_move s res _ W), extends_write | reflexivity].
  - unfold sw_write_for in H. rewrite Ho in H. injection H as <-.
    split; [apply (winv_move s res _ W), extends_write | reflexivity].
  - injection H as <-. split; [destruct W; constructor; assumption | reflexivity].
  - injection H as <-. split; [destruct W; constructor; assumption | reflexivity].
Qed.

(** one step: the text and the names table grow *)
Lemma step_grows : forall s o s', sw_step s o = Some s' -> cache_inv (sw_names s) ->
  (exists x, c_buf (sw_cur s') = c_buf (sw_cur s) ++ x) /\ (exists ext, nm_all (sw_names s') = nm_all (sw_names s) ++ ext).
Proof.
  intros s o s' H Hc. assert (R : sw_run_from s [o] = Some s') by (cbn [sw_run_from]; rewrite H; reflexivity).
  destruct (run_grows _ _ _ R) as (A & B). split; [exact A | exact (B Hc)].
Qed.
