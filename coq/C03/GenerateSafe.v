(** C03 — `generate` is safe after `check`: statement against builder-C01's model of the result-type generator
    ([C01.Model.def_tree]: every panic of type_printer.rs / deep_merge.rs is an [Err]) and machine-checked examples.
    The theorem itself is NOT proved (see design/C03.md, "C03_generate_safe: what is missing"); this file is outside the
    dependency closure of C03/Properties.v, so it claims nothing for the check. *)
From V Require Import Base.Util Gql.Ast C03.Model C03.Spec C03.Witness.
From V Require C01.Model.

Definition tree_ok (S : tsdoc) (D : opdoc) (d : execdef) : bool :=
  match d with
  | DImport _ => true
  | _ => match C01.Model.def_tree S D d with C01.Model.Ok _ => true | C01.Model.Err _ => false end
  end.

Definition generate_safe : Prop :=
  forall S D,
    schema_wf S = true -> schema_closed S = true ->
    check_operation_document S D = [] ->
    every_fragment_spread D = true ->          (* variable uses inside never-spread fragments are not validated *)
    fields_can_merge_ok S D = true ->          (* Field Selection Merging: not implemented by check *)
    forallb (tree_ok S D) (od_defs D) = true.

(** the statement holds on the feature-rich valid document of the corpus ... *)
Example generate_safe_instance :
  check_operation_document w_schema_0 w_doc_14 = [] /\ every_fragment_spread w_doc_14 = true
  /\ fields_can_merge_ok w_schema_0 w_doc_14 = true /\ forallb (tree_ok w_schema_0 w_doc_14) (od_defs w_doc_14) = true.
Proof. repeat split; vm_compute; reflexivity. Qed.

(** ... never-spread fragments are validated by check since /repo commit c67e45e (their variable uses excepted): the
    former witness is rejected now; Field Selection Merging is still not checked, and the generator model panics *)
Example unspread_fragment_now_rejected :
  check_operation_document w_schema_0 w_doc_0 <> [] /\ every_fragment_spread w_doc_0 = false.
Proof. split; [vm_compute; discriminate | vm_compute; reflexivity]. Qed.

Example unmergeable_fields_panic :
  check_operation_document w_schema_0 w_doc_19 = [] /\ every_fragment_spread w_doc_19 = true
  /\ fields_can_merge_ok w_schema_0 w_doc_19 = false
  /\ forallb (tree_ok w_schema_0 w_doc_19) (od_defs w_doc_19) = false.
Proof. repeat split; vm_compute; reflexivity. Qed.
