(** C03 — proofs, part 3: check_arguments and check_directives against the argument and directive rules. *)
From V Require Import Base.Util Gql.Ast C03.Model C03.Spec C03.Proofs C03.Proofs2.

Definition arg_keys (args : list (ident * value)) : list str := map (fun kv => iname (fst kv)) args.
Definition def_names (defs : list inputvaldef) : list str := map (fun d => iname (iv_name d)) defs.

Lemma filter_args_length name (args : list (ident * value)) :
  length (filter (fun kv : ident * value => str_eqb name (iname (fst kv))) args) = count_key name (arg_keys args).
Proof. unfold count_key, arg_keys. rewrite filter_map_length. reflexivity. Qed.

Section ArgLoop.
  Variable S : tsdoc.
  Variable vars : option vardefs.
  Variable apos : pos.
  Variable args : list (ident * value).

  Definition ad_errs (ad : inputvaldef) : list err := fst (arg_step S vars apos args ([], 0) ad).

  Lemma arg_step_eq st ad :
    arg_step S vars apos args st ad =
    (fst st ++ ad_errs ad, snd st + count_key (iname (iv_name ad)) (arg_keys args)).
  Proof.
    unfold ad_errs, arg_step. rewrite <- filter_args_length.
    destruct (filter (fun kv => str_eqb (iname (iv_name ad)) (iname (fst kv))) args) as [|m ms].
    - destruct (if negb (ty_is_nonnull (iv_type ad)) then true else match iv_default ad with Some _ => true | None => false end);
        cbn [fst snd app length]; destruct st as [e n]; cbn [fst snd]; rewrite ?app_nil_r, Nat.add_0_r; reflexivity.
    - cbn [fst snd app]. reflexivity.
  Qed.

  Lemma arg_fold : forall defs st,
    fold_left (arg_step S vars apos args) defs st =
    (fst st ++ flat_map ad_errs defs, snd st + sumc (def_names defs) (arg_keys args)).
  Proof.
    induction defs as [|ad defs IH]; intros st; cbn [fold_left flat_map def_names map sumc].
    - cbn. rewrite app_nil_r, Nat.add_0_r. destruct st; reflexivity.
    - rewrite IH, arg_step_eq. cbn [fst snd]. rewrite <- app_assoc. f_equal. fold (def_names defs). lia.
  Qed.
End ArgLoop.

Lemma forallb_neg_false_mem (defs : list inputvaldef) k :
  forallb (fun ad => negb (str_eqb (iname (iv_name ad)) k)) defs = false -> mem k (def_names defs) = true.
Proof.
  unfold def_names. induction defs as [|d defs IH]; cbn [forallb map]; [discriminate|].
  rewrite mem_cons, (str_eqb_sym k). destruct (str_eqb (iname (iv_name d)) k); cbn; [reflexivity | exact IH].
Qed.

Section ArgsSound.
  Variable S : tsdoc.
  Variable vars : option vardefs.
  Hypothesis Hwf : schema_wf S = true.

  (** an accepted value given for a position: well-typed, and its variables usable there (a variable given directly
      for a defaulted non-null position is judged with the location's default, IsVariableUsageAllowed) *)
  Lemma value_at_location d v :
    ty_wf (iv_type d) = true -> check_value S vars v (loc_type d v) = [] ->
    lit_ok S v (iv_type d) = true /\ Forall (use_ok vars) (var_uses false S v (Some (iv_type d)) (has_default d)).
  Proof.
    intros Hty H. destruct (is_var v) eqn:Ev.
    - destruct v as [n p| | | | | | | |]; try discriminate Ev. split; [apply lo_var|].
      cbn [var_uses]. constructor; [|constructor]. rewrite cv_var in H. apply (var_loc_sound vars d n p Hty H).
    - rewrite (loc_type_nonvar d v Ev) in H. destruct (check_value_sound S vars Hwf v _ H) as [H1 H2]. split; [exact H1 | apply H2].
  Qed.

  Theorem check_arguments_sound ppos pname kind args defs :
    NoDup (def_names defs) -> (forall d, In d defs -> ty_wf (iv_type d) = true) ->
    check_arguments S vars ppos pname kind args defs = [] ->
    args_defined_ok (provided args, defs) = true
    /\ required_args_ok (provided args, defs) = true
    /\ literal_types_vis S (provided args, defs) = true
    /\ Forall (use_ok vars) (args_var_uses false S (provided args) defs).
  Proof.
    intros Hnd Hty H. unfold check_arguments in H.
    assert (Hmain : forall apos,
      (let st := fold_left (arg_step S vars apos (provided args)) defs ([], 0) in
       fst st ++ (if Nat.ltb (snd st) (length (provided args)) then
                    flat_map (fun kv => if forallb (fun ad => negb (str_eqb (iname (iv_name ad)) (iname (fst kv)))) defs
                                        then [err0 (UnknownArgument (iname (fst kv))) (ipos (fst kv))] else []) (provided args)
                  else [])) = [] ->
      args_defined_ok (provided args, defs) = true
      /\ required_args_ok (provided args, defs) = true
      /\ literal_types_vis S (provided args, defs) = true
      /\ Forall (use_ok vars) (args_var_uses false S (provided args) defs)).
    { clear H. intros apos H. cbn zeta in H. rewrite arg_fold in H. cbn [fst snd app Nat.add] in H.
      apply app_nil_inv in H as [He Hx].
      assert (Hdefined : forall kv, In kv (provided args) -> mem (iname (fst kv)) (def_names defs) = true).
      { destruct (Nat.ltb _ (length (provided args))) eqn:Elt.
        - intros kv Hin. pose proof (flat_map_nil _ _ Hx kv Hin) as Hk. cbn beta in Hk.
          destruct (forallb (fun ad => negb (str_eqb (iname (iv_name ad)) (iname (fst kv)))) defs) eqn:Ef; [discriminate|].
          apply forallb_neg_false_mem, Ef.
        - apply Nat.ltb_ge in Elt.
          assert (Hc : forall k, In k (arg_keys (provided args)) -> In k (def_names defs)).
          { apply (sumc_all_defined _ _ Hnd). unfold arg_keys at 1. rewrite map_length. exact Elt. }
          intros kv Hin. apply mem_In, Hc. unfold arg_keys. apply in_map_iff. exists kv. auto. }
      assert (Hper : forall ad, In ad defs ->
                (forall kv, In kv (provided args) -> iname (iv_name ad) = iname (fst kv) ->
                            check_value S vars (snd kv) (loc_type ad (snd kv)) = [])
                /\ (mem (iname (iv_name ad)) (arg_keys (provided args)) = false -> required_input ad = false)).
      { intros ad Hin. pose proof (flat_map_nil _ _ He ad Hin) as Hk. unfold ad_errs, arg_step in Hk.
        pose proof (filter_args_length (iname (iv_name ad)) (provided args)) as Hlen.
        destruct (filter (fun kv => str_eqb (iname (iv_name ad)) (iname (fst kv))) (provided args)) as [|m ms] eqn:Ef.
        - split.
          + intros kv Hkv Hn. exfalso. assert (Hf : In kv []).
            { rewrite <- Ef. apply filter_In. split; [exact Hkv | apply str_eqb_eq, Hn]. } exact Hf.
          + intros _. rewrite required_input_eq.
            destruct (ty_is_nonnull (iv_type ad)); cbn [negb] in *; [|reflexivity].
            destruct (iv_default ad); cbn in *; [reflexivity | discriminate].
        - cbn [fst app] in Hk. split.
          + intros kv Hkv Hn. apply (flat_map_nil _ _ Hk kv). rewrite <- Ef. apply filter_In. split; [exact Hkv | apply str_eqb_eq, Hn].
          + intros Hm. apply count_key_zero in Hm. unfold keys in Hm. fold (arg_keys (provided args)) in Hm.
            rewrite Hm in Hlen. discriminate Hlen. }
      assert (Hval : forall kv d, In kv (provided args) ->
                find (fun d0 => str_eqb (iname (iv_name d0)) (iname (fst kv))) defs = Some d ->
                lit_ok S (snd kv) (iv_type d) = true
                /\ Forall (use_ok vars) (var_uses false S (snd kv) (Some (iv_type d)) (has_default d))).
      { intros kv d Hkv Hf. apply find_some in Hf as [Hd Hn]. apply str_eqb_eq in Hn.
        apply (value_at_location d (snd kv) (Hty d Hd)). apply (proj1 (Hper d Hd) kv Hkv Hn). }
      repeat split.
      - unfold args_defined_ok. cbn [fst snd]. apply forallb_forall. intros kv Hin. apply Hdefined, Hin.
      - unfold required_args_ok. cbn [fst snd]. apply forallb_forall. intros ad Hin.
        destruct (mem (iname (iv_name ad)) (map (fun kv => iname (fst kv)) (provided args))) eqn:Em; [apply orb_true_r|].
        rewrite (proj2 (Hper ad Hin) Em). reflexivity.
      - unfold literal_types_vis, literal_types_ok. cbn [fst snd]. apply forallb_forall. intros kv Hin.
        destruct (find (fun d0 => str_eqb (iname (iv_name d0)) (iname (fst kv))) defs) as [d|] eqn:Ef; [|reflexivity].
        apply (Hval kv d Hin Ef).
      - unfold args_var_uses. apply Forall_flat_map. intros kv Hin.
        destruct (find (fun d0 => str_eqb (iname (iv_name d0)) (iname (fst kv))) defs) as [d|] eqn:Ef; [|constructor].
        apply (Hval kv d Hin Ef). }
    destruct args as [a|]; destruct defs as [|d0 defs0]; try discriminate.
    - apply (Hmain (args_pos a)). exact H.
    - cbn. repeat split; constructor.
    - apply (Hmain ppos). exact H.
  Qed.
End ArgsSound.

(** * Directives *)

Lemma get_directive_In S n d : get_directive S n = Some d -> In (TSDirective d) S.
Proof.
  induction S as [|x S IH]; cbn; [discriminate|].
  destruct x as [sd|t'|dd|se|te]; try (intros H; right; apply IH, H).
  destruct (str_eqb (iname (dd_name dd)) n).
  - intros E. injection E as ->. left. reflexivity.
  - intros H. right. apply IH, H.
Qed.

Lemma wf_directive_both S n dd : schema_wf S = true -> get_directive S n = Some dd ->
  NoDup (def_names (dir_argdefs dd)) /\ forall d, In d (dir_argdefs dd) -> ty_wf (iv_type d) = true.
Proof.
  intros Hwf Hg. apply get_directive_In in Hg. unfold schema_wf in Hwf.
  rewrite !andb_true_iff in Hwf. destruct Hwf as [[Hwf _] _].
  rewrite forallb_forall in Hwf. specialize (Hwf _ Hg). cbn beta iota in Hwf. apply names_distinct_parts, Hwf.
Qed.

Lemma wf_directive S n dd : schema_wf S = true -> get_directive S n = Some dd -> NoDup (def_names (dir_argdefs dd)).
Proof. intros Hwf Hg. apply (wf_directive_both S n dd Hwf Hg). Qed.

(** names of the defined, non-repeatable directives of a list *)
Definition nonrep (S : tsdoc) (ds : list directive) : list str :=
  flat_map (fun d => match sp_directive S (iname (dir_name d)) with
                     | Some dd => match dd_repeatable dd with Some _ => [] | None => [iname (dir_name d)] end
                     | None => []
                     end) ds.

Definition site_good (S : tsdoc) (D : opdoc) (vars : option vardefs) (x : site) : Prop :=
  (forall r, site_ok true S D r x = true)
  /\ Forall (use_ok vars) (site_var_uses false S x)
  /\ (forall n, x <> StCycle n).

Section DirsSound.
  Variable S : tsdoc.
  Variable D : opdoc.
  Variable vars : option vardefs.
  Hypothesis Hwf : schema_wf S = true.

  Lemma dd_argdefs_eq dd : dd_argdefs dd = dir_argdefs dd.
  Proof. reflexivity. Qed.

  Lemma check_directives_from_sound loc : forall ds seen,
    check_directives_from S vars seen loc ds = [] ->
    (forall d, In d ds ->
       exists dd, sp_directive S (iname (dir_name d)) = Some dd
         /\ mem loc (names_of (dd_locs dd)) = true
         /\ args_defined_ok (provided (dir_args d), dir_argdefs dd) = true
         /\ required_args_ok (provided (dir_args d), dir_argdefs dd) = true
         /\ literal_types_vis S (provided (dir_args d), dir_argdefs dd) = true
         /\ Forall (use_ok vars) (args_var_uses false S (provided (dir_args d)) (dir_argdefs dd)))
    /\ nodup_str (nonrep S ds) = true
    /\ (forall n, In n (nonrep S ds) -> mem n seen = false).
  Proof.
    induction ds as [|d ds IH]; intros seen H.
    - repeat split; try reflexivity; intros; contradiction.
    - cbn [check_directives_from] in H. cbn zeta in H.
      destruct (get_directive S (iname (dir_name d))) as [dd|] eqn:Eg; [|discriminate].
      apply app_nil_inv in H as [Hloc H]. apply app_nil_inv in H as [Hrep H]. apply app_nil_inv in H as [Hargs Hrest].
      specialize (IH _ Hrest) as [IHa [IHb IHc]].
      pose proof Eg as Eg'. rewrite get_directive_sp in Eg'.
      split; [|split].
      + intros d' [<-|Hin]; [|apply IHa, Hin].
        exists dd. split; [exact Eg'|]. split.
        * destruct (forallb (fun l => negb (str_eqb (iname l) loc)) (dd_locs dd)) eqn:Ef; [discriminate|].
          clear -Ef. unfold names_of. induction (dd_locs dd) as [|l ls IHl]; [discriminate|].
          cbn [forallb map] in *. rewrite mem_cons, (str_eqb_sym loc).
          destruct (str_eqb (iname l) loc); cbn [negb andb orb] in *; [reflexivity | apply IHl, Ef].
        * apply (check_arguments_sound S vars Hwf (dir_pos d) (iname (dir_name d)) str_directive).
          -- apply (wf_directive_both S _ _ Hwf Eg).
          -- apply (wf_directive_both S _ _ Hwf Eg).
          -- exact Hargs.
      + cbn [nonrep flat_map]. rewrite Eg'. fold (nonrep S ds).
        destruct (dd_repeatable dd) as [r|]; cbn [app]; [exact IHb|].
        cbn [nodup_str]. rewrite IHb, andb_true_r.
        destruct (mem (iname (dir_name d)) (nonrep S ds)) eqn:Em; [|reflexivity].
        apply mem_In in Em. specialize (IHc _ Em).
        destruct (mem_str (iname (dir_name d)) seen) eqn:Es.
        * rewrite mem_str_mem in Es. congruence.
        * rewrite mem_app in IHc. cbn in IHc. rewrite str_eqb_refl, orb_true_r in IHc. discriminate.
      + intros n Hn. cbn [nonrep flat_map] in Hn. rewrite Eg' in Hn. fold (nonrep S ds) in Hn.
        apply in_app_or in Hn as [Hn|Hn].
        * destruct (dd_repeatable dd) as [r|]; [contradiction|]. destruct Hn as [<-|[]].
          destruct (mem_str (iname (dir_name d)) seen) eqn:Es; [discriminate | exact Es].
        * specialize (IHc n Hn). destruct (mem_str (iname (dir_name d)) seen) eqn:Es; [exact IHc|].
          rewrite mem_app in IHc. apply orb_false_iff in IHc as [IHc _]. exact IHc.
  Qed.

  Theorem dirs_good loc ds :
    check_directives S vars loc ds = [] -> site_good S D vars (StDirs loc ds).
  Proof.
    intros H. unfold check_directives in H.
    destruct (check_directives_from_sound loc ds [] H) as [Ha [Hb _]].
    split; [|split].
    - intros r. destruct r; try reflexivity; cbn [site_ok arg_sites].
      + (* args defined *)
        apply forallb_forall. intros a Hin. apply in_flat_map in Hin as [d [Hd Hin]].
        destruct (Ha d Hd) as [dd [E [_ [H1 _]]]]. rewrite E in Hin. destruct Hin as [<-|[]]. exact H1.
      + apply forallb_forall. intros a Hin. apply in_flat_map in Hin as [d [Hd Hin]].
        destruct (Ha d Hd) as [dd [E [_ [_ [H1 _]]]]]. rewrite E in Hin. destruct Hin as [<-|[]]. exact H1.
      + apply forallb_forall. intros a Hin. apply in_flat_map in Hin as [d [Hd Hin]].
        destruct (Ha d Hd) as [dd [E [_ [_ [_ [H1 _]]]]]]. rewrite E in Hin. destruct Hin as [<-|[]]. exact H1.
      + apply forallb_forall. intros d Hd. destruct (Ha d Hd) as [dd [E _]]. rewrite E. reflexivity.
      + apply forallb_forall. intros d Hd. destruct (Ha d Hd) as [dd [E [H1 _]]]. rewrite E. exact H1.
      + exact Hb.
    - cbn [site_var_uses]. apply Forall_flat_map. intros d Hd.
      destruct (Ha d Hd) as [dd [E [_ [_ [_ [_ H1]]]]]]. rewrite E. exact H1.
    - intros n. discriminate.
  Qed.
End DirsSound.
