(** C03 — correspondence ([agree]) and the property read on the implementation's outputs ([holds]).

    A case carries the resolved schema document the pipeline built (parse + generate_builtins() +
    resolve_schema_extensions), the operation document the real parser produced (after
    resolve_operation_extensions) and the errors the real [check_operation_document] returned.

    [agree]: the model returns exactly that list (message constructor with payload, position,
    additional info; in order).
    [holds] (C03): for every implemented rule the reference validator of Spec.v finds violated, the
    implementation's list contains a diagnostic of a kind belonging to that rule.
    [holds4] (C04, see C04/Corr.v) is defined there from the same case type. *)
From V Require Import Base.Util Gql.Ast C03.Model C03.Spec.

(** [c_full]: read the rules on *every* syntactic position ([rule_ok]) instead of on the positions a
    spread-following validator reaches ([rule_ok_vis]). The harness sets it only on the second copy of a
    document it has itself built to exhibit one of the known blind spots; every document is judged with
    [c_full = false]. *)
Record case := mkCase { c_schema : tsdoc; c_doc : opdoc; c_out : list err; c_full : bool }.

Definition optype_eqb' := optype_eqb.
Definition tkind_eqb (a b : tkind) : bool :=
  match a, b with
  | KScalar, KScalar | KObject, KObject | KInterface, KInterface | KUnion, KUnion | KEnum, KEnum
  | KInputObject, KInputObject => true
  | _, _ => false
  end.

Definition msg_eqb (a b : msg) : bool :=
  match a, b with
  | UnknownDirective x, UnknownDirective y => str_eqb x y
  | DirectiveLocationNotAllowed x, DirectiveLocationNotAllowed y => str_eqb x y
  | RepeatedDirective x, RepeatedDirective y => str_eqb x y
  | ArgumentsNotNeeded x, ArgumentsNotNeeded y => str_eqb x y
  | RequiredArgumentNotSpecified x, RequiredArgumentNotSpecified y => str_eqb x y
  | TypeMismatch x, TypeMismatch y => str_eqb x y
  | UnknownVariable x, UnknownVariable y => str_eqb x y
  | UnknownEnumMember x x', UnknownEnumMember y y' => str_eqb x y && str_eqb x' y'
  | UnknownArgument x, UnknownArgument y => str_eqb x y
  | RequiredFieldNotSpecified x, RequiredFieldNotSpecified y => str_eqb x y
  | UnknownField x, UnknownField y => str_eqb x y
  | UnknownType x, UnknownType y => str_eqb x y
  | NoOutputType x, NoOutputType y => str_eqb x y
  | UnNamedOperationMustBeSingle, UnNamedOperationMustBeSingle => true
  | DuplicateOperationName x, DuplicateOperationName y => optype_eqb x y
  | DuplicateFragmentName x, DuplicateFragmentName y => pos_eqb x y
  | NoRootType x, NoRootType y => optype_eqb x y
  | SelectionOnInvalidType k x, SelectionOnInvalidType k' y => tkind_eqb k k' && str_eqb x y
  | MustSpecifySelectionSet x, MustSpecifySelectionSet y => str_eqb x y
  | FieldNotFound x x', FieldNotFound y y' => str_eqb x y && str_eqb x' y'
  | DuplicatedVariableName x, DuplicatedVariableName y => str_eqb x y
  | InvalidFragmentTarget x, InvalidFragmentTarget y => str_eqb x y
  | UnknownFragment x, UnknownFragment y => str_eqb x y
  | FragmentConditionNeverMatches x x', FragmentConditionNeverMatches y y' => str_eqb x y && str_eqb x' y'
  | RecursingFragmentSpread x, RecursingFragmentSpread y => str_eqb x y
  | SubscriptionMustHaveExactlyOneRootField, SubscriptionMustHaveExactlyOneRootField => true
  | TypeSystemError, TypeSystemError => true
  | AnotherDefinitionPos x, AnotherDefinitionPos y => str_eqb x y
  | DefinitionPos x, DefinitionPos y => str_eqb x y
  | RootTypesAreDefinedHere, RootTypesAreDefinedHere => true
  | OtherMessage x, OtherMessage y => str_eqb x y
  | OutOfFuel, OutOfFuel => true
  | _, _ => false
  end.

Definition info_eqb (a b : pos * msg) : bool := pos_eqb (fst a) (fst b) && msg_eqb (snd a) (snd b).
Definition err_eqb (a b : err) : bool :=
  msg_eqb (e_msg a) (e_msg b) && pos_eqb (e_pos a) (e_pos b) && list_eqb info_eqb (e_info a) (e_info b).

Definition agree (c : case) : bool :=
  list_eqb err_eqb (check_operation_document (c_schema c) (c_doc c)) (c_out c).

(** the diagnostics that belong to a rule *)
Definition kind_belongs (r : rule) (m : msg) : bool :=
  match r, m with
  | R_unique_op_names, DuplicateOperationName _ => true
  | R_lone_anonymous, UnNamedOperationMustBeSingle => true
  | R_single_subscription_root, SubscriptionMustHaveExactlyOneRootField => true
  | R_fields_exist, FieldNotFound _ _ => true
  | R_leaf_vs_composite, SelectionOnInvalidType _ _ => true
  | R_leaf_vs_composite, MustSpecifySelectionSet _ => true
  | R_args_defined, UnknownArgument _ => true
  | R_args_defined, ArgumentsNotNeeded _ => true
  | R_required_args, RequiredArgumentNotSpecified _ => true
  | R_literal_types, TypeMismatch _ => true
  | R_literal_types, UnknownEnumMember _ _ => true
  | R_unique_vars, DuplicatedVariableName _ => true
  | R_vars_input_types, NoOutputType _ => true
  | R_vars_input_types, UnknownType _ => true
  | R_vars_defined, UnknownVariable _ => true
  | R_var_usage_compatible, TypeMismatch _ => true
  | R_unique_fragments, DuplicateFragmentName _ => true
  | R_fragment_targets, UnknownType _ => true
  | R_fragment_targets, InvalidFragmentTarget _ => true
  | R_fragment_targets, SelectionOnInvalidType _ _ => true
  | R_spreads_defined, UnknownFragment _ => true
  | R_no_cycles, RecursingFragmentSpread _ => true
  | R_spread_possible, FragmentConditionNeverMatches _ _ => true
  | R_directives_defined, UnknownDirective _ => true
  | R_directives_location, DirectiveLocationNotAllowed _ => true
  | R_directives_unique, RepeatedDirective _ => true
  | _, _ => false
  end.

(** The property read on the implementation's output.
    [violated] = the implemented rules the reference validator finds violated in the document.
      - none violated: nothing is demanded here (false alarms are C04's subject);
      - exactly one: the implementation reports a diagnostic of a kind belonging to that rule;
      - several: the implementation reports at least one diagnostic (one fault may legitimately hide
        another, e.g. nothing below an unknown field is typed). *)
Definition violated (full : bool) (S : tsdoc) (D : opdoc) : list rule :=
  if full then filter (fun r => negb (rule_ok S D r)) all_rules
  else let vs := vis_doc_sites S D in filter (fun r => negb (rule_ok_vis_on S D vs r && rule_ok_roots S D r)) all_rules.

Definition holds (c : case) : bool :=
  schema_wf (c_schema c) &&    (* the guards of the theorems hold: the schema passed check, *)
  selsets_nonempty (c_doc c) && (* the document came out of the parser *)
  match violated (c_full c) (c_schema c) (c_doc c) with
  | [] => true
  | [r] => existsb (fun e => kind_belongs r (e_msg e)) (c_out c)
  | _ => match c_out c with [] => false | _ => true end
  end.
