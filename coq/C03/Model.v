(** C03/C04 — executable model of nitrogql's operation checker.

    Mirrors, function for function,
      crates/checker/src/operation_checker/mod.rs           (check_operation_document … check_fragment_spread_core)
      crates/checker/src/operation_checker/count_selection_set_fields.rs
      crates/checker/src/operation_checker/fragment_map.rs  (HashMap collect = last definition wins)
      crates/checker/src/common.rs                           (check_directives, check_arguments, check_value,
                                                              is_value_compatible_type_def, check_type_compatibility)
      crates/checker/src/types.rs                            (inout_kind_of_type)
      crates/semantics/src/ast_to_type_system.rs + crates/type-system (Schema: get_type, get_directive, iter_types,
                                                              root_types; first insertion wins)
      crates/semantics/src/direct_fields_of_output_type.rs   (implicit  __typename: String!)
    The type system is read directly off the resolved schema document [tsdoc] (Gql/Ast.v) the harness prints:
    [ast_to_type_system] only re-shapes that document, and every accessor the checker uses is defined here on it.

    The result is the list of errors in the implementation's order; an error is the [CheckErrorMessage]
    constructor with its payload, the position, and the additional-info list (position, message).

    Recursion through fragment spreads is not structural: [check_selection_set] takes fuel and returns the
    explicit error [OutOfFuel] when it runs out (never for the fuel [doc_fuel] computes, see Proofs).
    Definitions only. *)
From V Require Import Base.Util Gql.Ast.

(** * Errors (crates/checker/src/error.rs) *)

Inductive tkind := KScalar | KObject | KInterface | KUnion | KEnum | KInputObject.

Inductive msg :=
| UnknownDirective (name : str)
| DirectiveLocationNotAllowed (name : str)
| RepeatedDirective (name : str)
| ArgumentsNotNeeded (kind : str)
| RequiredArgumentNotSpecified (name : str)
| TypeMismatch (ty : str)
| UnknownVariable (name : str)
| UnknownEnumMember (member enum : str)
| UnknownArgument (name : str)
| RequiredFieldNotSpecified (name : str)
| UnknownField (name : str)
| UnknownType (name : str)
| NoOutputType (name : str)
| UnNamedOperationMustBeSingle
| DuplicateOperationName (t : optype)
| DuplicateFragmentName (other : pos)
| NoRootType (t : optype)
| SelectionOnInvalidType (k : tkind) (name : str)
| MustSpecifySelectionSet (name : str)
| FieldNotFound (field_name type_name : str)
| DuplicatedVariableName (name : str)
| InvalidFragmentTarget (name : str)
| UnknownFragment (name : str)
| FragmentConditionNeverMatches (condition scope : str)
| RecursingFragmentSpread (name : str)
| SubscriptionMustHaveExactlyOneRootField
| TypeSystemError
| AnotherDefinitionPos (name : str)
| DefinitionPos (name : str)
| RootTypesAreDefinedHere
| OtherMessage (debug : str)      (* any message the operation checker cannot produce; harness side only *)
| OutOfFuel.                      (* model only *)

Record err := mkErr { e_msg : msg; e_pos : pos; e_info : list (pos * msg) }.

Definition err0 (m : msg) (p : pos) : err := mkErr m p [].

(** * String constants *)
Definition str_Query := Eval compute in s "Query".
Definition str_Mutation := Eval compute in s "Mutation".
Definition str_Subscription := Eval compute in s "Subscription".
Definition str_QUERY := Eval compute in s "QUERY".
Definition str_MUTATION := Eval compute in s "MUTATION".
Definition str_SUBSCRIPTION := Eval compute in s "SUBSCRIPTION".
Definition str_FIELD := Eval compute in s "FIELD".
Definition str_FRAGMENT_SPREAD := Eval compute in s "FRAGMENT_SPREAD".
Definition str_FRAGMENT_DEFINITION := Eval compute in s "FRAGMENT_DEFINITION".
Definition str_INLINE_FRAGMENT := Eval compute in s "INLINE_FRAGMENT".
Definition str_VARIABLE_DEFINITION := Eval compute in s "VARIABLE_DEFINITION".
Definition str_field := Eval compute in s "field".
Definition str_directive := Eval compute in s "directive".
Definition str_typename := Eval compute in s "__typename".
Definition str_String := Eval compute in s "String".
Definition str_Boolean := Eval compute in s "Boolean".
Definition str_Int := Eval compute in s "Int".
Definition str_Float := Eval compute in s "Float".
Definition str_ID := Eval compute in s "ID".

Definition mem_str (x : str) (l : list str) : bool := existsb (str_eqb x) l.

(** * The type system as the checker sees it (Schema<Cow<str>, Pos> built by ast_to_type_system) *)

(** [Schema::get_type]: SchemaBuilder::extend inserts with [entry.or_insert], the first definition of a name wins. *)
Fixpoint get_type (S : tsdoc) (n : str) : option typedef :=
  match S with
  | [] => None
  | TSType t :: r => if str_eqb (iname (typedef_name t)) n then Some t else get_type r n
  | _ :: r => get_type r n
  end.

Fixpoint get_directive (S : tsdoc) (n : str) : option directivedef :=
  match S with
  | [] => None
  | TSDirective d :: r => if str_eqb (iname (dd_name d)) n then Some d else get_directive r n
  | _ :: r => get_directive r n
  end.

(** [Schema::iter_types]: names in first-insertion order, each with the definition [get_type] returns. *)
Fixpoint iter_types_from (seen : list str) (S : tsdoc) : list typedef :=
  match S with
  | [] => []
  | TSType t :: r =>
      let n := iname (typedef_name t) in
      if mem_str n seen then iter_types_from seen r else t :: iter_types_from (n :: seen) r
  | _ :: r => iter_types_from seen r
  end.
Definition iter_types (S : tsdoc) : list typedef := iter_types_from [] S.

(** Root types: [set_root_types] keeps the position of the first schema definition; every
    (operation, name) pair of every schema definition overwrites the previous one. Without a schema
    definition the node position is [Pos::default()] = built-in. *)
Record roots := mkRoots { r_pos : pos; r_query : option ident; r_mutation : option ident; r_subscription : option ident }.

Definition set_root (r : roots) (o : optype * ident) : roots :=
  match fst o with
  | Query => mkRoots (r_pos r) (Some (snd o)) (r_mutation r) (r_subscription r)
  | Mutation => mkRoots (r_pos r) (r_query r) (Some (snd o)) (r_subscription r)
  | Subscription => mkRoots (r_pos r) (r_query r) (r_mutation r) (Some (snd o))
  end.

Fixpoint root_types_from (cur : option roots) (S : tsdoc) : option roots :=
  match S with
  | [] => cur
  | TSSchema sd :: r =>
      let base := match cur with Some c => c | None => mkRoots (sd_pos sd) None None None end in
      root_types_from (Some (fold_left set_root (sd_ops sd) base)) r
  | _ :: r => root_types_from cur r
  end.
Definition root_types (S : tsdoc) : roots :=
  match root_types_from None S with Some r => r | None => mkRoots pos0 None None None end.

Definition root_of (r : roots) (o : optype) : option ident :=
  match o with Query => r_query r | Mutation => r_mutation r | Subscription => r_subscription r end.
Definition default_root_name (o : optype) : str :=
  match o with Query => str_Query | Mutation => str_Mutation | Subscription => str_Subscription end.

(** direct_fields_of_output_type *)
Definition typename_field : fielddef :=
  mkFieldDef None (mkId str_typename pos0) None (TNonNull (TNamed (mkId str_String pos0))) [].

Definition direct_fields (t : typedef) : option (list fielddef) :=
  match t with
  | TDObject _ _ _ _ _ fs _ => Some (fs ++ [typename_field])
  | TDInterface _ _ _ _ _ fs _ => Some (fs ++ [typename_field])
  | TDUnion _ _ _ _ _ _ => Some [typename_field]
  | _ => None
  end.

Definition kind_of (t : typedef) : tkind :=
  match t with
  | TDScalar _ _ _ _ _ => KScalar
  | TDObject _ _ _ _ _ _ _ => KObject
  | TDInterface _ _ _ _ _ _ _ => KInterface
  | TDUnion _ _ _ _ _ _ => KUnion
  | TDEnum _ _ _ _ _ _ => KEnum
  | TDInput _ _ _ _ _ _ => KInputObject
  end.

Definition tname (t : typedef) : str := iname (typedef_name t).

(** convert_arguments: no argument list = empty list *)
Definition fd_argdefs (f : fielddef) : list inputvaldef := match fd_args f with Some l => l | None => [] end.
Definition dd_argdefs (d : directivedef) : list inputvaldef := match dd_args d with Some l => l | None => [] end.

Definition ty_is_nonnull (t : ty) : bool := match t with TNonNull _ => true | _ => false end.

(** Display for graphql_type_system::Type *)
Fixpoint ty_show (t : ty) : str :=
  match t with
  | TNamed n => iname n
  | TList _ i => (91%N :: ty_show i) ++ [93%N]
  | TNonNull i => ty_show i ++ [33%N]
  end.

(** ast Type::position() *)
Fixpoint ty_pos (t : ty) : pos :=
  match t with
  | TNamed n => ipos n
  | TNonNull i => ty_pos i
  | TList p _ => p
  end.

Definition value_pos (v : value) : pos :=
  match v with
  | VVar _ p | VInt p _ | VFloat p _ | VString p _ | VBool p _ | VNull p | VEnum p _ | VList p _ | VObject p _ => p
  end.

Definition value_is_null (v : value) : bool := match v with VNull _ => true | _ => false end.

(** * common.rs *)

(** check_type_compatibility(value_type, expected_type) *)
Fixpoint type_compat (vt et : ty) : bool :=
  match vt with
  | TNonNull v =>
      match et with
      | TNonNull e => type_compat v e
      | _ => type_compat v et
      end
  | TList _ v =>
      match et with
      | TNonNull _ => false
      | TList _ e => type_compat v e
      | TNamed _ => false
      end
  | TNamed v =>
      match et with
      | TNonNull _ => false
      | TList _ _ => false
      | TNamed e => str_eqb (iname e) (iname v)
      end
  end.

Definition get_variable_definition (vars : option vardefs) (name : str) : option vardef :=
  match vars with
  | None => None
  | Some vs => find (fun d => str_eqb (vd_name d) name) (vds_list vs)
  end.

(** first field of an object literal with the given key, mapped through [f] (kept generic so that the
    recursive call of [check_value] below is on a syntactic sub-term) *)
Section FindVal.
  Context {A : Type} (f : value -> A) (name : str).
  Fixpoint find_val (fs : list (ident * value)) : option A :=
    match fs with
    | [] => None
    | (k, v) :: r => if str_eqb name (iname k) then Some (f v) else find_val r
    end.
  (** every field with the given key, in order, mapped through [f] *)
  Fixpoint filter_vals (fs : list (ident * value)) : list A :=
    match fs with
    | [] => []
    | (k, v) :: r => if str_eqb name (iname k) then f v :: filter_vals r else filter_vals r
    end.
End FindVal.

(** expected_type_of_location: a variable given directly for a non-null argument / input field that has a default
    value is checked against the nullable type (IsVariableUsageAllowed, hasLocationDefaultValue) *)
Definition loc_type (d : inputvaldef) (v : value) : ty :=
  match iv_type d, v with
  | TNonNull inner, VVar _ _ => match iv_default d with Some _ => inner | None => iv_type d end
  | t, _ => t
  end.

Definition is_builtin_scalar (name : str) : bool :=
  str_eqb name str_Boolean || str_eqb name str_Int || str_eqb name str_Float || str_eqb name str_String
  || str_eqb name str_ID.

Definition has_key (name : str) (fs : list (ident * value)) : bool :=
  existsb (fun kv => str_eqb name (iname (fst kv))) fs.

(** [str::parse::<i32>]: an optional sign, then one or more ASCII digits, value within the signed 32-bit range *)
Definition digit_val (c : N) : option N := if N.leb 48 c && N.leb c 57 then Some (c - 48)%N else None.
Fixpoint digits_val (acc : N) (l : str) : option N :=
  match l with
  | [] => Some acc
  | c :: r => match digit_val c with Some d => digits_val (acc * 10 + d)%N r | None => None end
  end.
Definition parse_i32 (l : str) : bool :=
  let neg := match l with 45%N :: _ => true | _ => false end in
  let ds := match l with 45%N :: r => r | 43%N :: r => r | _ => l end in
  match ds with
  | [] => false
  | _ => match digits_val 0 ds with
         | Some m => if neg then N.leb m 2147483648 else N.leb m 2147483647
         | None => false
         end
  end.

(** scalar arm of is_value_compatible_type_def *)
Definition scalar_accepts (name : str) (v : value) : bool :=
  if str_eqb name str_Boolean then match v with VBool _ _ | VNull _ => true | _ => false end
  else if str_eqb name str_Int then match v with VInt _ lexeme => parse_i32 lexeme | VNull _ => true | _ => false end
  else if str_eqb name str_Float then match v with VFloat _ _ | VInt _ _ | VNull _ => true | _ => false end
  else if str_eqb name str_String then match v with VString _ _ | VNull _ => true | _ => false end
  else if str_eqb name str_ID then match v with VString _ _ | VInt _ _ | VNull _ => true | _ => false end
  else true.

(** state threaded through the loop over the expected fields of an input object:
    errors pushed to [result], [res], additional_info, seen_fields *)
Record iostate := mkIo { io_errs : list err; io_res : bool; io_info : list (pos * msg); io_seen : nat }.

(** one round of the loop over the expected fields; [cv] is check_value *)
Definition io_step (cv : value -> ty -> list err) (fs : list (ident * value)) (st : iostate) (ef : inputvaldef) : iostate :=
  match filter_vals (fun fv => cv fv (loc_type ef fv)) (iname (iv_name ef)) fs with
  | [] =>
      if ty_is_nonnull (iv_type ef) && match iv_default ef with None => true | Some _ => false end
      then mkIo (io_errs st) false
             (io_info st ++ [(ipos (iv_name ef), RequiredFieldNotSpecified (iname (iv_name ef)))])
             (io_seen st)
      else st
  | rs => (* every value is checked, even if the field is given more than once; seen_fields += 1 each *)
      mkIo (io_errs st ++ concat rs) (io_res st) (io_info st) (io_seen st + length rs)
  end.

(** the InputObject arm of is_value_compatible_type_def for an object literal, followed by check_value's
    TypeMismatch ([mism]) when the verdict is "incompatible" *)
Definition input_object_check (cv : value -> ty -> list err) (mism : list (pos * msg) -> list err)
           (fields : list inputvaldef) (fs : list (ident * value)) : list err :=
  let st := fold_left (io_step cv fs) fields (mkIo [] true [] 0) in
  let extra := Nat.ltb (io_seen st) (length fs) in
  let info := io_info st ++
    (if extra then
       flat_map (fun kv =>
         if existsb (fun f => str_eqb (iname (iv_name f)) (iname (fst kv))) fields then []
         else [(ipos (fst kv), UnknownField (iname (fst kv)))]) fs
     else []) in
  io_errs st ++ (if io_res st && negb extra then [] else mism info).

Section Values.
  Variable S : tsdoc.
  Variable vars : option vardefs.

  Definition check_variable_value (name : str) (p : pos) (t : ty) : list err :=
    match get_variable_definition vars name with
    | None => [err0 (UnknownVariable name) p]
    | Some vd =>
        let has_non_null_default :=
          match vd_default vd with Some d => negb (value_is_null d) | None => false end in
        let mismatch :=
          match t with
          | TNonNull inner =>
              if negb (ty_is_nonnull (vd_type vd)) && has_non_null_default
              then negb (type_compat (vd_type vd) inner)
              else negb (type_compat (vd_type vd) t)
          | _ => negb (type_compat (vd_type vd) t)
          end in
        if mismatch then [err0 (TypeMismatch (ty_show t)) p] else []
    end.

  (** check_variables_in_value: variables inside a list / object literal that are not defined *)
  Fixpoint check_variables_in_value (v : value) : list err :=
    match v with
    | VVar n p => match get_variable_definition vars n with
                  | None => [err0 (UnknownVariable n) p]
                  | Some _ => []
                  end
    | VList _ vs => flat_map check_variables_in_value vs
    | VObject _ fs =>
        (fix go (fs : list (ident * value)) : list err :=
           match fs with [] => [] | (_, fv) :: r => check_variables_in_value fv ++ go r end) fs
    | _ => []
    end.

  (** the Named arm of check_value (is_value_compatible_type_def followed by check_value's own TypeMismatch);
      [cv] is check_value, [t] = TNamed n is the expected type as written *)
  Definition check_named (cv : value -> ty -> list err) (v : value) (t : ty) (n : ident) : list err :=
    match get_type S (iname n) with
    | None => [mkErr TypeSystemError (ipos n) [(ipos n, UnknownType (iname n))]]
    | Some td =>
        let mism (info : list (pos * msg)) := [mkErr (TypeMismatch (ty_show t)) (value_pos v) info] in
        match td with
        | TDScalar _ _ name _ _ =>
            if is_builtin_scalar (iname name) then (if scalar_accepts (iname name) v then [] else mism [])
            else check_variables_in_value v   (* custom scalar: any literal, but its variables have to be defined *)
        | TDObject _ _ _ _ _ _ _ | TDInterface _ _ _ _ _ _ _ | TDUnion _ _ _ _ _ _ => mism []
        | TDEnum _ _ ename _ vals _ =>
            match v with
            | VNull _ => []
            | VEnum p m =>
                if forallb (fun ev => negb (str_eqb (iname (ev_name ev)) m)) vals
                then [mkErr (UnknownEnumMember m (iname ename)) p [(ipos ename, DefinitionPos (iname ename))]]
                else []
            | _ => mism []
            end
        | TDInput _ _ _ _ fields _ =>
            match v with
            | VObject _ fs => input_object_check cv mism fields fs
            | VNull _ => []
            | _ => mism []
            end
        end
    end.

  (** check_value + is_value_compatible_type_def. Outer recursion on the value, inner on the expected type. *)
  Fixpoint check_value (v : value) : ty -> list err :=
    fix on_ty (t : ty) : list err :=
      match v with
      | VVar name p => check_variable_value name p t
      | _ =>
        match t with
        | TNonNull inner =>
            match v with
            | VNull _ => [err0 (TypeMismatch (ty_show t)) (value_pos v)]
            | _ => on_ty inner
            end
        | TList _ inner =>
            match v with
            | VList _ vs => flat_map (fun e => check_value e inner) vs
            | VNull _ => []
            | _ => on_ty inner
            end
        | TNamed n => check_named check_value v t n
        end
      end.

  (** one round of the loop of check_arguments over the argument definitions: (errors, seen_args) *)
  Definition arg_step (argument_pos : pos) (args : list (ident * value)) (st : list err * nat) (ad : inputvaldef)
    : list err * nat :=
    match filter (fun kv => str_eqb (iname (iv_name ad)) (iname (fst kv))) args with
    | [] =>
        let null_is_allowed :=
          if negb (ty_is_nonnull (iv_type ad)) then true
          else match iv_default ad with Some _ => true | None => false end in
        if null_is_allowed then st
        else (fst st ++ [mkErr (RequiredArgumentNotSpecified (iname (iv_name ad))) argument_pos
                           [(ipos (iv_name ad), DefinitionPos (iname (iv_name ad)))]], snd st)
    | ms => (* every value is checked, even if the argument is given more than once; seen_args += 1 each *)
        (fst st ++ flat_map (fun kv => check_value (snd kv) (loc_type ad (snd kv))) ms, snd st + length ms)
    end.

  (** check_arguments *)
  Definition check_arguments (parent_pos : pos) (parent_name : str) (parent_kind : str)
             (arguments : option arguments) (defs : list inputvaldef) : list err :=
    match arguments, defs with
    | None, [] => []
    | Some a, [] => [mkErr (ArgumentsNotNeeded parent_kind) (args_pos a) [(parent_pos, DefinitionPos parent_name)]]
    | _, _ =>
        let argument_pos := match arguments with None => parent_pos | Some a => args_pos a end in
        let args := match arguments with None => [] | Some a => args_list a end in
        let st := fold_left (arg_step argument_pos args) defs ([], 0) in
        fst st ++
        (if Nat.ltb (snd st) (length args) then
           flat_map (fun kv =>
             if forallb (fun ad => negb (str_eqb (iname (iv_name ad)) (iname (fst kv)))) defs
             then [err0 (UnknownArgument (iname (fst kv))) (ipos (fst kv))] else []) args
         else [])
    end.

  (** check_directives *)
  Fixpoint check_directives_from (seen : list str) (loc : str) (ds : list directive) : list err :=
    match ds with
    | [] => []
    | d :: r =>
        let name := iname (dir_name d) in
        match get_directive S name with
        | None => err0 (UnknownDirective name) (ipos (dir_name d)) :: check_directives_from seen loc r
        | Some def =>
            (if forallb (fun l => negb (str_eqb (iname l) loc)) (dd_locs def)
             then [err0 (DirectiveLocationNotAllowed name) (dir_pos d)] else [])
            ++ (if mem_str name seen
                then match dd_repeatable def with
                     | None => [err0 (RepeatedDirective name) (dir_pos d)]
                     | Some _ => []
                     end
                else [])
            ++ check_arguments (dir_pos d) name str_directive (dir_args d) (dd_argdefs def)
            ++ check_directives_from (if mem_str name seen then seen else seen ++ [name]) loc r
        end
    end.
  Definition check_directives (loc : str) (ds : list directive) : list err := check_directives_from [] loc ds.
End Values.

(** * operation_checker *)

(** fragment_map.rs: collect() into a HashMap — the last definition of a name wins *)
Definition doc_frags (D : opdoc) : list fragdef :=
  flat_map (fun d => match d with DFrag f => [f] | _ => [] end) (od_defs D).
Definition frag_get (fm : list fragdef) (n : str) : option fragdef :=
  find (fun f => str_eqb (iname (fr_name f)) n) (rev fm).

(** count_selection_set_fields.rs: the distinct response keys (alias or name) of a selection set, through spreads
    (each fragment once per path) and inline fragments; fuel as for check_selection_set (out of fuel adds nothing) *)
Fixpoint collect_response_keys (fuel : nat) (fm : list fragdef) (seen : list str) (ss : selset) (keys : list str)
  : list str :=
  match fuel with
  | 0 => keys
  | Datatypes.S f =>
      fold_left (fun keys sel =>
        match sel with
        | SField alias name _ _ _ =>
            let k := match alias with Some a => iname a | None => iname name end in
            if mem_str k keys then keys else keys ++ [k]
        | SSpread _ name _ =>
            if mem_str (iname name) seen then keys
            else match frag_get fm (iname name) with
                 | None => keys
                 | Some fr => collect_response_keys f fm (seen ++ [iname name]) (fr_sel fr) keys
                 end
        | SInline _ _ _ sub => collect_response_keys f fm seen sub keys
        end) (selset_sels ss) keys
  end.

Definition implements (impls : list ident) (n : str) : bool := existsb (fun i => str_eqb (iname i) n) impls.

Definition object_impls (t : typedef) : option (list ident) :=
  match t with TDObject _ _ _ impls _ _ _ => Some impls | _ => None end.

(** the closure inside [any] of the interface/union arm: stops at the first member that implements the
    interface — or is not an object type, in which case TypeSystemError is pushed *)
Fixpoint some_member_implements (S : tsdoc) (members : list ident) (intf : str) : list err * bool :=
  match members with
  | [] => ([], false)
  | m :: r =>
      match match get_type S (iname m) with Some t => object_impls t | None => None end with
      | Some impls => if implements impls intf then ([], true) else some_member_implements S r intf
      | None => ([err0 TypeSystemError (ipos m)], true)
      end
  end.

Definition never_matches (condition scope : str) (spread_pos : pos) (root cond : typedef) (n1 n2 : str) : err :=
  mkErr (FragmentConditionNeverMatches condition scope) spread_pos
        [(typedef_pos root, DefinitionPos n1); (typedef_pos cond, DefinitionPos n2)].

(** the nine-way match of check_fragment_spread_core: (errors, continue with check_selection_set?) *)
Definition spread_match (S : tsdoc) (spread_pos : pos) (root cond : typedef) : list err * bool :=
  match root, cond with
  | TDScalar _ _ _ _ _, _ | TDEnum _ _ _ _ _ _, _ | TDInput _ _ _ _ _ _, _ => ([], false)
  | TDObject _ _ oname _ _ _ _, TDObject _ _ cname _ _ _ _ =>
      (if str_eqb (iname oname) (iname cname) then []
       else [never_matches (iname cname) (iname oname) spread_pos root cond (iname cname) (iname oname)], true)
  | TDObject _ _ oname oimpls _ _ _, TDInterface _ _ iname' _ _ _ _
  | TDInterface _ _ iname' _ _ _ _, TDObject _ _ oname oimpls _ _ _ =>
      (if implements oimpls (iname iname') then []
       else [never_matches (iname iname') (iname oname) spread_pos root cond (iname iname') (iname oname)], true)
  | TDObject _ _ oname _ _ _ _, TDUnion _ _ uname _ members _
  | TDUnion _ _ uname _ members _, TDObject _ _ oname _ _ _ _ =>
      (if implements members (iname oname) then []
       else [never_matches (iname uname) (iname oname) spread_pos root cond (iname uname) (iname oname)], true)
  | TDInterface _ _ n1 _ _ _ _, TDInterface _ _ n2 _ _ _ _ =>
      (* "fast path": an interface always matches itself (the disjunction short-circuits) *)
      (if str_eqb (iname n1) (iname n2)
          || existsb (fun t => match object_impls t with
                               | Some impls => implements impls (iname n1) && implements impls (iname n2)
                               | None => false
                               end) (iter_types S)
       then []
       else [never_matches (iname n2) (iname n2) spread_pos root cond (iname n2) (iname n1)], true)
  | TDInterface _ _ iname' _ _ _ _, TDUnion _ _ uname _ members _
  | TDUnion _ _ uname _ members _, TDInterface _ _ iname' _ _ _ _ =>
      let r := some_member_implements S members (iname iname') in
      (fst r ++ (if snd r then []
                 else [never_matches (iname uname) (iname iname') spread_pos root cond (iname iname') (iname uname)]), true)
  | TDUnion _ _ n1 _ m1 _, TDUnion _ _ n2 _ m2 _ =>
      (if existsb (fun x2 => existsb (fun x1 => str_eqb (iname x1) (iname x2)) m1) m2 then []
       else [never_matches (iname n2) (iname n1) spread_pos root cond (iname n1) (iname n2)], true)
  | _, _ => ([], true)
  end.

Section Selections.
  Variable S : tsdoc.
  Variable fm : list fragdef.
  Variable vars : option vardefs.
  (** the recursive call of check_selection_set (one unit of fuel less) *)
  Variable rec : list str -> typedef -> selset -> list err.

  Definition check_selection_field (seen : list str) (root : typedef) (root_fields : list fielddef)
             (name : ident) (args : option arguments) (dirs : list directive) (sel : option selset) : list err :=
    match find (fun f => str_eqb (iname (fd_name f)) (iname name)) root_fields with
    | None => [mkErr (FieldNotFound (iname name) (tname root)) (ipos name) [(typedef_pos root, DefinitionPos (tname root))]]
    | Some tf =>
        check_directives S vars str_FIELD dirs
        ++ check_arguments S vars (ipos name) (iname name) str_field args (fd_argdefs tf)
        ++ match get_type S (iname (ty_unwrapped (fd_type tf))) with
           | None => [err0 TypeSystemError (ipos name)]
           | Some tft =>
               match sel with
               | Some ss => rec seen tft ss
               | None => match direct_fields tft with
                         | Some _ => [err0 (MustSpecifySelectionSet (iname name)) (ipos name)]
                         | None => []
                         end
               end
           end
    end.

  Definition check_fragment_spread_core (seen : list str) (root : typedef) (spread_pos : pos)
             (cond : typedef) (ss : selset) : list err :=
    let r := spread_match S spread_pos root cond in
    fst r ++ (if snd r then rec seen cond ss else []).

  Definition check_fragment_spread (seen : list str) (root : typedef) (p : pos) (name : ident)
             (dirs : list directive) : list err :=
    check_directives S vars str_FRAGMENT_SPREAD dirs
    ++ (if mem_str (iname name) seen then [err0 (RecursingFragmentSpread (iname name)) p]
        else
          match frag_get fm (iname name) with
          | None => [err0 (UnknownFragment (iname name)) (ipos name)]
          | Some target =>
              check_directives S vars str_FRAGMENT_DEFINITION (fr_dirs target)
              ++ match get_type S (iname (fr_cond target)) with
                 | None => []
                 | Some cond => check_fragment_spread_core (seen ++ [iname name]) root p cond (fr_sel target)
                 end
          end).

  Definition check_inline_fragment (seen : list str) (root : typedef) (p : pos) (tc : option ident)
             (dirs : list directive) (ss : selset) : list err :=
    check_directives S vars str_INLINE_FRAGMENT dirs
    ++ match tc with
       | None => rec seen root ss
       | Some c =>
           match get_type S (iname c) with
           | None => [err0 (UnknownType (iname c)) (ipos c)]
           | Some cond => check_fragment_spread_core seen root p cond ss
           end
       end.

  Definition check_selection (seen : list str) (root : typedef) (root_fields : list fielddef)
             (sel : selection) : list err :=
    match sel with
    | SField _ name args dirs sub => check_selection_field seen root root_fields name args dirs sub
    | SSpread p name dirs => check_fragment_spread seen root p name dirs
    | SInline p tc dirs ss => check_inline_fragment seen root p tc dirs ss
    end.

  Definition check_selection_set_body (seen : list str) (root : typedef) (ss : selset) : list err :=
    match direct_fields root with
    | None => [mkErr (SelectionOnInvalidType (kind_of root) (tname root)) (selset_pos ss)
                 [(typedef_pos root, DefinitionPos (tname root))]]
    | Some fields => flat_map (check_selection seen root fields) (selset_sels ss)
    end.
End Selections.

Fixpoint check_selection_set (fuel : nat) (S : tsdoc) (fm : list fragdef) (vars : option vardefs)
         (seen : list str) (root : typedef) (ss : selset) : list err :=
  match fuel with
  | 0 => [err0 OutOfFuel pos0]
  | Datatypes.S f => check_selection_set_body S fm vars (check_selection_set f S fm vars) seen root ss
  end.

(** check_variables_definition *)
Definition inout_is_input (t : typedef) : bool :=
  match t with TDScalar _ _ _ _ _ | TDEnum _ _ _ _ _ _ | TDInput _ _ _ _ _ _ => true | _ => false end.

Fixpoint check_variables_from (S : tsdoc) (seen : list str) (vs : list vardef) : list err :=
  match vs with
  | [] => []
  | v :: r =>
      let dup := mem_str (vd_name v) seen in
      (if dup then [err0 (DuplicatedVariableName (vd_name v)) (vd_pos v)] else [])
      ++ check_directives S None str_VARIABLE_DEFINITION (vd_dirs v)
      ++ (let n := ty_unwrapped (vd_type v) in
          match get_type S (iname n) with
          | None => [err0 (UnknownType (iname n)) (ty_pos (vd_type v))]
          | Some t => if inout_is_input t then [] else [err0 (NoOutputType (iname n)) (ty_pos (vd_type v))]
          end)
      ++ check_variables_from S (if dup then seen else seen ++ [vd_name v]) r
  end.
Definition check_variables_definition (S : tsdoc) (vs : vardefs) : list err := check_variables_from S [] (vds_list vs).

Definition op_location (o : optype) : str :=
  match o with Query => str_QUERY | Mutation => str_MUTATION | Subscription => str_SUBSCRIPTION end.

Definition check_operation (fuel : nat) (S : tsdoc) (fm : list fragdef) (op : opdef) : list err :=
  let rts := root_types S in
  match (if negb (pbuiltin (r_pos rts)) || match r_query rts with Some _ => true | None => false end then
           match root_of rts (op_type op) with
           | None => Some [mkErr (NoRootType (op_type op)) (op_pos op) [(r_pos rts, RootTypesAreDefinedHere)]]
           | Some _ => None
           end
         else None) with
  | Some es => es
  | None =>
      let root_name := match root_of rts (op_type op) with Some i => iname i | None => default_root_name (op_type op) end in
      match get_type S root_name with
      | None => [err0 (UnknownType root_name) (op_pos op)]
      | Some root =>
          check_directives S (op_vars op) (op_location (op_type op)) (op_dirs op)
          ++ match op_vars op with Some vs => check_variables_definition S vs | None => [] end
          ++ (if optype_eqb (op_type op) Subscription && Nat.ltb 1 (length (collect_response_keys fuel fm [] (op_sel op) []))
              then [err0 SubscriptionMustHaveExactlyOneRootField (op_pos op)] else [])
          ++ check_selection_set fuel S fm (op_vars op) [] root (op_sel op)
      end
  end.

Definition check_fragment_definition (S : tsdoc) (f : fragdef) : list err :=
  match get_type S (iname (fr_cond f)) with
  | None => [err0 (UnknownType (iname (fr_cond f))) (ipos (fr_cond f))]
  | Some t =>
      match t with
      | TDObject _ _ _ _ _ _ _ | TDInterface _ _ _ _ _ _ _ | TDUnion _ _ _ _ _ _ => []
      | _ => [mkErr (InvalidFragmentTarget (iname (fr_cond f))) (ipos (fr_cond f)) [(typedef_pos t, DefinitionPos (tname t))]]
      end
  end.

Definition is_op (d : execdef) : bool := match d with DOp _ => true | _ => false end.

Definition check_definition (fuel : nat) (S : tsdoc) (fm : list fragdef) (operation_num : nat)
           (prev : list execdef) (d : execdef) : list err :=
  match d with
  | DOp op =>
      (match op_name op with
       | None => if Nat.eqb operation_num 1 then [] else [err0 UnNamedOperationMustBeSingle (op_pos op)]
       | Some name =>
           match find (fun other => match other with
                                    | DOp o => match op_name o with Some n => str_eqb (iname n) (iname name) | None => false end
                                    | _ => false
                                    end) prev with
           | Some (DOp o) => [mkErr (DuplicateOperationName (op_type op)) (ipos name) [(op_pos o, AnotherDefinitionPos (iname name))]]
           | _ => []
           end
       end) ++ check_operation fuel S fm op
  | DFrag f =>
      (match find (fun other => match other with
                                | DFrag o => str_eqb (iname (fr_name o)) (iname (fr_name f))
                                | _ => false
                                end) prev with
       | Some (DFrag o) => [err0 (DuplicateFragmentName (fr_pos o)) (ipos (fr_name f))]
       | _ => []
       end) ++ check_fragment_definition S f
  | DImport _ => []
  end.

Fixpoint check_definitions (fuel : nat) (S : tsdoc) (fm : list fragdef) (operation_num : nat)
         (prev : list execdef) (defs : list execdef) : list err :=
  match defs with
  | [] => []
  | d :: r => check_definition fuel S fm operation_num prev d ++ check_definitions fuel S fm operation_num (prev ++ [d]) r
  end.

(** fuel: every level of nesting of check_selection_set is either one level of the syntax tree or the entry
    into a fragment that is not yet on the [seen_fragments] stack *)
Fixpoint sel_depth (x : selection) : nat :=
  match x with
  | SField _ _ _ _ (Some ss) => selset_depth ss
  | SInline _ _ _ ss => selset_depth ss
  | _ => 0
  end
with selset_depth (ss : selset) : nat :=
  match ss with
  | SelSet _ l => Datatypes.S ((fix go (l : list selection) : nat :=
                                   match l with [] => 0 | x :: r => Nat.max (sel_depth x) (go r) end) l)
  end.

Definition def_depth (d : execdef) : nat :=
  match d with DOp o => selset_depth (op_sel o) | DFrag f => selset_depth (fr_sel f) | DImport _ => 0 end.

Definition doc_fuel (D : opdoc) : nat :=
  Datatypes.S ((Datatypes.S (length (doc_frags D))) * (fold_right (fun d a => Nat.max (def_depth d) a) 0 (od_defs D))).

(** collect_spread_fragments: the names of the fragments (transitively) spread in a selection set, each pushed once
    (unknown names too), depth first; every fragment is entered at most once, so [doc_fuel] bounds the nesting
    (out of fuel adds nothing) *)
Fixpoint collect_spread_fragments (fuel : nat) (fm : list fragdef) (ss : selset) (acc : list str) : list str :=
  match fuel with
  | 0 => acc
  | Datatypes.S f =>
      fold_left (fun acc sel =>
        match sel with
        | SField _ _ _ _ (Some sub) => collect_spread_fragments f fm sub acc
        | SField _ _ _ _ None => acc
        | SSpread _ name _ =>
            if mem_str (iname name) acc then acc
            else match frag_get fm (iname name) with
                 | Some fr => collect_spread_fragments f fm (fr_sel fr) (acc ++ [iname name])
                 | None => acc ++ [iname name]
                 end
        | SInline _ _ _ sub => collect_spread_fragments f fm sub acc
        end) (selset_sels ss) acc
  end.

Definition is_unknown_variable (e : err) : bool := match e_msg e with UnknownVariable _ => true | _ => false end.

(** check_unspread_fragment: directives and selection set against the type condition, no variable in scope;
    UnknownVariable errors are dropped (variables belong to the operations that spread a fragment) *)
Definition check_unspread_fragment (fuel : nat) (S : tsdoc) (fm : list fragdef) (f : fragdef) : list err :=
  filter (fun e => negb (is_unknown_variable e))
    (check_directives S None str_FRAGMENT_DEFINITION (fr_dirs f)
     ++ match get_type S (iname (fr_cond f)) with
        | Some t =>
            match t with
            | TDObject _ _ _ _ _ _ _ | TDInterface _ _ _ _ _ _ _ | TDUnion _ _ _ _ _ _ =>
                check_selection_set fuel S fm None [iname (fr_name f)] t (fr_sel f)
            | _ => []
            end
        | None => []
        end).

(** the pass over the fragment definitions no operation (transitively) spreads, in document order *)
Fixpoint check_unspread (fuel : nat) (S : tsdoc) (fm : list fragdef) (spread : list str) (defs : list execdef) : list err :=
  match defs with
  | [] => []
  | DFrag f :: r =>
      if mem_str (iname (fr_name f)) spread then check_unspread fuel S fm spread r
      else check_unspread_fragment fuel S fm f
           ++ check_unspread fuel S fm (collect_spread_fragments fuel fm (fr_sel f) (spread ++ [iname (fr_name f)])) r
  | _ :: r => check_unspread fuel S fm spread r
  end.

Definition spread_by_operations (fuel : nat) (fm : list fragdef) (defs : list execdef) : list str :=
  fold_left (fun acc d => match d with DOp o => collect_spread_fragments fuel fm (op_sel o) acc | _ => acc end) defs [].

Definition check_operation_document_fuel (fuel : nat) (S : tsdoc) (D : opdoc) : list err :=
  check_definitions fuel S (doc_frags D) (length (filter is_op (od_defs D))) [] (od_defs D)
  ++ check_unspread fuel S (doc_frags D) (spread_by_operations fuel (doc_frags D) (od_defs D)) (od_defs D).

Definition check_operation_document (S : tsdoc) (D : opdoc) : list err :=
  check_operation_document_fuel (doc_fuel D) S D.
