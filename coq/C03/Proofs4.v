(** C03 — proofs, part 4: the walk over selection sets. An error-free [check_selection_set] implies that every
    site a spread-following validator reaches below it (Spec.v [vsites_sel] / [vis_enter]) satisfies every
    site rule and every variable rule, and that no spread on the way closes a cycle. *)
From V Require Import Base.Util Gql.Ast C03.Model C03.Spec C03.Proofs C03.Proofs2 C03.Proofs3.

(** * Type-system facts *)

Lemma get_type_name S n t : get_type S n = Some t -> iname (typedef_name t) = n.
Proof.
  induction S as [|d S IH]; cbn; [discriminate|].
  destruct d as [sd|t'|dd|se|te]; try exact IH.
  destruct (str_eqb_spec (iname (typedef_name t')) n) as [E|E]; [|exact IH].
  intros H. injection H as <-. exact E.
Qed.

Lemma iter_types_from_In seen S t : In t (iter_types_from seen S) -> In (TSType t) S.
Proof.
  revert seen. induction S as [|d S IH]; intros seen; cbn; [tauto|].
  destruct d as [sd|t'|dd|se|te]; try (intros H; right; apply (IH _ H)).
  destruct (mem_str (iname (typedef_name t')) seen).
  - intros H. right. apply (IH _ H).
  - intros [<-|H]; [left; reflexivity | right; apply (IH _ H)].
Qed.

Lemma direct_fields_composite t : (exists fs, direct_fields t = Some fs) <-> is_composite t = true.
Proof. destruct t; cbn; split; intros H; try discriminate; try (destruct H; discriminate); eauto. Qed.

Lemma direct_fields_none t : direct_fields t = None <-> is_composite t = false.
Proof. destruct t; cbn; split; intros H; try discriminate; reflexivity. Qed.

Lemma find_app {A} (p : A -> bool) a b : find p (a ++ b) = match find p a with Some x => Some x | None => find p b end.
Proof. induction a as [|x a IH]; cbn; [reflexivity|]. destruct (p x); [reflexivity | exact IH]. Qed.

Lemma typename_field_eq : typename_field = sp_typename.
Proof. reflexivity. Qed.

Lemma direct_fields_sp root fields name :
  direct_fields root = Some fields ->
  find (fun f => str_eqb (iname (fd_name f)) name) fields = sp_field root name.
Proof.
  intros H. unfold sp_field.
  assert (Hc : is_composite root = true) by (apply direct_fields_composite; eauto).
  rewrite Hc.
  assert (Ht : find (fun f => str_eqb (iname (fd_name f)) name) [typename_field]
               = if str_eqb name (s "__typename") then Some sp_typename else None).
  { cbn [find]. change (iname (fd_name typename_field)) with (s "__typename").
    rewrite (str_eqb_sym (s "__typename") name). destruct (str_eqb name (s "__typename")); reflexivity. }
  destruct root; cbn in H; try discriminate; injection H as <-; cbn [sp_fields].
  - rewrite find_app, Ht. reflexivity.
  - rewrite find_app, Ht. reflexivity.
  - rewrite Ht. reflexivity.
Qed.

Lemma wf_field_args_both S root fields tf :
  schema_wf S = true -> In (TSType root) S -> direct_fields root = Some fields -> In tf fields ->
  NoDup (def_names (fd_argdefs tf)) /\ forall d, In d (fd_argdefs tf) -> ty_wf (iv_type d) = true.
Proof.
  intros Hwf Hin Hd Htf. unfold schema_wf in Hwf.
  rewrite !andb_true_iff in Hwf. destruct Hwf as [[Hwf _] _]. rewrite forallb_forall in Hwf. specialize (Hwf _ Hin).
  assert (Ht : NoDup (def_names (fd_argdefs typename_field)) /\ forall d, In d (fd_argdefs typename_field) -> ty_wf (iv_type d) = true).
  { split; [constructor | intros d []]. }
  destruct root; cbn in Hd; try discriminate; injection Hd as <-; cbn beta iota in Hwf.
  - apply in_app_or in Htf as [Htf|[<-|[]]]; [|exact Ht].
    rewrite forallb_forall in Hwf. apply names_distinct_parts. exact (Hwf _ Htf).
  - apply in_app_or in Htf as [Htf|[<-|[]]]; [|exact Ht].
    rewrite forallb_forall in Hwf. apply names_distinct_parts. exact (Hwf _ Htf).
  - destruct Htf as [<-|[]]. exact Ht.
Qed.

Lemma wf_field_args S root fields tf :
  schema_wf S = true -> In (TSType root) S -> direct_fields root = Some fields -> In tf fields ->
  NoDup (def_names (fd_argdefs tf)).
Proof. intros Hwf Hin Hd Htf. apply (wf_field_args_both S root fields tf Hwf Hin Hd Htf). Qed.

(** * Possible types *)

Lemma possible_object_of_interface S d p o impls dirs fs kw i :
  In (TSType (TDObject d p o impls dirs fs kw)) S -> implements impls i = true ->
  forall d' p' n' impls' dirs' fs' kw', iname n' = i ->
  mem (iname o) (possible_types S (TDInterface d' p' n' impls' dirs' fs' kw')) = true.
Proof.
  intros Hin Himp d' p' n' impls' dirs' fs' kw' En. apply mem_In. cbn [possible_types].
  apply in_flat_map. eexists. split; [exact Hin|]. cbn.
  assert (Hm : mem (iname n') (names_of impls) = true).
  { rewrite En. clear -Himp. unfold implements in Himp. unfold names_of.
    induction impls as [|x l IH]; cbn [existsb map] in *; [discriminate|].
    rewrite mem_cons, (str_eqb_sym i). destruct (str_eqb (iname x) i); cbn [orb] in *; [reflexivity | apply IH, Himp]. }
  rewrite Hm. left. reflexivity.
Qed.

Lemma implements_mem l n : implements l n = true -> mem n (names_of l) = true.
Proof.
  unfold implements, names_of. induction l as [|x l IH]; cbn [existsb map]; [discriminate|].
  rewrite mem_cons, (str_eqb_sym n). destruct (str_eqb (iname x) n); cbn [orb]; [reflexivity | exact IH].
Qed.

Lemma overlap_intro a b x : mem x a = true -> mem x b = true -> overlap a b = true.
Proof.
  intros Ha Hb. unfold overlap. apply existsb_exists. exists x. split; [apply mem_In, Ha | exact Hb].
Qed.

Lemma some_member_implements_true S members i :
  some_member_implements S members i = ([], true) ->
  exists m d p o impls dirs fs kw,
    In m members /\ get_type S (iname m) = Some (TDObject d p o impls dirs fs kw) /\ implements impls i = true.
Proof.
  induction members as [|m r IH]; cbn [some_member_implements]; [discriminate|].
  destruct (get_type S (iname m)) as [t|] eqn:Eg.
  - destruct t; cbn [object_impls]; try discriminate.
    destruct (implements impls i) eqn:Ei.
    + intros _. do 8 eexists. split; [left; reflexivity|]. split; [exact Eg | exact Ei].
    + intros H. destruct (IH H) as [m' [d' [p' [o' [im [di [fs' [kw' [Hin Hr]]]]]]]]].
      do 8 eexists. split; [right; exact Hin | exact Hr].
  - discriminate.
Qed.

Lemma some_member_implements_false_errs S members i errs :
  some_member_implements S members i = (errs, false) -> errs = [].
Proof.
  revert errs. induction members as [|m r IH]; cbn [some_member_implements]; intros errs.
  - intros H. injection H as <-. reflexivity.
  - destruct (match get_type S (iname m) with Some t => object_impls t | None => None end).
    + destruct (implements l i); [discriminate | apply IH].
    + discriminate.
Qed.

(** the nine-way match: no error means the spread is possible, and the selection set is always checked next *)
Lemma spread_match_sound S pos root cond :
  In (TSType root) S -> In (TSType cond) S -> is_composite root = true ->
  fst (spread_match S pos root cond) = [] ->
  applies S root cond = true
  /\ snd (spread_match S pos root cond) = true.
Proof.
  intros Hr Hc Hcomp H. unfold applies, type_name. rewrite Hcomp. cbn [negb orb].
  destruct root as [d p n dirs kw|d p n impls dirs fs kw|d p n impls dirs fs kw|d p n dirs members kw
                   |d p n dirs vals kw|d p n dirs fields kw]; try discriminate Hcomp;
  destruct cond as [d' p' n' dirs' kw'|d' p' n' impls' dirs' fs' kw'|d' p' n' impls' dirs' fs' kw'|d' p' n' dirs' members' kw'
                   |d' p' n' dirs' vals' kw'|d' p' n' dirs' fields' kw'];
  cbn [is_composite negb orb spread_match fst snd type_name typedef_name] in *;
  try (split; reflexivity).
  - (* object / object *)
    destruct (str_eqb (iname n) (iname n')) eqn:E; [|discriminate]. split; reflexivity.
  - (* object / interface *)
    destruct (implements impls (iname n')) eqn:E; [|discriminate]. split; [|reflexivity].
    rewrite orb_true_iff. right. apply overlap_intro with (x := iname n); [cbn; rewrite str_eqb_refl; reflexivity|].
    eapply possible_object_of_interface; [eassumption | exact E | reflexivity].
  - (* object / union *)
    destruct (implements members' (iname n)) eqn:E; [|discriminate]. split; [|reflexivity].
    rewrite orb_true_iff. right. apply overlap_intro with (x := iname n); [cbn; rewrite str_eqb_refl; reflexivity|].
    cbn [possible_types]. apply implements_mem, E.
  - (* interface / object *)
    destruct (implements impls' (iname n)) eqn:E; [|discriminate]. split; [|reflexivity].
    rewrite orb_true_iff. right. apply overlap_intro with (x := iname n'); [|cbn; rewrite str_eqb_refl; reflexivity].
    eapply possible_object_of_interface; [eassumption | exact E | reflexivity].
  - (* interface / interface *)
    destruct (str_eqb (iname n) (iname n')) eqn:E; cbn [fst snd negb orb] in *; [split; reflexivity|].
    split; [|reflexivity].
    destruct (existsb _ (iter_types S)) eqn:Ex; [|discriminate].
    apply existsb_exists in Ex as [t [Hin Ht]]. apply iter_types_from_In in Hin.
    destruct t; cbn [object_impls] in Ht; try discriminate. apply andb_true_iff in Ht as [H1 H2].
    apply overlap_intro with (x := iname name).
    + eapply possible_object_of_interface; [exact Hin | exact H1 | reflexivity].
    + eapply possible_object_of_interface; [exact Hin | exact H2 | reflexivity].
  - (* interface / union *)
    destruct (some_member_implements S members' (iname n)) as [errs b] eqn:Es. cbn [fst snd] in H.
    apply app_nil_inv in H as [He Hb]. subst errs. destruct b; [|discriminate]. split; [|reflexivity].
    rewrite orb_true_iff. right.
    apply some_member_implements_true in Es as [m [dd [pp [o [im [di [ff [kk [Hin [Hg Hi]]]]]]]]]].
    pose proof (get_type_name _ _ _ Hg) as En. cbn in En.
    apply overlap_intro with (x := iname m).
    + rewrite <- En. eapply possible_object_of_interface; [apply (get_type_In _ _ _ Hg) | exact Hi | reflexivity].
    + cbn [possible_types]. apply mem_In. unfold names_of. apply in_map, Hin.
  - (* union / object *)
    destruct (implements members (iname n')) eqn:E; [|discriminate]. split; [|reflexivity].
    rewrite orb_true_iff. right. apply overlap_intro with (x := iname n'); [|cbn; rewrite str_eqb_refl; reflexivity].
    cbn [possible_types]. apply implements_mem, E.
  - (* union / interface *)
    destruct (some_member_implements S members (iname n')) as [errs b] eqn:Es. cbn [fst snd] in H.
    apply app_nil_inv in H as [He Hb]. subst errs. destruct b; [|discriminate]. split; [|reflexivity].
    rewrite orb_true_iff. right.
    apply some_member_implements_true in Es as [m [dd [pp [o [im [di [ff [kk [Hin [Hg Hi]]]]]]]]]].
    pose proof (get_type_name _ _ _ Hg) as En. cbn in En.
    apply overlap_intro with (x := iname m).
    + cbn [possible_types]. apply mem_In. unfold names_of. apply in_map, Hin.
    + rewrite <- En. eapply possible_object_of_interface; [apply (get_type_In _ _ _ Hg) | exact Hi | reflexivity].
  - (* union / union *)
    destruct (existsb _ members') eqn:Ex; [|discriminate]. split; [|reflexivity].
    rewrite orb_true_iff. right.
    apply existsb_exists in Ex as [x2 [Hin2 Hx]]. apply existsb_exists in Hx as [x1 [Hin1 He]].
    apply str_eqb_eq in He.
    apply overlap_intro with (x := iname x1); cbn [possible_types]; apply mem_In; unfold names_of.
    + apply in_map, Hin1.
    + rewrite He. apply in_map, Hin2.
Qed.

(** * The walk *)

Lemma find_rev_nodup {A} (f : A -> str) n (l : list A) :
  NoDup (map f l) -> find (fun x => str_eqb (f x) n) (rev l) = find (fun x => str_eqb (f x) n) l.
Proof.
  induction l as [|a l IH]; intros Hnd; [reflexivity|].
  inversion Hnd as [|? ? Ha Hl]; subst. cbn [rev find]. rewrite find_app, (IH Hl). cbn [find].
  destruct (str_eqb_spec (f a) n) as [E|E].
  - destruct (find (fun x => str_eqb (f x) n) l) as [x|] eqn:Ef; [|reflexivity].
    apply find_some in Ef as [Hin Hx]. apply str_eqb_eq in Hx. exfalso. apply Ha. rewrite E, <- Hx. apply in_map, Hin.
  - destruct (find (fun x => str_eqb (f x) n) l); reflexivity.
Qed.

Section Walk.
  Variable S : tsdoc.
  Variable D : opdoc.
  Variable vars : option vardefs.
  Hypothesis Hwf : schema_wf S = true.
  Hypothesis Hfrag_unique : nodup_str (map (fun f => iname (fr_name f)) (doc_fragdefs D)) = true.
  Hypothesis Hfrag_targets : forall f, In f (doc_fragdefs D) -> exists t, get_type S (iname (fr_cond f)) = Some t.

  Notation good := (site_good S D vars).
  Notation fm := (doc_frags D).

  Lemma frag_get_sp n : frag_get fm n = sp_frag D n.
  Proof.
    unfold frag_get, sp_frag. change (doc_frags D) with (doc_fragdefs D).
    apply (find_rev_nodup (fun f => iname (fr_name f))). apply nodup_str_NoDup, Hfrag_unique.
  Qed.

  Lemma check_selection_set_composite f seen root ss :
    check_selection_set f S fm vars seen root ss = [] -> is_composite root = true.
  Proof.
    destruct f; cbn [check_selection_set]; [discriminate|]. unfold check_selection_set_body.
    destruct (direct_fields root) as [fields|] eqn:E; [|discriminate].
    intros _. apply direct_fields_composite. eauto.
  Qed.

  Lemma field_site_good root fields name args tf tft (sel : option selset) :
    In (TSType root) S -> direct_fields root = Some fields ->
    find (fun f => str_eqb (iname (fd_name f)) (iname name)) fields = Some tf ->
    check_arguments S vars (ipos name) (iname name) str_field args (fd_argdefs tf) = [] ->
    get_type S (iname (ty_unwrapped (fd_type tf))) = Some tft ->
    is_composite tft = (match sel with Some _ => true | None => false end) ->
    good (StField (Some root) name args sel).
  Proof.
    intros Hin Hdf Hfind Hargs Ht Hleaf.
    assert (Hcomp : is_composite root = true) by (apply direct_fields_composite; eauto).
    pose proof (direct_fields_sp root fields (iname name) Hdf) as Hsp. rewrite Hfind in Hsp.
    destruct (wf_field_args_both S root fields tf Hwf Hin Hdf (proj1 (find_some _ _ Hfind))) as [Hnd Hty].
    destruct (check_arguments_sound S vars Hwf _ _ _ _ _ Hnd Hty Hargs) as [A1 [A2 [A3 A4]]].
    split; [|split].
    - intros r. destruct r; try reflexivity; cbn [site_ok arg_sites]; rewrite <- ?Hsp.
      + rewrite Hcomp. reflexivity.
      + rewrite Hcomp. rewrite <- get_type_sp, Ht. rewrite Hleaf. destruct sel; reflexivity.
      + cbn [forallb]. rewrite andb_true_r. exact A1.
      + cbn [forallb]. rewrite andb_true_r. exact A2.
      + cbn [forallb]. rewrite andb_true_r. exact A3.
    - cbn [site_var_uses]. rewrite <- Hsp. exact A4.
    - intros n. discriminate.
  Qed.

  Lemma walk : forall f seen root ss,
    In (TSType root) S ->
    check_selection_set f S fm vars seen root ss = [] ->
    forall fv, Forall good (flat_map (vsites_sel S (vis_enter fv S D seen) (Some root)) (selset_sels ss)).
  Proof.
    induction f as [|f IH]; intros seen root ss Hroot H fv; [discriminate|].
    cbn [check_selection_set] in H. unfold check_selection_set_body in H.
    destruct (direct_fields root) as [fields|] eqn:Edf; [|discriminate].
    assert (Hcomp : is_composite root = true) by (apply direct_fields_composite; eauto).
    apply Forall_flat_map. intros sel Hsel.
    pose proof (flat_map_nil _ _ H sel Hsel) as Hc. clear H Hsel.
    destruct sel as [alias name args dirs sub|p name dirs|p tc dirs sub].
    - (* field *)
      cbn [check_selection] in Hc. unfold check_selection_field in Hc.
      destruct (find (fun f0 => str_eqb (iname (fd_name f0)) (iname name)) fields) as [tf|] eqn:Ef; [|discriminate].
      apply app_nil_inv in Hc as [Hd Hc]. apply app_nil_inv in Hc as [Ha Hc].
      destruct (get_type S (iname (ty_unwrapped (fd_type tf)))) as [tft|] eqn:Et; [|discriminate].
      pose proof (direct_fields_sp root fields (iname name) Edf) as Hsp. rewrite Ef in Hsp.
      cbn [vsites_sel]. constructor; [|constructor].
      + apply (field_site_good root fields name args tf tft sub Hroot Edf Ef Ha Et).
        destruct sub as [ss'|].
        * apply (check_selection_set_composite _ _ _ _ Hc).
        * destruct (direct_fields tft) eqn:E; [discriminate|]. apply direct_fields_none, E.
      + apply (dirs_good S D vars Hwf). exact Hd.
      + destruct sub as [[q l]|]; [|constructor].
        assert (Hchild : child_type S (Some root) (iname name) = Some tft).
        { unfold child_type. rewrite <- Hsp, <- get_type_sp. exact Et. }
        rewrite Hchild. apply (IH seen tft (SelSet q l) (get_type_In _ _ _ Et) Hc fv).
    - (* fragment spread *)
      cbn [check_selection] in Hc. unfold check_fragment_spread in Hc.
      apply app_nil_inv in Hc as [Hd Hc].
      destruct (mem_str (iname name) seen) eqn:Es; [discriminate|].
      destruct (frag_get fm (iname name)) as [target|] eqn:Efg; [|discriminate].
      apply app_nil_inv in Hc as [Htd Hc].
      rewrite frag_get_sp in Efg.
      assert (Htin : In target (doc_fragdefs D)) by (apply (find_some _ _ Efg)).
      destruct (Hfrag_targets target Htin) as [cond Econd]. rewrite Econd in Hc.
      unfold check_fragment_spread_core in Hc. apply app_nil_inv in Hc as [Hm Hcont].
      destruct (spread_match_sound S p root cond Hroot (get_type_In _ _ _ Econd) Hcomp Hm) as [Happ Hsnd].
      rewrite Hsnd in Hcont.
      cbn [vsites_sel]. constructor; [|constructor].
      + split; [|split]; [|constructor|intros n; discriminate].
        intros r. destruct r; try reflexivity; cbn [site_ok]; rewrite Efg; [reflexivity|].
        rewrite <- get_type_sp, Econd. exact Happ.
      + apply (dirs_good S D vars Hwf). exact Hd.
      + destruct fv as [|k]; [constructor|]. cbn [vis_enter].
        rewrite <- mem_str_mem, Es, Efg. constructor.
        * apply (dirs_good S D vars Hwf). exact Htd.
        * rewrite <- get_type_sp, Econd.
          apply (IH _ cond (fr_sel target) (get_type_In _ _ _ Econd) Hcont k).
    - (* inline fragment *)
      cbn [check_selection] in Hc. unfold check_inline_fragment in Hc.
      apply app_nil_inv in Hc as [Hd Hc]. destruct sub as [q l].
      destruct tc as [c|]; cbn [vsites_sel].
      + destruct (get_type S (iname c)) as [cond|] eqn:Econd; [|discriminate].
        unfold check_fragment_spread_core in Hc. apply app_nil_inv in Hc as [Hm Hcont].
        destruct (spread_match_sound S p root cond Hroot (get_type_In _ _ _ Econd) Hcomp Hm) as [Happ Hsnd].
        rewrite Hsnd in Hcont. rewrite <- get_type_sp, Econd.
        constructor; [|constructor].
        * split; [|split]; [|constructor|intros n; discriminate].
          intros r. destruct r; try reflexivity; cbn [site_ok]; rewrite <- get_type_sp, Econd; [|exact Happ].
          apply (check_selection_set_composite _ _ _ _ Hcont).
        * apply (dirs_good S D vars Hwf). exact Hd.
        * apply (IH seen cond (SelSet q l) (get_type_In _ _ _ Econd) Hcont fv).
      + constructor.
        * apply (dirs_good S D vars Hwf). exact Hd.
        * apply (IH seen root (SelSet q l) Hroot Hc fv).
  Qed.
End Walk.
