(** C03 — proofs, part 8: every fragment definition is walked. With an empty error list, every fragment definition
    was entered — from an operation, from a never-spread fragment checked on its own, or as such a root itself — with
    its own type condition as parent type, so the site rules hold on *every* site of *every* definition; variable rules
    hold on what an operation reaches; the fragment graph has no cycle. *)
From V Require Import Base.Util Gql.Ast C03.Model C03.Spec C03.Witness C03.Proofs C03.Proofs2 C03.Proofs3 C03.Proofs4 C03.Proofs5
  C03.Proofs6 C03.Proofs7.

(** * The plain sites of a selection are among the sites the spread-following enumeration yields *)
Lemma sites_in_vsites S enter :
  forall x p y, In y (sites_sel S p x) -> In y (vsites_sel S enter p x).
Proof.
  apply (sel_ind'
    (fun x => forall p y, In y (sites_sel S p x) -> In y (vsites_sel S enter p x))
    (fun ss => forall p y, In y (flat_map (sites_sel S p) (selset_sels ss)) ->
                           In y (flat_map (vsites_sel S enter p) (selset_sels ss)))).
  - intros a n ar d sub IH p y Hy. cbn [sites_sel vsites_sel] in *.
    destruct Hy as [<-|[<-|Hy]]; [left; reflexivity | right; left; reflexivity|]. right. right.
    destruct sub as [[q l]|]; [|contradiction]. apply (IH (SelSet q l) eq_refl _ y Hy).
  - intros p0 n d p y Hy. cbn [sites_sel vsites_sel] in *.
    destruct Hy as [<-|[<-|[]]]; [left; reflexivity | right; left; reflexivity].
  - intros p0 c d ss IH p y Hy. destruct ss as [q l]. cbn [sites_sel vsites_sel] in *. destruct c as [c|].
    + destruct Hy as [<-|[<-|Hy]]; [left; reflexivity | right; left; reflexivity|]. right. right. apply (IH _ y Hy).
    + destruct Hy as [<-|Hy]; [left; reflexivity|]. right. apply (IH _ y Hy).
  - intros q l IH p y Hy. cbn [selset_sels] in *. apply in_flat_map in Hy as [x [Hx Hy]].
    apply in_flat_map. exists x. split; [exact Hx|]. rewrite Forall_forall in IH. apply (IH x Hx p y Hy).
Qed.

(** every spread written (at any depth) in a selection shows up as a spread site, followed by what entering yields *)
Lemma spread_in_vsites S enter :
  forall x p n, In n (spreads_sel x) ->
    exists p' n', iname n' = n /\ In (StSpread p' n') (vsites_sel S enter p x)
                  /\ forall y, In y (enter p' n') -> In y (vsites_sel S enter p x).
Proof.
  apply (sel_ind'
    (fun x => forall p n, In n (spreads_sel x) ->
       exists p' n', iname n' = n /\ In (StSpread p' n') (vsites_sel S enter p x)
                     /\ forall y, In y (enter p' n') -> In y (vsites_sel S enter p x))
    (fun ss => forall p n, In n (spreads_selset ss) ->
       exists p' n', iname n' = n /\ In (StSpread p' n') (flat_map (vsites_sel S enter p) (selset_sels ss))
                     /\ forall y, In y (enter p' n') -> In y (flat_map (vsites_sel S enter p) (selset_sels ss)))).
  - intros a n0 ar d sub IH p n Hn. cbn [spreads_sel] in Hn. destruct sub as [[q l]|]; [|contradiction].
    destruct (IH (SelSet q l) eq_refl (child_type S p (iname n0)) n Hn) as [p' [n' [E [H1 H2]]]].
    exists p', n'. cbn [vsites_sel]. split; [exact E|]. split; [right; right; exact H1 | intros y Hy; right; right; apply H2, Hy].
  - intros p0 n0 d p n Hn. cbn [spreads_sel] in Hn. destruct Hn as [<-|[]].
    exists p, n0. cbn [vsites_sel]. split; [reflexivity|]. split; [left; reflexivity | intros y Hy; right; right; exact Hy].
  - intros p0 c d ss IH p n Hn. destruct ss as [q l]. cbn [spreads_sel] in Hn. cbn [vsites_sel]. destruct c as [c|].
    + destruct (IH (sp_type S (iname c)) n Hn) as [p' [n' [E [H1 H2]]]].
      exists p', n'. split; [exact E|]. split; [right; right; exact H1 | intros y Hy; right; right; apply H2, Hy].
    + destruct (IH p n Hn) as [p' [n' [E [H1 H2]]]].
      exists p', n'. split; [exact E|]. split; [right; exact H1 | intros y Hy; right; apply H2, Hy].
  - intros q l IH p n Hn. unfold spreads_selset in Hn. cbn [selset_sels] in *. apply in_flat_map in Hn as [x [Hx Hn]].
    rewrite Forall_forall in IH. destruct (IH x Hx p n Hn) as [p' [n' [E [H1 H2]]]].
    exists p', n'. split; [exact E|]. split; [apply in_flat_map; eauto | intros y Hy; apply in_flat_map; eauto].
Qed.

(** * Reachability through spreads *)
Inductive reach (D : opdoc) (ss : selset) : str -> Prop :=
| reach_here n : In n (spreads_selset ss) -> reach D ss n
| reach_step m f n : reach D ss m -> sp_frag D m = Some f -> In n (spreads_selset (fr_sel f)) -> reach D ss n.

Lemma reach_mono D ss1 ss2 n :
  (forall x, In x (spreads_selset ss1) -> In x (spreads_selset ss2)) -> reach D ss1 n -> reach D ss2 n.
Proof. intros H R. induction R; [apply reach_here; auto | eapply reach_step; eauto]. Qed.

Lemma reach_trans D ss m f n : reach D ss m -> sp_frag D m = Some f -> reach D (fr_sel f) n -> reach D ss n.
Proof. intros R1 Hf R2. induction R2; [eapply reach_step; eauto | eapply reach_step; eauto]. Qed.

Lemma spread_in_vsites_set S enter ss p n : In n (spreads_selset ss) ->
  exists p' n', iname n' = n /\ In (StSpread p' n') (flat_map (vsites_sel S enter p) (selset_sels ss))
                /\ forall y, In y (enter p' n') -> In y (flat_map (vsites_sel S enter p) (selset_sels ss)).
Proof.
  unfold spreads_selset. intros Hn. apply in_flat_map in Hn as [x [Hx Hn]].
  destruct (spread_in_vsites S enter x p n Hn) as [p' [n' [E [H1 H2]]]].
  exists p', n'. split; [exact E|]. split; [apply in_flat_map; eauto | intros y Hy; apply in_flat_map; eauto].
Qed.

Lemma site_ok_vis_irrelevant S D r x : site_ok false S D r x = site_ok true S D r x.
Proof. destruct r; reflexivity. Qed.

Lemma sp_frag_In D n f : sp_frag D n = Some f -> In f (doc_fragdefs D) /\ iname (fr_name f) = n.
Proof.
  unfold sp_frag. intros H. apply find_some in H as [H1 H2]. split; [exact H1 | apply str_eqb_eq, H2].
Qed.

(** * Following spreads inside an enumeration all of whose sites are good *)
Section Follow.
  Variable S : tsdoc.
  Variable D : opdoc.
  Variable G : list site.
  Hypothesis HG : Forall (site_rules_good S D) G.

  Notation N := (length (doc_fragdefs D)).
  Notation fnames := (map (fun f => iname (fr_name f)) (doc_fragdefs D)).
  Notation FRAGDEF := (s "FRAGMENT_DEFINITION").

  (** a selection set whose enumeration, with enough fuel for what is not yet on the path, lies within [G] *)
  Definition cont (path : list str) (k : nat) (p : option typedef) (ss : selset) : Prop :=
    NoDup path /\ incl path fnames /\ N < k + length path
    /\ incl (flat_map (vsites_sel S (vis_enter k S D path) p) (selset_sels ss)) G.

  Lemma follow_one path k p ss n :
    cont path k p ss -> In n (spreads_selset ss) ->
    exists f, sp_frag D n = Some f /\ ~ In n path /\ In (StDirs FRAGDEF (fr_dirs f)) G
              /\ cont (path ++ [n]) (pred k) (sp_type S (iname (fr_cond f))) (fr_sel f).
  Proof.
    intros [Hnd [Hinc [Hk Hsub]]] Hn.
    destruct (spread_in_vsites_set S (vis_enter k S D path) ss p n Hn) as [p' [n' [E [H1 H2]]]].
    rewrite Forall_forall in HG.
    pose proof (proj1 (HG _ (Hsub _ H1)) R_spreads_defined) as Hdef. cbn in Hdef. rewrite E in Hdef.
    destruct (sp_frag D n) as [f|] eqn:Ef; [|discriminate]. exists f. split; [reflexivity|].
    destruct (sp_frag_In _ _ _ Ef) as [Hfin Hfn].
    assert (Hlen : length path <= N).
    { rewrite <- (map_length (fun f => iname (fr_name f)) (doc_fragdefs D)). apply NoDup_incl_length; assumption. }
    destruct k as [|k]; [lia|]. cbn [pred].
    assert (Hent : forall y, In y (vis_enter (Datatypes.S k) S D path p' n') -> In y G) by (intros y Hy; apply Hsub, H2, Hy).
    cbn [vis_enter] in Hent. rewrite E in Hent. destruct (mem n path) eqn:Em.
    { exfalso. apply (proj1 (proj2 (HG _ (Hent _ (or_introl eq_refl)))) n). reflexivity. }
    rewrite Ef in Hent.
    assert (Hnp : ~ In n path) by (intros Hc; apply mem_In in Hc; congruence).
    split; [exact Hnp|]. split; [apply Hent; left; reflexivity|].
    split; [apply NoDup_snoc'; assumption|]. split.
    { intros y Hy. apply in_app_or in Hy as [Hy|[<-|[]]]; [apply Hinc, Hy|]. rewrite <- Hfn. exact (in_map (fun f => iname (fr_name f)) _ _ Hfin). }
    split; [rewrite app_length; cbn; lia|].
    intros y Hy. apply Hent. right. exact Hy.
  Qed.

  (** everything reachable from a contained selection set is defined, off the path, and itself contained *)
  Lemma follow path k p ss n :
    cont path k p ss -> reach D ss n ->
    exists f path' k', sp_frag D n = Some f /\ ~ In n path /\ incl path path' /\ In n path'
                       /\ In (StDirs FRAGDEF (fr_dirs f)) G
                       /\ cont path' k' (sp_type S (iname (fr_cond f))) (fr_sel f).
  Proof.
    intros Hc R. induction R as [n Hn | m f n R IH Hf Hn].
    - destruct (follow_one _ _ _ _ _ Hc Hn) as [f [H1 [H2 [H3 H4]]]].
      exists f, (path ++ [n]), (pred k). repeat split; try assumption; try apply H4.
      + apply incl_appl, incl_refl.
      + apply in_or_app. right. left. reflexivity.
    - destruct IH as [f' [path' [k' [H1 [H2 [H3 [H4 [H5 H6]]]]]]]].
      rewrite Hf in H1. injection H1 as <-.
      destruct (follow_one _ _ _ _ _ H6 Hn) as [g [G1 [G2 [G3 G4]]]].
      exists g, (path' ++ [n]), (pred k'). repeat split; try assumption; try apply G4.
      + intros Hc'. apply G2, H3, Hc'.
      + intros y Hy. apply in_or_app. left. apply H3, Hy.
      + apply in_or_app. right. left. reflexivity.
  Qed.

  (** the plain sites of a contained fragment are in [G] *)
  Lemma cont_sites path k f :
    In (StDirs FRAGDEF (fr_dirs f)) G -> cont path k (sp_type S (iname (fr_cond f))) (fr_sel f) ->
    incl (frag_sites S f) G.
  Proof.
    intros Hd [_ [_ [_ Hsub]]] y Hy. unfold frag_sites in Hy. destruct Hy as [<-|Hy]; [exact Hd|].
    apply Hsub. unfold sites_selset in Hy. apply in_flat_map in Hy as [x [Hx Hy]].
    apply in_flat_map. exists x. split; [exact Hx|]. apply sites_in_vsites, Hy.
  Qed.

  (** a contained fragment with itself on the path reaches itself by no chain of spreads *)
  Lemma cont_no_cycle path k f :
    In (iname (fr_name f)) path -> cont path k (sp_type S (iname (fr_cond f))) (fr_sel f) ->
    ~ reach D (fr_sel f) (iname (fr_name f)).
  Proof.
    intros Hin Hc R. destruct (follow _ _ _ _ _ Hc R) as [g [path' [k' [_ [H2 _]]]]]. exact (H2 Hin).
  Qed.
End Follow.

(** * What collect_spread_fragments collects is reachable *)
Section Collect.
  Variable D : opdoc.
  Hypothesis Hfrag_unique : nodup_str (map (fun f => iname (fr_name f)) (doc_fragdefs D)) = true.
  Notation fm := (doc_frags D).

  Lemma frag_get_sp' n : frag_get fm n = sp_frag D n.
  Proof.
    unfold frag_get, sp_frag. change (doc_frags D) with (doc_fragdefs D).
    apply (find_rev_nodup (fun f => iname (fr_name f))). apply nodup_str_NoDup, Hfrag_unique.
  Qed.

  Lemma csf_sound : forall fuel ss acc n,
    In n (collect_spread_fragments fuel fm ss acc) -> In n acc \/ reach D ss n.
  Proof.
    induction fuel as [|f IH]; intros ss acc n H; [left; exact H|].
    cbn [collect_spread_fragments] in H.
    assert (Hl : forall x, In x (selset_sels ss) -> forall m, In m (spreads_sel x) -> In m (spreads_selset ss)).
    { intros x Hx m Hm. unfold spreads_selset. apply in_flat_map. eauto. }
    revert acc H Hl. generalize (selset_sels ss) as l. induction l as [|x l IHl]; intros acc H Hl; [left; exact H|].
    cbn [fold_left] in H. apply IHl in H; [|intros y Hy; apply Hl; right; exact Hy].
    destruct H as [H|H]; [|right; exact H].
    pose proof (Hl x (or_introl eq_refl)) as Hx.
    destruct x as [a nm ar d [sub|] | p nm d | p c d sub].
    - apply IH in H as [H|H]; [left; exact H|]. right. eapply reach_mono; [|exact H].
      intros m Hm. apply Hx. destruct sub as [q l']. exact Hm.
    - left. exact H.
    - destruct (mem_str (iname nm) acc); [left; exact H|].
      rewrite frag_get_sp' in H. destruct (sp_frag D (iname nm)) as [fr|] eqn:Ef.
      + apply IH in H as [H|H].
        * apply in_app_or in H as [H|[<-|[]]]; [left; exact H|]. right. apply reach_here, Hx. left. reflexivity.
        * right. eapply reach_trans; [apply reach_here, Hx; left; reflexivity | exact Ef | exact H].
      + apply in_app_or in H as [H|[<-|[]]]; [left; exact H|]. right. apply reach_here, Hx. left. reflexivity.
    - apply IH in H as [H|H]; [left; exact H|]. right. eapply reach_mono; [|exact H].
      intros m Hm. apply Hx. destruct sub as [q l']. exact Hm.
  Qed.

  (** everything the operations collected is reachable from an operation *)
  Lemma sbo_sound fuel : forall defs acc n,
    In n (fold_left (fun acc d => match d with DOp o => collect_spread_fragments fuel fm (op_sel o) acc | _ => acc end) defs acc) ->
    In n acc \/ exists o, In (DOp o) defs /\ reach D (op_sel o) n.
  Proof.
    induction defs as [|d r IH]; intros acc n H; [left; exact H|]. cbn [fold_left] in H.
    apply IH in H as [H|[o [Ho R]]]; [|right; exists o; split; [right; exact Ho | exact R]].
    destruct d as [o|fr|]; try (left; exact H).
    apply csf_sound in H as [H|H]; [left; exact H|]. right. exists o. split; [left; reflexivity | exact H].
  Qed.

  (** the closure of the reference fragment graph only contains reachable names *)
  Lemma add_new_In : forall l acc n, In n (add_new acc l) -> In n acc \/ In n l.
  Proof.
    unfold add_new. induction l as [|x l IH]; intros acc n H; [left; exact H|]. cbn [fold_left] in H.
    apply IH in H as [H|H]; [|right; right; exact H].
    destruct (mem x acc); [left; exact H|]. apply in_app_or in H as [H|[<-|[]]]; [left; exact H | right; left; reflexivity].
  Qed.

  Lemma closure_reach ss : forall k names n,
    (forall m, In m names -> reach D ss m) -> In n (closure k D names) -> reach D ss n.
  Proof.
    induction k as [|k IH]; intros names n Hnames H; [apply Hnames, H|].
    cbn [closure] in H. eapply IH; [|exact H]. intros m Hm.
    apply add_new_In in Hm as [Hm|Hm]; [apply Hnames, Hm|].
    apply in_flat_map in Hm as [x [Hx Hm]]. destruct (sp_frag D x) as [f|] eqn:Ef; [|contradiction].
    eapply reach_step; [apply Hnames, Hx | exact Ef | exact Hm].
  Qed.

  Lemma reachable_from_reach ss n : In n (reachable_from D ss) -> reach D ss n.
  Proof.
    unfold reachable_from. apply closure_reach. intros m Hm.
    apply add_new_In in Hm as [[]|Hm]. apply reach_here, Hm.
  Qed.
End Collect.

Lemma find_key_self {A} (key : A -> str) : forall (l : list A) x,
  NoDup (map key l) -> In x l -> find (fun y => str_eqb (key y) (key x)) l = Some x.
Proof.
  induction l as [|a l IH]; intros x Hnd Hin; [contradiction|]. cbn [find]. cbn [map] in Hnd.
  apply NoDup_cons_iff in Hnd as [Hna Hnd]. destruct Hin as [->|Hin]; [rewrite str_eqb_refl; reflexivity|].
  destruct (str_eqb (key a) (key x)) eqn:E; [|apply IH; assumption].
  apply str_eqb_eq in E. exfalso. apply Hna. rewrite E. apply in_map, Hin.
Qed.

(** * Every fragment definition of an accepted document was walked *)
Section Full.
  Variable S : tsdoc.
  Variable D : opdoc.
  Hypothesis Hwf : schema_wf S = true.
  Hypothesis Hcheck : check_operation_document S D = [].

  Notation good := (site_rules_good S D).
  Notation N := (length (doc_fragdefs D)).
  Notation FRAGDEF := (s "FRAGMENT_DEFINITION").
  Notation fm := (doc_frags D).
  Let Hu := frag_unique S D Hcheck.
  Let Ht := frag_targets S D Hcheck.

  (** [f]'s own directives and selection set, entered with [f] on the path and enough fuel, are part of an
      enumeration all of whose sites are good *)
  Definition walked (f : fragdef) : Prop :=
    exists G path k, Forall good G /\ In (iname (fr_name f)) path /\ In (StDirs FRAGDEF (fr_dirs f)) G
                     /\ cont S D G path k (sp_type S (iname (fr_cond f))) (fr_sel f).

  Lemma walked_reach f n g : walked f -> reach D (fr_sel f) n -> sp_frag D n = Some g -> walked g.
  Proof.
    intros [G [path [k [HG [_ [_ Hc]]]]]] R Hg.
    destruct (follow S D G HG _ _ _ _ _ Hc R) as [g' [path' [k' [E [_ [_ [Hin [Hd Hc']]]]]]]].
    rewrite Hg in E. injection E as <-. exists G, path', k'. repeat split; try assumption; try apply Hc'.
    destruct (sp_frag_In _ _ _ Hg) as [_ ->]. exact Hin.
  Qed.

  Lemma walked_good f : walked f -> Forall good (frag_sites S f).
  Proof.
    intros [G [path [k [HG [_ [Hd Hc]]]]]]. rewrite Forall_forall in *. intros y Hy.
    apply HG. exact (cont_sites S D G _ _ _ Hd Hc y Hy).
  Qed.

  Lemma walked_no_cycle f : walked f -> ~ reach D (fr_sel f) (iname (fr_name f)).
  Proof. intros [G [path [k [HG [Hin [_ Hc]]]]]]. exact (cont_no_cycle S D G HG _ _ _ Hin Hc). Qed.

  Theorem vis_sites_rules_good o : In o (doc_ops D) -> Forall good (vis_op_sites S D o).
  Proof.
    intros Hin. pose proof (op_checked S D o Hcheck Hin) as Hc.
    destruct (check_operation_sound _ _ _ _ Hwf Hc) as [root [Hroot [Hrin [Hd Hs]]]].
    unfold vis_op_sites. constructor.
    - apply (dirs_quiet S D (op_vars o) Hwf). apply quiet_of_nil. exact Hd.
    - rewrite Hroot. apply (walk_quiet S D (op_vars o) Hwf Hu Ht _ _ _ _ Hrin (quiet_of_nil _ Hs)).
  Qed.

  (** what an operation reaches *)
  Lemma op_cont o :
    cont S D (vis_op_sites S D o) [] (Datatypes.S N) (sp_root S (op_type o)) (op_sel o).
  Proof.
    split; [constructor|]. split; [intros y []|]. split; [cbn; lia|].
    intros y Hy. unfold vis_op_sites. right. exact Hy.
  Qed.

  Lemma op_reach_walked o n g : In o (doc_ops D) -> reach D (op_sel o) n -> sp_frag D n = Some g -> walked g.
  Proof.
    intros Ho R Hg.
    pose proof (vis_sites_rules_good o Ho) as HG.
    destruct (follow S D _ HG _ _ _ _ _ (op_cont o) R) as [g' [path' [k' [E [_ [_ [Hin [Hd Hc']]]]]]]].
    rewrite Hg in E. injection E as <-. exists (vis_op_sites S D o), path', k'. repeat split; try assumption; try apply Hc'.
    destruct (sp_frag_In _ _ _ Hg) as [_ ->]. exact Hin.
  Qed.

  (** a fragment checked on its own *)
  Lemma root_walked fuel f :
    In f (doc_fragdefs D) -> check_unspread_fragment fuel S fm f = [] -> walked f.
  Proof.
    intros Hin H. unfold check_unspread_fragment in H. fold nuv in H.
    change (quiet (check_directives S None str_FRAGMENT_DEFINITION (fr_dirs f)
      ++ match get_type S (iname (fr_cond f)) with
         | Some t => match t with
                     | TDObject _ _ _ _ _ _ _ | TDInterface _ _ _ _ _ _ _ | TDUnion _ _ _ _ _ _ =>
                         check_selection_set fuel S fm None [iname (fr_name f)] t (fr_sel f)
                     | _ => [] end
         | None => [] end)) in H.
    apply quiet_app in H as [Hd Hs].
    pose proof (frag_checked S D f Hcheck Hin) as Hc. unfold check_fragment_definition in Hc.
    destruct (get_type S (iname (fr_cond f))) as [t|] eqn:Et; [|discriminate].
    assert (Hq : quiet (check_selection_set fuel S fm None [iname (fr_name f)] t (fr_sel f)))
      by (destruct t; try discriminate Hc; exact Hs).
    pose proof (walk_quiet S D None Hwf Hu Ht fuel [iname (fr_name f)] t (fr_sel f) (get_type_In _ _ _ Et) Hq (Datatypes.S N)) as Hw.
    pose proof (dirs_quiet S D None Hwf _ _ Hd) as Hdg.
    exists (StDirs FRAGDEF (fr_dirs f) :: flat_map (vsites_sel S (vis_enter (Datatypes.S N) S D [iname (fr_name f)]) (Some t)) (selset_sels (fr_sel f))),
      [iname (fr_name f)], (Datatypes.S N).
    split; [constructor; [exact Hdg | exact Hw]|]. split; [left; reflexivity|]. split; [left; reflexivity|].
    split; [constructor; [intros []|constructor]|]. split.
    { intros y [<-|[]]. exact (in_map (fun f => iname (fr_name f)) _ _ Hin). }
    split; [cbn; lia|]. rewrite <- get_type_sp, Et. intros y Hy. right. exact Hy.
  Qed.

  Lemma sp_frag_self f : In f (doc_fragdefs D) -> sp_frag D (iname (fr_name f)) = Some f.
  Proof.
    intros Hin. unfold sp_frag.
    apply (find_key_self (fun f => iname (fr_name f))); [apply nodup_str_NoDup, Hu | exact Hin].
  Qed.

  Lemma frag_def_In f : In (DFrag f) (od_defs D) <-> In f (doc_fragdefs D).
  Proof.
    unfold doc_fragdefs. rewrite in_flat_map. split.
    - intros H. exists (DFrag f). split; [exact H | left; reflexivity].
    - intros [d [Hd Hf]]. destruct d; try contradiction. destruct Hf as [<-|[]]. exact Hd.
  Qed.

  Lemma op_def_In o : In (DOp o) (od_defs D) -> In o (doc_ops D).
  Proof. intros H. unfold doc_ops. apply in_flat_map. exists (DOp o). split; [exact H | left; reflexivity]. Qed.

  (** the pass over the never-spread fragments: [spread] only ever holds names of walked fragments *)
  Lemma unspread_walked fuel : forall defs spread,
    (forall f, In (DFrag f) defs -> In f (doc_fragdefs D)) ->
    (forall n, In n spread -> forall g, sp_frag D n = Some g -> walked g) ->
    check_unspread fuel S fm spread defs = [] ->
    forall f, In (DFrag f) defs -> walked f.
  Proof.
    induction defs as [|d r IH]; intros spread Hdefs Hinv H f Hf; [contradiction|].
    assert (Hr : forall f, In (DFrag f) r -> In f (doc_fragdefs D)) by (intros g Hg; apply Hdefs; right; exact Hg).
    destruct d as [o|g|i].
    - cbn [check_unspread] in H. destruct Hf as [Hf|Hf]; [discriminate Hf|]. exact (IH spread Hr Hinv H f Hf).
    - cbn [check_unspread] in H. pose proof (Hdefs g (or_introl eq_refl)) as Hg.
      rewrite mem_str_mem in H. destruct (mem (iname (fr_name g)) spread) eqn:Em.
      + destruct Hf as [Hf|Hf]; [|exact (IH spread Hr Hinv H f Hf)]. injection Hf as <-.
        apply mem_In in Em. exact (Hinv _ Em g (sp_frag_self g Hg)).
      + apply app_eq_nil in H as [H1 H2]. pose proof (root_walked fuel g Hg H1) as Hwg.
        destruct Hf as [Hf|Hf]; [injection Hf as <-; exact Hwg|].
        refine (IH _ Hr _ H2 f Hf). intros n Hn h Hh.
        apply (csf_sound D Hu) in Hn as [Hn|Hn].
        * apply in_app_or in Hn as [Hn|[<-|[]]]; [exact (Hinv n Hn h Hh)|].
          rewrite (sp_frag_self g Hg) in Hh. injection Hh as <-. exact Hwg.
        * exact (walked_reach g n h Hwg Hn Hh).
    - cbn [check_unspread] in H. destruct Hf as [Hf|Hf]; [discriminate Hf|]. exact (IH spread Hr Hinv H f Hf).
  Qed.

  Theorem all_walked f : In f (doc_fragdefs D) -> walked f.
  Proof.
    intros Hin. pose proof Hcheck as H. unfold check_operation_document, check_operation_document_fuel in H.
    apply app_eq_nil in H as [_ H].
    refine (unspread_walked _ _ _ _ _ H f (proj2 (frag_def_In f) Hin)).
    - intros g Hg. apply frag_def_In, Hg.
    - intros n Hn g Hg. unfold spread_by_operations in Hn.
      apply (sbo_sound D Hu) in Hn as [[]|[o [Ho R]]]. exact (op_reach_walked o n g (op_def_In o Ho) R Hg).
  Qed.

  (** ** Consequences *)
  Theorem frag_sites_good f : In f (doc_fragdefs D) -> Forall good (frag_sites S f).
  Proof. intros Hin. apply walked_good, all_walked, Hin. Qed.

  Theorem no_cycles_sound : no_cycles_ok D = true.
  Proof.
    unfold no_cycles_ok. apply forallb_forall. intros f Hin.
    destruct (mem (iname (fr_name f)) (reachable_from D (fr_sel f))) eqn:Em; [|reflexivity].
    exfalso. apply mem_In in Em. apply (reachable_from_reach D) in Em.
    exact (walked_no_cycle f (all_walked f Hin) Em).
  Qed.
End Full.

(** * The rules on every position *)
Section FullRules.
  Variable S : tsdoc.
  Variable D : opdoc.
  Hypothesis Hwf : schema_wf S = true.
  Hypothesis Hcheck : check_operation_document S D = [].

  Notation good := (site_rules_good S D).

  Lemma op_sites_vis o : incl (op_sites S o) (vis_op_sites S D o).
  Proof.
    intros y [<-|Hy]; [left; reflexivity|]. right. unfold sites_selset in Hy.
    apply in_flat_map in Hy as [x [Hx Hy]]. apply in_flat_map. exists x. split; [exact Hx | apply sites_in_vsites, Hy].
  Qed.

  (** the scope of an operation's variables — the operation and the fragment definitions it transitively spreads —
      lies within the sites reached by following spreads from the operation *)
  Lemma op_scope_vis o : In o (doc_ops D) -> incl (op_scope_sites S D o) (vis_op_sites S D o).
  Proof.
    intros Ho y Hy. unfold op_scope_sites in Hy. apply in_app_or in Hy as [Hy|Hy]; [apply op_sites_vis, Hy|].
    apply in_flat_map in Hy as [f [Hf Hy]]. unfold reachable_frags in Hf.
    apply in_flat_map in Hf as [n [Hn Hf]]. destruct (sp_frag D n) as [f'|] eqn:Ef; [|contradiction].
    destruct Hf as [<-|[]]. apply (reachable_from_reach D) in Hn.
    pose proof (vis_sites_rules_good S D Hwf Hcheck o Ho) as HG.
    destruct (follow S D _ HG _ _ _ _ _ (op_cont S D o) Hn) as [g [path' [k' [E [_ [_ [_ [Hd Hc]]]]]]]].
    rewrite Ef in E. injection E as <-.
    exact (cont_sites S D _ _ _ _ Hd Hc y Hy).
  Qed.

  Theorem all_sites_good x : In x (all_sites S D) -> forall r, site_ok false S D r x = true.
  Proof.
    intros Hx r. rewrite site_ok_vis_irrelevant. unfold all_sites in Hx. apply in_app_or in Hx as [Hx|Hx].
    - apply in_flat_map in Hx as [o [Ho Hx]]. apply in_app_or in Hx as [Hx|Hx].
      + pose proof (vis_sites_rules_good S D Hwf Hcheck o Ho) as G. rewrite Forall_forall in G.
        apply (proj1 (G x (op_sites_vis o x Hx))).
      + pose proof (const_sites_good S D Hwf Hcheck o Ho) as G. rewrite Forall_forall in G. apply (proj1 (G x Hx)).
    - apply in_flat_map in Hx as [f [Hf Hx]].
      pose proof (frag_sites_good S D Hwf Hcheck f Hf) as G. rewrite Forall_forall in G. apply (proj1 (G x Hx)).
  Qed.

  (** every variable written anywhere in the scope of an operation *)
  Lemma scope_uses o x : In o (doc_ops D) -> In x (op_scope_sites S D o) ->
    Forall (use_ok (op_vars o)) (site_var_uses true S x).
  Proof.
    intros Ho Hx. apply (op_scope_vis o Ho) in Hx.
    pose proof (vis_sites_rules_good S D Hwf Hcheck o Ho) as G1. rewrite Forall_forall in G1.
    pose proof (vis_sites_good S D Hwf Hcheck o Ho) as G2. rewrite Forall_forall in G2.
    rewrite (proj2 (proj2 (G1 x Hx))). apply (proj1 (proj2 (G2 x Hx))).
  Qed.

  Lemma const_uses o x : In o (doc_ops D) -> In x (op_const_sites o) -> site_var_uses true S x = [].
  Proof.
    intros Ho Hx. unfold op_const_sites in Hx. apply in_map_iff in Hx as [v [<- Hv]].
    pose proof (proj1 (proj2 (op_variables_checked S D o Hcheck Ho) v Hv)) as Hc.
    pose proof (dirs_quiet S D None Hwf (s "VARIABLE_DEFINITION") (vd_dirs v) (quiet_of_nil _ Hc)) as [_ [_ E]]. rewrite E.
    pose proof (dirs_good S D None Hwf (s "VARIABLE_DEFINITION") (vd_dirs v) Hc) as [_ [Gu _]].
    destruct (site_var_uses false S _) as [|u us]; [reflexivity|].
    inversion Gu as [|? ? Hu _]; subst. exfalso. apply (use_ok_none u Hu).
  Qed.

  Theorem sound_full : selsets_nonempty D = true -> forall r, rule_ok S D r = true.
  Proof.
    intros Hne r.
    assert (Hsites : forall r', forallb (site_ok false S D r') (all_sites S D) = true).
    { intros r'. apply forallb_forall. intros x Hx. apply all_sites_good, Hx. }
    destruct r; cbn [rule_ok]; try apply Hsites.
    - apply (unique_op_names_sound S D Hcheck).
    - apply (lone_anonymous_sound S D Hcheck).
    - apply (single_subscription_root_sound S D Hne Hcheck).
    - apply (unique_vars_sound S D Hcheck).
    - apply (vars_input_types_sound S D Hcheck).
    - (* every variable used is defined, wherever it is written *)
      apply forallb_forall. intros o Ho. unfold op_vars_defined, vars_defined_on. rewrite andb_true_iff. split.
      + apply forallb_forall. intros x Hx. apply forallb_forall. intros u Hu.
        pose proof (scope_uses o x Ho Hx) as Gu. rewrite Forall_forall in Gu. destruct (Gu u Hu) as [vd [Hvd _]].
        rewrite find_var_eq, Hvd. reflexivity.
      + apply forallb_forall. intros x Hx. rewrite (const_uses o x Ho Hx). reflexivity.
    - (* every variable use is allowed at its position *)
      apply forallb_forall. intros o Ho. unfold op_var_usage_ok, var_usage_on.
      apply forallb_forall. intros x Hx. apply forallb_forall. intros u Hu.
      pose proof (scope_uses o x Ho Hx) as Gu. rewrite Forall_forall in Gu. destruct (Gu u Hu) as [vd [Hvd Hallowed]].
      rewrite find_var_eq, Hvd. destruct (u_type u) as [t|] eqn:Et; [|reflexivity]. apply Hallowed. reflexivity.
    - apply (unique_fragments_sound S D Hcheck).
    - rewrite andb_true_iff. split; [apply (fragment_definition_targets_sound S D Hcheck) | apply Hsites].
    - apply (no_cycles_sound S D Hwf Hcheck).
  Qed.

  Corollary sound_full_valid : selsets_nonempty D = true -> spec_valid S D = true.
  Proof. intros Hne. unfold spec_valid. apply forallb_forall. intros r _. apply sound_full, Hne. Qed.
End FullRules.

(** * The exception, explicitly: a fragment definition's variables are judged in the scope of every operation that
    reaches it — and only there *)
Definition reached_from (D : opdoc) (o : opdef) (f : fragdef) : bool :=
  mem (iname (fr_name f)) (reachable_from D (op_sel o)).

Theorem fragment_variables_sound S D :
  schema_wf S = true -> check_operation_document S D = [] ->
  forall o f, In o (doc_ops D) -> In f (doc_fragdefs D) -> reached_from D o f = true ->
  forall x, In x (frag_sites S f) ->
  forallb (fun u => match find_var o (u_name u), u_type u with
                    | Some vd, Some t => variable_usage_allowed vd t (u_loc_default u)
                    | Some _, None => true
                    | None, _ => false
                    end) (site_var_uses true S x) = true.
Proof.
  intros Hwf Hcheck o f Ho Hf Hr x Hx.
  assert (Hsc : In x (op_scope_sites S D o)).
  { unfold op_scope_sites. apply in_or_app. right. apply in_flat_map. exists f. split; [|exact Hx].
    unfold reachable_frags. apply in_flat_map. exists (iname (fr_name f)). split; [apply mem_In, Hr|].
    rewrite (sp_frag_self S D Hcheck f Hf). left. reflexivity. }
  pose proof (scope_uses S D Hwf Hcheck o x Ho Hsc) as Gu. rewrite Forall_forall in Gu.
  apply forallb_forall. intros u Hu. destruct (Gu u Hu) as [vd [Hvd Hallowed]].
  rewrite find_var_eq, Hvd. destruct (u_type u) as [t|]; [apply Hallowed; reflexivity | reflexivity].
Qed.

(** * What the type printer relies on (C08): in an accepted document every selected field exists on its (composite)
    parent type, every spread names a defined fragment, every type condition names a composite type — in every
    definition, operations and fragment definitions alike *)
Definition site_resolved (S : tsdoc) (D : opdoc) (x : site) : Prop :=
  match x with
  | StField (Some p) name _ _ => is_composite p = true /\ exists f, sp_field p (iname name) = Some f
  | StSpread _ n =>
      exists f, sp_frag D (iname n) = Some f
                /\ exists t, sp_type S (iname (fr_cond f)) = Some t /\ is_composite t = true
  | StInline _ c => exists t, sp_type S (iname c) = Some t /\ is_composite t = true
  | _ => True
  end.

Theorem accepted_fields_and_fragments_defined S D :
  schema_wf S = true -> check_operation_document S D = [] ->
  Forall (site_resolved S D) (all_sites S D).
Proof.
  intros Hwf Hcheck. apply Forall_forall. intros x Hx.
  pose proof (all_sites_good S D Hwf Hcheck x Hx) as G.
  destruct x as [[p|] name args sel|p n|p c|loc ds|n]; cbn [site_resolved]; try exact I.
  - pose proof (G R_leaf_vs_composite) as H1. pose proof (G R_fields_exist) as H2. cbn [site_ok] in H1, H2.
    destruct (is_composite p); [|discriminate H1]. split; [reflexivity|].
    cbn [negb orb] in H2. destruct (sp_field p (iname name)) as [f|]; [eauto | discriminate H2].
  - pose proof (G R_spreads_defined) as H1. cbn [site_ok] in H1.
    destruct (sp_frag D (iname n)) as [f|] eqn:Ef; [|discriminate H1]. exists f. split; [reflexivity|].
    destruct (sp_frag_In _ _ _ Ef) as [Hf _].
    pose proof (fragment_definition_targets_sound S D Hcheck) as Ht. rewrite forallb_forall in Ht. specialize (Ht f Hf).
    destruct (sp_type S (iname (fr_cond f))) as [t|]; [eauto | discriminate Ht].
  - pose proof (G R_fragment_targets) as H1. cbn [site_ok] in H1.
    destruct (sp_type S (iname c)) as [t|]; [eauto | discriminate H1].
Qed.

(** * Non-vacuity and the exception at work: document 26 of the corpus is accepted; three of its fragment definitions
    (U, V, W) are reached by no operation; U uses two variables no operation declares *)
Definition uses_undeclared_variable (S : tsdoc) (D : opdoc) (f : fragdef) : bool :=
  existsb (fun x => existsb (fun u => forallb (fun o => match find_var o (u_name u) with None => true | Some _ => false end)
                                              (doc_ops D))
                            (site_var_uses true S x)) (frag_sites S f).

Lemma sound_full_instance :
  schema_wf w_schema_0 = true /\ selsets_nonempty w_doc_26 = true
  /\ check_operation_document w_schema_0 w_doc_26 = []
  /\ map (fun f => (existsb (fun o => reached_from w_doc_26 o f) (doc_ops w_doc_26), uses_undeclared_variable w_schema_0 w_doc_26 f))
         (doc_fragdefs w_doc_26)
     = [(true, false); (true, false); (false, true); (false, false); (false, false)]
  /\ spec_valid w_schema_0 w_doc_26 = true.
Proof. vm_compute. repeat split. Qed.
