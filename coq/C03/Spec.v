(** C03/C04 — reference validator, written from the GraphQL specification (October 2021, section 5)
    for exactly the rules the property text lists. It does not use the model. Each rule quantifies over
    *every* syntactic position of the document: operations and all fragment definitions (spread or not),
    inline fragments with and without type condition, directive arguments, nested list / input-object
    literals.

    The document is first flattened into *sites* (a selection or a directive list together with the type
    context the specification assigns to it); every rule is a boolean predicate over sites.
    Rules whose scope is an operation with the fragments it transitively spreads (the variable rules) use
    the sites of the operation plus those of the reachable fragment definitions.

    Definitions only. *)
From V Require Import Base.Util Gql.Ast.

Inductive rule :=
| R_unique_op_names | R_lone_anonymous | R_single_subscription_root
| R_fields_exist | R_leaf_vs_composite
| R_args_defined | R_required_args | R_literal_types
| R_unique_vars | R_vars_input_types | R_vars_defined | R_var_usage_compatible
| R_unique_fragments | R_fragment_targets | R_spreads_defined | R_no_cycles | R_spread_possible
| R_directives_defined | R_directives_location | R_directives_unique.

Definition all_rules : list rule :=
  [R_unique_op_names; R_lone_anonymous; R_single_subscription_root; R_fields_exist; R_leaf_vs_composite;
   R_args_defined; R_required_args; R_literal_types; R_unique_vars; R_vars_input_types; R_vars_defined;
   R_var_usage_compatible; R_unique_fragments; R_fragment_targets; R_spreads_defined; R_no_cycles;
   R_spread_possible; R_directives_defined; R_directives_location; R_directives_unique].

(** * Schema access (spec section 3); the schema is assumed valid, so names are unique *)

Definition sp_type (S : tsdoc) (n : str) : option typedef :=
  match find (fun d => match d with TSType t => str_eqb (iname (typedef_name t)) n | _ => false end) S with
  | Some (TSType t) => Some t
  | _ => None
  end.
Definition sp_directive (S : tsdoc) (n : str) : option directivedef :=
  match find (fun d => match d with TSDirective t => str_eqb (iname (dd_name t)) n | _ => false end) S with
  | Some (TSDirective t) => Some t
  | _ => None
  end.

Definition sp_schema_def (S : tsdoc) : option schemadef :=
  match find (fun d => match d with TSSchema _ => true | _ => false end) S with
  | Some (TSSchema sd) => Some sd
  | _ => None
  end.

(** root operation type (3.3.1): named by the schema definition, or the default name when the schema
    definition is omitted *)
Definition sp_root (S : tsdoc) (o : optype) : option typedef :=
  match sp_schema_def S with
  | Some sd =>
      match find (fun p => optype_eqb (fst p) o) (rev (sd_ops sd)) with
      | Some p => sp_type S (iname (snd p))
      | None => None
      end
  | None => sp_type S (s match o with Query => "Query" | Mutation => "Mutation" | Subscription => "Subscription" end)
  end.

Definition is_composite (t : typedef) : bool :=
  match t with TDObject _ _ _ _ _ _ _ | TDInterface _ _ _ _ _ _ _ | TDUnion _ _ _ _ _ _ => true | _ => false end.
Definition is_input_type (t : typedef) : bool :=
  match t with TDScalar _ _ _ _ _ | TDEnum _ _ _ _ _ _ | TDInput _ _ _ _ _ _ => true | _ => false end.

Definition sp_fields (t : typedef) : list fielddef :=
  match t with
  | TDObject _ _ _ _ _ fs _ | TDInterface _ _ _ _ _ fs _ => fs
  | _ => []
  end.

(** __typename : String! is selectable on every composite type (4.2) *)
Definition sp_typename : fielddef :=
  mkFieldDef None (mkId (s "__typename") pos0) None (TNonNull (TNamed (mkId (s "String") pos0))) [].

Definition sp_field (t : typedef) (n : str) : option fielddef :=
  if is_composite t then
    match find (fun f => str_eqb (iname (fd_name f)) n) (sp_fields t) with
    | Some f => Some f
    | None => if str_eqb n (s "__typename") then Some sp_typename else None
    end
  else None.

Definition names_of (l : list ident) : list str := map iname l.
Definition mem (x : str) (l : list str) : bool := existsb (str_eqb x) l.

(** GetPossibleTypes (5.5.2.3) *)
Definition possible_types (S : tsdoc) (t : typedef) : list str :=
  match t with
  | TDObject _ _ n _ _ _ _ => [iname n]
  | TDUnion _ _ _ _ members _ => names_of members
  | TDInterface _ _ n _ _ _ _ =>
      flat_map (fun d => match d with
                         | TSType (TDObject _ _ o impls _ _ _) => if mem (iname n) (names_of impls) then [iname o] else []
                         | _ => []
                         end) S
  | _ => []
  end.

Fixpoint nodup_str (l : list str) : bool :=
  match l with [] => true | x :: r => negb (mem x r) && nodup_str r end.

(** * Sites *)

Inductive site :=
| StField (parent : option typedef) (name : ident) (args : option arguments) (sel : option selset)
| StSpread (parent : option typedef) (name : ident)
| StInline (parent : option typedef) (cond : ident)
| StDirs (loc : str) (ds : list directive)
| StCycle (name : str).      (* only produced by the spread-following enumeration below *)

Definition child_type (S : tsdoc) (parent : option typedef) (name : str) : option typedef :=
  match parent with
  | None => None
  | Some p => match sp_field p name with
              | Some f => sp_type S (iname (ty_unwrapped (fd_type f)))
              | None => None
              end
  end.

Fixpoint sites_sel (S : tsdoc) (parent : option typedef) (x : selection) : list site :=
  match x with
  | SField _ name args dirs sel =>
      StField parent name args sel :: StDirs (s "FIELD") dirs ::
      match sel with
      | None => []
      | Some (SelSet _ l) => flat_map (sites_sel S (child_type S parent (iname name))) l
      end
  | SSpread _ name dirs => [StSpread parent name; StDirs (s "FRAGMENT_SPREAD") dirs]
  | SInline _ cond dirs (SelSet _ l) =>
      match cond with
      | None => StDirs (s "INLINE_FRAGMENT") dirs :: flat_map (sites_sel S parent) l
      | Some c => StInline parent c :: StDirs (s "INLINE_FRAGMENT") dirs :: flat_map (sites_sel S (sp_type S (iname c))) l
      end
  end.
Definition sites_selset (S : tsdoc) (parent : option typedef) (ss : selset) : list site :=
  flat_map (sites_sel S parent) (selset_sels ss).

Definition op_loc (o : optype) : str :=
  s match o with Query => "QUERY" | Mutation => "MUTATION" | Subscription => "SUBSCRIPTION" end.

Definition op_vardefs (o : opdef) : list vardef := match op_vars o with Some v => vds_list v | None => [] end.

(** sites of an operation whose variables are those of the operation *)
Definition op_sites (S : tsdoc) (o : opdef) : list site :=
  StDirs (op_loc (op_type o)) (op_dirs o) :: sites_selset S (sp_root S (op_type o)) (op_sel o).
(** directives of variable definitions are constant: no variable is in scope there *)
Definition op_const_sites (o : opdef) : list site :=
  map (fun v => StDirs (s "VARIABLE_DEFINITION") (vd_dirs v)) (op_vardefs o).
Definition frag_sites (S : tsdoc) (f : fragdef) : list site :=
  StDirs (s "FRAGMENT_DEFINITION") (fr_dirs f) :: sites_selset S (sp_type S (iname (fr_cond f))) (fr_sel f).

Definition doc_ops (D : opdoc) : list opdef := flat_map (fun d => match d with DOp o => [o] | _ => [] end) (od_defs D).
Definition doc_fragdefs (D : opdoc) : list fragdef := flat_map (fun d => match d with DFrag f => [f] | _ => [] end) (od_defs D).

Definition all_sites (S : tsdoc) (D : opdoc) : list site :=
  flat_map (fun o => op_sites S o ++ op_const_sites o) (doc_ops D) ++ flat_map (frag_sites S) (doc_fragdefs D).

(** * Fragment graph *)

Fixpoint spreads_sel (x : selection) : list str :=
  match x with
  | SField _ _ _ _ None => []
  | SField _ _ _ _ (Some (SelSet _ l)) => flat_map spreads_sel l
  | SSpread _ name _ => [iname name]
  | SInline _ _ _ (SelSet _ l) => flat_map spreads_sel l
  end.
Definition spreads_selset (ss : selset) : list str := flat_map spreads_sel (selset_sels ss).

Definition sp_frag (D : opdoc) (n : str) : option fragdef :=
  find (fun f => str_eqb (iname (fr_name f)) n) (doc_fragdefs D).

Definition add_new (acc l : list str) : list str :=
  fold_left (fun a x => if mem x a then a else a ++ [x]) l acc.

(** names reachable from [names] through spreads: one closure step per fragment definition is enough *)
Fixpoint closure (n : nat) (D : opdoc) (names : list str) : list str :=
  match n with
  | 0 => names
  | Datatypes.S k =>
      closure k D (add_new names (flat_map (fun x => match sp_frag D x with
                                                     | Some f => spreads_selset (fr_sel f)
                                                     | None => []
                                                     end) names))
  end.
Definition reachable_from (D : opdoc) (ss : selset) : list str :=
  closure (length (doc_fragdefs D)) D (add_new [] (spreads_selset ss)).
Definition reachable_frags (D : opdoc) (ss : selset) : list fragdef :=
  flat_map (fun n => match sp_frag D n with Some f => [f] | None => [] end) (reachable_from D ss).

(** * Values (5.6) *)

Fixpoint strip_nonnull (t : ty) : ty := match t with TNonNull i => strip_nonnull i | _ => t end.

(** Int is a signed 32-bit integer (3.5.1): the integer an IntValue lexeme denotes must lie in that range *)
Definition sp_digit (c : N) : option Z := if N.leb 48 c && N.leb c 57 then Some (Z.of_N c - 48)%Z else None.
Fixpoint sp_digits (acc : Z) (l : str) : option Z :=
  match l with
  | [] => Some acc
  | c :: r => match sp_digit c with Some d => sp_digits (acc * 10 + d)%Z r | None => None end
  end.
Definition lexeme_int (l : str) : option Z :=
  match l with
  | 45%N :: ((_ :: _) as r) => option_map Z.opp (sp_digits 0 r)
  | 43%N :: ((_ :: _) as r) => sp_digits 0 r
  | 45%N :: [] | 43%N :: [] | [] => None
  | _ => sp_digits 0 l
  end.
Definition int32_lexeme (l : str) : bool :=
  match lexeme_int l with
  | Some z => Z.leb (-2147483648) z && Z.leb z 2147483647
  | None => false
  end.

Definition builtin_scalar_ok (name : str) (v : value) : bool :=
  if str_eqb name (s "Int") then match v with VInt _ lexeme => int32_lexeme lexeme | _ => false end
  else if str_eqb name (s "Float") then match v with VInt _ _ | VFloat _ _ => true | _ => false end
  else if str_eqb name (s "String") then match v with VString _ _ => true | _ => false end
  else if str_eqb name (s "Boolean") then match v with VBool _ _ => true | _ => false end
  else if str_eqb name (s "ID") then match v with VString _ _ | VInt _ _ => true | _ => false end
  else true (* custom scalar: coercion is implementation-defined *).

Definition required_input (f : inputvaldef) : bool :=
  match iv_type f with TNonNull _ => match iv_default f with None => true | Some _ => false end | _ => false end.

Section LitFields.
  Context (f : value -> ty -> bool) (defs : list inputvaldef).
  Fixpoint lit_fields (fs : list (ident * value)) : bool :=
    match fs with
    | [] => true
    | (k, v) :: r =>
        match find (fun d => str_eqb (iname (iv_name d)) (iname k)) defs with
        | Some d => f v (iv_type d)
        | None => false            (* Input Object Field Names *)
        end && lit_fields r
    end.
End LitFields.

(** the named-type clause of "Values of Correct Type" for a non-null, non-variable literal; [lo] is [lit_ok] *)
Definition lit_named (lo : value -> ty -> bool) (S : tsdoc) (v : value) (n : ident) : bool :=
  match sp_type S (iname n) with
  | None => true
  | Some (TDScalar _ _ name _ _) => builtin_scalar_ok (iname name) v
  | Some (TDEnum _ _ _ _ vals _) =>
      match v with VEnum _ m => mem m (map (fun e => iname (ev_name e)) vals) | _ => false end
  | Some (TDInput _ _ _ _ fields _) =>
      match v with
      | VObject _ fs =>
          lit_fields lo fields fs      (* every supplied field is defined and has its type; Input Object Field
                                          Uniqueness (5.6.3) is a separate rule, not among the implemented ones *)
          && forallb (fun d => negb (required_input d)
                               || mem (iname (iv_name d)) (map (fun kv => iname (fst kv)) fs)) fields  (* Required Fields *)
      | _ => false
      end
  | Some _ => false
  end.

(** Values of Correct Type, with the input coercion of lists (3.11: a non-list value is a list of one
    item) and of Int literals to Float / ID (3.5); variables are judged by [variable_usage_allowed], not here *)
Fixpoint lit_ok (S : tsdoc) (v : value) : ty -> bool :=
  fix on_ty (t : ty) : bool :=
    match v with
    | VVar _ _ => true
    | _ =>
      match t with
      | TNonNull i => match v with VNull _ => false | _ => on_ty i end
      | TList _ i =>
          match v with
          | VNull _ => true
          | VList _ vs => forallb (fun e => lit_ok S e i) vs
          | _ => on_ty i
          end
      | TNamed n =>
          match v with
          | VNull _ => true
          | _ => lit_named (lit_ok S) S v n
          end
      end
    end.

(** AreTypesCompatible(variableType, locationType) (5.8.5), transcribed clause by clause *)
Fixpoint types_compatible (vt lt : ty) {struct vt} : bool :=
  match lt with
  | TNonNull li =>                                  (* 1. locationType is a non-null type *)
      match vt with
      | TNonNull vi => types_compatible vi li
      | _ => false
      end
  | _ =>
      match vt with
      | TNonNull vi => types_compatible vi lt       (* 2. variableType is a non-null type *)
      | _ =>
          match lt with
          | TList _ li =>                           (* 3. locationType is a list type *)
              match vt with TList _ vi => types_compatible vi li | _ => false end
          | _ =>
              match vt with
              | TList _ _ => false                  (* 4. variableType is a list type *)
              | TNamed v => match lt with TNamed l => str_eqb (iname v) (iname l) | _ => false end   (* 5. same type *)
              | TNonNull _ => false
              end
          end
      end
  end.

(** IsVariableUsageAllowed(variableDefinition, variableUsage) *)
Definition variable_usage_allowed (vd : vardef) (location_type : ty) (location_has_default : bool) : bool :=
  match location_type, vd_type vd with
  | TNonNull _, TNonNull _ => types_compatible (vd_type vd) location_type
  | TNonNull nullable_location, _ =>
      let has_non_null_variable_default :=
        match vd_default vd with Some (VNull _) => false | Some _ => true | None => false end in
      if has_non_null_variable_default || location_has_default
      then types_compatible (vd_type vd) nullable_location
      else false
  | _, _ => types_compatible (vd_type vd) location_type
  end.

(** variable uses inside a value, each with the type the specification assigns to its position
    (None when the position has no type: unknown input field, inside a custom scalar literal, ...) *)
Record var_use := mkUse { u_name : str; u_type : option ty; u_loc_default : bool }.

Fixpoint unwrap_lists (t : ty) : ty := match t with TNonNull i | TList _ i => unwrap_lists i | _ => t end.

Definition sp_builtin_scalar (name : str) : bool :=
  str_eqb name (s "Int") || str_eqb name (s "Float") || str_eqb name (s "String") || str_eqb name (s "Boolean")
  || str_eqb name (s "ID").
(** the named type is a custom scalar: any literal is a value of it, and the variables inside have no typed position *)
Definition custom_scalar (S : tsdoc) (t : ty) : bool :=
  match t with
  | TNamed n => match sp_type S (iname n) with
                | Some (TDScalar _ _ name _ _) => negb (sp_builtin_scalar (iname name))
                | _ => false
                end
  | _ => false
  end.

(** [deep = true]: every variable written anywhere inside the value (what the rule "All Variable Uses
    Defined" ranges over). [deep = false]: the uses at positions to which input coercion assigns a type, and
    (untyped) those inside a literal given for a custom scalar — not those inside a literal that cannot have the
    expected type anyway (a list for Int, an object for an enum, a field the input object does not define). *)
Fixpoint var_uses (deep : bool) (S : tsdoc) (v : value) (t : option ty) (locdef : bool) : list var_use :=
  match v with
  | VVar n _ => [mkUse n t locdef]
  | VList _ vs =>
      let item := match t with
                  | Some t' => match strip_nonnull t' with TList _ i => Some i | _ => None end
                  | None => None
                  end in
      let custom := match t with Some t' => custom_scalar S (strip_nonnull t') | None => false end in
      match item, deep || custom with
      | None, false => []
      | None, true => flat_map (fun e => var_uses true S e None false) vs
      | _, _ => flat_map (fun e => var_uses deep S e item false) vs
      end
  | VObject _ fs =>
      let defs := match t with
                  | Some t' => match unwrap_lists t' with
                               | TNamed n => match sp_type S (iname n) with
                                             | Some (TDInput _ _ _ _ fields _) => fields
                                             | _ => []
                                             end
                               | _ => []
                               end
                  | None => []
                  end in
      let custom := match t with Some t' => custom_scalar S (unwrap_lists t') | None => false end in
      (fix go (fs : list (ident * value)) : list var_use :=
         match fs with
         | [] => []
         | (k, fv) :: r =>
             match find (fun d => str_eqb (iname (iv_name d)) (iname k)) defs with
             | Some d => var_uses deep S fv (Some (iv_type d)) (match iv_default d with Some _ => true | None => false end)
             | None => if deep || custom then var_uses true S fv None false else []
             end ++ go r
         end) fs
  | _ => []
  end.

(** * Argument lists with their definitions *)

Definition field_argdefs (f : fielddef) : list inputvaldef := match fd_args f with Some l => l | None => [] end.
Definition dir_argdefs (d : directivedef) : list inputvaldef := match dd_args d with Some l => l | None => [] end.
Definition provided (a : option arguments) : list (ident * value) := match a with Some x => args_list x | None => [] end.

(** (provided arguments, definitions) pairs of a site, when the field / directive is defined *)
Definition arg_sites (S : tsdoc) (x : site) : list (list (ident * value) * list inputvaldef) :=
  match x with
  | StField (Some p) name args _ =>
      match sp_field p (iname name) with Some f => [(provided args, field_argdefs f)] | None => [] end
  | StDirs _ ds =>
      flat_map (fun d => match sp_directive S (iname (dir_name d)) with
                         | Some dd => [(provided (dir_args d), dir_argdefs dd)]
                         | None => []
                         end) ds
  | _ => []
  end.

(** every variable use of a site; arguments of undefined fields / directives / arguments have untyped positions *)
(** [deep = true]: the variables in every supplied argument. [deep = false]: those in the arguments that are defined. *)
Definition has_default (d : inputvaldef) : bool := match iv_default d with Some _ => true | None => false end.

Definition args_var_uses (deep : bool) (S : tsdoc) (args : list (ident * value)) (defs : list inputvaldef) : list var_use :=
  flat_map (fun kv =>
    match find (fun d => str_eqb (iname (iv_name d)) (iname (fst kv))) defs with
    | Some d => var_uses deep S (snd kv) (Some (iv_type d)) (has_default d)
    | None => if deep then var_uses true S (snd kv) None false else []
    end) args.

Definition site_var_uses (deep : bool) (S : tsdoc) (x : site) : list var_use :=
  match x with
  | StField p name args _ =>
      let defs := match p with
                  | Some p' => match sp_field p' (iname name) with Some f => field_argdefs f | None => [] end
                  | None => []
                  end in
      args_var_uses deep S (provided args) defs
  | StDirs _ ds =>
      flat_map (fun d => args_var_uses deep S (provided (dir_args d))
                           (match sp_directive S (iname (dir_name d)) with Some dd => dir_argdefs dd | None => [] end)) ds
  | _ => []
  end.

(** * The rules *)

Definition args_defined_ok (a : list (ident * value) * list inputvaldef) : bool :=
  forallb (fun kv => mem (iname (fst kv)) (map (fun d => iname (iv_name d)) (snd a))) (fst a).
Definition required_args_ok (a : list (ident * value) * list inputvaldef) : bool :=
  forallb (fun d => negb (required_input d) || mem (iname (iv_name d)) (map (fun kv => iname (fst kv)) (fst a))) (snd a).
Definition literal_types_ok (S : tsdoc) (a : list (ident * value) * list inputvaldef) : bool :=
  forallb (fun kv => match find (fun d => str_eqb (iname (iv_name d)) (iname (fst kv))) (snd a) with
                     | Some d => lit_ok S (snd kv) (iv_type d)
                     | None => true
                     end) (fst a).

Definition overlap (a b : list str) : bool := existsb (fun x => mem x b) a.

(** Fragment spread is possible (5.5.2.3): the possible types of the parent type and of the type condition
    intersect. Identical types overlap by definition (as in the reference implementation's doTypesOverlap,
    which starts with `if (typeA === typeB) return true`): an interface nobody implements yet may still be
    spread in itself. *)
Definition type_name (t : typedef) : str := iname (typedef_name t).
Definition applies (S : tsdoc) (p c : typedef) : bool :=
  negb (is_composite p) || negb (is_composite c) || str_eqb (type_name p) (type_name c)
  || overlap (possible_types S p) (possible_types S c).

(** (until /repo commit 7d19234 only the first value given for an argument was type-checked, and the reading on the
    visible sites was per argument definition; now both readings judge every supplied value) *)
Definition literal_types_vis (S : tsdoc) (a : list (ident * value) * list inputvaldef) : bool := literal_types_ok S a.

(** [vis]: the reading on the visible sites (see below) judges the value supplied *for each defined argument*;
    the full reading judges every supplied value *)
Definition site_ok (vis : bool) (S : tsdoc) (D : opdoc) (r : rule) (x : site) : bool :=
  match r with
  | R_fields_exist =>
      match x with
      | StField (Some p) name _ _ => negb (is_composite p) || match sp_field p (iname name) with Some _ => true | None => false end
      | _ => true
      end
  | R_leaf_vs_composite =>
      match x with
      | StField (Some p) name _ sel =>
          if is_composite p then
            match sp_field p (iname name) with
            | Some f =>
                match sp_type S (iname (ty_unwrapped (fd_type f))) with
                | Some t => Bool.eqb (is_composite t) (match sel with Some _ => true | None => false end)
                | None => true
                end
            | None => true
            end
          else false    (* a selection set on a leaf type *)
      | _ => true
      end
  | R_args_defined => forallb args_defined_ok (arg_sites S x)
  | R_required_args => forallb required_args_ok (arg_sites S x)
  | R_literal_types => forallb (if vis then literal_types_vis S else literal_types_ok S) (arg_sites S x)
  | R_fragment_targets =>
      match x with
      | StInline _ c => match sp_type S (iname c) with Some t => is_composite t | None => false end
      | _ => true
      end
  | R_spreads_defined =>
      match x with
      | StSpread _ n => match sp_frag D (iname n) with Some _ => true | None => false end
      | _ => true
      end
  | R_spread_possible =>
      match x with
      | StInline (Some p) c => match sp_type S (iname c) with Some t => applies S p t | None => true end
      | StSpread (Some p) n =>
          match sp_frag D (iname n) with
          | Some f => match sp_type S (iname (fr_cond f)) with Some t => applies S p t | None => true end
          | None => true
          end
      | _ => true
      end
  | R_directives_defined =>
      match x with
      | StDirs _ ds => forallb (fun d => match sp_directive S (iname (dir_name d)) with Some _ => true | None => false end) ds
      | _ => true
      end
  | R_directives_location =>
      match x with
      | StDirs loc ds => forallb (fun d => match sp_directive S (iname (dir_name d)) with
                                           | Some dd => mem loc (names_of (dd_locs dd))
                                           | None => true
                                           end) ds
      | _ => true
      end
  | R_directives_unique =>
      match x with
      | StDirs _ ds =>
          nodup_str (flat_map (fun d => match sp_directive S (iname (dir_name d)) with
                                        | Some dd => match dd_repeatable dd with Some _ => [] | None => [iname (dir_name d)] end
                                        | None => []
                                        end) ds)
      | _ => true
      end
  | _ => true
  end.

(** variable rules: scope = one operation together with the fragments it transitively spreads *)
Definition op_scope_sites (S : tsdoc) (D : opdoc) (o : opdef) : list site :=
  op_sites S o ++ flat_map (frag_sites S) (reachable_frags D (op_sel o)).

Definition find_var (o : opdef) (n : str) : option vardef := find (fun d => str_eqb (vd_name d) n) (op_vardefs o).

Definition vars_defined_on (deep : bool) (S : tsdoc) (o : opdef) (sites : list site) : bool :=
  forallb (fun x => forallb (fun u => match find_var o (u_name u) with Some _ => true | None => false end) (site_var_uses deep S x))
          sites
  && forallb (fun x => match site_var_uses deep S x with [] => true | _ => false end) (op_const_sites o).

Definition var_usage_on (deep : bool) (S : tsdoc) (o : opdef) (sites : list site) : bool :=
  forallb (fun x => forallb (fun u => match find_var o (u_name u), u_type u with
                                      | Some vd, Some t => variable_usage_allowed vd t (u_loc_default u)
                                      | _, _ => true
                                      end) (site_var_uses deep S x))
          sites.

Definition op_vars_defined (S : tsdoc) (D : opdoc) (o : opdef) : bool := vars_defined_on true S o (op_scope_sites S D o).
Definition op_var_usage_ok (S : tsdoc) (D : opdoc) (o : opdef) : bool := var_usage_on true S o (op_scope_sites S D o).

(** Single root field (5.2.3.1): CollectFields on the root selection set groups by response key *)
Fixpoint collect_keys (fuel : nat) (D : opdoc) (acc : list str * list str) (l : list selection) : list str * list str :=
  match fuel with
  | 0 => acc
  | Datatypes.S k =>
      fold_left (fun (acc : list str * list str) x =>
        match x with
        | SField alias name _ _ _ =>
            let key := match alias with Some a => iname a | None => iname name end in
            (if mem key (fst acc) then fst acc else fst acc ++ [key], snd acc)
        | SSpread _ n _ =>
            if mem (iname n) (snd acc) then acc
            else match sp_frag D (iname n) with
                 | None => (fst acc, snd acc ++ [iname n])
                 | Some f => collect_keys k D (fst acc, snd acc ++ [iname n]) (selset_sels (fr_sel f))
                 end
        | SInline _ _ _ ss => collect_keys k D acc (selset_sels ss)
        end) l acc
  end.

Fixpoint sel_depth_sp (x : selection) : nat :=
  match x with
  | SField _ _ _ _ (Some (SelSet _ l)) => Datatypes.S (fold_right (fun y a => Nat.max (sel_depth_sp y) a) 0 l)
  | SInline _ _ _ (SelSet _ l) => Datatypes.S (fold_right (fun y a => Nat.max (sel_depth_sp y) a) 0 l)
  | _ => 1
  end.
Definition selset_depth_sp (ss : selset) : nat :=
  Datatypes.S (fold_right (fun y a => Nat.max (sel_depth_sp y) a) 0 (selset_sels ss)).
Definition doc_depth_sp (D : opdoc) : nat :=
  fold_right (fun d a => Nat.max (match d with
                                  | DOp o => selset_depth_sp (op_sel o)
                                  | DFrag f => selset_depth_sp (fr_sel f)
                                  | _ => 0
                                  end) a) 0 (od_defs D).

Definition single_root_ok (D : opdoc) (o : opdef) : bool :=
  match op_type o with
  | Subscription =>
      let fuel := Datatypes.S ((Datatypes.S (length (doc_fragdefs D))) * doc_depth_sp D) in
      Nat.eqb (length (fst (collect_keys fuel D ([], []) (selset_sels (op_sel o))))) 1
  | _ => true
  end.

Definition no_cycles_ok (D : opdoc) : bool :=
  forallb (fun f => negb (mem (iname (fr_name f)) (reachable_from D (fr_sel f)))) (doc_fragdefs D).

Definition op_names (D : opdoc) : list str :=
  flat_map (fun o => match op_name o with Some n => [iname n] | None => [] end) (doc_ops D).

Definition rule_ok (S : tsdoc) (D : opdoc) (r : rule) : bool :=
  match r with
  | R_unique_op_names => nodup_str (op_names D)
  | R_lone_anonymous =>
      negb (existsb (fun o => match op_name o with None => true | Some _ => false end) (doc_ops D))
      || Nat.eqb (length (doc_ops D)) 1
  | R_single_subscription_root => forallb (single_root_ok D) (doc_ops D)
  | R_unique_vars => forallb (fun o => nodup_str (map vd_name (op_vardefs o))) (doc_ops D)
  | R_vars_input_types =>
      forallb (fun o => forallb (fun v => match sp_type S (iname (ty_unwrapped (vd_type v))) with
                                          | Some t => is_input_type t
                                          | None => false
                                          end) (op_vardefs o)) (doc_ops D)
  | R_vars_defined => forallb (op_vars_defined S D) (doc_ops D)
  | R_var_usage_compatible => forallb (op_var_usage_ok S D) (doc_ops D)
  | R_unique_fragments => nodup_str (map (fun f => iname (fr_name f)) (doc_fragdefs D))
  | R_fragment_targets =>
      forallb (fun f => match sp_type S (iname (fr_cond f)) with Some t => is_composite t | None => false end) (doc_fragdefs D)
      && forallb (site_ok false S D r) (all_sites S D)
  | R_no_cycles => no_cycles_ok D
  | _ => forallb (site_ok false S D r) (all_sites S D)
  end.

(** the reference validator restricted to the implemented rules *)
Definition spec_valid (S : tsdoc) (D : opdoc) : bool := forallb (rule_ok S D) all_rules.


(** * The positions a spread-following validator looks at

    The implementation validates a fragment definition's selection set where the fragment is spread
    (in the scope of the spreading operation's variables), not once per definition.
    [vis_op_sites] enumerates, per operation, the sites reached by following spreads from the operation.
    Everything the property theorems of C03 claim is claimed for these sites; the sites outside
    (never-spread fragment definitions) are the subject of a [_refuted] lemma and known finding.
    (Until /repo commit 762f951 the contents of a fragment whose type condition is the enclosing interface
    were a second blind spot; the enumeration used to leave them out.) *)

Section VisSel.
  Variable S : tsdoc.
  (** sites contributed by entering the fragment a spread names (spread's parent type, fragment name) *)
  Variable enter : option typedef -> ident -> list site.

  Fixpoint vsites_sel (parent : option typedef) (x : selection) : list site :=
    match x with
    | SField _ name args dirs sel =>
        StField parent name args sel :: StDirs (s "FIELD") dirs ::
        match sel with
        | None => []
        | Some (SelSet _ l) => flat_map (vsites_sel (child_type S parent (iname name))) l
        end
    | SSpread _ name dirs => StSpread parent name :: StDirs (s "FRAGMENT_SPREAD") dirs :: enter parent name
    | SInline _ cond dirs (SelSet _ l) =>
        match cond with
        | None => StDirs (s "INLINE_FRAGMENT") dirs :: flat_map (vsites_sel parent) l
        | Some c =>
            StInline parent c :: StDirs (s "INLINE_FRAGMENT") dirs :: flat_map (vsites_sel (sp_type S (iname c))) l
        end
    end.
End VisSel.

Fixpoint vis_enter (fuel : nat) (S : tsdoc) (D : opdoc) (path : list str) (parent : option typedef) (name : ident)
  : list site :=
  match fuel with
  | 0 => []
  | Datatypes.S k =>
      if mem (iname name) path then [StCycle (iname name)]
      else
        match sp_frag D (iname name) with
        | None => []
        | Some f =>
            StDirs (s "FRAGMENT_DEFINITION") (fr_dirs f) ::
            flat_map (vsites_sel S (vis_enter k S D (path ++ [iname name])) (sp_type S (iname (fr_cond f))))
                     (selset_sels (fr_sel f))
        end
  end.

Definition vis_op_sites (S : tsdoc) (D : opdoc) (o : opdef) : list site :=
  StDirs (op_loc (op_type o)) (op_dirs o) ::
  flat_map (vsites_sel S (vis_enter (Datatypes.S (length (doc_fragdefs D))) S D []) (sp_root S (op_type o)))
           (selset_sels (op_sel o)).

(** the rules, read on the visible sites ([vs] = the operations with their visible sites, computed once) *)
Definition rule_ok_vis_on (S : tsdoc) (D : opdoc) (vs : list (opdef * list site)) (r : rule) : bool :=
  match r with
  | R_unique_op_names | R_lone_anonymous | R_single_subscription_root | R_unique_vars | R_vars_input_types
  | R_unique_fragments => rule_ok S D r
  | R_vars_defined => forallb (fun ov => vars_defined_on false S (fst ov) (snd ov)) vs
  | R_var_usage_compatible => forallb (fun ov => var_usage_on false S (fst ov) (snd ov)) vs
  | R_fragment_targets =>
      forallb (fun f => match sp_type S (iname (fr_cond f)) with Some t => is_composite t | None => false end) (doc_fragdefs D)
      && forallb (fun ov => forallb (site_ok true S D r) (snd ov)) vs
  | R_no_cycles =>
      forallb (fun ov => forallb (fun x => match x with StCycle _ => false | _ => true end) (snd ov)) vs
  | _ => forallb (fun ov => forallb (site_ok true S D r) (snd ov ++ op_const_sites (fst ov))) vs
  end.

Definition vis_doc_sites (S : tsdoc) (D : opdoc) : list (opdef * list site) :=
  map (fun o => (o, vis_op_sites S D o)) (doc_ops D).

Definition rule_ok_vis (S : tsdoc) (D : opdoc) (r : rule) : bool := rule_ok_vis_on S D (vis_doc_sites S D) r.

(** ** Fragment definitions on their own (since /repo commit c67e45e every fragment definition is validated, if not where
    it is spread from an operation then as a root of its own): the sites of a fragment definition walked from its type
    condition, following spreads, with the fragment itself on the path. The site rules and the cycle rule are read on
    them; the variable rules are not (variables belong to the operations that spread a fragment). *)
Definition frag_root_sites (S : tsdoc) (D : opdoc) (f : fragdef) : list site :=
  StDirs (s "FRAGMENT_DEFINITION") (fr_dirs f) ::
  match sp_type S (iname (fr_cond f)) with
  | Some t =>
      if is_composite t
      then flat_map (vsites_sel S (vis_enter (Datatypes.S (length (doc_fragdefs D))) S D [iname (fr_name f)]) (Some t))
                    (selset_sels (fr_sel f))
      else []
  | None => []
  end.

Definition rule_ok_roots (S : tsdoc) (D : opdoc) (r : rule) : bool :=
  match r with
  | R_fields_exist | R_leaf_vs_composite | R_args_defined | R_required_args | R_literal_types | R_fragment_targets
  | R_spreads_defined | R_spread_possible | R_directives_defined | R_directives_location | R_directives_unique =>
      forallb (fun f => forallb (site_ok true S D r) (frag_root_sites S D f)) (doc_fragdefs D)
  | R_no_cycles =>
      forallb (fun f => forallb (fun x => match x with StCycle _ => false | _ => true end) (frag_root_sites S D f)) (doc_fragdefs D)
  | _ => true
  end.

(** Fragments Must Be Used (5.5.1.4) — not among the implemented rules; valid documents satisfy it *)
Definition every_fragment_spread (D : opdoc) : bool :=
  forallb (fun f => existsb (fun o => mem (iname (fr_name f)) (reachable_from D (op_sel o))) (doc_ops D)) (doc_fragdefs D).

(** * The part of schema validity the theorems use (the schema "passed check"): argument definitions of
    one field / directive and the fields of one input object have pairwise distinct names (3.6, 3.10, 3.13) *)
(** a type as the grammar produces it: no `T!!` *)
Fixpoint ty_wf (t : ty) : bool :=
  match t with
  | TNamed _ => true
  | TList _ i => ty_wf i
  | TNonNull (TNonNull _) => false
  | TNonNull i => ty_wf i
  end.
Definition names_distinct (l : list inputvaldef) : bool :=
  nodup_str (map (fun d => iname (iv_name d)) l) && forallb (fun d => ty_wf (iv_type d)) l.
Definition schema_wf (S : tsdoc) : bool :=
  forallb (fun d =>
    match d with
    | TSType (TDInput _ _ _ _ fields _) => names_distinct fields
    | TSType (TDObject _ _ _ _ _ fs _) | TSType (TDInterface _ _ _ _ _ fs _) =>
        forallb (fun f => names_distinct (field_argdefs f)) fs
    | TSDirective dd => names_distinct (dir_argdefs dd)
    | _ => true
    end) S
  (* at most one schema definition (3.3), and it comes from a source text *)
  && Nat.leb (length (filter (fun d => match d with TSSchema _ => true | _ => false end) S)) 1
  && forallb (fun d => match d with TSSchema sd => negb (pbuiltin (sd_pos sd)) | _ => true end) S.

(** input positions have input types that exist (3.6.1, 3.10): used by the completeness direction (C04) *)
Definition resolves (S : tsdoc) (t : ty) : bool :=
  match sp_type S (iname (ty_unwrapped t)) with Some td => is_input_type td | None => false end.
Definition input_types_closed (S : tsdoc) : bool :=
  forallb (fun d => match d with
                    | TSType (TDInput _ _ _ _ fields _) => forallb (fun f => resolves S (iv_type f)) fields
                    | _ => true
                    end) S.

(** * Further parts of schema validity, used by the completeness direction (C04_complete_vis) *)

Definition schema_type_names (S : tsdoc) : list str :=
  flat_map (fun d => match d with TSType t => [iname (typedef_name t)] | _ => [] end) S.

Definition field_list_closed (S : tsdoc) (fs : list fielddef) : bool :=
  forallb (fun f => match sp_type S (iname (ty_unwrapped (fd_type f))) with Some _ => true | None => false end
                    && forallb (fun a => resolves S (iv_type a)) (field_argdefs f)) fs.

Definition is_object (t : typedef) : bool := match t with TDObject _ _ _ _ _ _ _ => true | _ => false end.

(** type names are unique (3.3); field types exist and argument types are existing input types (3.6, 3.13);
    unions have at least one member and the members are object types (3.8); root operation types are object types (3.3.1) *)
Definition schema_closed (S : tsdoc) : bool :=
  nodup_str (schema_type_names S)
  && input_types_closed S
  && forallb (fun d =>
       match d with
       | TSType (TDObject _ _ _ _ _ fs _) | TSType (TDInterface _ _ _ _ _ fs _) => field_list_closed S fs
       | TSType (TDUnion _ _ _ _ members _) =>
           match members with [] => false | _ => true end
           && forallb (fun m => match sp_type S (iname m) with Some t => is_object t | None => false end) members
       | TSDirective dd => forallb (fun a => resolves S (iv_type a)) (dir_argdefs dd)
       | _ => true
       end) S
  && resolves S (TNamed (mkId (s "String") pos0)).

(** what the grammar guarantees: an argument list that is written is not empty *)
Definition args_written_ok (a : option arguments) : bool :=
  match a with Some x => match args_list x with [] => false | _ => true end | None => true end.
Definition site_syntax_ok (x : site) : bool :=
  match x with
  | StField _ _ args _ => args_written_ok args
  | StDirs _ ds => forallb (fun d => args_written_ok (dir_args d)) ds
  | _ => true
  end.

(** what the completeness theorem asks of a document beyond the rules: written argument lists are non-empty (grammar),
    root operation types are object types *)
Definition doc_guard (S : tsdoc) (D : opdoc) : bool :=
  forallb (fun o => forallb site_syntax_ok (vis_op_sites S D o ++ op_const_sites o)
                    && match sp_root S (op_type o) with Some t => is_object t | None => false end) (doc_ops D).

(** everything the completeness theorem asks of a document, read on the visible sites *)
Definition doc_fine_vis (S : tsdoc) (D : opdoc) : bool :=
  forallb (fun r => rule_ok_vis S D r) all_rules && doc_guard S D.

(** what the grammar guarantees: a selection set that is written is not empty (used by the subscription rule) *)
Fixpoint sel_nonempty (x : selection) : bool :=
  match x with
  | SField _ _ _ _ (Some (SelSet _ l)) => match l with [] => false | _ => true end && forallb sel_nonempty l
  | SInline _ _ _ (SelSet _ l) => match l with [] => false | _ => true end && forallb sel_nonempty l
  | _ => true
  end.
Definition selset_nonempty (ss : selset) : bool :=
  match selset_sels ss with [] => false | _ => true end && forallb sel_nonempty (selset_sels ss).
Definition selsets_nonempty (D : opdoc) : bool :=
  forallb (fun d => match d with
                    | DOp o => selset_nonempty (op_sel o)
                    | DFrag f => selset_nonempty (fr_sel f)
                    | DImport _ => true
                    end) (od_defs D).

(** * Field Selection Merging (5.3.2) — NOT implemented by nitrogql, and not among the rules of C03's property text.
    It is written down here because `generate` relies on it: two selections with one response key and different
    shapes pass `check` and make the result-type generator panic (C08_merge_unchecked_refuted,
    C03_fields_can_merge_not_checked). Not part of [all_rules] / [spec_valid]. *)

Fixpoint value_eqb (a b : value) {struct a} : bool :=
  match a, b with
  | VVar x _, VVar y _ => str_eqb x y
  | VInt _ x, VInt _ y | VFloat _ x, VFloat _ y | VString _ x, VString _ y | VEnum _ x, VEnum _ y => str_eqb x y
  | VBool _ x, VBool _ y => Bool.eqb x y
  | VNull _, VNull _ => true
  | VList _ xs, VList _ ys =>
      (fix go (xs ys : list value) : bool :=
         match xs, ys with
         | [], [] => true
         | x :: xr, y :: yr => value_eqb x y && go xr yr
         | _, _ => false
         end) xs ys
  | VObject _ xs, VObject _ ys =>
      (fix go (xs ys : list (ident * value)) : bool :=
         match xs, ys with
         | [], [] => true
         | (k, x) :: xr, (k', y) :: yr => str_eqb (iname k) (iname k') && value_eqb x y && go xr yr
         | _, _ => false
         end) xs ys
  | _, _ => false
  end.

Definition args_identical (a b : list (ident * value)) : bool :=
  let sub x y := forallb (fun kv => existsb (fun kv' => str_eqb (iname (fst kv)) (iname (fst kv')) && value_eqb (snd kv) (snd kv')) y) x in
  sub a b && sub b a.

(** one field of a "set of fields": response key, parent type, field name, arguments, declared type, sub-selections *)
Record mfield := mkMField {
  mf_key : str; mf_parent : option typedef; mf_name : str; mf_args : list (ident * value);
  mf_type : option ty; mf_sub : list selection }.

(** the fields of a selection set, visiting inline fragments and fragment spreads (each fragment once per path) *)
Fixpoint merge_fields (fuel : nat) (S : tsdoc) (D : opdoc) (visited : list str) (parent : option typedef)
         (l : list selection) : list mfield :=
  match fuel with
  | 0 => []
  | Datatypes.S k =>
      flat_map (fun x =>
        match x with
        | SField alias name args _ sub =>
            [mkMField (match alias with Some a => iname a | None => iname name end) parent (iname name) (provided args)
               (match parent with
                | Some p => match sp_field p (iname name) with Some f => Some (fd_type f) | None => None end
                | None => None
                end)
               (match sub with Some ss => selset_sels ss | None => [] end)]
        | SSpread _ n _ =>
            if mem (iname n) visited then []
            else match sp_frag D (iname n) with
                 | Some f => merge_fields k S D (iname n :: visited) (sp_type S (iname (fr_cond f))) (selset_sels (fr_sel f))
                 | None => []
                 end
        | SInline _ c _ ss =>
            merge_fields k S D visited (match c with Some c' => sp_type S (iname c') | None => parent end) (selset_sels ss)
        end) l
  end.

Definition mf_subparent (S : tsdoc) (f : mfield) : option typedef :=
  match mf_type f with Some t => sp_type S (iname (ty_unwrapped t)) | None => None end.

Definition is_leaf_type (S : tsdoc) (n : str) : bool :=
  match sp_type S n with Some (TDScalar _ _ _ _ _) | Some (TDEnum _ _ _ _ _ _) => true | _ => false end.

(** SameResponseShape on the declared types: wrappers agree; a leaf on either side forces the same type *)
Fixpoint shape_types (S : tsdoc) (a b : ty) : option bool (* Some leaf? / None = different shape *) :=
  match a, b with
  | TNonNull a', TNonNull b' => shape_types S a' b'
  | TNonNull _, _ | _, TNonNull _ => None
  | TList _ a', TList _ b' => shape_types S a' b'
  | TList _ _, _ | _, TList _ _ => None
  | TNamed x, TNamed y =>
      if is_leaf_type S (iname x) || is_leaf_type S (iname y)
      then (if str_eqb (iname x) (iname y) then Some true else None)
      else Some false
  end.

Definition both_objects_differ (a b : option typedef) : bool :=
  match a, b with
  | Some (TDObject _ _ n _ _ _ _), Some (TDObject _ _ m _ _ _ _) => negb (str_eqb (iname n) (iname m))
  | _, _ => false
  end.

(** SameResponseShape and FieldsInSetCanMerge, one unit of fuel per level of nesting *)
Fixpoint same_shape (fuel : nat) (S : tsdoc) (D : opdoc) (cf : nat) (a b : mfield) : bool :=
  match fuel with
  | 0 => true
  | Datatypes.S k =>
      match mf_type a, mf_type b with
      | Some ta, Some tb =>
          match shape_types S ta tb with
          | None => false
          | Some true => true
          | Some false =>
              let merged := merge_fields cf S D [] (mf_subparent S a) (mf_sub a) ++ merge_fields cf S D [] (mf_subparent S b) (mf_sub b) in
              forallb (fun x => forallb (fun y => negb (str_eqb (mf_key x) (mf_key y)) || same_shape k S D cf x y) merged) merged
          end
      | _, _ => true      (* an undefined field: Field Selections (5.3.1) is violated, nothing to say here *)
      end
  end.

Fixpoint can_merge (fuel : nat) (S : tsdoc) (D : opdoc) (cf : nat) (fields : list mfield) : bool :=
  match fuel with
  | 0 => true
  | Datatypes.S k =>
      forallb (fun a => forallb (fun b =>
        negb (str_eqb (mf_key a) (mf_key b))
        || (same_shape fuel S D cf a b
            && (both_objects_differ (mf_parent a) (mf_parent b)
                || (str_eqb (mf_name a) (mf_name b) && args_identical (mf_args a) (mf_args b)
                    && can_merge k S D cf (merge_fields cf S D [] (mf_subparent S a) (mf_sub a)
                                           ++ merge_fields cf S D [] (mf_subparent S b) (mf_sub b)))))) fields) fields
  end.

Definition fields_can_merge_ok (S : tsdoc) (D : opdoc) : bool :=
  let cf := Datatypes.S ((Datatypes.S (length (doc_fragdefs D))) * doc_depth_sp D) in
  let depth := cf in
  forallb (fun o => can_merge depth S D cf (merge_fields cf S D [] (sp_root S (op_type o)) (selset_sels (op_sel o)))) (doc_ops D)
  && forallb (fun f => can_merge depth S D cf (merge_fields cf S D [] (sp_type S (iname (fr_cond f))) (selset_sels (fr_sel f))))
             (doc_fragdefs D).
