(** C03 — proofs, part 2: check_value / is_value_compatible_type_def against "Values of Correct Type" and
    "All Variable Usages Are Allowed". *)
From V Require Import Base.Util Gql.Ast C03.Model C03.Spec C03.Proofs.

(** * Induction over values *)
Section ValueInd.
  Variable P : value -> Prop.
  Hypothesis Hvar : forall n p, P (VVar n p).
  Hypothesis Hint : forall p l, P (VInt p l).
  Hypothesis Hfloat : forall p l, P (VFloat p l).
  Hypothesis Hstring : forall p l, P (VString p l).
  Hypothesis Hbool : forall p b, P (VBool p b).
  Hypothesis Hnull : forall p, P (VNull p).
  Hypothesis Henum : forall p l, P (VEnum p l).
  Hypothesis Hlist : forall p vs, Forall P vs -> P (VList p vs).
  Hypothesis Hobj : forall p fs, Forall (fun kv => P (snd kv)) fs -> P (VObject p fs).
  Fixpoint value_ind' (v : value) : P v :=
    match v with
    | VVar n p => Hvar n p
    | VInt p l => Hint p l
    | VFloat p l => Hfloat p l
    | VString p l => Hstring p l
    | VBool p b => Hbool p b
    | VNull p => Hnull p
    | VEnum p l => Henum p l
    | VList p vs =>
        Hlist p vs ((fix go (l : list value) : Forall P l :=
                       match l with [] => Forall_nil _ | x :: r => Forall_cons x (value_ind' x) (go r) end) vs)
    | VObject p fs =>
        Hobj p fs ((fix go (l : list (ident * value)) : Forall (fun kv => P (snd kv)) l :=
                      match l with
                      | [] => Forall_nil _
                      | kv :: r => Forall_cons kv (match kv as kv0 return P (snd kv0) with (k, x) => value_ind' x end) (go r)
                      end) fs)
    end.
End ValueInd.

Definition is_var (v : value) : bool := match v with VVar _ _ => true | _ => false end.

(** * Unfolding equations *)
Section Unfold.
  Variable S : tsdoc.
  Variable vars : option vardefs.

  Lemma cv_var n p t : check_value S vars (VVar n p) t = check_variable_value vars n p t.
  Proof. destruct t; reflexivity. Qed.

  Lemma cv_nonnull v i : is_var v = false ->
    check_value S vars v (TNonNull i) =
    match v with VNull _ => [err0 (TypeMismatch (ty_show (TNonNull i))) (value_pos v)] | _ => check_value S vars v i end.
  Proof. destruct v; intros H; try discriminate; reflexivity. Qed.

  Lemma cv_list v q i : is_var v = false ->
    check_value S vars v (TList q i) =
    match v with
    | VList _ vs => flat_map (fun e => check_value S vars e i) vs
    | VNull _ => []
    | _ => check_value S vars v i
    end.
  Proof. destruct v; intros H; try discriminate; reflexivity. Qed.

  Lemma cv_named v n : is_var v = false ->
    check_value S vars v (TNamed n) = check_named S vars (check_value S vars) v (TNamed n) n.
  Proof. destruct v; intros H; try discriminate; reflexivity. Qed.

  Lemma lo_var n p t : lit_ok S (VVar n p) t = true.
  Proof. destruct t; reflexivity. Qed.

  Lemma lo_nonnull v i : is_var v = false ->
    lit_ok S v (TNonNull i) = match v with VNull _ => false | _ => lit_ok S v i end.
  Proof. destruct v; intros H; try discriminate; reflexivity. Qed.

  Lemma lo_list v q i : is_var v = false ->
    lit_ok S v (TList q i) =
    match v with VNull _ => true | VList _ vs => forallb (fun e => lit_ok S e i) vs | _ => lit_ok S v i end.
  Proof. destruct v; intros H; try discriminate; reflexivity. Qed.

  Lemma lo_named v n : is_var v = false ->
    lit_ok S v (TNamed n) = match v with VNull _ => true | _ => lit_named (lit_ok S) S v n end.
  Proof. destruct v; intros H; try discriminate; reflexivity. Qed.
End Unfold.

(** * Counting: "seen < number of supplied" detects every undefined key *)

Lemma nodup_str_NoDup l : nodup_str l = true <-> NoDup l.
Proof.
  induction l as [|x l IH]; cbn [nodup_str].
  - split; [constructor | reflexivity].
  - rewrite andb_true_iff, negb_true_iff, IH. split.
    + intros [Hm Hn]. constructor; [|exact Hn]. intros Hin. apply mem_In in Hin. congruence.
    + intros Hn. inversion Hn as [|? ? Hx Hl]; subst. split; [|exact Hl].
      destruct (mem x l) eqn:E; [|reflexivity]. apply mem_In in E. contradiction.
Qed.

Lemma filter_map_length {A B} (f : A -> B) (p : B -> bool) l :
  length (filter p (map f l)) = length (filter (fun x => p (f x)) l).
Proof. induction l as [|x l IH]; cbn; [reflexivity|]. destruct (p (f x)); cbn; auto. Qed.


Definition count_key (n : str) (ks : list str) : nat := length (filter (str_eqb n) ks).
Fixpoint sumc (names ks : list str) : nat :=
  match names with [] => 0 | n :: r => count_key n ks + sumc r ks end.

Lemma sumc_cons names k ks :
  NoDup names -> sumc names (k :: ks) = (if mem k names then 1 else 0) + sumc names ks.
Proof.
  induction names as [|n ns IH]; intros Hnd; [reflexivity|].
  inversion Hnd as [|? ? Hn Hns]; subst. cbn [sumc]. rewrite (IH Hns).
  change (count_key n (k :: ks)) with (length (if str_eqb n k then k :: filter (str_eqb n) ks else filter (str_eqb n) ks)).
  fold (count_key n ks). rewrite mem_cons, (str_eqb_sym k n).
  destruct (str_eqb_spec n k) as [->|E]; cbn [orb length].
  - assert (Hm : mem k ns = false) by (destruct (mem k ns) eqn:Em; [apply mem_In in Em; contradiction | reflexivity]).
    rewrite Hm. fold (count_key k ks). lia.
  - fold (count_key n ks). lia.
Qed.

Lemma sumc_le names ks : NoDup names -> sumc names ks <= length ks.
Proof.
  intros Hnd. induction ks as [|k ks IH].
  - clear Hnd. induction names as [|n ns IHn]; [reflexivity|]. cbn [sumc]. unfold count_key at 1. cbn [filter length] in *. lia.
  - rewrite (sumc_cons names k ks Hnd). cbn [length]. destruct (mem k names); lia.
Qed.

(** every supplied key is defined when the definitions matched at least as many entries as were supplied *)
Lemma sumc_all_defined names ks :
  NoDup names -> length ks <= sumc names ks -> forall k, In k ks -> In k names.
Proof.
  intros Hnd. induction ks as [|k0 ks IH]; intros Hlen k Hk; [contradiction|].
  rewrite (sumc_cons names k0 ks Hnd) in Hlen. cbn [length] in Hlen.
  pose proof (sumc_le names ks Hnd) as Hle.
  destruct (mem k0 names) eqn:Em; [|lia].
  destruct Hk as [<-|Hk]; [apply mem_In, Em | apply IH; [lia | exact Hk]].
Qed.

Lemma sumc_defined_ge names ks :
  NoDup names -> (forall k, In k ks -> In k names) -> length ks <= sumc names ks.
Proof.
  intros Hnd. induction ks as [|k0 ks IH]; intros H; [cbn; lia|].
  rewrite (sumc_cons names k0 ks Hnd). cbn [length].
  assert (Em : mem k0 names = true) by (apply mem_In, H; left; reflexivity). rewrite Em.
  specialize (IH (fun k Hk => H k (or_intror Hk))). lia.
Qed.

Lemma concat_nil_inv {A} (l : list (list A)) : concat l = [] -> forall x, In x l -> x = [].
Proof.
  induction l as [|a l IH]; cbn; intros H x Hx; [contradiction|].
  apply app_nil_inv in H as [Ha Hl]. destruct Hx as [<-|Hx]; auto.
Qed.

(** * The loop over the expected fields of an input object *)
Section IoLoop.
  Variable cv : value -> ty -> list err.
  Variable fs : list (ident * value).

  Definition keys : list str := map (fun kv => iname (fst kv)) fs.

  Lemma filter_vals_length {A} (f : value -> A) name : length (filter_vals f name fs) = count_key name keys.
  Proof.
    unfold keys, count_key. induction fs as [|[k v] r IH]; [reflexivity|].
    cbn [filter_vals map fst filter]. destruct (str_eqb name (iname k)); cbn [length]; rewrite IH; reflexivity.
  Qed.

  Lemma filter_vals_In {A} (f : value -> A) name y :
    In y (filter_vals f name fs) <-> exists k v, In (k, v) fs /\ name = iname k /\ y = f v.
  Proof.
    induction fs as [|[k v] r IH]; cbn [filter_vals]; [split; [contradiction | intros [? [? [[] _]]]]|].
    destruct (str_eqb_spec name (iname k)) as [E|E]; cbn [In]; rewrite IH; split.
    - intros [<-|[k' [v' [H1 H2]]]]; [exists k, v; auto | exists k', v'; auto].
    - intros [k' [v' [[H|H] [H2 H3]]]]; [injection H as <- <-; left; auto | right; eauto].
    - intros [k' [v' [H1 H2]]]. exists k', v'. auto.
    - intros [k' [v' [[H|H] [H2 H3]]]]; [injection H as <- <-; contradiction | eauto].
  Qed.

  Lemma count_key_zero name : count_key name keys = 0 <-> mem name keys = false.
  Proof.
    unfold count_key, keys. induction fs as [|[k v] r IH]; [cbn; tauto|].
    cbn [map fst filter]. rewrite mem_cons. destruct (str_eqb name (iname k)); cbn [orb length]; [split; discriminate | exact IH].
  Qed.

  Definition ef_vals (ef : inputvaldef) : list (list err) :=
    filter_vals (fun fv => cv fv (loc_type ef fv)) (iname (iv_name ef)) fs.
  Definition ef_ok (ef : inputvaldef) : bool :=
    mem (iname (iv_name ef)) keys || negb (required_input ef).

  Lemma required_input_eq ef :
    required_input ef = ty_is_nonnull (iv_type ef) && match iv_default ef with None => true | Some _ => false end.
  Proof. unfold required_input. destruct (iv_type ef), (iv_default ef); reflexivity. Qed.

  Lemma io_fold : forall fields st,
    let st' := fold_left (io_step cv fs) fields st in
    io_errs st' = io_errs st ++ flat_map (fun ef => concat (ef_vals ef)) fields
    /\ io_res st' = io_res st && forallb ef_ok fields
    /\ io_seen st' = io_seen st + sumc (map (fun ef => iname (iv_name ef)) fields) keys.
  Proof.
    induction fields as [|ef fields IH]; intros st; cbn [fold_left flat_map forallb map].
    - cbn. rewrite app_nil_r, andb_true_r, Nat.add_0_r. auto.
    - specialize (IH (io_step cv fs st ef)). cbn zeta in IH. destruct IH as [IH1 [IH2 IH3]].
      cbn zeta. rewrite IH1, IH2, IH3. cbn [sumc].
      unfold io_step, ef_ok. fold (ef_vals ef).
      pose proof (filter_vals_length (fun fv => cv fv (loc_type ef fv)) (iname (iv_name ef))) as Hlen. fold (ef_vals ef) in Hlen.
      destruct (ef_vals ef) as [|r0 rs] eqn:Ev.
      + cbn [length] in Hlen. symmetry in Hlen. pose proof (proj1 (count_key_zero _) Hlen) as Hm.
        rewrite Hm, Hlen. cbn [orb concat app]. rewrite <- required_input_eq.
        destruct (required_input ef); cbn [io_errs io_res io_seen negb andb app];
          (split; [reflexivity|]); (split; [|lia]).
        * rewrite andb_false_r. reflexivity.
        * reflexivity.
      + assert (Hm : mem (iname (iv_name ef)) keys = true).
        { destruct (mem (iname (iv_name ef)) keys) eqn:E; [reflexivity|].
          apply count_key_zero in E. rewrite E in Hlen. discriminate. }
        rewrite Hm. cbn [io_errs io_res io_seen orb andb]. rewrite <- Hlen, app_assoc.
        split; [reflexivity|]. split; [reflexivity | lia].
  Qed.
End IoLoop.

(** * Built-in scalars *)

Lemma digits_agree : forall l acc, sp_digits (Z.of_N acc) l = option_map Z.of_N (digits_val acc l).
Proof.
  induction l as [|c r IH]; intros acc; [reflexivity|]. cbn [sp_digits digits_val].
  unfold sp_digit, digit_val. destruct (N.leb 48 c && N.leb c 57) eqn:E; [|reflexivity].
  apply andb_true_iff in E as [E1 E2]. apply N.leb_le in E1, E2.
  rewrite <- IH. f_equal. lia.
Qed.

Lemma parse_i32_spec l : parse_i32 l = int32_lexeme l.
Proof.
  unfold parse_i32, int32_lexeme, lexeme_int.
  assert (Hpos : forall ds, match digits_val 0 ds with Some m => N.leb m 2147483647 | None => false end
                           = match sp_digits 0 ds with Some z => Z.leb (-2147483648) z && Z.leb z 2147483647 | None => false end).
  { intros ds. pose proof (digits_agree ds 0) as Ed. change (Z.of_N 0) with 0%Z in Ed. rewrite Ed. destruct (digits_val 0 ds) as [m|]; [|reflexivity]. cbn [option_map].
    destruct (N.leb_spec m 2147483647), (Z.leb_spec (-2147483648) (Z.of_N m)), (Z.leb_spec (Z.of_N m) 2147483647);
      cbn [andb]; try reflexivity; lia. }
  assert (Hneg : forall ds, match digits_val 0 ds with Some m => N.leb m 2147483648 | None => false end
                           = match option_map Z.opp (sp_digits 0 ds) with
                             | Some z => Z.leb (-2147483648) z && Z.leb z 2147483647 | None => false end).
  { intros ds. pose proof (digits_agree ds 0) as Ed. change (Z.of_N 0) with 0%Z in Ed. rewrite Ed. destruct (digits_val 0 ds) as [m|]; [|reflexivity]. cbn [option_map].
    destruct (N.leb_spec m 2147483648), (Z.leb_spec (-2147483648) (- Z.of_N m)), (Z.leb_spec (- Z.of_N m) 2147483647);
      cbn [andb]; try reflexivity; lia. }
  destruct l as [|c r]; [reflexivity|].
  destruct (N.eq_dec c 45) as [->|H45].
  - destruct r as [|c' r']; [reflexivity|]. apply Hneg.
  - destruct (N.eq_dec c 43) as [->|H43].
    + destruct r as [|c' r']; [reflexivity|]. apply Hpos.
    + destruct c as [|p]; [exact (Hpos (0%N :: r))|].
      do 6 (destruct p as [p|p|];
            try (match goal with |- context [digits_val 0 (?c :: r)] => exact (Hpos (c :: r)) end)); congruence.
Qed.

Lemma s_consts :
  s "Int" = str_Int /\ s "Float" = str_Float /\ s "String" = str_String /\ s "Boolean" = str_Boolean /\ s "ID" = str_ID.
Proof. repeat split; reflexivity. Qed.

Lemma scalar_agree name v :
  is_var v = false -> value_is_null v = false -> scalar_accepts name v = true -> builtin_scalar_ok name v = true.
Proof.
  intros Hv Hn. unfold scalar_accepts, builtin_scalar_ok.
  destruct s_consts as [-> [-> [-> [-> ->]]]].
  destruct (str_eqb_spec name str_Boolean) as [E1|E1];
  destruct (str_eqb_spec name str_Int) as [E2|E2];
  destruct (str_eqb_spec name str_Float) as [E3|E3];
  destruct (str_eqb_spec name str_String) as [E4|E4];
  destruct (str_eqb_spec name str_ID) as [E5|E5];
  unfold str_Boolean, str_Int, str_Float, str_String, str_ID in *;
  try congruence; destruct v; cbn in *; rewrite <- ?parse_i32_spec in *; congruence.
Qed.


Lemma builtin_agree name : is_builtin_scalar name = sp_builtin_scalar name.
Proof.
  unfold is_builtin_scalar, sp_builtin_scalar. destruct s_consts as [-> [-> [-> [-> ->]]]].
  destruct (str_eqb name str_Boolean), (str_eqb name str_Int), (str_eqb name str_Float), (str_eqb name str_String),
           (str_eqb name str_ID); reflexivity.
Qed.

Lemma custom_scalar_ok name v : is_builtin_scalar name = false -> builtin_scalar_ok name v = true.
Proof.
  unfold is_builtin_scalar, builtin_scalar_ok. destruct s_consts as [-> [-> [-> [-> ->]]]]. intros H.
  destruct (str_eqb name str_Boolean), (str_eqb name str_Int), (str_eqb name str_Float), (str_eqb name str_String),
           (str_eqb name str_ID); try discriminate H; reflexivity.
Qed.

(** * check_value is sound for "Values of Correct Type" and "All Variable Usages Are Allowed" *)

Lemma Forall_flat_map {A B} (P : B -> Prop) (f : A -> list B) l :
  (forall x, In x l -> Forall P (f x)) -> Forall P (flat_map f l).
Proof.
  induction l as [|a l IH]; cbn; intros H; [constructor|].
  apply Forall_app. split; [apply H; left; reflexivity | apply IH; intros x Hx; apply H; right; exact Hx].
Qed.

Lemma NoDup_map_inj {A B} (f : A -> B) l a b :
  NoDup (map f l) -> In a l -> In b l -> f a = f b -> a = b.
Proof.
  induction l as [|x l IH]; cbn; intros Hnd Ha Hb E; [contradiction|].
  inversion Hnd as [|? ? Hx Hl]; subst.
  destruct Ha as [<-|Ha], Hb as [<-|Hb]; auto.
  - exfalso. apply Hx. rewrite E. apply in_map, Hb.
  - exfalso. apply Hx. rewrite <- E. apply in_map, Ha.
Qed.

Lemma find_by_name (fields : list inputvaldef) k :
  In k (map (fun d => iname (iv_name d)) fields) ->
  exists d, find (fun d => str_eqb (iname (iv_name d)) k) fields = Some d /\ In d fields /\ iname (iv_name d) = k.
Proof.
  induction fields as [|d fields IH]; cbn; intros H; [contradiction|].
  destruct (str_eqb_spec (iname (iv_name d)) k) as [E|E].
  - exists d. auto.
  - destruct H as [H|H]; [contradiction|]. destruct (IH H) as [d' [Hf [Hin Hn]]]. exists d'. auto.
Qed.

Lemma lit_fields_forall lo fields fs :
  (forall k v, In (k, v) fs ->
     exists d, find (fun d => str_eqb (iname (iv_name d)) (iname k)) fields = Some d /\ lo v (iv_type d) = true) ->
  lit_fields lo fields fs = true.
Proof.
  induction fs as [|[k v] r IH]; cbn [lit_fields]; intros H; [reflexivity|].
  destruct (H k v (or_introl eq_refl)) as [d [-> Hl]]. rewrite Hl. cbn.
  apply IH. intros k' v' Hin. apply H. right. exact Hin.
Qed.

(** schema_wf gives distinct names and grammar-shaped types for the fields of every input object [get_type] returns *)
Lemma get_type_In S n t : get_type S n = Some t -> In (TSType t) S.
Proof.
  induction S as [|d S IH]; cbn; [discriminate|].
  destruct d as [sd|t'|dd|se|te]; try (intros H; right; apply IH, H).
  destruct (str_eqb (iname (typedef_name t')) n).
  - intros E. injection E as ->. left. reflexivity.
  - intros H. right. apply IH, H.
Qed.

Lemma names_distinct_parts l : names_distinct l = true ->
  NoDup (map (fun d => iname (iv_name d)) l) /\ forall d, In d l -> ty_wf (iv_type d) = true.
Proof.
  unfold names_distinct. intros H. apply andb_true_iff in H as [H1 H2]. split; [apply nodup_str_NoDup, H1|].
  intros d Hd. rewrite forallb_forall in H2. apply H2, Hd.
Qed.

Lemma wf_input_both S n d p name dirs fields kw :
  schema_wf S = true -> get_type S n = Some (TDInput d p name dirs fields kw) ->
  NoDup (map (fun d => iname (iv_name d)) fields) /\ forall x, In x fields -> ty_wf (iv_type x) = true.
Proof.
  intros Hwf Hg. apply get_type_In in Hg. unfold schema_wf in Hwf.
  rewrite !andb_true_iff in Hwf. destruct Hwf as [[Hwf _] _].
  rewrite forallb_forall in Hwf. specialize (Hwf _ Hg). cbn beta iota in Hwf. apply names_distinct_parts, Hwf.
Qed.

Lemma wf_input S n d p name dirs fields kw :
  schema_wf S = true -> get_type S n = Some (TDInput d p name dirs fields kw) ->
  NoDup (map (fun d => iname (iv_name d)) fields).
Proof. intros Hwf Hg. apply (wf_input_both S n d p name dirs fields kw Hwf Hg). Qed.

Lemma Forall_flat_map_inv' {A B} (P : B -> Prop) (f : A -> list B) l :
  Forall P (flat_map f l) -> forall x, In x l -> Forall P (f x).
Proof.
  induction l as [|a l IH]; cbn; intros H x Hx; [contradiction|].
  apply Forall_app in H as [Ha Hl]. destruct Hx as [<-|Hx]; auto.
Qed.

Section ValueSound.
  Variable S : tsdoc.
  Variable vars : option vardefs.
  Hypothesis Hwf : schema_wf S = true.

  Definition use_ok (u : var_use) : Prop :=
    exists vd, get_variable_definition vars (u_name u) = Some vd
      /\ forall t, u_type u = Some t -> variable_usage_allowed vd t (u_loc_default u) = true.

  Lemma type_compat_nullable_nonnull vt e : ty_is_nonnull vt = false -> type_compat vt (TNonNull e) = false.
  Proof. destruct vt; cbn; intros H; [reflexivity | discriminate | reflexivity]. Qed.

  Lemma check_variable_value_sound n p t ld :
    check_variable_value vars n p t = [] -> use_ok (mkUse n (Some t) ld).
  Proof.
    unfold check_variable_value, use_ok. cbn [u_name u_type u_loc_default].
    destruct (get_variable_definition vars n) as [vd|]; [|discriminate].
    intros H. exists vd. split; [reflexivity|]. intros t' E. injection E as <-.
    unfold variable_usage_allowed.
    assert (Hd : match vd_default vd with Some (VNull _) => false | Some _ => true | None => false end
                 = match vd_default vd with Some d => negb (value_is_null d) | None => false end).
    { destruct (vd_default vd) as [[]|]; reflexivity. }
    rewrite Hd. clear Hd.
    destruct t as [tn|ti|tp ti].
    - destruct (type_compat (vd_type vd) (TNamed tn)) eqn:E; [|discriminate].
      rewrite type_compat_spec in E. destruct (vd_type vd); exact E.
    - destruct (ty_is_nonnull (vd_type vd)) eqn:Enn.
      + cbn [negb andb] in H. destruct (type_compat (vd_type vd) (TNonNull ti)) eqn:E; [|discriminate].
        rewrite type_compat_spec in E. destruct (vd_type vd); try discriminate Enn. exact E.
      + cbn [negb andb] in H.
        destruct (match vd_default vd with Some d => negb (value_is_null d) | None => false end).
        * destruct (type_compat (vd_type vd) ti) eqn:E; [|discriminate].
          rewrite type_compat_spec in E. cbn [orb]. destruct (vd_type vd); try discriminate Enn; exact E.
        * rewrite (type_compat_nullable_nonnull _ _ Enn) in H. discriminate.
    - destruct (type_compat (vd_type vd) (TList tp ti)) eqn:E; [|discriminate].
      rewrite type_compat_spec in E. destruct (vd_type vd); exact E.
  Qed.

  Lemma loc_type_nonvar d v : is_var v = false -> loc_type d v = iv_type d.
  Proof. unfold loc_type. destruct (iv_type d), v; intros H; try discriminate H; reflexivity. Qed.

  (** expected_type_of_location: a variable given directly for a defaulted non-null position *)
  Lemma var_loc_sound d n p :
    ty_wf (iv_type d) = true ->
    check_variable_value vars n p (loc_type d (VVar n p)) = [] ->
    use_ok (mkUse n (Some (iv_type d)) (has_default d)).
  Proof.
    intros Hty H. unfold loc_type in H. destruct (iv_type d) as [tn|inner|tp ti] eqn:Et.
    - apply (check_variable_value_sound n p _ _ H).
    - unfold has_default. destruct (iv_default d) as [dv|]; [|apply (check_variable_value_sound n p _ _ H)].
      assert (Hinner : ty_is_nonnull inner = false) by (destruct inner; [reflexivity | discriminate Hty | reflexivity]).
      unfold check_variable_value in H. unfold use_ok. cbn [u_name u_type u_loc_default].
      destruct (get_variable_definition vars n) as [vd|]; [|discriminate].
      exists vd. split; [reflexivity|]. intros t' E. injection E as <-.
      assert (Hc : type_compat (vd_type vd) inner = true).
      { destruct inner; try discriminate Hinner;
          (match type of H with (if negb ?c then _ else _) = _ => destruct c; [reflexivity | discriminate] end). }
      unfold variable_usage_allowed. rewrite orb_true_r.
      destruct (vd_type vd) as [vn|vi|vp vi] eqn:Ev.
      + rewrite <- type_compat_spec. exact Hc.
      + cbn [types_compatible]. rewrite <- type_compat_spec.
        destruct inner; try discriminate Hinner; exact Hc.
      + rewrite <- type_compat_spec. exact Hc.
    - apply (check_variable_value_sound n p _ _ H).
  Qed.

  (** check_variables_in_value: every variable inside the literal is defined *)
  Lemma cviv_sound : forall v, check_variables_in_value vars v = [] -> Forall use_ok (var_uses true S v None false).
  Proof.
    induction v as [n p|p l|p l|p l|p b|p|p l|p vs IHvs|p fs IHfs] using value_ind'; intros H; try constructor.
    - cbn [check_variables_in_value] in H. destruct (get_variable_definition vars n) as [vd|] eqn:E; [|discriminate].
      exists vd. split; [exact E | intros t Ht; discriminate Ht].
    - constructor.
    - cbn [check_variables_in_value] in H. cbn [var_uses orb]. apply Forall_flat_map. intros e He.
      rewrite Forall_forall in IHvs. apply (IHvs e He). apply (flat_map_nil _ _ H e He).
    - cbn [check_variables_in_value] in H. cbn [var_uses orb]. revert H.
      induction fs as [|[k fv] r IHr]; intros H; [constructor|].
      inversion IHfs as [|? ? Hk Hr]; subst. apply app_nil_inv in H as [H1 H2].
      cbn [find]. apply Forall_app. split; [apply Hk, H1 | apply (IHr Hr H2)].
  Qed.

  (** the named arm *)
  Lemma named_sound v n :
    is_var v = false ->
    match v with
    | VObject _ fs => Forall (fun kv => forall t, check_value S vars (snd kv) t = [] -> lit_ok S (snd kv) t = true) fs
    | _ => True
    end ->
    check_named S vars (check_value S vars) v (TNamed n) n = [] ->
    lit_ok S v (TNamed n) = true.
  Proof.
    intros Hv IH H. rewrite (lo_named S v n Hv).
    destruct (value_is_null v) eqn:Enull; [destruct v; try discriminate; reflexivity|].
    assert (G : lit_named (lit_ok S) S v n = true); [|destruct v; try exact G; discriminate].
    unfold check_named in H. unfold lit_named. rewrite <- get_type_sp.
    destruct (get_type S (iname n)) as [td|] eqn:Eg; [|discriminate].
    destruct td as [d p name dirs kw|d p name impls dirs fs' kw|d p name impls dirs fs' kw|d p name dirs mem' kw
                   |d p name dirs vals kw|d p name dirs fields kw]; cbn zeta in H; try discriminate.
    - (* scalar *)
      destruct (is_builtin_scalar (iname name)) eqn:Eb; [|apply custom_scalar_ok, Eb].
      destruct (scalar_accepts (iname name) v) eqn:Ea; [|discriminate].
      apply scalar_agree; assumption.
    - (* enum *)
      destruct v; try discriminate.
      destruct (forallb (fun ev => negb (str_eqb (iname (ev_name ev)) v)) vals) eqn:Ef; [discriminate|].
      apply mem_In. apply in_map_iff.
      assert (Hex : existsb (fun ev => str_eqb (iname (ev_name ev)) v) vals = true).
      { clear -Ef. induction vals as [|e vals IHv]; cbn in *; [discriminate|].
        destruct (str_eqb (iname (ev_name e)) v); cbn in *; [reflexivity | apply IHv, Ef]. }
      apply existsb_exists in Hex as [e [Hin He]]. exists e. apply str_eqb_eq in He. auto.
    - (* input object *)
      destruct v as [| | | | | | | |q fs]; try discriminate.
      unfold input_object_check in H. cbn zeta in H.
      pose proof (io_fold (check_value S vars) fs fields (mkIo [] true [] 0)) as [F1 [F2 F3]].
      cbn zeta in F1, F2, F3. cbn [io_errs io_res io_seen app andb Nat.add] in F1, F2, F3.
      apply app_nil_inv in H as [He Hr]. rewrite F1 in He. rewrite F2, F3 in Hr.
      destruct (forallb (ef_ok fs) fields) eqn:Eok; [|discriminate].
      destruct (Nat.ltb (sumc (map (fun ef => iname (iv_name ef)) fields) (keys fs)) (length fs)) eqn:Elt; [discriminate|].
      apply Nat.ltb_ge in Elt.
      pose proof (wf_input S _ _ _ _ _ _ _ Hwf Eg) as Hnd.
      assert (Hdef : forall k, In k (keys fs) -> In k (map (fun d0 => iname (iv_name d0)) fields)).
      { apply (sumc_all_defined _ _ Hnd). unfold keys at 1. rewrite map_length. exact Elt. }
      fold (keys fs). rewrite andb_true_iff. split.
      + apply lit_fields_forall. intros k v Hin.
        assert (Hk : In (iname k) (keys fs)) by (unfold keys; apply in_map_iff; exists (k, v); auto).
        destruct (find_by_name fields (iname k) (Hdef _ Hk)) as [dd [Hf [Hdin Hdn]]].
        exists dd. split; [exact Hf|].
        pose proof (flat_map_nil _ _ He dd Hdin) as Hee. cbn beta in Hee.
        assert (Hcv : check_value S vars v (loc_type dd v) = []).
        { apply (concat_nil_inv _ Hee). unfold ef_vals. apply filter_vals_In. exists k, v. auto. }
        destruct (is_var v) eqn:Evar.
        * destruct v; try discriminate Evar. apply lo_var.
        * rewrite (loc_type_nonvar dd v Evar) in Hcv. rewrite Forall_forall in IH. apply (IH (k, v) Hin). exact Hcv.
      + apply forallb_forall. intros dd Hdin. rewrite forallb_forall in Eok. specialize (Eok dd Hdin).
        unfold ef_ok in Eok. rewrite orb_comm. exact Eok.
  Qed.

  (** variable uses of an object / list literal, unfolded *)
  Definition input_defs (t : ty) : list inputvaldef :=
    match unwrap_lists t with
    | TNamed n => match sp_type S (iname n) with Some (TDInput _ _ _ _ fields _) => fields | _ => [] end
    | _ => []
    end.
  Definition obj_uses (defs : list inputvaldef) (custom : bool) (fs : list (ident * value)) : list var_use :=
    flat_map (fun kv => match find (fun d => str_eqb (iname (iv_name d)) (iname (fst kv))) defs with
                        | Some d => var_uses false S (snd kv) (Some (iv_type d))
                                      (match iv_default d with Some _ => true | None => false end)
                        | None => if custom then var_uses true S (snd kv) None false else []
                        end) fs.

  Lemma obj_uses_unfold p fs t ld :
    var_uses false S (VObject p fs) (Some t) ld = obj_uses (input_defs t) (custom_scalar S (unwrap_lists t)) fs.
  Proof.
    cbn [var_uses orb]. fold (input_defs t). generalize (input_defs t) as defs, (custom_scalar S (unwrap_lists t)) as c.
    intros defs c. unfold obj_uses. induction fs as [|[k fv] r IH]; [reflexivity|].
    cbn [flat_map fst snd]. rewrite <- IH. reflexivity.
  Qed.

  Lemma input_defs_nonnull i : input_defs (TNonNull i) = input_defs i.
  Proof. reflexivity. Qed.
  Lemma input_defs_list q i : input_defs (TList q i) = input_defs i.
  Proof. reflexivity. Qed.

  Lemma list_uses_unfold p vs t ld :
    var_uses false S (VList p vs) (Some t) ld =
    match strip_nonnull t with
    | TList _ i => flat_map (fun e => var_uses false S e (Some i) false) vs
    | t' => if custom_scalar S t' then flat_map (fun e => var_uses true S e None false) vs else []
    end.
  Proof. cbn [var_uses orb]. destruct (strip_nonnull t) as [n|i|q i]; try reflexivity; destruct (custom_scalar S _); reflexivity. Qed.

  Lemma deep_list_unfold p vs : var_uses true S (VList p vs) None false = flat_map (fun e => var_uses true S e None false) vs.
  Proof. reflexivity. Qed.
  Lemma deep_obj_unfold p fs : var_uses true S (VObject p fs) None false = flat_map (fun kv => var_uses true S (snd kv) None false) fs.
  Proof.
    cbn [var_uses orb]. induction fs as [|[k fv] r IH]; [reflexivity|]. cbn [find flat_map snd]. rewrite <- IH. reflexivity.
  Qed.

  (** the custom-scalar arm: what the model reports for a custom scalar is check_variables_in_value *)
  Lemma custom_named v n :
    is_var v = false -> custom_scalar S (TNamed n) = true ->
    check_named S vars (check_value S vars) v (TNamed n) n = check_variables_in_value vars v.
  Proof.
    intros Hv Hc. unfold custom_scalar in Hc. unfold check_named. rewrite get_type_sp.
    destruct (sp_type S (iname n)) as [td|]; [|discriminate]. destruct td; try discriminate. cbn zeta.
    rewrite builtin_agree. destruct (sp_builtin_scalar (iname name)); [discriminate | reflexivity].
  Qed.

  Theorem check_value_sound : forall v t,
    check_value S vars v t = [] ->
    lit_ok S v t = true /\ forall ld, Forall use_ok (var_uses false S v (Some t) ld).
  Proof.
    assert (Hatom : forall v, is_var v = false ->
              (match v with VList _ _ | VObject _ _ => False | _ => True end) ->
              forall t, check_value S vars v t = [] ->
              lit_ok S v t = true /\ forall ld, Forall use_ok (var_uses false S v (Some t) ld)).
    { intros v Hv Hshape t H. split; [|intros ld; destruct v; try contradiction; try discriminate Hv; constructor].
      induction t as [n|i IHt|q i IHt].
      - apply named_sound; [exact Hv | destruct v; try exact I; contradiction |]. rewrite <- cv_named; [exact H | exact Hv].
      - rewrite cv_nonnull in H by exact Hv. rewrite lo_nonnull by exact Hv.
        destruct v; try contradiction; try discriminate Hv; try (apply IHt, H). discriminate H.
      - rewrite cv_list in H by exact Hv. rewrite lo_list by exact Hv.
        destruct v; try contradiction; try discriminate Hv; try (apply IHt, H). reflexivity. }
    induction v as [n p|p l|p l|p l|p b|p|p l|p vs IHvs|p fs IHfs] using value_ind'; intros t H;
      try (apply Hatom; [reflexivity | exact I | exact H]).
    - (* variable *)
      rewrite cv_var in H. split; [apply lo_var|].
      intros ld. cbn [var_uses]. constructor; [|constructor]. apply check_variable_value_sound with (p := p). exact H.
    - (* list *)
      rewrite Forall_forall in IHvs.
      induction t as [n|i IHt|q i IHt].
      + rewrite cv_named in H by reflexivity. split.
        * apply named_sound; [reflexivity | exact I | exact H].
        * intros ld. rewrite list_uses_unfold. cbn [strip_nonnull].
          destruct (custom_scalar S (TNamed n)) eqn:Ec; [|constructor].
          rewrite (custom_named (VList p vs) n eq_refl Ec) in H. rewrite <- deep_list_unfold with (p := p). apply cviv_sound, H.
      + rewrite cv_nonnull in H by reflexivity. rewrite lo_nonnull by reflexivity.
        destruct (IHt H) as [Hl Hu]. split; [exact Hl|].
        intros ld. specialize (Hu ld). rewrite list_uses_unfold in *. exact Hu.
      + rewrite cv_list in H by reflexivity. rewrite lo_list by reflexivity. split.
        * apply forallb_forall. intros e He. apply IHvs; [exact He|]. apply (flat_map_nil _ _ H e He).
        * intros ld. rewrite list_uses_unfold. cbn [strip_nonnull].
          apply Forall_flat_map. intros e He. apply IHvs; [exact He|]. apply (flat_map_nil _ _ H e He).
    - (* object *)
      induction t as [n|i IHt|q i IHt].
      + rewrite cv_named in H by reflexivity. split.
        * apply named_sound; [reflexivity | | exact H].
          apply Forall_forall. intros kv Hin t' Ht'. rewrite Forall_forall in IHfs. apply (IHfs kv Hin t' Ht').
        * intros ld. rewrite obj_uses_unfold. cbn [unwrap_lists].
          destruct (custom_scalar S (TNamed n)) eqn:Ec.
          { rewrite (custom_named (VObject p fs) n eq_refl Ec) in H. apply cviv_sound in H. rewrite deep_obj_unfold in H.
            unfold input_defs. cbn [unwrap_lists]. unfold custom_scalar in Ec.
            destruct (sp_type S (iname n)) as [td|]; [|discriminate]. destruct td; try discriminate.
            unfold obj_uses. apply Forall_flat_map. intros kv Hkv. cbn [find].
            apply (Forall_flat_map_inv' _ _ _ H kv Hkv). }
          unfold input_defs. cbn [unwrap_lists].
          unfold check_named in H. rewrite get_type_sp in H.
          destruct (sp_type S (iname n)) as [td|] eqn:Eg; [|discriminate H].
          destruct td as [d p' name dirs kw|d p' name impls dirs fs' kw|d p' name impls dirs fs' kw|d p' name dirs mem' kw
                         |d p' name dirs vals kw|d p' name dirs fields kw];
            try (unfold obj_uses; apply Forall_flat_map; intros kv _; cbn; constructor).
          cbn zeta in H. unfold input_object_check in H. cbn zeta in H.
          pose proof (io_fold (check_value S vars) fs fields (mkIo [] true [] 0)) as [F1 [F2 F3]].
          cbn zeta in F1, F2, F3. cbn [io_errs io_res io_seen app andb Nat.add] in F1, F2, F3.
          apply app_nil_inv in H as [He Hr]. rewrite F1 in He.
          rewrite <- get_type_sp in Eg.
          destruct (wf_input_both S _ _ _ _ _ _ _ Hwf Eg) as [Hnd Hty].
          unfold obj_uses. apply Forall_flat_map. intros [k fv] Hin. cbn [fst snd].
          destruct (find (fun d0 => str_eqb (iname (iv_name d0)) (iname k)) fields) as [dd|] eqn:Ef; [|constructor].
          apply find_some in Ef as [Hdin Hdn]. apply str_eqb_eq in Hdn.
          pose proof (flat_map_nil _ _ He dd Hdin) as Hee. cbn beta in Hee.
          assert (Hcv : check_value S vars fv (loc_type dd fv) = []).
          { apply (concat_nil_inv _ Hee). unfold ef_vals. apply filter_vals_In. exists k, fv. auto. }
          destruct (is_var fv) eqn:Evar.
          -- destruct fv as [vn vp| | | | | | | |]; try discriminate Evar. cbn [var_uses]. constructor; [|constructor].
             rewrite cv_var in Hcv. apply (var_loc_sound dd vn vp (Hty dd Hdin) Hcv).
          -- rewrite (loc_type_nonvar dd fv Evar) in Hcv.
             rewrite Forall_forall in IHfs. apply (IHfs (k, fv) Hin (iv_type dd) Hcv).
      + rewrite cv_nonnull in H by reflexivity. rewrite lo_nonnull by reflexivity.
        destruct (IHt H) as [Hl Hu]. split; [exact Hl|].
        intros ld. specialize (Hu ld). rewrite obj_uses_unfold in *. exact Hu.
      + rewrite cv_list in H by reflexivity. rewrite lo_list by reflexivity.
        destruct (IHt H) as [Hl Hu]. split; [exact Hl|].
        intros ld. specialize (Hu ld). rewrite obj_uses_unfold in *. exact Hu.
  Qed.
End ValueSound.
