(** C03 — proofs, part 6: the subscription rule. An error-free check implies that CollectFields on the root
    selection set of a subscription yields exactly one response key. *)
From V Require Import Base.Util Gql.Ast C03.Model C03.Spec C03.Proofs C03.Proofs2 C03.Proofs3 C03.Proofs4 C03.Proofs5.

(** * Induction over selections *)
Section SelInd.
  Variable P : selection -> Prop.
  Variable Q : selset -> Prop.
  Hypothesis Hfield : forall a n ar d sub, (forall ss, sub = Some ss -> Q ss) -> P (SField a n ar d sub).
  Hypothesis Hspread : forall p n d, P (SSpread p n d).
  Hypothesis Hinline : forall p c d ss, Q ss -> P (SInline p c d ss).
  Hypothesis Hset : forall p l, Forall P l -> Q (SelSet p l).
  Fixpoint sel_ind' (x : selection) : P x :=
    match x with
    | SField a n ar d sub =>
        Hfield a n ar d sub
          (match sub as s0 return forall ss, s0 = Some ss -> Q ss with
           | Some ss0 => fun ss E => match E in _ = y return match y with Some z => Q z | None => True end with
                                     | eq_refl => selset_ind' ss0 end
           | None => fun ss E => match E in _ = y return match y with Some z => Q z | None => True end with
                                 | eq_refl => I end
           end)
    | SSpread p n d => Hspread p n d
    | SInline p c d ss => Hinline p c d ss (selset_ind' ss)
    end
  with selset_ind' (ss : selset) : Q ss :=
    match ss with
    | SelSet p l =>
        Hset p l ((fix go (l : list selection) : Forall P l :=
                     match l with [] => Forall_nil _ | x :: r => Forall_cons x (sel_ind' x) (go r) end) l)
    end.
End SelInd.

(** * The specification's fuel is at least the model's *)
Lemma depth_le : forall ss, selset_depth ss <= selset_depth_sp ss.
Proof.
  apply (selset_ind' (fun x => sel_depth x <= sel_depth_sp x) (fun ss => selset_depth ss <= selset_depth_sp ss)).
  - intros a n ar d sub H. destruct sub as [ss|]; [|cbn; lia].
    specialize (H ss eq_refl). destruct ss as [p l]. exact H.
  - intros. cbn. lia.
  - intros p c d ss H. destruct ss as [q l]. exact H.
  - intros p l H. unfold selset_depth_sp. cbn [selset_sels].
    induction H as [|x r Hx Hr IH].
    + cbn. lia.
    + change (selset_depth (SelSet p (x :: r))) with (Datatypes.S (Nat.max (sel_depth x) (Nat.pred (selset_depth (SelSet p r))))).
      cbn [fold_right]. lia.
Qed.

Lemma doc_depth_le D : fold_right (fun d a => Nat.max (def_depth d) a) 0 (od_defs D) <= doc_depth_sp D.
Proof.
  unfold doc_depth_sp. induction (od_defs D) as [|d l IH]; [cbn; lia|]. cbn [fold_right].
  assert (H : def_depth d <= match d with
                             | DOp o => selset_depth_sp (op_sel o)
                             | DFrag f => selset_depth_sp (fr_sel f)
                             | DImport _ => 0 end).
  { destruct d; cbn [def_depth]; try apply depth_le. lia. }
  lia.
Qed.

Lemma spec_fuel_ge D :
  doc_fuel D <= Datatypes.S ((Datatypes.S (length (doc_fragdefs D))) * doc_depth_sp D).
Proof.
  unfold doc_fuel. change (doc_frags D) with (doc_fragdefs D). pose proof (doc_depth_le D) as H.
  apply le_n_S. apply Nat.mul_le_mono_l. exact H.
Qed.

Lemma NoDup_snoc' {A} (l : list A) x : NoDup l -> ~ In x l -> NoDup (l ++ [x]).
Proof.
  induction l as [|a l IH]; intros Hnd Hx; cbn [app]; [constructor; [intros []|constructor]|].
  inversion Hnd as [|? ? Ha Hl]; subst. constructor.
  - intros Hin. apply in_app_or in Hin as [Hin|[<-|[]]]; [contradiction|]. apply Hx. left. reflexivity.
  - apply IH; [exact Hl|]. intros Hin. apply Hx. right. exact Hin.
Qed.

(** * Unfolding the two key-collecting functions *)
Section Count.
  Variable S : tsdoc.
  Variable D : opdoc.
  Notation fm := (doc_frags D).

  Definition ck_step (k : nat) (acc : list str * list str) (x : selection) : list str * list str :=
    match x with
    | SField alias name _ _ _ =>
        let key := match alias with Some a => iname a | None => iname name end in
        (if mem key (fst acc) then fst acc else fst acc ++ [key], snd acc)
    | SSpread _ n _ =>
        if mem (iname n) (snd acc) then acc
        else match sp_frag D (iname n) with
             | None => (fst acc, snd acc ++ [iname n])
             | Some f => collect_keys k D (fst acc, snd acc ++ [iname n]) (selset_sels (fr_sel f))
             end
    | SInline _ _ _ ss => collect_keys k D acc (selset_sels ss)
    end.

  Lemma ck_nil F acc : collect_keys F D acc [] = acc.
  Proof. destruct F; reflexivity. Qed.
  Lemma ck_cons k acc x l : collect_keys (Datatypes.S k) D acc (x :: l) = collect_keys (Datatypes.S k) D (ck_step k acc x) l.
  Proof. reflexivity. Qed.

  Definition rk_step (f : nat) (seen : list str) (keys : list str) (sel : selection) : list str :=
    match sel with
    | SField alias name _ _ _ =>
        let k := match alias with Some a => iname a | None => iname name end in
        if mem_str k keys then keys else keys ++ [k]
    | SSpread _ name _ =>
        if mem_str (iname name) seen then keys
        else match frag_get fm (iname name) with
             | None => keys
             | Some fr => collect_response_keys f fm (seen ++ [iname name]) (fr_sel fr) keys
             end
    | SInline _ _ _ sub => collect_response_keys f fm seen sub keys
    end.

  Lemma rk_unfold f seen ss keys :
    collect_response_keys (Datatypes.S f) fm seen ss keys = fold_left (rk_step f seen) (selset_sels ss) keys.
  Proof. reflexivity. Qed.

  (** the implementation's keys are never lost either *)
  Lemma rk_mono : forall f seen ss keys k, mem k keys = true -> mem k (collect_response_keys f fm seen ss keys) = true.
  Proof.
    induction f as [|f IH]; intros seen ss keys k H; [exact H|].
    rewrite rk_unfold. revert keys H. generalize (selset_sels ss) as l.
    induction l as [|x l IHl]; intros keys H; [exact H|]. cbn [fold_left]. apply IHl.
    unfold rk_step. destruct x.
    - destruct (mem_str _ keys); [exact H|]. rewrite mem_app, H. reflexivity.
    - destruct (mem_str (iname name) seen); [exact H|]. destruct (frag_get fm (iname name)); [apply IH, H | exact H].
    - apply IH, H.
  Qed.

  (** the specification's keys are pairwise distinct *)
  Lemma ck_nodup : forall F acc l, NoDup (fst acc) -> NoDup (fst (collect_keys F D acc l)).
  Proof.
    induction F as [|k IH]; intros acc l H; [exact H|].
    revert acc H. induction l as [|x l IHl]; intros acc H; [rewrite ck_nil; exact H|].
    rewrite ck_cons. apply IHl. unfold ck_step. destruct x.
    - cbn [fst]. destruct (mem _ (fst acc)) eqn:Em; [exact H|].
      apply NoDup_snoc'; [exact H|]. intros Hin. apply mem_In in Hin. congruence.
    - destruct (mem (iname name) (snd acc)); [exact H|]. destruct (sp_frag D (iname name)); [apply IH; exact H | exact H].
    - apply IH, H.
  Qed.

  (** keys are never lost *)
  Lemma ck_mono : forall F acc l, length (fst acc) <= length (fst (collect_keys F D acc l)).
  Proof.
    induction F as [|k IH]; intros acc l; [cbn; lia|].
    revert acc. induction l as [|x l IHl]; intros acc; [rewrite ck_nil; lia|].
    rewrite ck_cons. specialize (IHl (ck_step k acc x)).
    assert (H : length (fst acc) <= length (fst (ck_step k acc x))).
    { unfold ck_step. destruct x.
      - cbn [fst]. destruct (mem _ (fst acc)); [lia | rewrite app_length; lia].
      - destruct (mem (iname name) (snd acc)); [lia|]. destruct (sp_frag D (iname name)); [|cbn; lia].
        specialize (IH (fst acc, snd acc ++ [iname name]) (selset_sels (fr_sel f))). cbn [fst] in IH. exact IH.
      - apply IH. }
    lia.
  Qed.
End Count.

Lemma snd_spread_match S p root cond : is_composite root = true -> snd (spread_match S p root cond) = true.
Proof. destruct root; try discriminate; destruct cond; reflexivity. Qed.

Section Subscription.
  Variable S : tsdoc.
  Variable D : opdoc.
  Variable vars : option vardefs.
  Hypothesis Hfrag_unique : nodup_str (map (fun f => iname (fr_name f)) (doc_fragdefs D)) = true.
  Hypothesis Hfrag_targets : forall f, In f (doc_fragdefs D) -> exists t, get_type S (iname (fr_cond f)) = Some t.
  Notation fm := (doc_frags D).
  Notation chk := (check_selection_set).

  Lemma spread_checked f seen root fields p name dirs :
    is_composite root = true ->
    check_selection S fm vars (chk f S fm vars) seen root fields (SSpread p name dirs) = [] ->
    mem_str (iname name) seen = false
    /\ exists target cond, frag_get fm (iname name) = Some target /\ sp_frag D (iname name) = Some target
         /\ chk f S fm vars (seen ++ [iname name]) cond (fr_sel target) = [].
  Proof.
    intros Hc H. cbn [check_selection] in H. unfold check_fragment_spread in H.
    apply app_nil_inv in H as [_ H].
    destruct (mem_str (iname name) seen); [discriminate|]. split; [reflexivity|].
    destruct (frag_get fm (iname name)) as [target|] eqn:Efg; [|discriminate].
    apply app_nil_inv in H as [_ H].
    pose proof Efg as Esp. rewrite (frag_get_sp D Hfrag_unique) in Esp.
    destruct (Hfrag_targets target (proj1 (find_some _ _ Esp))) as [cond Econd]. rewrite Econd in H.
    unfold check_fragment_spread_core in H. apply app_nil_inv in H as [_ H].
    rewrite (snd_spread_match S p root cond Hc) in H. eauto.
  Qed.

  Lemma inline_checked f seen root fields p tc dirs sub :
    is_composite root = true ->
    check_selection S fm vars (chk f S fm vars) seen root fields (SInline p tc dirs sub) = [] ->
    exists root', chk f S fm vars seen root' sub = [].
  Proof.
    intros Hc H. cbn [check_selection] in H. unfold check_inline_fragment in H.
    apply app_nil_inv in H as [_ H]. destruct tc as [c|]; [|eauto].
    destruct (get_type S (iname c)) as [cond|]; [|discriminate].
    unfold check_fragment_spread_core in H. apply app_nil_inv in H as [_ H].
    rewrite (snd_spread_match S p root cond Hc) in H. eauto.
  Qed.

  Lemma chk_composite f seen root ss : chk f S fm vars seen root ss = [] -> is_composite root = true.
  Proof.
    destruct f; cbn [check_selection_set]; [discriminate|]. unfold check_selection_set_body.
    destruct (direct_fields root) as [fields|] eqn:E; [|discriminate]. intros _. apply direct_fields_composite. eauto.
  Qed.

  (** ** every response key the specification collects is one the implementation collects *)
  Lemma upper : forall f seen root ss,
    chk f S fm vars seen root ss = [] ->
    forall F acc keys, (forall n, mem n seen = true -> mem n (snd acc) = true) ->
      (forall k, mem k (fst acc) = true -> mem k keys = true) ->
      (forall k, mem k (fst (collect_keys F D acc (selset_sels ss))) = true ->
                 mem k (collect_response_keys f fm seen ss keys) = true)
      /\ (forall n, mem n (snd acc) = true -> mem n (snd (collect_keys F D acc (selset_sels ss))) = true).
  Proof.
    induction f as [|f IH]; intros seen root ss H F acc keys Hincl Hkeys; [discriminate|].
    pose proof (chk_composite _ _ _ _ H) as Hcomp.
    cbn [check_selection_set] in H. unfold check_selection_set_body in H.
    destruct (direct_fields root) as [fields|]; [|discriminate].
    pose proof (flat_map_nil _ _ H) as Hall. clear H.
    rewrite rk_unfold. destruct F as [|k]; [cbn [collect_keys]; split; [|auto]|].
    { intros k0 Hk0. rewrite <- rk_unfold. apply rk_mono, Hkeys, Hk0. }
    revert acc keys Hincl Hkeys Hall. generalize (selset_sels ss) as l. induction l as [|x l IHl]; intros acc keys Hincl Hkeys Hall.
    - rewrite ck_nil. cbn [fold_left]. split; auto.
    - rewrite ck_cons. cbn [fold_left].
      assert (Hstep : (forall k0, mem k0 (fst (ck_step D k acc x)) = true -> mem k0 (rk_step D f seen keys x) = true)
                      /\ (forall n, mem n (snd acc) = true -> mem n (snd (ck_step D k acc x)) = true)).
      { specialize (Hall x (or_introl eq_refl)). unfold ck_step, rk_step. destruct x as [al nm ar di su|p name dirs|p tc dirs sub].
        - cbn [fst snd]. split; [|auto]. intros k0 Hk0.
          set (key := match al with Some a => iname a | None => iname nm end) in *.
          assert (Hk0' : mem k0 (fst acc) = true \/ k0 = key).
          { destruct (mem key (fst acc)); [left; exact Hk0|]. rewrite mem_app in Hk0. apply orb_true_iff in Hk0 as [Hk0|Hk0]; [left; exact Hk0|].
            right. cbn [mem existsb] in Hk0. rewrite orb_false_r in Hk0. apply str_eqb_eq, Hk0. }
          destruct (mem_str key keys) eqn:Ek.
          + destruct Hk0' as [Hk0'| ->]; [apply Hkeys, Hk0' | exact Ek].
          + rewrite mem_app. destruct Hk0' as [Hk0'| ->]; [rewrite (Hkeys _ Hk0'); reflexivity|].
            cbn [mem existsb]. rewrite str_eqb_refl. apply orb_true_r.
        - destruct (mem (iname name) (snd acc)) eqn:Ev.
          { split; [|auto]. intros k0 Hk0. specialize (Hkeys k0 Hk0).
            destruct (mem_str (iname name) seen); [exact Hkeys|]. destruct (frag_get fm (iname name)); [apply rk_mono, Hkeys | exact Hkeys]. }
          destruct (spread_checked _ _ _ _ _ _ _ Hcomp Hall) as [Hs [target [cond [Efg [Esp Hrec]]]]].
          rewrite Hs, Efg, Esp.
          destruct (IH _ _ _ Hrec k (fst acc, snd acc ++ [iname name]) keys) as [H1 H2].
          { intros n Hn. cbn [snd]. rewrite mem_app in *. apply orb_true_iff in Hn as [Hn|Hn]; [rewrite (Hincl n Hn); reflexivity|].
            rewrite Hn. apply orb_true_r. }
          { exact Hkeys. }
          cbn [fst snd] in H1, H2. split; [exact H1|].
          intros n Hn. apply H2. rewrite mem_app, Hn. reflexivity.
        - destruct (inline_checked _ _ _ _ _ _ _ _ Hcomp Hall) as [root' Hrec].
          destruct (IH _ _ _ Hrec k acc keys Hincl Hkeys) as [H1 H2]. split; [exact H1 | exact H2]. }
      destruct Hstep as [Hs1 Hs2].
      destruct (IHl (ck_step D k acc x) (rk_step D f seen keys x)) as [H1 H2].
      + intros n Hn. apply Hs2, Hincl, Hn.
      + exact Hs1.
      + intros y Hy. apply Hall. right. exact Hy.
      + split; [exact H1|]. intros n Hn. apply H2, Hs2, Hn.
  Qed.

  (** ** at least one response key *)
  Hypothesis Hfrag_nonempty : forall f, In f (doc_fragdefs D) -> selset_nonempty (fr_sel f) = true.

  Lemma lower : forall f seen root ss,
    chk f S fm vars seen root ss = [] -> selset_nonempty ss = true ->
    forall F acc, f <= F -> (forall n, mem n (snd acc) = mem n seen) ->
      1 <= length (fst (collect_keys F D acc (selset_sels ss))).
  Proof.
    induction f as [|f IH]; intros seen root ss H Hne F acc HF Hvis; [discriminate|].
    pose proof (chk_composite _ _ _ _ H) as Hcomp.
    cbn [check_selection_set] in H. unfold check_selection_set_body in H.
    destruct (direct_fields root) as [fields|]; [|discriminate].
    pose proof (flat_map_nil _ _ H) as Hall. clear H.
    destruct F as [|k]; [lia|].
    unfold selset_nonempty in Hne. destruct (selset_sels ss) as [|x l]; [discriminate|].
    cbn [forallb] in Hne. rewrite andb_true_l in Hne. apply andb_true_iff in Hne as [Hx _].
    rewrite ck_cons. pose proof (ck_mono D (Datatypes.S k) (ck_step D k acc x) l) as Hm.
    assert (Hstep : 1 <= length (fst (ck_step D k acc x))); [|lia].
    specialize (Hall x (or_introl eq_refl)). unfold ck_step. destruct x as [al nm ar di su|p name dirs|p tc dirs sub].
    - cbn [fst]. destruct (mem _ (fst acc)) eqn:Em; [|rewrite app_length; cbn; lia].
      apply mem_In in Em. destruct (fst acc); [contradiction | cbn; lia].
    - destruct (spread_checked _ _ _ _ _ _ _ Hcomp Hall) as [Hs [target [cond [Efg [Esp Hrec]]]]].
      rewrite Hvis, <- mem_str_mem, Hs, Esp.
      apply (IH _ _ _ Hrec); [apply Hfrag_nonempty, (proj1 (find_some _ _ Esp)) | lia |].
      intros n. cbn [snd]. rewrite !mem_app, Hvis. reflexivity.
    - destruct (inline_checked _ _ _ _ _ _ _ _ Hcomp Hall) as [root' Hrec].
      destruct sub as [q l']. cbn [sel_nonempty] in Hx.
      apply (IH _ _ _ Hrec); [exact Hx | lia | exact Hvis].
  Qed.
End Subscription.

(** * The rule *)
Theorem single_subscription_root_sound S D :
  selsets_nonempty D = true -> check_operation_document S D = [] ->
  rule_ok S D R_single_subscription_root = true.
Proof.
  intros Hne Hcheck. cbn [rule_ok]. apply forallb_forall. intros o Ho. unfold single_root_ok.
  destruct (op_type o) eqn:Et; try reflexivity.
  pose proof (op_checked S D o Hcheck Ho) as Hc.
  apply check_operation_nil in Hc as [root [_ [_ [_ [Hcount Hsel]]]]].
  rewrite Et in Hcount. cbn [optype_eqb andb] in Hcount. apply Nat.ltb_ge in Hcount.
  assert (Hu : nodup_str (map (fun f => iname (fr_name f)) (doc_fragdefs D)) = true) by exact (unique_fragments_sound S D Hcheck).
  assert (Ht : forall f, In f (doc_fragdefs D) -> exists t, get_type S (iname (fr_cond f)) = Some t).
  { intros f Hf. pose proof (frag_checked S D f Hcheck Hf) as Hfc. unfold check_fragment_definition in Hfc.
    destruct (get_type S (iname (fr_cond f))) as [t|]; [eauto | discriminate]. }
  unfold selsets_nonempty in Hne. rewrite forallb_forall in Hne.
  assert (Hfn : forall f, In f (doc_fragdefs D) -> selset_nonempty (fr_sel f) = true).
  { intros f Hf. unfold doc_fragdefs in Hf. apply in_flat_map in Hf as [d [Hd Hf]].
    destruct d as [o'|f'|i]; cbn in Hf; try contradiction. destruct Hf as [<-|[]]. apply (Hne _ Hd). }
  assert (Hon : selset_nonempty (op_sel o) = true).
  { unfold doc_ops in Ho. apply in_flat_map in Ho as [d [Hd Ho]].
    destruct d as [o'|f'|i]; cbn in Ho; try contradiction. destruct Ho as [<-|[]]. apply (Hne _ Hd). }
  set (F := Datatypes.S (Datatypes.S (length (doc_fragdefs D)) * doc_depth_sp D)).
  destruct (upper S D (op_vars o) Hu Ht _ _ _ _ Hsel F ([], []) []) as [Hup _];
    [intros n Hn; discriminate Hn | intros k Hk; discriminate Hk|].
  assert (Hup' : length (fst (collect_keys F D ([], []) (selset_sels (op_sel o)))) <= 1).
  { etransitivity; [|exact Hcount]. apply NoDup_incl_length; [apply ck_nodup; constructor|].
    intros k Hk. apply mem_In. apply Hup. apply mem_In, Hk. }
  pose proof (lower S D (op_vars o) Hu Ht Hfn _ _ _ _ Hsel Hon F ([], []) (spec_fuel_ge D) (fun n => eq_refl)) as Hlow.
  apply Nat.eqb_eq. lia.
Qed.

Lemma rule_eq_dec (a b : rule) : {a = b} + {a <> b}.
Proof. decide equality. Defined.
