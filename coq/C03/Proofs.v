(** C03 — proofs, part 1: refutations by witness, AreTypesCompatible, document-level rules. *)
From V Require Import Base.Util Gql.Ast C03.Model C03.Spec C03.Witness.

(** * Generic list / string facts *)

Lemma app_nil_inv {A} (a b : list A) : a ++ b = [] -> a = [] /\ b = [].
Proof. destruct a; cbn; [auto | discriminate]. Qed.

Lemma flat_map_nil {A B} (f : A -> list B) l : flat_map f l = [] -> forall x, In x l -> f x = [].
Proof.
  induction l as [|a l IH]; cbn; intros H x Hin; [contradiction|].
  apply app_nil_inv in H as [Ha Hl]. destruct Hin as [<-|Hin]; auto.
Qed.

Lemma str_eqb_eq a b : str_eqb a b = true <-> a = b.
Proof. destruct (str_eqb_spec a b); split; congruence. Qed.

Lemma str_eqb_sym a b : str_eqb a b = str_eqb b a.
Proof. destruct (str_eqb_spec a b), (str_eqb_spec b a); congruence. Qed.

Lemma mem_str_mem x l : mem_str x l = mem x l.
Proof. reflexivity. Qed.

Lemma mem_app x a b : mem x (a ++ b) = mem x a || mem x b.
Proof. unfold mem. apply existsb_app. Qed.

Lemma mem_In x l : mem x l = true <-> In x l.
Proof.
  unfold mem. rewrite existsb_exists. split.
  - intros [y [Hin He]]. apply str_eqb_eq in He. subst. exact Hin.
  - intros Hin. exists x. split; [exact Hin | apply str_eqb_refl].
Qed.

Lemma mem_cons x a l : mem x (a :: l) = str_eqb x a || mem x l.
Proof. reflexivity. Qed.

Lemma nodup_str_snoc l x : nodup_str (l ++ [x]) = nodup_str l && negb (mem x l).
Proof.
  induction l as [|a l IH]; [reflexivity|].
  cbn [app nodup_str]. rewrite IH, mem_app, !mem_cons.
  change (mem a []) with false. rewrite orb_false_r, (str_eqb_sym a x).
  destruct (mem a l), (nodup_str l), (mem x l), (str_eqb x a); reflexivity.
Qed.

(** * Model and specification read the schema alike *)

Lemma get_type_sp S n : get_type S n = sp_type S n.
Proof.
  unfold sp_type. induction S as [|d S IH]; cbn; [reflexivity|].
  destruct d as [sd|t|dd|se|te]; cbn; try exact IH.
  destruct (str_eqb (iname (typedef_name t)) n); [reflexivity | exact IH].
Qed.

Lemma get_directive_sp S n : get_directive S n = sp_directive S n.
Proof.
  unfold sp_directive. induction S as [|d S IH]; cbn; [reflexivity|].
  destruct d as [sd|t|dd|se|te]; cbn; try exact IH.
  destruct (str_eqb (iname (dd_name dd)) n); [reflexivity | exact IH].
Qed.

(** * check_type_compatibility is the specification's AreTypesCompatible *)

Lemma type_compat_spec : forall vt et, type_compat vt et = types_compatible vt et.
Proof.
  induction vt as [v|v IH|p v IH]; intros et.
  - destruct et as [e|e|q e]; cbn; try reflexivity. apply str_eqb_sym.
  - destruct et as [e|e|q e]; cbn; apply IH.
  - destruct et as [e|e|q e]; cbn; try reflexivity. apply IH.
Qed.

(** * Former blind spots of check, all repaired in /repo: the witnesses are now flagged *)

(** commit c67e45e: a fragment that no operation spreads is checked on its own (corpus document 0; document 25: argument
    errors, a cycle and an unknown field inside unspread fragments are reported, uses of variables are not) *)
Lemma unspread_fragment_now_flagged :
  (exists p i, check_operation_document w_schema_0 w_doc_0 = [mkErr (FieldNotFound (s "nonexistent") (s "A")) p i])
  /\ map (fun e => match e_msg e with
                   | UnknownArgument _ => 1 | RecursingFragmentSpread _ => 2 | FieldNotFound _ _ => 3
                   | TypeMismatch _ => 4 | UnknownVariable _ => 5 | _ => 0 end)
         (check_operation_document w_schema_0 w_doc_25) = [1; 2; 3; 4].
Proof. split; [do 2 eexists|]; vm_compute; reflexivity. Qed.

(** commit 762f951: a fragment whose type condition is the enclosing interface used to be skipped *)
Lemma same_interface_now_flagged :
  (exists p i, check_operation_document w_schema_0 w_doc_1 = [mkErr (FieldNotFound (s "nonexistent") (s "I")) p i])
  /\ length (check_operation_document w_schema_0 w_doc_2) = 2.
Proof. split; [do 2 eexists|]; vm_compute; reflexivity. Qed.

(** commit 49e8e28: variables inside a literal given for a custom scalar have to be defined *)
Lemma custom_scalar_variable_now_flagged :
  exists p i, check_operation_document w_schema_0 w_doc_3 = [mkErr (UnknownVariable (s "nope")) p i].
Proof. do 2 eexists. vm_compute. reflexivity. Qed.

(** commit 7d19234: every value given for an argument is type-checked *)
Lemma duplicate_argument_now_flagged :
  exists t p i, check_operation_document w_schema_0 w_doc_4 = [mkErr (TypeMismatch t) p i].
Proof. do 3 eexists. vm_compute. reflexivity. Qed.

(** fixed in /repo (commit 556742c): Int literals outside the signed 32-bit range are rejected; the boundary values
    are accepted, and Float / ID arguments take any integer literal (corpus document 17: exactly two errors) *)
Lemma int_range_flagged :
  length (check_operation_document w_schema_0 w_doc_17) = 2
  /\ parse_i32 (s "2147483647") = true /\ parse_i32 (s "-2147483648") = true
  /\ parse_i32 (s "2147483648") = false /\ parse_i32 (s "-2147483649") = false /\ parse_i32 (s "-") = false.
Proof. repeat split; vm_compute; reflexivity. Qed.

(** Field Selection Merging (5.3.2) is not implemented by check and is not among C03's rules: documents that violate
    it satisfy all twenty rules and are accepted; the reference predicate [fields_can_merge_ok] rejects them and accepts
    the feature-rich valid document *)
Lemma fields_can_merge_not_checked :
  check_operation_document w_schema_0 w_doc_18 = [] /\ spec_valid w_schema_0 w_doc_18 = true
  /\ fields_can_merge_ok w_schema_0 w_doc_18 = false
  /\ check_operation_document w_schema_0 w_doc_19 = [] /\ fields_can_merge_ok w_schema_0 w_doc_19 = false
  /\ fields_can_merge_ok w_schema_0 w_doc_14 = true.
Proof. repeat split; vm_compute; reflexivity. Qed.

(** * The walk over the definitions *)

Lemma check_definitions_nil fuel S fm n : forall defs prev,
  check_definitions fuel S fm n prev defs = [] ->
  forall l1 d l2, defs = l1 ++ d :: l2 -> check_definition fuel S fm n (prev ++ l1) d = [].
Proof.
  induction defs as [|d0 defs IH]; intros prev H l1 d l2 E.
  - destruct l1; discriminate.
  - cbn in H. apply app_nil_inv in H as [H0 Hr].
    destruct l1 as [|x l1]; cbn in E.
    + injection E as -> _. rewrite app_nil_r. exact H0.
    + injection E as -> E. specialize (IH _ Hr l1 d l2 E).
      rewrite <- app_assoc in IH. exact IH.
Qed.

Lemma check_document_nil S D :
  check_operation_document S D = [] ->
  forall l1 d l2, od_defs D = l1 ++ d :: l2 ->
    check_definition (doc_fuel D) S (doc_frags D) (length (filter is_op (od_defs D))) l1 d = [].
Proof.
  intros H l1 d l2 E. unfold check_operation_document, check_operation_document_fuel in H.
  apply app_nil_inv in H as [H _].
  exact (check_definitions_nil _ _ _ _ _ _ H l1 d l2 E).
Qed.

Lemma In_split_defs {A} (x : A) l : In x l -> exists l1 l2, l = l1 ++ x :: l2.
Proof. apply in_split. Qed.

(** operations / fragments of a prefix *)
Definition ops_of (l : list execdef) : list opdef := flat_map (fun d => match d with DOp o => [o] | _ => [] end) l.
Definition frags_of (l : list execdef) : list fragdef := flat_map (fun d => match d with DFrag f => [f] | _ => [] end) l.
Definition names_of_ops (l : list opdef) : list str :=
  flat_map (fun o => match op_name o with Some n => [iname n] | None => [] end) l.

Lemma ops_of_app a b : ops_of (a ++ b) = ops_of a ++ ops_of b.
Proof. unfold ops_of. apply flat_map_app. Qed.
Lemma frags_of_app a b : frags_of (a ++ b) = frags_of a ++ frags_of b.
Proof. unfold frags_of. apply flat_map_app. Qed.
Lemma names_of_ops_app a b : names_of_ops (a ++ b) = names_of_ops a ++ names_of_ops b.
Proof. unfold names_of_ops. apply flat_map_app. Qed.

Lemma find_op_none prev name :
  find (fun other => match other with
                     | DOp o => match op_name o with Some n => str_eqb (iname n) name | None => false end
                     | _ => false
                     end) prev = None ->
  mem name (names_of_ops (ops_of prev)) = false.
Proof.
  induction prev as [|d prev IH]; cbn; intros H; [reflexivity|].
  destruct d as [o|f|i]; cbn in *.
  - destruct (op_name o) as [n|] eqn:En; cbn.
    + destruct (str_eqb (iname n) name) eqn:E; [discriminate|].
      rewrite str_eqb_sym, E. cbn. apply IH, H.
    + apply IH, H.
  - apply IH, H.
  - apply IH, H.
Qed.

Lemma find_some_is_op {prev : list execdef} {P o} :
  find P prev = Some o -> In o prev /\ P o = true.
Proof. apply find_some. Qed.

(** ** unique operation names *)
Lemma unique_op_names_sound S D :
  check_operation_document S D = [] -> rule_ok S D R_unique_op_names = true.
Proof.
  intros H. cbn [rule_ok]. unfold op_names, doc_ops.
  change (nodup_str (names_of_ops (ops_of (od_defs D))) = true).
  pose proof (check_document_nil S D H) as Hd.
  remember (od_defs D) as defs eqn:Edefs.
  assert (G : forall l1 l2, defs = l1 ++ l2 -> nodup_str (names_of_ops (ops_of l1)) = true).
  { intros l1. induction l1 as [|x l1 IH] using rev_ind; intros l2 E; [reflexivity|].
    rewrite <- app_assoc in E. cbn in E.
    specialize (IH _ E). specialize (Hd l1 x l2 E).
    rewrite ops_of_app, names_of_ops_app. cbn.
    destruct x as [o|f|i]; cbn; try (rewrite app_nil_r; exact IH).
    rewrite app_nil_r. cbn in Hd. apply app_nil_inv in Hd as [Hn _].
    destruct (op_name o) as [n|] eqn:En; cbn; [|rewrite app_nil_r; exact IH].
    rewrite nodup_str_snoc, IH. cbn.
    match type of Hn with context [find ?P l1] => destruct (find P l1) as [e|] eqn:Ef end.
    - pose proof (find_some _ _ Ef) as [_ Hp].
      destruct e as [o'|f'|i']; try discriminate Hp; discriminate Hn.
    - rewrite (find_op_none _ _ Ef). reflexivity. }
  apply (G defs []). rewrite app_nil_r. reflexivity.
Qed.

(** ** lone anonymous operation *)
Lemma length_filter_is_op l : length (filter is_op l) = length (ops_of l).
Proof.
  induction l as [|d l IH]; cbn; [reflexivity|]. destruct d; cbn; auto.
Qed.

Lemma lone_anonymous_sound S D :
  check_operation_document S D = [] -> rule_ok S D R_lone_anonymous = true.
Proof.
  intros H. cbn [rule_ok]. unfold doc_ops. fold (ops_of (od_defs D)).
  destruct (existsb _ (ops_of (od_defs D))) eqn:Ee; cbn; [|reflexivity].
  apply existsb_exists in Ee as [o [Hin Hn]].
  unfold ops_of in Hin. apply in_flat_map in Hin as [d [Hd Ho]].
  destruct d as [o'|f|i]; cbn in Ho; try contradiction. destruct Ho as [<-|[]].
  apply in_split in Hd as [l1 [l2 E]].
  pose proof (check_document_nil S D H l1 (DOp o') l2 E) as Hc.
  cbn in Hc. apply app_nil_inv in Hc as [Hc _].
  destruct (op_name o'); [discriminate|].
  rewrite length_filter_is_op in Hc.
  destruct (Nat.eqb (length (ops_of (od_defs D))) 1) eqn:E1; [reflexivity | discriminate].
Qed.

(** ** unique fragment names *)
Definition names_of_frags (l : list fragdef) : list str := map (fun f => iname (fr_name f)) l.

Lemma find_frag_none prev name :
  find (fun other => match other with DFrag o => str_eqb (iname (fr_name o)) name | _ => false end) prev = None ->
  mem name (names_of_frags (frags_of prev)) = false.
Proof.
  induction prev as [|d prev IH]; cbn; intros H; [reflexivity|].
  destruct d as [o|f|i]; cbn in *; try (apply IH, H).
  destruct (str_eqb (iname (fr_name f)) name) eqn:E; [discriminate|].
  rewrite str_eqb_sym, E. cbn. apply IH, H.
Qed.

Lemma unique_fragments_sound S D :
  check_operation_document S D = [] -> rule_ok S D R_unique_fragments = true.
Proof.
  intros H. cbn [rule_ok]. unfold doc_fragdefs.
  change (nodup_str (names_of_frags (frags_of (od_defs D))) = true).
  pose proof (check_document_nil S D H) as Hd.
  remember (od_defs D) as defs eqn:Edefs.
  assert (G : forall l1 l2, defs = l1 ++ l2 -> nodup_str (names_of_frags (frags_of l1)) = true).
  { intros l1. induction l1 as [|x l1 IH] using rev_ind; intros l2 E; [reflexivity|].
    rewrite <- app_assoc in E. cbn in E.
    specialize (IH _ E). specialize (Hd l1 x l2 E).
    rewrite frags_of_app. unfold names_of_frags. rewrite map_app. fold (names_of_frags (frags_of l1)).
    destruct x as [o|f|i]; cbn; try (rewrite app_nil_r; exact IH).
    cbn in Hd. apply app_nil_inv in Hd as [Hn _].
    rewrite nodup_str_snoc, IH. cbn.
    match type of Hn with context [find ?P l1] => destruct (find P l1) as [e|] eqn:Ef end.
    - pose proof (find_some _ _ Ef) as [_ Hp].
      destruct e as [o'|f'|i']; try discriminate Hp; discriminate Hn.
    - rewrite (find_frag_none _ _ Ef). reflexivity. }
  apply (G defs []). rewrite app_nil_r. reflexivity.
Qed.

(** ** every definition on its own *)
Lemma op_checked S D o :
  check_operation_document S D = [] -> In o (doc_ops D) ->
  check_operation (doc_fuel D) S (doc_frags D) o = [].
Proof.
  intros H Hin. unfold doc_ops in Hin. apply in_flat_map in Hin as [d [Hd Ho]].
  destruct d as [o'|f|i]; cbn in Ho; try contradiction. destruct Ho as [<-|[]].
  apply in_split in Hd as [l1 [l2 E]].
  pose proof (check_document_nil S D H l1 (DOp o') l2 E) as Hc.
  cbn in Hc. apply app_nil_inv in Hc as [_ Hc]. exact Hc.
Qed.

Lemma frag_checked S D f :
  check_operation_document S D = [] -> In f (doc_fragdefs D) -> check_fragment_definition S f = [].
Proof.
  intros H Hin. unfold doc_fragdefs in Hin. apply in_flat_map in Hin as [d [Hd Ho]].
  destruct d as [o'|f'|i]; cbn in Ho; try contradiction. destruct Ho as [<-|[]].
  apply in_split in Hd as [l1 [l2 E]].
  pose proof (check_document_nil S D H l1 (DFrag f') l2 E) as Hc.
  cbn in Hc. apply app_nil_inv in Hc as [_ Hc]. exact Hc.
Qed.

(** fragment definitions target existing composite types *)
Lemma fragment_definition_targets_sound S D :
  check_operation_document S D = [] ->
  forallb (fun f => match sp_type S (iname (fr_cond f)) with Some t => is_composite t | None => false end)
          (doc_fragdefs D) = true.
Proof.
  intros H. apply forallb_forall. intros f Hin.
  pose proof (frag_checked S D f H Hin) as Hc. unfold check_fragment_definition in Hc.
  rewrite get_type_sp in Hc. destruct (sp_type S (iname (fr_cond f))) as [t|]; [|discriminate].
  destruct t; cbn; try reflexivity; discriminate.
Qed.

(** what an error-free check_operation went through *)
Lemma check_operation_nil fuel S fm o :
  check_operation fuel S fm o = [] ->
  exists root,
    get_type S (match root_of (root_types S) (op_type o) with
                | Some i => iname i | None => default_root_name (op_type o) end) = Some root
    /\ check_directives S (op_vars o) (op_location (op_type o)) (op_dirs o) = []
    /\ match op_vars o with Some vs => check_variables_definition S vs | None => [] end = []
    /\ (optype_eqb (op_type o) Subscription && Nat.ltb 1 (length (collect_response_keys fuel fm [] (op_sel o) [])) = false)
    /\ check_selection_set fuel S fm (op_vars o) [] root (op_sel o) = [].
Proof.
  unfold check_operation. intros H.
  destruct (if negb (pbuiltin (r_pos (root_types S))) || _ then _ else None) as [es|] eqn:E0.
  - destruct (negb (pbuiltin (r_pos (root_types S))) || _); [|discriminate].
    destruct (root_of (root_types S) (op_type o)); [discriminate|].
    injection E0 as <-. discriminate.
  - destruct (get_type S _) as [root|] eqn:Er; [|discriminate].
    exists root. apply app_nil_inv in H as [H1 H]. apply app_nil_inv in H as [H2 H].
    apply app_nil_inv in H as [H3 H4]. repeat split; auto.
    destruct (optype_eqb (op_type o) Subscription && Nat.ltb 1 (length (collect_response_keys fuel fm [] (op_sel o) []))); [discriminate | reflexivity].
Qed.

(** ** variables are uniquely named and of input types *)
Lemma check_variables_from_nil S : forall vs seen,
  check_variables_from S seen vs = [] ->
  nodup_str (map vd_name vs) = true
  /\ (forall v, In v vs -> mem (vd_name v) seen = false)
  /\ (forall v, In v vs ->
        check_directives S None str_VARIABLE_DEFINITION (vd_dirs v) = []
        /\ match sp_type S (iname (ty_unwrapped (vd_type v))) with Some t => is_input_type t | None => false end = true).
Proof.
  induction vs as [|v vs IH]; intros seen H; cbn in *.
  - repeat split; intros; contradiction.
  - apply app_nil_inv in H as [H1 H]. apply app_nil_inv in H as [H2 H]. apply app_nil_inv in H as [H3 H4].
    destruct (mem_str (vd_name v) seen) eqn:Em; [discriminate|].
    specialize (IH _ H4) as [IHa [IHb IHc]].
    split; [|split].
    + rewrite IHa, andb_true_r.
      destruct (mem (vd_name v) (map vd_name vs)) eqn:E; [|reflexivity].
      apply mem_In, in_map_iff in E as [w [Ew Hw]].
      specialize (IHb w Hw). rewrite mem_app in IHb. cbn in IHb.
      rewrite Ew, str_eqb_refl, orb_true_r in IHb. discriminate.
    + intros w [<-|Hw]; [exact Em|].
      specialize (IHb w Hw). rewrite mem_app in IHb. apply orb_false_iff in IHb as [IHb _]. exact IHb.
    + intros w [<-|Hw]; [|apply IHc, Hw].
      split; [exact H2|]. rewrite get_type_sp in H3.
      destruct (sp_type S (iname (ty_unwrapped (vd_type v)))) as [t|]; [|discriminate].
      destruct t; cbn in *; try reflexivity; discriminate.
Qed.

Lemma op_variables_checked S D o :
  check_operation_document S D = [] -> In o (doc_ops D) ->
  nodup_str (map vd_name (op_vardefs o)) = true
  /\ (forall v, In v (op_vardefs o) ->
        check_directives S None str_VARIABLE_DEFINITION (vd_dirs v) = []
        /\ match sp_type S (iname (ty_unwrapped (vd_type v))) with Some t => is_input_type t | None => false end = true).
Proof.
  intros H Hin. pose proof (op_checked S D o H Hin) as Hc.
  apply check_operation_nil in Hc as [root [_ [_ [Hv _]]]].
  unfold op_vardefs. destruct (op_vars o) as [vs|]; cbn.
  - unfold check_variables_definition in Hv.
    destruct (check_variables_from_nil S _ _ Hv) as [Ha [_ Hc]]. split; assumption.
  - split; [reflexivity | intros v []].
Qed.

Lemma unique_vars_sound S D :
  check_operation_document S D = [] -> rule_ok S D R_unique_vars = true.
Proof.
  intros H. cbn [rule_ok]. apply forallb_forall. intros o Hin.
  apply (op_variables_checked S D o H Hin).
Qed.

Lemma vars_input_types_sound S D :
  check_operation_document S D = [] -> rule_ok S D R_vars_input_types = true.
Proof.
  intros H. cbn [rule_ok]. apply forallb_forall. intros o Hin.
  apply forallb_forall. intros v Hv.
  apply (proj2 (op_variables_checked S D o H Hin) v Hv).
Qed.
