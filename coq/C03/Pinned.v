(** Pinned statements of the C03 property theorems: compiled on every check, so a theorem cannot be
    weakened silently. *)
From V Require Import Base.Util Gql.Ast C03.Model C03.Spec C03.Witness C03.Proofs C03.Proofs2 C03.Proofs3 C03.Proofs4 C03.Proofs5 C03.Proofs6 C03.Proofs7 C03.Proofs8 C03.Properties.

Check (C03_sound_unique_op_names : forall S D,
  check_operation_document S D = [] -> rule_ok S D R_unique_op_names = true).
Check (C03_sound_lone_anonymous : forall S D,
  check_operation_document S D = [] -> rule_ok S D R_lone_anonymous = true).
Check (C03_sound_unique_fragments : forall S D,
  check_operation_document S D = [] -> rule_ok S D R_unique_fragments = true).
Check (C03_sound_unique_vars : forall S D,
  check_operation_document S D = [] -> rule_ok S D R_unique_vars = true).
Check (C03_sound_vars_input_types : forall S D,
  check_operation_document S D = [] -> rule_ok S D R_vars_input_types = true).
Check (C03_sound_fragment_definition_targets : forall S D,
  check_operation_document S D = [] ->
  forallb (fun f => match sp_type S (iname (fr_cond f)) with Some t => is_composite t | None => false end)
          (doc_fragdefs D) = true).
Check (C03_sound : forall S D,
  schema_wf S = true -> check_operation_document S D = [] ->
  forall r, r <> R_single_subscription_root -> rule_ok_vis S D r = true).
Check (C03_sound_single_subscription_root : forall S D,
  selsets_nonempty D = true -> check_operation_document S D = [] ->
  rule_ok S D R_single_subscription_root = true).
Check (C03_sound_all : forall S D,
  schema_wf S = true -> selsets_nonempty D = true -> check_operation_document S D = [] ->
  forall r, rule_ok_vis S D r = true).
Check (C03_sound_sites : forall S D,
  schema_wf S = true -> check_operation_document S D = [] ->
  forall o fv, In o (doc_ops D) ->
    Forall (site_good S D (op_vars o))
           (flat_map (vsites_sel S (vis_enter fv S D []) (sp_root S (op_type o))) (selset_sels (op_sel o)))).
Check (C03_sound_fields_exist : forall S D,
  schema_wf S = true -> check_operation_document S D = [] -> rule_ok_vis S D R_fields_exist = true).
Check (C03_sound_leaf_vs_composite : forall S D,
  schema_wf S = true -> check_operation_document S D = [] -> rule_ok_vis S D R_leaf_vs_composite = true).
Check (C03_sound_arguments : forall S D,
  schema_wf S = true -> check_operation_document S D = [] ->
  rule_ok_vis S D R_args_defined = true /\ rule_ok_vis S D R_required_args = true /\ rule_ok_vis S D R_literal_types = true).
Check (C03_sound_variables : forall S D,
  schema_wf S = true -> check_operation_document S D = [] ->
  rule_ok_vis S D R_vars_defined = true /\ rule_ok_vis S D R_var_usage_compatible = true).
Check (C03_sound_fragments : forall S D,
  schema_wf S = true -> check_operation_document S D = [] ->
  rule_ok_vis S D R_fragment_targets = true /\ rule_ok_vis S D R_spreads_defined = true
  /\ rule_ok_vis S D R_no_cycles = true /\ rule_ok_vis S D R_spread_possible = true).
Check (C03_sound_directives : forall S D,
  schema_wf S = true -> check_operation_document S D = [] ->
  rule_ok_vis S D R_directives_defined = true /\ rule_ok_vis S D R_directives_location = true
  /\ rule_ok_vis S D R_directives_unique = true).
Check (C03_check_value_sound : forall S vars, schema_wf S = true -> forall v t,
  check_value S vars v t = [] ->
  lit_ok S v t = true /\ forall ld, Forall (use_ok vars) (var_uses false S v (Some t) ld)).
Check (C03_guard_satisfiable :
  schema_wf w_schema_0 = true /\ check_operation_document w_schema_0 w_doc_14 = []
  /\ Nat.ltb 40 (length (flat_map (vis_op_sites w_schema_0 w_doc_14) (doc_ops w_doc_14))) = true).
Check (C03_type_compat_is_AreTypesCompatible : forall vt et, type_compat vt et = types_compatible vt et).
Check (C03_same_interface_now_flagged :
  (exists p i, check_operation_document w_schema_0 w_doc_1 = [mkErr (FieldNotFound (s "nonexistent") (s "I")) p i])
  /\ length (check_operation_document w_schema_0 w_doc_2) = 2).
Check (C03_int_range : forall lexeme, parse_i32 lexeme = int32_lexeme lexeme).
Check (C03_int_range_flagged :
  length (check_operation_document w_schema_0 w_doc_17) = 2
  /\ parse_i32 (s "2147483647") = true /\ parse_i32 (s "-2147483648") = true
  /\ parse_i32 (s "2147483648") = false /\ parse_i32 (s "-2147483649") = false /\ parse_i32 (s "-") = false).
Check (C03_fields_can_merge_not_checked :
  check_operation_document w_schema_0 w_doc_18 = [] /\ spec_valid w_schema_0 w_doc_18 = true
  /\ fields_can_merge_ok w_schema_0 w_doc_18 = false
  /\ check_operation_document w_schema_0 w_doc_19 = [] /\ fields_can_merge_ok w_schema_0 w_doc_19 = false
  /\ fields_can_merge_ok w_schema_0 w_doc_14 = true).
Check (C03_unspread_fragment_now_flagged :
  (exists p i, check_operation_document w_schema_0 w_doc_0 = [mkErr (FieldNotFound (s "nonexistent") (s "A")) p i])
  /\ map (fun e => match e_msg e with
                   | UnknownArgument _ => 1 | RecursingFragmentSpread _ => 2 | FieldNotFound _ _ => 3
                   | TypeMismatch _ => 4 | UnknownVariable _ => 5 | _ => 0 end)
         (check_operation_document w_schema_0 w_doc_25) = [1; 2; 3; 4]).
Check (C03_custom_scalar_variable_now_flagged :
  exists p i, check_operation_document w_schema_0 w_doc_3 = [mkErr (UnknownVariable (s "nope")) p i]).
Check (C03_duplicate_argument_now_flagged :
  exists t p i, check_operation_document w_schema_0 w_doc_4 = [mkErr (TypeMismatch t) p i]).
Check (C03_sound_full : forall S D,
  schema_wf S = true -> selsets_nonempty D = true ->
  check_operation_document S D = [] -> forall r, rule_ok S D r = true).
Check (C03_sound_full_spec_valid : forall S D,
  schema_wf S = true -> selsets_nonempty D = true ->
  check_operation_document S D = [] -> spec_valid S D = true).
Check (C03_sound_full_sites : forall S D,
  schema_wf S = true -> check_operation_document S D = [] ->
  forall x, In x (all_sites S D) -> forall r, site_ok false S D r x = true).
Check (C03_sound_full_fragment_variables : forall S D,
  schema_wf S = true -> check_operation_document S D = [] ->
  forall o f, In o (doc_ops D) -> In f (doc_fragdefs D) -> reached_from D o f = true ->
  forall x, In x (frag_sites S f) ->
  forallb (fun u => match find_var o (u_name u), u_type u with
                    | Some vd, Some t => variable_usage_allowed vd t (u_loc_default u)
                    | Some _, None => true
                    | None, _ => false
                    end) (site_var_uses true S x) = true).
Check (C03_sound_full_instance :
  schema_wf w_schema_0 = true /\ selsets_nonempty w_doc_26 = true
  /\ check_operation_document w_schema_0 w_doc_26 = []
  /\ map (fun f => (existsb (fun o => reached_from w_doc_26 o f) (doc_ops w_doc_26), uses_undeclared_variable w_schema_0 w_doc_26 f))
         (doc_fragdefs w_doc_26)
     = [(true, false); (true, false); (false, true); (false, false); (false, false)]
  /\ spec_valid w_schema_0 w_doc_26 = true).
Check (C03_accepted_fields_and_fragments_defined : forall S D,
  schema_wf S = true -> check_operation_document S D = [] ->
  Forall (fun x => match x with
                   | StField (Some p) name _ _ => is_composite p = true /\ exists f, sp_field p (iname name) = Some f
                   | StSpread _ n =>
                       exists f, sp_frag D (iname n) = Some f
                                 /\ exists t, sp_type S (iname (fr_cond f)) = Some t /\ is_composite t = true
                   | StInline _ c => exists t, sp_type S (iname c) = Some t /\ is_composite t = true
                   | _ => True
                   end) (all_sites S D)).
Print Assumptions C03_sound_unique_op_names.
Print Assumptions C03_sound_lone_anonymous.
Print Assumptions C03_sound_unique_fragments.
Print Assumptions C03_sound_unique_vars.
Print Assumptions C03_sound_vars_input_types.
Print Assumptions C03_sound_fragment_definition_targets.
Print Assumptions C03_sound.
Print Assumptions C03_sound_single_subscription_root.
Print Assumptions C03_sound_all.
Print Assumptions C03_sound_sites.
Print Assumptions C03_sound_fields_exist.
Print Assumptions C03_sound_leaf_vs_composite.
Print Assumptions C03_sound_arguments.
Print Assumptions C03_sound_variables.
Print Assumptions C03_sound_fragments.
Print Assumptions C03_sound_directives.
Print Assumptions C03_check_value_sound.
Print Assumptions C03_guard_satisfiable.
Print Assumptions C03_type_compat_is_AreTypesCompatible.
Print Assumptions C03_same_interface_now_flagged.
Print Assumptions C03_int_range.
Print Assumptions C03_int_range_flagged.
Print Assumptions C03_fields_can_merge_not_checked.
Print Assumptions C03_unspread_fragment_now_flagged.
Print Assumptions C03_custom_scalar_variable_now_flagged.
Print Assumptions C03_duplicate_argument_now_flagged.
Print Assumptions C03_sound_full.
Print Assumptions C03_sound_full_spec_valid.
Print Assumptions C03_sound_full_sites.
Print Assumptions C03_sound_full_fragment_variables.
Print Assumptions C03_sound_full_instance.
Print Assumptions C03_accepted_fields_and_fragments_defined.
