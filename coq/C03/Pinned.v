(** Pinned statements of the C03 property theorems: compiled on every check, so a theorem cannot be
    weakened silently. *)
From V Require Import Base.Util Gql.Ast C03.Model C03.Spec C03.Witness C03.Proofs C03.Properties.

Check (C03_sound_unique_op_names : forall S D,
  check_operation_document S D = [] -> rule_ok S D R_unique_op_names = true).
Check (C03_sound_lone_anonymous : forall S D,
  check_operation_document S D = [] -> rule_ok S D R_lone_anonymous = true).
Check (C03_sound_unique_fragments : forall S D,
  check_operation_document S D = [] -> rule_ok S D R_unique_fragments = true).
Check (C03_sound_unique_vars : forall S D,
  check_operation_document S D = [] -> rule_ok S D R_unique_vars = true).
Check (C03_sound_vars_input_types : forall S D,
  check_operation_document S D = [] -> rule_ok S D R_vars_input_types = true).
Check (C03_sound_fragment_definition_targets : forall S D,
  check_operation_document S D = [] ->
  forallb (fun f => match sp_type S (iname (fr_cond f)) with Some t => is_composite t | None => false end)
          (doc_fragdefs D) = true).
Check (C03_type_compat_is_AreTypesCompatible : forall vt et, type_compat vt et = types_compatible vt et).
Check (C03_unspread_fragment_refuted :
  exists S D, check_operation_document S D = [] /\ rule_ok S D R_fields_exist = false).
Check (C03_same_interface_refuted :
  (exists S D, check_operation_document S D = [] /\ rule_ok S D R_fields_exist = false)
  /\ (exists S D, check_operation_document S D = []
                  /\ rule_ok S D R_fields_exist = false /\ rule_ok S D R_directives_defined = false
                  /\ rule_ok S D R_spreads_defined = false)).
Check (C03_custom_scalar_variable_refuted :
  exists S D, check_operation_document S D = [] /\ rule_ok S D R_vars_defined = false).
Check (C03_duplicate_argument_refuted :
  exists S D, check_operation_document S D = [] /\ rule_ok S D R_literal_types = false).
Print Assumptions C03_sound_unique_op_names.
Print Assumptions C03_sound_lone_anonymous.
Print Assumptions C03_sound_unique_fragments.
Print Assumptions C03_sound_unique_vars.
Print Assumptions C03_sound_vars_input_types.
Print Assumptions C03_sound_fragment_definition_targets.
Print Assumptions C03_type_compat_is_AreTypesCompatible.
Print Assumptions C03_unspread_fragment_refuted.
Print Assumptions C03_same_interface_refuted.
Print Assumptions C03_custom_scalar_variable_refuted.
Print Assumptions C03_duplicate_argument_refuted.
