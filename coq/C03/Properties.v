(** C03 — property theorems only.  Each is closed by [exact] of a lemma in Proofs*.v and followed by
    [Print Assumptions]. [check_operation_document] is the model of C03/Model.v that the correspondence
    run ties to crates/checker; [rule_ok] / [rule_ok_vis] are the reference validator of C03/Spec.v. *)
From V Require Import Base.Util Gql.Ast C03.Model C03.Spec C03.Witness C03.Proofs.

(** document-level rules: no guard *)
Theorem C03_sound_unique_op_names : forall S D,
  check_operation_document S D = [] -> rule_ok S D R_unique_op_names = true.
Proof. exact unique_op_names_sound. Qed.
Print Assumptions C03_sound_unique_op_names.

Theorem C03_sound_lone_anonymous : forall S D,
  check_operation_document S D = [] -> rule_ok S D R_lone_anonymous = true.
Proof. exact lone_anonymous_sound. Qed.
Print Assumptions C03_sound_lone_anonymous.

Theorem C03_sound_unique_fragments : forall S D,
  check_operation_document S D = [] -> rule_ok S D R_unique_fragments = true.
Proof. exact unique_fragments_sound. Qed.
Print Assumptions C03_sound_unique_fragments.

Theorem C03_sound_unique_vars : forall S D,
  check_operation_document S D = [] -> rule_ok S D R_unique_vars = true.
Proof. exact unique_vars_sound. Qed.
Print Assumptions C03_sound_unique_vars.

Theorem C03_sound_vars_input_types : forall S D,
  check_operation_document S D = [] -> rule_ok S D R_vars_input_types = true.
Proof. exact vars_input_types_sound. Qed.
Print Assumptions C03_sound_vars_input_types.

Theorem C03_sound_fragment_definition_targets : forall S D,
  check_operation_document S D = [] ->
  forallb (fun f => match sp_type S (iname (fr_cond f)) with Some t => is_composite t | None => false end)
          (doc_fragdefs D) = true.
Proof. exact fragment_definition_targets_sound. Qed.
Print Assumptions C03_sound_fragment_definition_targets.

(** check_type_compatibility is the specification's AreTypesCompatible *)
Theorem C03_type_compat_is_AreTypesCompatible : forall vt et, type_compat vt et = types_compatible vt et.
Proof. exact type_compat_spec. Qed.
Print Assumptions C03_type_compat_is_AreTypesCompatible.

(** the current code accepts documents that violate an implemented rule (known findings) *)
Theorem C03_unspread_fragment_refuted :
  exists S D, check_operation_document S D = [] /\ rule_ok S D R_fields_exist = false.
Proof. exists w_schema_0, w_doc_0. exact unspread_fragment_refuted. Qed.
Print Assumptions C03_unspread_fragment_refuted.

Theorem C03_same_interface_refuted :
  (exists S D, check_operation_document S D = [] /\ rule_ok S D R_fields_exist = false)
  /\ (exists S D, check_operation_document S D = []
                  /\ rule_ok S D R_fields_exist = false /\ rule_ok S D R_directives_defined = false
                  /\ rule_ok S D R_spreads_defined = false).
Proof.
  split.
  - exists w_schema_0, w_doc_1. exact same_interface_inline_refuted.
  - exists w_schema_0, w_doc_2. exact same_interface_spread_refuted.
Qed.
Print Assumptions C03_same_interface_refuted.

Theorem C03_custom_scalar_variable_refuted :
  exists S D, check_operation_document S D = [] /\ rule_ok S D R_vars_defined = false.
Proof. exists w_schema_0, w_doc_3. exact custom_scalar_variable_refuted. Qed.
Print Assumptions C03_custom_scalar_variable_refuted.

Theorem C03_duplicate_argument_refuted :
  exists S D, check_operation_document S D = [] /\ rule_ok S D R_literal_types = false.
Proof. exists w_schema_0, w_doc_4. exact duplicate_argument_refuted. Qed.
Print Assumptions C03_duplicate_argument_refuted.
