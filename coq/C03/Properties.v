(** C03 — property theorems only.  Each is closed by [exact] of a lemma in Proofs*.v and followed by
    [Print Assumptions]. [check_operation_document] is the model of C03/Model.v that the correspondence
    run ties to crates/checker; [rule_ok] / [rule_ok_vis] are the reference validator of C03/Spec.v. *)
From V Require Import Base.Util Gql.Ast C03.Model C03.Spec C03.Witness C03.Proofs C03.Proofs2 C03.Proofs3 C03.Proofs4 C03.Proofs5 C03.Proofs6 C03.Proofs7 C03.Proofs8.

(** document-level rules: no guard *)
Theorem C03_sound_unique_op_names : forall S D,
  check_operation_document S D = [] -> rule_ok S D R_unique_op_names = true.
Proof. exact unique_op_names_sound. Qed.
Print Assumptions C03_sound_unique_op_names.

Theorem C03_sound_lone_anonymous : forall S D,
  check_operation_document S D = [] -> rule_ok S D R_lone_anonymous = true.
Proof. exact lone_anonymous_sound. Qed.
Print Assumptions C03_sound_lone_anonymous.

Theorem C03_sound_unique_fragments : forall S D,
  check_operation_document S D = [] -> rule_ok S D R_unique_fragments = true.
Proof. exact unique_fragments_sound. Qed.
Print Assumptions C03_sound_unique_fragments.

Theorem C03_sound_unique_vars : forall S D,
  check_operation_document S D = [] -> rule_ok S D R_unique_vars = true.
Proof. exact unique_vars_sound. Qed.
Print Assumptions C03_sound_unique_vars.

Theorem C03_sound_vars_input_types : forall S D,
  check_operation_document S D = [] -> rule_ok S D R_vars_input_types = true.
Proof. exact vars_input_types_sound. Qed.
Print Assumptions C03_sound_vars_input_types.

Theorem C03_sound_fragment_definition_targets : forall S D,
  check_operation_document S D = [] ->
  forallb (fun f => match sp_type S (iname (fr_cond f)) with Some t => is_composite t | None => false end)
          (doc_fragdefs D) = true.
Proof. exact fragment_definition_targets_sound. Qed.
Print Assumptions C03_sound_fragment_definition_targets.

(** The main theorem. [schema_wf S]: the part of "the schema passed check" that is used (distinct argument /
    input-field names, at most one schema definition). [rule_ok_vis]: the rule read on every site reached by
    following spreads from the operations (Spec.v [vis_op_sites]) — all sites of the operations' own selection
    sets, of inline fragments with and without type condition, of every fragment spread there (transitively, in the
    scope of the spreading operation's variables), directive lists at all six locations, argument values down to
    nested list / input-object literals. The subscription rule is C03_sound_single_subscription_root below. *)
Theorem C03_sound : forall S D,
  schema_wf S = true -> check_operation_document S D = [] ->
  forall r, r <> R_single_subscription_root -> rule_ok_vis S D r = true.
Proof. exact sound_vis. Qed.
Print Assumptions C03_sound.

(** the subscription rule (5.2.3.1): CollectFields on the root selection set of a subscription yields exactly one
    response key. [selsets_nonempty D]: what the grammar guarantees (a written selection set is not empty). No guard on
    the schema. The proof relates three traversals (the checker's walk, its field count with a path stack, the
    specification's CollectFields with a visited set) and shows the specification-side fuel is sufficient. *)
Theorem C03_sound_single_subscription_root : forall S D,
  selsets_nonempty D = true -> check_operation_document S D = [] ->
  rule_ok S D R_single_subscription_root = true.
Proof. exact single_subscription_root_sound. Qed.
Print Assumptions C03_sound_single_subscription_root.

(** all twenty rules *)
Theorem C03_sound_all : forall S D,
  schema_wf S = true -> selsets_nonempty D = true -> check_operation_document S D = [] ->
  forall r, rule_ok_vis S D r = true.
Proof.
  intros S D Hw Hn Hc r. destruct (rule_eq_dec r R_single_subscription_root) as [->|Hr].
  - exact (single_subscription_root_sound S D Hn Hc).
  - exact (sound_vis S D Hw Hc r Hr).
Qed.
Print Assumptions C03_sound_all.

(** the site-level statement behind C03_sound, for every amount of fuel of the specification-side enumeration
    (so no site is lost to fuel): each reached site satisfies every site rule ([site_ok]), every variable used at it is
    defined by the operation and allowed at its position ([use_ok]), and no spread on the way closes a cycle *)
Theorem C03_sound_sites : forall S D,
  schema_wf S = true -> check_operation_document S D = [] ->
  forall o fv, In o (doc_ops D) ->
    Forall (site_good S D (op_vars o))
           (flat_map (vsites_sel S (vis_enter fv S D []) (sp_root S (op_type o))) (selset_sels (op_sel o))).
Proof. intros S D Hw Hc o fv Hin. exact (vis_sites_good_any_fuel S D Hw Hc o fv Hin). Qed.
Print Assumptions C03_sound_sites.

(** named instances *)
Theorem C03_sound_fields_exist : forall S D,
  schema_wf S = true -> check_operation_document S D = [] -> rule_ok_vis S D R_fields_exist = true.
Proof. intros S D Hw Hc. apply (sound_vis S D Hw Hc). discriminate. Qed.
Print Assumptions C03_sound_fields_exist.

Theorem C03_sound_leaf_vs_composite : forall S D,
  schema_wf S = true -> check_operation_document S D = [] -> rule_ok_vis S D R_leaf_vs_composite = true.
Proof. intros S D Hw Hc. apply (sound_vis S D Hw Hc). discriminate. Qed.
Print Assumptions C03_sound_leaf_vs_composite.

Theorem C03_sound_arguments : forall S D,
  schema_wf S = true -> check_operation_document S D = [] ->
  rule_ok_vis S D R_args_defined = true /\ rule_ok_vis S D R_required_args = true /\ rule_ok_vis S D R_literal_types = true.
Proof. intros S D Hw Hc. repeat split; apply (sound_vis S D Hw Hc); discriminate. Qed.
Print Assumptions C03_sound_arguments.

Theorem C03_sound_variables : forall S D,
  schema_wf S = true -> check_operation_document S D = [] ->
  rule_ok_vis S D R_vars_defined = true /\ rule_ok_vis S D R_var_usage_compatible = true.
Proof. intros S D Hw Hc. repeat split; apply (sound_vis S D Hw Hc); discriminate. Qed.
Print Assumptions C03_sound_variables.

Theorem C03_sound_fragments : forall S D,
  schema_wf S = true -> check_operation_document S D = [] ->
  rule_ok_vis S D R_fragment_targets = true /\ rule_ok_vis S D R_spreads_defined = true
  /\ rule_ok_vis S D R_no_cycles = true /\ rule_ok_vis S D R_spread_possible = true.
Proof. intros S D Hw Hc. repeat split; apply (sound_vis S D Hw Hc); discriminate. Qed.
Print Assumptions C03_sound_fragments.

Theorem C03_sound_directives : forall S D,
  schema_wf S = true -> check_operation_document S D = [] ->
  rule_ok_vis S D R_directives_defined = true /\ rule_ok_vis S D R_directives_location = true
  /\ rule_ok_vis S D R_directives_unique = true.
Proof. intros S D Hw Hc. repeat split; apply (sound_vis S D Hw Hc); discriminate. Qed.
Print Assumptions C03_sound_directives.

(** check_value alone: an accepted value has the expected type ("Values of Correct Type", with the input
    coercions) and every variable in it is defined and usable at its position *)
Theorem C03_check_value_sound : forall S vars, schema_wf S = true -> forall v t,
  check_value S vars v t = [] ->
  lit_ok S v t = true /\ forall ld, Forall (use_ok vars) (var_uses false S v (Some t) ld).
Proof. exact check_value_sound. Qed.
Print Assumptions C03_check_value_sound.

(** the hypotheses are satisfiable by a non-trivial document; the unguarded statement is false *)
Theorem C03_guard_satisfiable :
  schema_wf w_schema_0 = true /\ check_operation_document w_schema_0 w_doc_14 = []
  /\ Nat.ltb 40 (length (flat_map (vis_op_sites w_schema_0 w_doc_14) (doc_ops w_doc_14))) = true.
Proof. destruct guard_satisfiable as [A [_ [_ [B C]]]]. auto. Qed.
Print Assumptions C03_guard_satisfiable.


(** check_type_compatibility is the specification's AreTypesCompatible *)
Theorem C03_type_compat_is_AreTypesCompatible : forall vt et, type_compat vt et = types_compatible vt et.
Proof. exact type_compat_spec. Qed.
Print Assumptions C03_type_compat_is_AreTypesCompatible.

(** former blind spots of check, all repaired in /repo: the witnesses are now reported *)

(** regression: the former same-interface blind spot (fixed by /repo commit 762f951) is now reported *)
Theorem C03_same_interface_now_flagged :
  (exists p i, check_operation_document w_schema_0 w_doc_1 = [mkErr (FieldNotFound (s "nonexistent") (s "I")) p i])
  /\ length (check_operation_document w_schema_0 w_doc_2) = 2.
Proof. exact same_interface_now_flagged. Qed.
Print Assumptions C03_same_interface_now_flagged.

(** regression: Int literals are read as signed 32-bit integers (fixed by /repo commit 556742c); the model's
    [parse_i32] (= Rust's str::parse::<i32>) agrees with the specification-side range test on every lexeme *)
Theorem C03_int_range : forall lexeme, parse_i32 lexeme = int32_lexeme lexeme.
Proof. exact parse_i32_spec. Qed.
Print Assumptions C03_int_range.

Theorem C03_int_range_flagged :
  length (check_operation_document w_schema_0 w_doc_17) = 2
  /\ parse_i32 (s "2147483647") = true /\ parse_i32 (s "-2147483648") = true
  /\ parse_i32 (s "2147483648") = false /\ parse_i32 (s "-2147483649") = false /\ parse_i32 (s "-") = false.
Proof. exact int_range_flagged. Qed.
Print Assumptions C03_int_range_flagged.

(** Field Selection Merging (5.3.2) is not implemented by check and is not among the rules of the property text:
    documents violating it satisfy all twenty rules, are accepted, and make `generate` panic (C08_merge_unchecked_refuted;
    C03/GenerateSafe.v). [fields_can_merge_ok] is the spec-side rule (Spec.v), marked "not implemented by nitrogql". *)
Theorem C03_fields_can_merge_not_checked :
  check_operation_document w_schema_0 w_doc_18 = [] /\ spec_valid w_schema_0 w_doc_18 = true
  /\ fields_can_merge_ok w_schema_0 w_doc_18 = false
  /\ check_operation_document w_schema_0 w_doc_19 = [] /\ fields_can_merge_ok w_schema_0 w_doc_19 = false
  /\ fields_can_merge_ok w_schema_0 w_doc_14 = true.
Proof. exact fields_can_merge_not_checked. Qed.
Print Assumptions C03_fields_can_merge_not_checked.



(** /repo commit c67e45e: a fragment that no operation spreads is checked on its own (document 25: argument errors, a
    cycle and an unknown field inside unspread fragments are reported; uses of variables there are not) *)
Theorem C03_unspread_fragment_now_flagged :
  (exists p i, check_operation_document w_schema_0 w_doc_0 = [mkErr (FieldNotFound (s "nonexistent") (s "A")) p i])
  /\ map (fun e => match e_msg e with
                   | UnknownArgument _ => 1 | RecursingFragmentSpread _ => 2 | FieldNotFound _ _ => 3
                   | TypeMismatch _ => 4 | UnknownVariable _ => 5 | _ => 0 end)
         (check_operation_document w_schema_0 w_doc_25) = [1; 2; 3; 4].
Proof. exact unspread_fragment_now_flagged. Qed.
Print Assumptions C03_unspread_fragment_now_flagged.

(** /repo commit 49e8e28 *)
Theorem C03_custom_scalar_variable_now_flagged :
  exists p i, check_operation_document w_schema_0 w_doc_3 = [mkErr (UnknownVariable (s "nope")) p i].
Proof. exact custom_scalar_variable_now_flagged. Qed.
Print Assumptions C03_custom_scalar_variable_now_flagged.

(** /repo commit 7d19234 *)
Theorem C03_duplicate_argument_now_flagged :
  exists t p i, check_operation_document w_schema_0 w_doc_4 = [mkErr (TypeMismatch t) p i].
Proof. exact duplicate_argument_now_flagged. Qed.
Print Assumptions C03_duplicate_argument_now_flagged.

(** * The full statement, on every position of every definition (since /repo commit c67e45e a fragment definition that no
    operation spreads is validated on its own)

    An accepted document satisfies every implemented rule of the reference validator read on *every syntactic position
    of every definition* — operations and all fragment definitions, spread or not: [rule_ok] ranges over [all_sites]
    for the site rules (fields, leaf/composite, arguments, literals, type conditions, spreads, directives), over the
    whole fragment graph for cycles, and, for the two variable rules, over each operation together with the fragment
    definitions that operation transitively spreads ([op_scope_sites]) — there every variable written anywhere in
    any argument value counts ([site_var_uses true]). The exception is exactly that: the variables of a fragment
    definition which no operation reaches are in nobody's scope and are not judged
    (C03_sound_full_fragment_variables states the variable rules with that guard, [reached_from], spelled out;
    C03_sound_full_instance is an accepted document with three such fragments, one of which uses undeclared
    variables). Guards: [schema_wf] (what a schema accepted by check_type_system satisfies, evaluated on every case
    of the run) and, for the subscription rule only, [selsets_nonempty] (what the parser guarantees). *)
Theorem C03_sound_full : forall S D,
  schema_wf S = true -> selsets_nonempty D = true ->
  check_operation_document S D = [] -> forall r, rule_ok S D r = true.
Proof. intros S D Hwf Hne Hc. exact (sound_full S D Hwf Hc Hne). Qed.
Print Assumptions C03_sound_full.

Theorem C03_sound_full_spec_valid : forall S D,
  schema_wf S = true -> selsets_nonempty D = true ->
  check_operation_document S D = [] -> spec_valid S D = true.
Proof. intros S D Hwf Hne Hc. exact (sound_full_valid S D Hwf Hc Hne). Qed.
Print Assumptions C03_sound_full_spec_valid.

(** the site rules, site by site, for every definition *)
Theorem C03_sound_full_sites : forall S D,
  schema_wf S = true -> check_operation_document S D = [] ->
  forall x, In x (all_sites S D) -> forall r, site_ok false S D r x = true.
Proof. exact all_sites_good. Qed.
Print Assumptions C03_sound_full_sites.

(** the variable rules inside fragment definitions, with the guard written out: for every operation [o] that reaches
    the fragment definition [f], every variable written anywhere at any site of [f] is declared by [o] and, where the
    position has a type, allowed there *)
Theorem C03_sound_full_fragment_variables : forall S D,
  schema_wf S = true -> check_operation_document S D = [] ->
  forall o f, In o (doc_ops D) -> In f (doc_fragdefs D) -> reached_from D o f = true ->
  forall x, In x (frag_sites S f) ->
  forallb (fun u => match find_var o (u_name u), u_type u with
                    | Some vd, Some t => variable_usage_allowed vd t (u_loc_default u)
                    | Some _, None => true
                    | None, _ => false
                    end) (site_var_uses true S x) = true.
Proof. exact fragment_variables_sound. Qed.
Print Assumptions C03_sound_full_fragment_variables.

(** non-vacuity, and the exception at work: corpus document 26 is accepted; of its fragment definitions F G U V W the
    operation reaches F and G only; U uses variables no operation declares; the document is valid on every position *)
Theorem C03_sound_full_instance :
  schema_wf w_schema_0 = true /\ selsets_nonempty w_doc_26 = true
  /\ check_operation_document w_schema_0 w_doc_26 = []
  /\ map (fun f => (existsb (fun o => reached_from w_doc_26 o f) (doc_ops w_doc_26), uses_undeclared_variable w_schema_0 w_doc_26 f))
         (doc_fragdefs w_doc_26)
     = [(true, false); (true, false); (false, true); (false, false); (false, false)]
  /\ spec_valid w_schema_0 w_doc_26 = true.
Proof. exact sound_full_instance. Qed.
Print Assumptions C03_sound_full_instance.

(** what the type printer of C08 relies on ([expect("Type system error")] sites): in an accepted document, in every
    definition, every selected field exists on its composite parent type, every spread names a defined fragment whose
    type condition is a composite type, every inline type condition names a composite type *)
Theorem C03_accepted_fields_and_fragments_defined : forall S D,
  schema_wf S = true -> check_operation_document S D = [] ->
  Forall (fun x => match x with
                   | StField (Some p) name _ _ => is_composite p = true /\ exists f, sp_field p (iname name) = Some f
                   | StSpread _ n =>
                       exists f, sp_frag D (iname n) = Some f
                                 /\ exists t, sp_type S (iname (fr_cond f)) = Some t /\ is_composite t = true
                   | StInline _ c => exists t, sp_type S (iname c) = Some t /\ is_composite t = true
                   | _ => True
                   end) (all_sites S D).
Proof. exact accepted_fields_and_fragments_defined. Qed.
Print Assumptions C03_accepted_fields_and_fragments_defined.
