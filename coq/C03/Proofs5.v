(** C03 — proofs, part 5: from the walk to the rules. An error-free [check_operation_document] implies every
    implemented rule (except the subscription rule, see design/C03.md) on the sites a spread-following
    validator reaches from the operations. *)
From V Require Import Base.Util Gql.Ast C03.Model C03.Spec C03.Proofs C03.Proofs2 C03.Proofs3 C03.Proofs4.

(** * Root operation types: model and specification agree on a well-formed schema *)

Definition is_schema_def (d : tsdef) : bool := match d with TSSchema _ => true | _ => false end.

Lemma root_types_from_no_schema : forall S cur,
  filter is_schema_def S = [] -> root_types_from cur S = cur.
Proof.
  induction S as [|d S IH]; intros cur H; [reflexivity|].
  destruct d; cbn in *; try discriminate; apply IH, H.
Qed.

Lemma root_types_from_one : forall S,
  length (filter is_schema_def S) <= 1 ->
  root_types_from None S =
  match sp_schema_def S with
  | Some sd => Some (fold_left set_root (sd_ops sd) (mkRoots (sd_pos sd) None None None))
  | None => None
  end.
Proof.
  unfold sp_schema_def. induction S as [|d S IH]; intros H; [reflexivity|].
  destruct d as [sd|t|dd|se|te]; cbn [filter is_schema_def length find root_types_from] in *; try (apply IH, H).
  apply root_types_from_no_schema. destruct (filter is_schema_def S); [reflexivity | cbn in H; lia].
Qed.

Lemma r_pos_fold ops base : r_pos (fold_left set_root ops base) = r_pos base.
Proof.
  revert base. induction ops as [|x ops IH]; intros base; [reflexivity|].
  cbn [fold_left]. rewrite IH. unfold set_root. destruct (fst x); reflexivity.
Qed.

Lemma root_of_set_root r x o :
  root_of (set_root r x) o = if optype_eqb (fst x) o then Some (snd x) else root_of r o.
Proof. unfold set_root. destruct (fst x), o; reflexivity. Qed.

Lemma root_of_fold ops : forall base o,
  root_of (fold_left set_root ops base) o =
  match find (fun p => optype_eqb (fst p) o) (rev ops) with
  | Some p => Some (snd p)
  | None => root_of base o
  end.
Proof.
  induction ops as [|x ops IH] using rev_ind; intros base o; [reflexivity|].
  rewrite fold_left_app, rev_app_distr. cbn [fold_left rev app find].
  rewrite root_of_set_root. destruct (optype_eqb (fst x) o); [reflexivity | apply IH].
Qed.

Lemma wf_parts S : schema_wf S = true ->
  length (filter is_schema_def S) <= 1
  /\ forall sd, In (TSSchema sd) S -> pbuiltin (sd_pos sd) = false.
Proof.
  unfold schema_wf. rewrite !andb_true_iff. intros [[_ H1] H2]. split.
  - apply Nat.leb_le in H1. exact H1.
  - intros sd Hin. rewrite forallb_forall in H2. specialize (H2 _ Hin). cbn in H2.
    destruct (pbuiltin (sd_pos sd)); [discriminate | reflexivity].
Qed.

Lemma sp_schema_def_In S sd : sp_schema_def S = Some sd -> In (TSSchema sd) S.
Proof.
  unfold sp_schema_def. destruct (find _ S) as [d|] eqn:E; [|discriminate].
  apply find_some in E as [Hin Hd]. destruct d; try discriminate. intros H. injection H as <-. exact Hin.
Qed.

Lemma default_root_name_eq o :
  default_root_name o = s match o with Query => "Query" | Mutation => "Mutation" | Subscription => "Subscription" end.
Proof. destruct o; reflexivity. Qed.

Lemma op_location_eq o : op_location o = op_loc o.
Proof. destruct o; reflexivity. Qed.

(** what an error-free check_operation went through, in the specification's terms *)
Lemma check_operation_sound fuel S fm o :
  schema_wf S = true ->
  check_operation fuel S fm o = [] ->
  exists root,
    sp_root S (op_type o) = Some root /\ In (TSType root) S
    /\ check_directives S (op_vars o) (op_loc (op_type o)) (op_dirs o) = []
    /\ check_selection_set fuel S fm (op_vars o) [] root (op_sel o) = [].
Proof.
  intros Hwf H. destruct (wf_parts S Hwf) as [Hone Hpos].
  unfold check_operation in H. unfold root_types in H. rewrite (root_types_from_one S Hone) in H.
  unfold sp_root.
  destruct (sp_schema_def S) as [sd|] eqn:Esd.
  - rewrite r_pos_fold in H. cbn [r_pos] in H. rewrite (Hpos sd (sp_schema_def_In _ _ Esd)) in H. cbn [negb] in H.
    rewrite root_of_fold in H. cbn [root_of r_query r_mutation r_subscription] in H.
    assert (Hn : root_of (mkRoots (sd_pos sd) None None None) (op_type o) = None) by (destruct (op_type o); reflexivity).
    rewrite Hn in H.
    destruct (find (fun p => optype_eqb (fst p) (op_type o)) (rev (sd_ops sd))) as [p|]; [|discriminate].
    destruct (get_type S (iname (snd p))) as [root|] eqn:Er; [|discriminate].
    exists root. rewrite <- get_type_sp. split; [exact Er|]. split; [apply (get_type_In _ _ _ Er)|].
    apply app_nil_inv in H as [H1 H]. apply app_nil_inv in H as [_ H]. apply app_nil_inv in H as [_ H4].
    rewrite <- op_location_eq. auto.
  - cbn [r_pos pos0 pbuiltin negb root_of r_query r_mutation r_subscription] in H.
    assert (Hn : root_of (mkRoots pos0 None None None) (op_type o) = None) by (destruct (op_type o); reflexivity).
    rewrite Hn in H.
    destruct (get_type S (default_root_name (op_type o))) as [root|] eqn:Er; [|discriminate].
    exists root. rewrite <- get_type_sp, <- default_root_name_eq. split; [exact Er|]. split; [apply (get_type_In _ _ _ Er)|].
    apply app_nil_inv in H as [H1 H]. apply app_nil_inv in H as [_ H]. apply app_nil_inv in H as [_ H4].
    rewrite <- op_location_eq. auto.
Qed.

(** * Every visible site of every operation is good *)

Lemma find_var_eq o n : find_var o n = get_variable_definition (op_vars o) n.
Proof. unfold find_var, get_variable_definition, op_vardefs. destruct (op_vars o); reflexivity. Qed.

Section Doc.
  Variable S : tsdoc.
  Variable D : opdoc.
  Hypothesis Hwf : schema_wf S = true.
  Hypothesis Hcheck : check_operation_document S D = [].

  Lemma frag_unique : nodup_str (map (fun f => iname (fr_name f)) (doc_fragdefs D)) = true.
  Proof. exact (unique_fragments_sound S D Hcheck). Qed.

  Lemma frag_targets : forall f, In f (doc_fragdefs D) -> exists t, get_type S (iname (fr_cond f)) = Some t.
  Proof.
    intros f Hin. pose proof (frag_checked S D f Hcheck Hin) as Hc. unfold check_fragment_definition in Hc.
    destruct (get_type S (iname (fr_cond f))) as [t|]; [eauto | discriminate].
  Qed.

  Theorem vis_sites_good o : In o (doc_ops D) -> Forall (site_good S D (op_vars o)) (vis_op_sites S D o).
  Proof.
    intros Hin. pose proof (op_checked S D o Hcheck Hin) as Hc.
    destruct (check_operation_sound _ _ _ _ Hwf Hc) as [root [Hroot [Hrin [Hd Hs]]]].
    unfold vis_op_sites. constructor.
    - apply (dirs_good S D (op_vars o) Hwf). exact Hd.
    - rewrite Hroot. apply (walk S D (op_vars o) Hwf frag_unique frag_targets _ _ _ _ Hrin Hs).
  Qed.

  (** the same for every amount of fuel of the specification-side enumeration: no site is lost to fuel *)
  Theorem vis_sites_good_any_fuel o fv : In o (doc_ops D) ->
    Forall (site_good S D (op_vars o))
           (flat_map (vsites_sel S (vis_enter fv S D []) (sp_root S (op_type o))) (selset_sels (op_sel o))).
  Proof.
    intros Hin. pose proof (op_checked S D o Hcheck Hin) as Hc.
    destruct (check_operation_sound _ _ _ _ Hwf Hc) as [root [Hroot [Hrin [Hd Hs]]]].
    rewrite Hroot. apply (walk S D (op_vars o) Hwf frag_unique frag_targets _ _ _ _ Hrin Hs).
  Qed.

  Theorem const_sites_good o : In o (doc_ops D) -> Forall (site_good S D None) (op_const_sites o).
  Proof.
    intros Hin. unfold op_const_sites. apply Forall_forall. intros x Hx.
    apply in_map_iff in Hx as [v [<- Hv]].
    apply (dirs_good S D None Hwf).
    apply (proj2 (op_variables_checked S D o Hcheck Hin) v Hv).
  Qed.

  Lemma use_ok_none u : ~ use_ok None u.
  Proof. intros [vd [H _]]. discriminate. Qed.

  (** ** the rules *)
  Theorem sound_vis r : r <> R_single_subscription_root -> rule_ok_vis S D r = true.
  Proof.
    intros Hr. unfold rule_ok_vis, vis_doc_sites.
    assert (Hsite : forall r', forallb (fun ov : opdef * list site => forallb (site_ok true S D r') (snd ov ++ op_const_sites (fst ov)))
                                 (map (fun o => (o, vis_op_sites S D o)) (doc_ops D)) = true).
    { intros r'. apply forallb_forall. intros ov Hov. apply in_map_iff in Hov as [o [<- Ho]]. cbn [fst snd].
      rewrite forallb_app, andb_true_iff. split; apply forallb_forall; intros x Hx.
      - pose proof (vis_sites_good o Ho) as G. rewrite Forall_forall in G. apply (proj1 (G x Hx)).
      - pose proof (const_sites_good o Ho) as G. rewrite Forall_forall in G. apply (proj1 (G x Hx)). }
    assert (Hsite' : forall r', forallb (fun ov : opdef * list site => forallb (site_ok true S D r') (snd ov))
                                 (map (fun o => (o, vis_op_sites S D o)) (doc_ops D)) = true).
    { intros r'. apply forallb_forall. intros ov Hov. apply in_map_iff in Hov as [o [<- Ho]]. cbn [fst snd].
      apply forallb_forall; intros x Hx.
      pose proof (vis_sites_good o Ho) as G. rewrite Forall_forall in G. apply (proj1 (G x Hx)). }
    destruct r; cbn [rule_ok_vis_on]; try apply Hsite.
    - apply unique_op_names_sound, Hcheck.
    - apply lone_anonymous_sound, Hcheck.
    - contradiction Hr; reflexivity.
    - apply unique_vars_sound, Hcheck.
    - apply vars_input_types_sound, Hcheck.
    - (* vars defined *)
      apply forallb_forall. intros ov Hov. apply in_map_iff in Hov as [o [<- Ho]]. cbn [fst snd].
      unfold vars_defined_on. rewrite andb_true_iff. split.
      + apply forallb_forall. intros x Hx.
        pose proof (vis_sites_good o Ho) as G. rewrite Forall_forall in G. destruct (G x Hx) as [_ [Gu _]].
        apply forallb_forall. intros u Hu. rewrite Forall_forall in Gu. destruct (Gu u Hu) as [vd [Hvd _]].
        rewrite find_var_eq, Hvd. reflexivity.
      + apply forallb_forall. intros x Hx.
        pose proof (const_sites_good o Ho) as G. rewrite Forall_forall in G. destruct (G x Hx) as [_ [Gu _]].
        destruct (site_var_uses false S x) as [|u us]; [reflexivity|].
        inversion Gu as [|? ? Hu _]; subst. exfalso. apply (use_ok_none u Hu).
    - (* variable usages allowed *)
      apply forallb_forall. intros ov Hov. apply in_map_iff in Hov as [o [<- Ho]]. cbn [fst snd].
      unfold var_usage_on. apply forallb_forall. intros x Hx.
      pose proof (vis_sites_good o Ho) as G. rewrite Forall_forall in G. destruct (G x Hx) as [_ [Gu _]].
      apply forallb_forall. intros u Hu. rewrite Forall_forall in Gu. destruct (Gu u Hu) as [vd [Hvd Hallowed]].
      rewrite find_var_eq, Hvd. destruct (u_type u) as [t|] eqn:Et; [|reflexivity]. apply Hallowed. reflexivity.
    - apply unique_fragments_sound, Hcheck.
    - (* fragment targets *)
      rewrite andb_true_iff. split; [apply fragment_definition_targets_sound, Hcheck | apply Hsite'].
    - (* no cycles *)
      apply forallb_forall. intros ov Hov. apply in_map_iff in Hov as [o [<- Ho]]. cbn [fst snd].
      apply forallb_forall. intros x Hx.
      pose proof (vis_sites_good o Ho) as G. rewrite Forall_forall in G. destruct (G x Hx) as [_ [_ Gc]].
      destruct x; try reflexivity. exfalso. apply (Gc name). reflexivity.
  Qed.
End Doc.

(** * Non-vacuity: the hypotheses are satisfied by non-trivial documents of the corpus *)
From V Require Import C03.Witness.

Example guard_satisfiable :
  schema_wf w_schema_0 = true
  /\ check_operation_document w_schema_0 w_doc_6 = []      (* input coercions, nested input objects *)
  /\ check_operation_document w_schema_0 w_doc_7 = []      (* nullable variable with a default in a non-null position *)
  /\ check_operation_document w_schema_0 w_doc_14 = []     (* fragments over objects, interfaces and unions, variables
                                                              in lists and input objects, directives at six locations *)
  /\ Nat.ltb 40 (length (flat_map (vis_op_sites w_schema_0 w_doc_14) (doc_ops w_doc_14))) = true.
Proof. repeat split; vm_compute; reflexivity. Qed.

