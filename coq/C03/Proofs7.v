(** C03 — proofs, part 7: the soundness lemmas once more, from "every error is an UnknownVariable" instead of "no error".
    This is what the pass over never-spread fragments (check_unspread_fragment: no variable in scope, UnknownVariable
    errors dropped) guarantees. The conclusions are the site rules; nothing is said about variables. *)
From V Require Import Base.Util Gql.Ast C03.Model C03.Spec C03.Proofs C03.Proofs2 C03.Proofs3 C03.Proofs4 C03.Proofs5 C03.Proofs6.

Definition nuv (e : err) : bool := negb (is_unknown_variable e).
(** what remains after the filter of check_unspread_fragment is nothing *)
Definition quiet (l : list err) : Prop := filter nuv l = [].

Lemma quiet_nil : quiet [].
Proof. reflexivity. Qed.

Lemma quiet_app a b : quiet (a ++ b) <-> quiet a /\ quiet b.
Proof.
  unfold quiet. rewrite filter_app. split.
  - apply app_nil_inv.
  - intros [-> ->]. reflexivity.
Qed.

Lemma quiet_of_nil l : l = [] -> quiet l.
Proof. intros ->. reflexivity. Qed.

Lemma quiet_flat_map {A} (f : A -> list err) l : quiet (flat_map f l) -> forall x, In x l -> quiet (f x).
Proof.
  induction l as [|a l IH]; cbn [flat_map]; intros H x Hx; [contradiction|].
  apply quiet_app in H as [Ha Hl]. destruct Hx as [<-|Hx]; auto.
Qed.

Lemma quiet_concat (l : list (list err)) : quiet (concat l) -> forall x, In x l -> quiet x.
Proof.
  induction l as [|a l IH]; cbn [concat]; intros H x Hx; [contradiction|].
  apply quiet_app in H as [Ha Hl]. destruct Hx as [<-|Hx]; auto.
Qed.

(** a list without UnknownVariable errors is quiet only if empty *)
Lemma quiet_no_uv l : forallb nuv l = true -> quiet l -> l = [].
Proof.
  unfold quiet. induction l as [|e l IH]; cbn [forallb filter]; intros H Hq; [reflexivity|].
  apply andb_true_iff in H as [He Hl]. rewrite He in Hq. discriminate.
Qed.

Lemma flat_map_ext_in' {A B} (f g : A -> list B) l : (forall a, In a l -> f a = g a) -> flat_map f l = flat_map g l.
Proof.
  induction l as [|a l IH]; intros H; [reflexivity|]. cbn [flat_map].
  rewrite (H a (or_introl eq_refl)), IH; [reflexivity|]. intros b Hb. apply H. right. exact Hb.
Qed.

Ltac loud H := exfalso; unfold quiet in H; cbn in H; discriminate H.

(** * Values *)
Section ValuesQ.
  Variable S : tsdoc.
  Variable vars : option vardefs.
  Hypothesis Hwf : schema_wf S = true.

  Lemma named_quiet v n :
    is_var v = false ->
    match v with
    | VObject _ fs => Forall (fun kv => forall t, quiet (check_value S vars (snd kv) t) -> lit_ok S (snd kv) t = true) fs
    | _ => True
    end ->
    quiet (check_named S vars (check_value S vars) v (TNamed n) n) ->
    lit_ok S v (TNamed n) = true.
  Proof.
    intros Hv IH H. rewrite (lo_named S v n Hv).
    destruct (value_is_null v) eqn:Enull; [destruct v; try discriminate; reflexivity|].
    assert (G : lit_named (lit_ok S) S v n = true); [|destruct v; try exact G; discriminate].
    unfold check_named in H. unfold lit_named. rewrite <- get_type_sp.
    destruct (get_type S (iname n)) as [td|] eqn:Eg; [|loud H].
    destruct td as [d p name dirs kw|d p name impls dirs fs' kw|d p name impls dirs fs' kw|d p name dirs mem' kw
                   |d p name dirs vals kw|d p name dirs fields kw]; cbn zeta in H; try (loud H).
    - (* scalar *)
      destruct (is_builtin_scalar (iname name)) eqn:Eb; [|apply custom_scalar_ok, Eb].
      destruct (scalar_accepts (iname name) v) eqn:Ea; [|loud H].
      apply scalar_agree; assumption.
    - (* enum *)
      destruct v; try (loud H); try discriminate.
      destruct (forallb (fun ev => negb (str_eqb (iname (ev_name ev)) v)) vals) eqn:Ef; [loud H|].
      apply mem_In. apply in_map_iff.
      assert (Hex : existsb (fun ev => str_eqb (iname (ev_name ev)) v) vals = true).
      { clear -Ef. induction vals as [|e vals IHv]; cbn in *; [discriminate|].
        destruct (str_eqb (iname (ev_name e)) v); cbn in *; [reflexivity | apply IHv, Ef]. }
      apply existsb_exists in Hex as [e [Hin He]]. exists e. apply str_eqb_eq in He. auto.
    - (* input object *)
      destruct v as [| | | | | | | |q fs]; try (loud H); try discriminate.
      unfold input_object_check in H. cbn zeta in H.
      pose proof (io_fold (check_value S vars) fs fields (mkIo [] true [] 0)) as [F1 [F2 F3]].
      cbn zeta in F1, F2, F3. cbn [io_errs io_res io_seen app andb Nat.add] in F1, F2, F3.
      apply quiet_app in H as [He Hr]. rewrite F1 in He. rewrite F2, F3 in Hr.
      destruct (forallb (ef_ok fs) fields) eqn:Eok; [|loud Hr].
      destruct (Nat.ltb (sumc (map (fun ef => iname (iv_name ef)) fields) (keys fs)) (length fs)) eqn:Elt; [loud Hr|].
      apply Nat.ltb_ge in Elt.
      pose proof (wf_input S _ _ _ _ _ _ _ Hwf Eg) as Hnd.
      assert (Hdef : forall k, In k (keys fs) -> In k (map (fun d0 => iname (iv_name d0)) fields)).
      { apply (sumc_all_defined _ _ Hnd). unfold keys at 1. rewrite map_length. exact Elt. }
      fold (keys fs). rewrite andb_true_iff. split.
      + apply lit_fields_forall. intros k v Hin.
        assert (Hk : In (iname k) (keys fs)) by (unfold keys; apply in_map_iff; exists (k, v); auto).
        destruct (find_by_name fields (iname k) (Hdef _ Hk)) as [dd [Hf [Hdin Hdn]]].
        exists dd. split; [exact Hf|].
        pose proof (quiet_flat_map _ _ He dd Hdin) as Hee. cbn beta in Hee.
        assert (Hcv : quiet (check_value S vars v (loc_type dd v))).
        { apply (quiet_concat _ Hee). unfold ef_vals. apply filter_vals_In. exists k, v. auto. }
        destruct (is_var v) eqn:Evar.
        * destruct v; try discriminate Evar. apply lo_var.
        * rewrite (loc_type_nonvar dd v Evar) in Hcv. rewrite Forall_forall in IH. apply (IH (k, v) Hin). exact Hcv.
      + apply forallb_forall. intros dd Hdin. rewrite forallb_forall in Eok. specialize (Eok dd Hdin).
        unfold ef_ok in Eok. rewrite orb_comm. exact Eok.
  Qed.

  Theorem check_value_quiet : forall v t, quiet (check_value S vars v t) -> lit_ok S v t = true.
  Proof.
    assert (Hatom : forall v, is_var v = false ->
              (match v with VList _ _ | VObject _ _ => False | _ => True end) ->
              forall t, quiet (check_value S vars v t) -> lit_ok S v t = true).
    { intros v Hv Hshape t H. induction t as [n|i IHt|q i IHt].
      - apply named_quiet; [exact Hv | destruct v; try exact I; contradiction |]. rewrite <- cv_named; [exact H | exact Hv].
      - rewrite cv_nonnull in H by exact Hv. rewrite lo_nonnull by exact Hv.
        destruct v; try contradiction; try discriminate Hv; try (apply IHt, H). loud H.
      - rewrite cv_list in H by exact Hv. rewrite lo_list by exact Hv.
        destruct v; try contradiction; try discriminate Hv; try (apply IHt, H). reflexivity. }
    induction v as [n p|p l|p l|p l|p b|p|p l|p vs IHvs|p fs IHfs] using value_ind'; intros t H;
      try (apply Hatom; [reflexivity | exact I | exact H]).
    - apply lo_var.
    - rewrite Forall_forall in IHvs.
      induction t as [n|i IHt|q i IHt].
      + rewrite cv_named in H by reflexivity. apply named_quiet; [reflexivity | exact I | exact H].
      + rewrite cv_nonnull in H by reflexivity. rewrite lo_nonnull by reflexivity. apply IHt, H.
      + rewrite cv_list in H by reflexivity. rewrite lo_list by reflexivity.
        apply forallb_forall. intros e He. apply IHvs; [exact He|]. apply (quiet_flat_map _ _ H e He).
    - induction t as [n|i IHt|q i IHt].
      + rewrite cv_named in H by reflexivity. apply named_quiet; [reflexivity | | exact H].
        apply Forall_forall. intros kv Hin t' Ht'. rewrite Forall_forall in IHfs. apply (IHfs kv Hin t' Ht').
      + rewrite cv_nonnull in H by reflexivity. rewrite lo_nonnull by reflexivity. apply IHt, H.
      + rewrite cv_list in H by reflexivity. rewrite lo_list by reflexivity. apply IHt, H.
  Qed.

  Lemma value_at_location_quiet d v : quiet (check_value S vars v (loc_type d v)) -> lit_ok S v (iv_type d) = true.
  Proof.
    intros H. destruct (is_var v) eqn:Ev.
    - destruct v; try discriminate Ev. apply lo_var.
    - rewrite (loc_type_nonvar d v Ev) in H. apply check_value_quiet, H.
  Qed.

  (** ** Every variable of an accepted literal is at a typed position or inside a custom scalar literal:
      the two readings of "the variable uses of a value" coincide *)
  Definition obj_uses' (deep : bool) (defs : list inputvaldef) (custom : bool) (fs : list (ident * value)) : list var_use :=
    flat_map (fun kv => match find (fun d => str_eqb (iname (iv_name d)) (iname (fst kv))) defs with
                        | Some d => var_uses deep S (snd kv) (Some (iv_type d))
                                      (match iv_default d with Some _ => true | None => false end)
                        | None => if deep || custom then var_uses true S (snd kv) None false else []
                        end) fs.

  Lemma obj_uses_unfold' deep p fs t ld :
    var_uses deep S (VObject p fs) (Some t) ld = obj_uses' deep (input_defs S t) (custom_scalar S (unwrap_lists t)) fs.
  Proof.
    cbn [var_uses]. fold (input_defs S t). generalize (input_defs S t) as defs, (custom_scalar S (unwrap_lists t)) as c.
    intros defs c. unfold obj_uses'. induction fs as [|[k fv] r IH]; [reflexivity|].
    cbn [flat_map fst snd]. rewrite <- IH. reflexivity.
  Qed.

  Lemma list_uses_unfold' deep p vs t ld :
    var_uses deep S (VList p vs) (Some t) ld =
    match strip_nonnull t with
    | TList _ i => flat_map (fun e => var_uses deep S e (Some i) false) vs
    | t' => if deep || custom_scalar S t' then flat_map (fun e => var_uses true S e None false) vs else []
    end.
  Proof.
    cbn [var_uses]. destruct (strip_nonnull t) as [n|i|q i]; try reflexivity;
      destruct deep, (custom_scalar S _); reflexivity.
  Qed.

  Lemma builtin_rejects_compound name v :
    is_builtin_scalar name = true -> (match v with VList _ _ | VObject _ _ => True | _ => False end) ->
    scalar_accepts name v = false.
  Proof.
    unfold is_builtin_scalar, scalar_accepts. intros H Hv.
    destruct (str_eqb name str_Boolean), (str_eqb name str_Int), (str_eqb name str_Float), (str_eqb name str_String),
             (str_eqb name str_ID); try discriminate H; destruct v; try contradiction; reflexivity.
  Qed.

  (** a list or object literal accepted at a named type: the type is a custom scalar or (object) an input object *)
  Lemma named_compound v n :
    (match v with VList _ _ | VObject _ _ => True | _ => False end) ->
    quiet (check_named S vars (check_value S vars) v (TNamed n) n) ->
    custom_scalar S (TNamed n) = true
    \/ exists d p name dirs fields kw fs q, sp_type S (iname n) = Some (TDInput d p name dirs fields kw) /\ v = VObject q fs.
  Proof.
    intros Hv H. unfold check_named in H. unfold custom_scalar. rewrite get_type_sp in H.
    destruct (sp_type S (iname n)) as [td|] eqn:Eg; [|loud H].
    destruct td as [d p name dirs kw|d p name impls dirs fs' kw|d p name impls dirs fs' kw|d p name dirs mem' kw
                   |d p name dirs vals kw|d p name dirs fields kw]; cbn zeta in H; try (loud H).
    - left. rewrite <- builtin_agree. destruct (is_builtin_scalar (iname name)) eqn:Eb; [|reflexivity].
      rewrite (builtin_rejects_compound _ _ Eb Hv) in H. loud H.
    - destruct v; try contradiction; loud H.
    - destruct v as [| | | | | | | |q fs]; try contradiction; [loud H|]. right. repeat eexists.
  Qed.

  Theorem check_value_deep : forall v t, quiet (check_value S vars v t) ->
    forall ld, var_uses true S v (Some t) ld = var_uses false S v (Some t) ld.
  Proof.
    induction v as [n p|p l|p l|p l|p b|p|p l|p vs IHvs|p fs IHfs] using value_ind'; intros t H ld; try reflexivity.
    - (* list *)
      rewrite Forall_forall in IHvs. rewrite !list_uses_unfold'. cbn [orb].
      induction t as [n|i IHt|q i IHt].
      + rewrite cv_named in H by reflexivity. cbn [strip_nonnull].
        destruct (named_compound (VList p vs) n I H) as [Hc|[d [p0 [name [dirs [fields [kw [fs [q [_ E]]]]]]]]]]; [|discriminate E].
        rewrite Hc. reflexivity.
      + rewrite cv_nonnull in H by reflexivity. cbn [strip_nonnull]. apply IHt, H.
      + rewrite cv_list in H by reflexivity. cbn [strip_nonnull].
        apply flat_map_ext_in'. intros e He. apply IHvs; [exact He|]. apply (quiet_flat_map _ _ H e He).
    - (* object *)
      rewrite !obj_uses_unfold'.
      induction t as [n|i IHt|q i IHt].
      + rewrite cv_named in H by reflexivity. cbn [unwrap_lists].
        destruct (named_compound (VObject p fs) n I H) as [Hc|[d [p0 [name [dirs [fields [kw [fs' [q [Eg E]]]]]]]]]].
        * rewrite Hc. unfold input_defs. cbn [unwrap_lists]. unfold custom_scalar in Hc.
          destruct (sp_type S (iname n)) as [td|]; [|discriminate]. destruct td; try discriminate.
          unfold obj_uses'. apply flat_map_ext_in'. intros kv _. reflexivity.
        * injection E as <- <-. unfold input_defs. cbn [unwrap_lists]. rewrite Eg.
          unfold check_named in H. rewrite get_type_sp, Eg in H. cbn zeta in H.
          unfold input_object_check in H. cbn zeta in H.
          pose proof (io_fold (check_value S vars) fs fields (mkIo [] true [] 0)) as [F1 [F2 F3]].
          cbn zeta in F1, F2, F3. cbn [io_errs io_res io_seen app andb Nat.add] in F1, F2, F3.
          apply quiet_app in H as [He Hr]. rewrite F1 in He. rewrite F2, F3 in Hr.
          destruct (forallb (ef_ok fs) fields) eqn:Eok; [|loud Hr].
          destruct (Nat.ltb (sumc (map (fun ef => iname (iv_name ef)) fields) (keys fs)) (length fs)) eqn:Elt; [loud Hr|].
          apply Nat.ltb_ge in Elt. rewrite <- get_type_sp in Eg.
          pose proof (wf_input S _ _ _ _ _ _ _ Hwf Eg) as Hnd.
          assert (Hdef : forall k, In k (keys fs) -> In k (map (fun d0 => iname (iv_name d0)) fields)).
          { apply (sumc_all_defined _ _ Hnd). unfold keys at 1. rewrite map_length. exact Elt. }
          unfold obj_uses'. apply flat_map_ext_in'. intros [k v] Hin. cbn [fst snd].
          assert (Hk : In (iname k) (keys fs)) by (unfold keys; apply in_map_iff; exists (k, v); auto).
          destruct (find_by_name fields (iname k) (Hdef _ Hk)) as [dd [Hf [Hdin Hdn]]]. rewrite Hf.
          pose proof (quiet_flat_map _ _ He dd Hdin) as Hee. cbn beta in Hee.
          assert (Hcv : quiet (check_value S vars v (loc_type dd v))).
          { apply (quiet_concat _ Hee). unfold ef_vals. apply filter_vals_In. exists k, v. auto. }
          destruct (is_var v) eqn:Evar.
          -- destruct v; try discriminate Evar. reflexivity.
          -- rewrite (loc_type_nonvar dd v Evar) in Hcv. rewrite Forall_forall in IHfs. apply (IHfs (k, v) Hin _ Hcv).
      + rewrite cv_nonnull in H by reflexivity. apply IHt, H.
      + rewrite cv_list in H by reflexivity. apply IHt, H.
  Qed.

  Lemma value_at_location_deep d v ld : quiet (check_value S vars v (loc_type d v)) ->
    var_uses true S v (Some (iv_type d)) ld = var_uses false S v (Some (iv_type d)) ld.
  Proof.
    intros H. destruct (is_var v) eqn:Ev.
    - destruct v; try discriminate Ev. reflexivity.
    - rewrite (loc_type_nonvar d v Ev) in H. apply check_value_deep, H.
  Qed.

  (** * Arguments *)
  Theorem check_arguments_quiet ppos pname kind args defs :
    NoDup (def_names defs) ->
    quiet (check_arguments S vars ppos pname kind args defs) ->
    args_defined_ok (provided args, defs) = true
    /\ required_args_ok (provided args, defs) = true
    /\ literal_types_vis S (provided args, defs) = true
    /\ args_var_uses true S (provided args) defs = args_var_uses false S (provided args) defs.
  Proof.
    intros Hnd H. unfold check_arguments in H.
    assert (Hmain : forall apos,
      quiet (let st := fold_left (arg_step S vars apos (provided args)) defs ([], 0) in
       fst st ++ (if Nat.ltb (snd st) (length (provided args)) then
                    flat_map (fun kv => if forallb (fun ad => negb (str_eqb (iname (iv_name ad)) (iname (fst kv)))) defs
                                        then [err0 (UnknownArgument (iname (fst kv))) (ipos (fst kv))] else []) (provided args)
                  else [])) ->
      args_defined_ok (provided args, defs) = true
      /\ required_args_ok (provided args, defs) = true
      /\ literal_types_vis S (provided args, defs) = true
      /\ args_var_uses true S (provided args) defs = args_var_uses false S (provided args) defs).
    { clear H. intros apos H. cbn zeta in H. rewrite arg_fold in H. cbn [fst snd app Nat.add] in H.
      apply quiet_app in H as [He Hx].
      assert (Hdefined : forall kv, In kv (provided args) -> mem (iname (fst kv)) (def_names defs) = true).
      { destruct (Nat.ltb _ (length (provided args))) eqn:Elt.
        - intros kv Hin. pose proof (quiet_flat_map _ _ Hx kv Hin) as Hk. cbn beta in Hk.
          destruct (forallb (fun ad => negb (str_eqb (iname (iv_name ad)) (iname (fst kv)))) defs) eqn:Ef; [loud Hk|].
          apply forallb_neg_false_mem, Ef.
        - apply Nat.ltb_ge in Elt.
          assert (Hc : forall k, In k (arg_keys (provided args)) -> In k (def_names defs)).
          { apply (sumc_all_defined _ _ Hnd). unfold arg_keys at 1. rewrite map_length. exact Elt. }
          intros kv Hin. apply mem_In, Hc. unfold arg_keys. apply in_map_iff. exists kv. auto. }
      assert (Hper : forall ad, In ad defs ->
                (forall kv, In kv (provided args) -> iname (iv_name ad) = iname (fst kv) ->
                            quiet (check_value S vars (snd kv) (loc_type ad (snd kv))))
                /\ (mem (iname (iv_name ad)) (arg_keys (provided args)) = false -> required_input ad = false)).
      { intros ad Hin. pose proof (quiet_flat_map _ _ He ad Hin) as Hk. unfold ad_errs, arg_step in Hk.
        pose proof (filter_args_length (iname (iv_name ad)) (provided args)) as Hlen.
        destruct (filter (fun kv => str_eqb (iname (iv_name ad)) (iname (fst kv))) (provided args)) as [|m ms] eqn:Ef.
        - split.
          + intros kv Hkv Hn. exfalso. assert (Hf : In kv []).
            { rewrite <- Ef. apply filter_In. split; [exact Hkv | apply str_eqb_eq, Hn]. } exact Hf.
          + intros _. rewrite required_input_eq.
            destruct (ty_is_nonnull (iv_type ad)); cbn [negb] in *; [|reflexivity].
            destruct (iv_default ad); cbn [fst app] in *; [reflexivity | loud Hk].
        - cbn [fst app] in Hk. split.
          + intros kv Hkv Hn. apply (quiet_flat_map _ _ Hk kv). rewrite <- Ef. apply filter_In. split; [exact Hkv | apply str_eqb_eq, Hn].
          + intros Hm. apply count_key_zero in Hm. unfold keys in Hm. fold (arg_keys (provided args)) in Hm.
            rewrite Hm in Hlen. discriminate Hlen. }
      repeat split.
      - unfold args_defined_ok. cbn [fst snd]. apply forallb_forall. intros kv Hin. apply Hdefined, Hin.
      - unfold required_args_ok. cbn [fst snd]. apply forallb_forall. intros ad Hin.
        destruct (mem (iname (iv_name ad)) (map (fun kv => iname (fst kv)) (provided args))) eqn:Em; [apply orb_true_r|].
        rewrite (proj2 (Hper ad Hin) Em). reflexivity.
      - unfold literal_types_vis, literal_types_ok. cbn [fst snd]. apply forallb_forall. intros kv Hin.
        destruct (find (fun d0 => str_eqb (iname (iv_name d0)) (iname (fst kv))) defs) as [d|] eqn:Ef; [|reflexivity].
        apply find_some in Ef as [Hd Hn]. apply str_eqb_eq in Hn.
        apply (value_at_location_quiet d (snd kv)). apply (proj1 (Hper d Hd) kv Hin Hn).
      - unfold args_var_uses. apply flat_map_ext_in'. intros kv Hin.
        pose proof (Hdefined kv Hin) as Hm. apply mem_In in Hm.
        destruct (find_by_name defs (iname (fst kv)) Hm) as [d [Hf [Hd Hn]]]. rewrite Hf.
        apply (value_at_location_deep d (snd kv)). apply (proj1 (Hper d Hd) kv Hin Hn). }
    destruct args as [a|]; destruct defs as [|d0 defs0].
    - loud H.
    - apply (Hmain (args_pos a)). exact H.
    - cbn. repeat split; constructor.
    - apply (Hmain ppos). exact H.
  Qed.
End ValuesQ.

(** * Directives *)
(** the site rules hold, the site is no cycle marker, and every variable written at the site is at a typed position
    or inside a custom scalar literal (the two readings of "variable uses" coincide) *)
Definition site_rules_good (S : tsdoc) (D : opdoc) (x : site) : Prop :=
  (forall r, site_ok true S D r x = true) /\ (forall n, x <> StCycle n)
  /\ site_var_uses true S x = site_var_uses false S x.

Section DirsQ.
  Variable S : tsdoc.
  Variable D : opdoc.
  Variable vars : option vardefs.
  Hypothesis Hwf : schema_wf S = true.

  Lemma check_directives_from_quiet loc : forall ds seen,
    quiet (check_directives_from S vars seen loc ds) ->
    (forall d, In d ds ->
       exists dd, sp_directive S (iname (dir_name d)) = Some dd
         /\ mem loc (names_of (dd_locs dd)) = true
         /\ args_defined_ok (provided (dir_args d), dir_argdefs dd) = true
         /\ required_args_ok (provided (dir_args d), dir_argdefs dd) = true
         /\ literal_types_vis S (provided (dir_args d), dir_argdefs dd) = true
         /\ args_var_uses true S (provided (dir_args d)) (dir_argdefs dd)
            = args_var_uses false S (provided (dir_args d)) (dir_argdefs dd))
    /\ nodup_str (nonrep S ds) = true
    /\ (forall n, In n (nonrep S ds) -> mem n seen = false).
  Proof.
    induction ds as [|d ds IH]; intros seen H.
    - repeat split; try reflexivity; intros; contradiction.
    - cbn [check_directives_from] in H. cbn zeta in H.
      destruct (get_directive S (iname (dir_name d))) as [dd|] eqn:Eg.
      2:{ exfalso. change (quiet ([err0 (UnknownDirective (iname (dir_name d))) (ipos (dir_name d))]
                                    ++ check_directives_from S vars seen loc ds)) in H.
          apply quiet_app in H as [H _]. loud H. }
      apply quiet_app in H as [Hloc H]. apply quiet_app in H as [Hrep H]. apply quiet_app in H as [Hargs Hrest].
      specialize (IH _ Hrest) as [IHa [IHb IHc]].
      pose proof Eg as Eg'. rewrite get_directive_sp in Eg'.
      split; [|split].
      + intros d' [<-|Hin]; [|apply IHa, Hin].
        exists dd. split; [exact Eg'|]. split.
        * destruct (forallb (fun l => negb (str_eqb (iname l) loc)) (dd_locs dd)) eqn:Ef; [loud Hloc|].
          clear -Ef. unfold names_of. induction (dd_locs dd) as [|l ls IHl]; [discriminate|].
          cbn [forallb map] in *. rewrite mem_cons, (str_eqb_sym loc).
          destruct (str_eqb (iname l) loc); cbn [negb andb orb] in *; [reflexivity | apply IHl, Ef].
        * apply (check_arguments_quiet S vars Hwf (dir_pos d) (iname (dir_name d)) str_directive).
          -- apply (wf_directive_both S _ _ Hwf Eg).
          -- exact Hargs.
      + cbn [nonrep flat_map]. rewrite Eg'. fold (nonrep S ds).
        destruct (dd_repeatable dd) as [r|]; cbn [app]; [exact IHb|].
        cbn [nodup_str]. rewrite IHb, andb_true_r.
        destruct (mem (iname (dir_name d)) (nonrep S ds)) eqn:Em; [|reflexivity].
        apply mem_In in Em. specialize (IHc _ Em).
        destruct (mem_str (iname (dir_name d)) seen) eqn:Es.
        * rewrite mem_str_mem in Es. congruence.
        * rewrite mem_app in IHc. cbn in IHc. rewrite str_eqb_refl, orb_true_r in IHc. discriminate.
      + intros n Hn. cbn [nonrep flat_map] in Hn. rewrite Eg' in Hn. fold (nonrep S ds) in Hn.
        apply in_app_or in Hn as [Hn|Hn].
        * destruct (dd_repeatable dd) as [r|]; [contradiction|]. destruct Hn as [<-|[]].
          destruct (mem_str (iname (dir_name d)) seen) eqn:Es; [loud Hrep | exact Es].
        * specialize (IHc n Hn). destruct (mem_str (iname (dir_name d)) seen) eqn:Es; [exact IHc|].
          rewrite mem_app in IHc. apply orb_false_iff in IHc as [IHc _]. exact IHc.
  Qed.

  Theorem dirs_quiet loc ds :
    quiet (check_directives S vars loc ds) -> site_rules_good S D (StDirs loc ds).
  Proof.
    intros H. unfold check_directives in H.
    destruct (check_directives_from_quiet loc ds [] H) as [Ha [Hb _]].
    split; [|split; [intros n; discriminate|]].
    2:{ cbn [site_var_uses]. apply flat_map_ext_in'. intros d Hd.
        destruct (Ha d Hd) as [dd [E [_ [_ [_ [_ H1]]]]]]. rewrite E. exact H1. }
    intros r. destruct r; try reflexivity; cbn [site_ok arg_sites].
    - apply forallb_forall. intros a Hin. apply in_flat_map in Hin as [d [Hd Hin]].
      destruct (Ha d Hd) as [dd [E [_ [H1 _]]]]. rewrite E in Hin. destruct Hin as [<-|[]]. exact H1.
    - apply forallb_forall. intros a Hin. apply in_flat_map in Hin as [d [Hd Hin]].
      destruct (Ha d Hd) as [dd [E [_ [_ [H1 _]]]]]. rewrite E in Hin. destruct Hin as [<-|[]]. exact H1.
    - apply forallb_forall. intros a Hin. apply in_flat_map in Hin as [d [Hd Hin]].
      destruct (Ha d Hd) as [dd [E [_ [_ [_ [H1 _]]]]]]. rewrite E in Hin. destruct Hin as [<-|[]]. exact H1.
    - apply forallb_forall. intros d Hd. destruct (Ha d Hd) as [dd [E _]]. rewrite E. reflexivity.
    - apply forallb_forall. intros d Hd. destruct (Ha d Hd) as [dd [E [H1 _]]]. rewrite E. exact H1.
    - exact Hb.
  Qed.
End DirsQ.

(** * The nine-way match never reports an UnknownVariable *)
Lemma some_member_no_uv S members i : forallb nuv (fst (some_member_implements S members i)) = true.
Proof.
  induction members as [|m r IH]; [reflexivity|]. cbn [some_member_implements].
  destruct (match get_type S (iname m) with Some t => object_impls t | None => None end); [|reflexivity].
  destruct (implements l i); [reflexivity | exact IH].
Qed.

Lemma spread_match_no_uv S pos root cond : forallb nuv (fst (spread_match S pos root cond)) = true.
Proof.
  destruct root, cond; cbn [spread_match fst]; try reflexivity;
    try (match goal with |- context [if ?c then _ else _] => destruct c; reflexivity end).
  - rewrite forallb_app, some_member_no_uv. destruct (snd (some_member_implements S members (iname name))); reflexivity.
  - rewrite forallb_app, some_member_no_uv. destruct (snd (some_member_implements S members (iname name0))); reflexivity.
Qed.

Lemma spread_match_quiet S pos root cond : quiet (fst (spread_match S pos root cond)) -> fst (spread_match S pos root cond) = [].
Proof. apply quiet_no_uv, spread_match_no_uv. Qed.

(** * The walk *)
Section WalkQ.
  Variable S : tsdoc.
  Variable D : opdoc.
  Variable vars : option vardefs.
  Hypothesis Hwf : schema_wf S = true.
  Hypothesis Hfrag_unique : nodup_str (map (fun f => iname (fr_name f)) (doc_fragdefs D)) = true.
  Hypothesis Hfrag_targets : forall f, In f (doc_fragdefs D) -> exists t, get_type S (iname (fr_cond f)) = Some t.

  Notation good := (site_rules_good S D).
  Notation fm := (doc_frags D).

  Lemma css_composite_q f seen root ss :
    quiet (check_selection_set f S fm vars seen root ss) -> is_composite root = true.
  Proof.
    destruct f; cbn [check_selection_set]; [intros H; loud H|]. unfold check_selection_set_body.
    destruct (direct_fields root) as [fields|] eqn:E; [|intros H; loud H].
    intros _. apply direct_fields_composite. eauto.
  Qed.

  Lemma field_site_quiet root fields name args tf tft (sel : option selset) :
    In (TSType root) S -> direct_fields root = Some fields ->
    find (fun f => str_eqb (iname (fd_name f)) (iname name)) fields = Some tf ->
    quiet (check_arguments S vars (ipos name) (iname name) str_field args (fd_argdefs tf)) ->
    get_type S (iname (ty_unwrapped (fd_type tf))) = Some tft ->
    is_composite tft = (match sel with Some _ => true | None => false end) ->
    good (StField (Some root) name args sel).
  Proof.
    intros Hin Hdf Hfind Hargs Ht Hleaf.
    assert (Hcomp : is_composite root = true) by (apply direct_fields_composite; eauto).
    pose proof (direct_fields_sp root fields (iname name) Hdf) as Hsp. rewrite Hfind in Hsp.
    destruct (wf_field_args_both S root fields tf Hwf Hin Hdf (proj1 (find_some _ _ Hfind))) as [Hnd Hty].
    destruct (check_arguments_quiet S vars Hwf _ _ _ _ _ Hnd Hargs) as [A1 [A2 [A3 A4]]].
    split; [|split; [intros n; discriminate|]].
    2:{ cbn [site_var_uses]. rewrite <- Hsp. exact A4. }
    intros r. destruct r; try reflexivity; cbn [site_ok arg_sites]; rewrite <- ?Hsp.
    - rewrite Hcomp. reflexivity.
    - rewrite Hcomp. rewrite <- get_type_sp, Ht. rewrite Hleaf. destruct sel; reflexivity.
    - cbn [forallb]. rewrite andb_true_r. exact A1.
    - cbn [forallb]. rewrite andb_true_r. exact A2.
    - cbn [forallb]. rewrite andb_true_r. exact A3.
  Qed.

  Lemma walk_quiet : forall f seen root ss,
    In (TSType root) S ->
    quiet (check_selection_set f S fm vars seen root ss) ->
    forall fv, Forall good (flat_map (vsites_sel S (vis_enter fv S D seen) (Some root)) (selset_sels ss)).
  Proof.
    induction f as [|f IH]; intros seen root ss Hroot H fv; [loud H|].
    cbn [check_selection_set] in H. unfold check_selection_set_body in H.
    destruct (direct_fields root) as [fields|] eqn:Edf; [|loud H].
    assert (Hcomp : is_composite root = true) by (apply direct_fields_composite; eauto).
    apply Forall_flat_map. intros sel Hsel.
    pose proof (quiet_flat_map _ _ H sel Hsel) as Hc. clear H Hsel.
    destruct sel as [alias name args dirs sub|p name dirs|p tc dirs sub].
    - (* field *)
      cbn [check_selection] in Hc. unfold check_selection_field in Hc.
      destruct (find (fun f0 => str_eqb (iname (fd_name f0)) (iname name)) fields) as [tf|] eqn:Ef; [|loud Hc].
      apply quiet_app in Hc as [Hd Hc]. apply quiet_app in Hc as [Ha Hc].
      destruct (get_type S (iname (ty_unwrapped (fd_type tf)))) as [tft|] eqn:Et; [|loud Hc].
      pose proof (direct_fields_sp root fields (iname name) Edf) as Hsp. rewrite Ef in Hsp.
      cbn [vsites_sel]. constructor; [|constructor].
      + apply (field_site_quiet root fields name args tf tft sub Hroot Edf Ef Ha Et).
        destruct sub as [ss'|].
        * apply (css_composite_q _ _ _ _ Hc).
        * destruct (direct_fields tft) eqn:E; [loud Hc|]. apply direct_fields_none, E.
      + apply (dirs_quiet S D vars Hwf). exact Hd.
      + destruct sub as [[q l]|]; [|constructor].
        assert (Hchild : child_type S (Some root) (iname name) = Some tft).
        { unfold child_type. rewrite <- Hsp, <- get_type_sp. exact Et. }
        rewrite Hchild. apply (IH seen tft (SelSet q l) (get_type_In _ _ _ Et) Hc fv).
    - (* fragment spread *)
      cbn [check_selection] in Hc. unfold check_fragment_spread in Hc.
      apply quiet_app in Hc as [Hd Hc].
      destruct (mem_str (iname name) seen) eqn:Es; [loud Hc|].
      destruct (frag_get fm (iname name)) as [target|] eqn:Efg; [|loud Hc].
      apply quiet_app in Hc as [Htd Hc].
      rewrite (frag_get_sp D Hfrag_unique) in Efg.
      assert (Htin : In target (doc_fragdefs D)) by (apply (find_some _ _ Efg)).
      destruct (Hfrag_targets target Htin) as [cond Econd]. rewrite Econd in Hc.
      unfold check_fragment_spread_core in Hc. apply quiet_app in Hc as [Hm Hcont].
      apply spread_match_quiet in Hm.
      destruct (spread_match_sound S p root cond Hroot (get_type_In _ _ _ Econd) Hcomp Hm) as [Happ Hsnd].
      rewrite Hsnd in Hcont.
      cbn [vsites_sel]. constructor; [|constructor].
      + split; [|split; [intros n; discriminate | reflexivity]].
        intros r. destruct r; try reflexivity; cbn [site_ok]; rewrite Efg; [reflexivity|].
        rewrite <- get_type_sp, Econd. exact Happ.
      + apply (dirs_quiet S D vars Hwf). exact Hd.
      + destruct fv as [|k]; [constructor|]. cbn [vis_enter].
        rewrite <- mem_str_mem, Es, Efg. constructor.
        * apply (dirs_quiet S D vars Hwf). exact Htd.
        * rewrite <- get_type_sp, Econd.
          apply (IH _ cond (fr_sel target) (get_type_In _ _ _ Econd) Hcont k).
    - (* inline fragment *)
      cbn [check_selection] in Hc. unfold check_inline_fragment in Hc.
      apply quiet_app in Hc as [Hd Hc]. destruct sub as [q l].
      destruct tc as [c|]; cbn [vsites_sel].
      + destruct (get_type S (iname c)) as [cond|] eqn:Econd; [|loud Hc].
        unfold check_fragment_spread_core in Hc. apply quiet_app in Hc as [Hm Hcont].
        apply spread_match_quiet in Hm.
        destruct (spread_match_sound S p root cond Hroot (get_type_In _ _ _ Econd) Hcomp Hm) as [Happ Hsnd].
        rewrite Hsnd in Hcont. rewrite <- get_type_sp, Econd.
        constructor; [|constructor].
        * split; [|split; [intros n; discriminate | reflexivity]].
          intros r. destruct r; try reflexivity; cbn [site_ok]; rewrite <- get_type_sp, Econd; [|exact Happ].
          apply (css_composite_q _ _ _ _ Hcont).
        * apply (dirs_quiet S D vars Hwf). exact Hd.
        * apply (IH seen cond (SelSet q l) (get_type_In _ _ _ Econd) Hcont fv).
      + constructor.
        * apply (dirs_quiet S D vars Hwf). exact Hd.
        * apply (IH seen root (SelSet q l) Hroot Hc fv).
  Qed.
End WalkQ.
