(** C01/C02 — correspondence ([agree]) and the properties read on the implementation's outputs
    ([holds1] = C01, [holds2] = C02).

    A case carries the resolved schema document the pipeline built (parse + generate_builtins() +
    resolve_schema_extensions), the operation document the real parser produced (after
    resolve_operation_extensions) and what the real printer code returned:
      [CDoc]  the writer operations of print_types_for_operation_document (default options), recorded
              by the recording SourceMapWriter, coalesced;
      [CDef]  for the [idx]-th definition: the SelectionTree returned by the hook
              get_type_for_selection_set, the TSType returned by generate_selection_tree_type, and the
              harness's own evaluation of the two guards (checked here against the Coq definitions,
              because the check's classification of a failing case reads them from the case description).
    A panic of the implementation is [None] (unknown message) or [Some (Err e)]. *)
From V Require Import Base.Util Gql.Ast Writer.Wop Ts.TsType Ts.TsDen C01.Model C01.Spec C01.Guards.
From V Require C10.Parse.

Inductive case :=
| CDoc (S : tsdoc) (D : opdoc) (ops : option (res (list wop)))
| CDef (S : tsdoc) (D : opdoc) (idx : nat) (tree : option (res stree)) (t : option tstype)
       (safe alias_free plain mfree mfree_ld : bool)   (* the harness's evaluation of the five guards *)
       (decls : option (list (str * str * tstype)))
       (* the [__OperationOutput] namespace READ FROM THE IMPLEMENTATION'S schema declaration text
          (SchemaTypePrinter on the same schema; read once per schema by [out_decls], C10's reader);
          [None]: no declaration was emitted or it is not readable *)
| CTie (S : tsdoc) (D : opdoc) (idx : nat) (tree : option (res stree)) (t : option tstype)
       (safe alias_free plain mfree mfree_ld : bool)
   (* like [CDef], for a definition whose estimated evaluation cost (2^#boolean variables x size of the
      emitted type) is over the harness's budget: the correspondence is still checked, the property
      predicates are not evaluated (counted in the evidence) *)
| CInvalid (S : tsdoc) (D : opdoc) (idx : nat) (tree : option (res stree))
   (* a definition of a spec-INVALID document that check nevertheless accepts (Field Selection Merging is
      not implemented by the checker: same response key for a leaf and an object field, or for fields of
      different list/non-null shape).  Such documents are outside the quantifier of C01/C02; the tie still
      compares the outcome (the real code panics in deep_merge.rs, the model returns EMergeFields /
      EMergeTrees); the property predicates are vacuously true. *)
| CRelaxed (S : tsdoc) (D : opdoc) (idx : nat) (t : option tstype) (decls : option (list (str * str * tstype))).
   (* twin of a [CDef] whose definition contains an aliased __typename: C02 is evaluated with that one
      known deviation read into Ref_local, so any OTHER looseness still fails *)

Fixpoint stree_eqb (a b : stree) {struct a} : bool :=
  match a, b with
  | STNonNull x, STNonNull y | STList x, STList y => stree_eqb x y
  | STObject x, STObject y =>
      (fix go (x y : list sbranch) {struct x} : bool :=
         match x, y with
         | [], [] => true
         | p :: x', q :: y' => sbranch_eqb p q && go x' y'
         | _, _ => false
         end) x y
  | _, _ => false
  end
with sbranch_eqb (a b : sbranch) {struct a} : bool :=
  match a, b with
  | mkBranch n u al, mkBranch n' u' al' =>
      let fs := fix go (x y : list sfield) {struct x} : bool :=
        match x, y with
        | [], [] => true
        | p :: x', q :: y' => sfield_eqb p q && go x' y'
        | _, _ => false
        end in
      str_eqb n n' && fs u u' && fs al al'
  end
with sfield_eqb (a b : sfield) {struct a} : bool :=
  match a, b with
  | SFEmpty n, SFEmpty n' => str_eqb n n'
  | SFLeaf n t, SFLeaf n' t' => str_eqb n n' && gty_eqb t t'
  | SFObject n t, SFObject n' t' => str_eqb n n' && stree_eqb t t'
  | _, _ => false
  end.

Definition res_eqb {A} (eqb : A -> A -> bool) (a b : res A) : bool :=
  match a, b with
  | Ok x, Ok y => eqb x y
  | Err e, Err e' => perr_eqb e e'
  | _, _ => false
  end.

Definition res_opt {A} (r : res A) : option A := match r with Ok a => Some a | Err _ => None end.

(** generous fuel for the spec-side functions on one document *)
Definition sp_fuel (D : opdoc) : nat := doc_fuel D.
Definition HT_FUEL : nat := 200.
Definition CAND_CAP : nat := 400.

Definition guard_safe (S : tsdoc) (D : opdoc) (d : execdef) : bool :=
  match def_target S d with
  | Some (T, sels) => merge_safe S (sp_frags D) (sp_fuel D) (sp_fuel D) T sels
  | None => true
  end.

(** no aliased [__typename] reachable from the definition (through fragments) *)
Fixpoint alias_free (fuel : nat) (F : list fragdef) (sels : list selection) {struct fuel} : bool :=
  match fuel with
  | O => false
  | Datatypes.S f =>
      forallb (fun x =>
        match x with
        | SField alias name _ _ sub =>
            negb (match alias with Some _ => str_eqb (iname name) SP_TYPENAME | None => false end)
            && match sub with Some ss => alias_free f F (selset_sels ss) | None => true end
        | SSpread _ n _ =>
            match sp_frag F (iname n) with
            | Some fd => alias_free f F (selset_sels (fr_sel fd))
            | None => true
            end
        | SInline _ _ _ ss => alias_free f F (selset_sels ss)
        end) sels
  end.
Definition guard_alias_free (S : tsdoc) (D : opdoc) (d : execdef) : bool :=
  match def_target S d with
  | Some (_, sels) => alias_free (sp_fuel D) (sp_frags D) sels
  | None => true
  end.

(** ** the schema declaration file the operation types are read together with: the implementation's *)
Definition out_decls (S : tsdoc) (text : str) : option (list (str * str * tstype)) :=
  match C10.Parse.parse_schema_text (C10.Parse.raw_local S) text with
  | Some nss => option_map snd (find (fun nm => str_eqb (fst nm) OUT) nss)
  | None => None
  end.
(** [Schema.__OperationOutput.N] = the declaration exported as [N]; inside the namespace, declarations
    refer to each other by their local names *)
Definition text_env (decls : list (str * str * tstype)) : tsenv :=
  mkEnv (fun l => option_map snd (find (fun d => str_eqb (snd (fst d)) l) decls))
        (fun _ _ => None)
        (fun a b c => if str_eqb a NS && str_eqb b OUT
                      then option_map snd (find (fun d => str_eqb (fst (fst d)) c) decls)
                      else None).

Definition agree_def (Sc : tsdoc) (D : opdoc) (idx : nat) (tree : option (res stree)) (t : option tstype)
           (safe al pl mf ml : bool) : bool :=
  match nth_error (od_defs D) idx with
  | None => false
  | Some d =>
      match tree with
      | Some r => res_eqb stree_eqb (def_tree Sc D d) r
      | None => false
      end
      && option_eqb tstype_eqb (res_opt (emit_type default_options Sc D d)) t
      && Bool.eqb (guard_safe Sc D d) safe
      && Bool.eqb (guard_alias_free Sc D d) al
      && Bool.eqb (guard_plain Sc d) pl
      && Bool.eqb (guard_merge_free Sc D d) mf
      && Bool.eqb (guard_merge_free_ld Sc D d) ml
  end.

Definition agree (c : case) : bool :=
  match c with
  | CDoc Sc D ops =>
      match ops with
      | Some r => res_eqb wops_eqb (print_document default_options Sc D) r
      | None => false
      end
  | CDef Sc D idx tree t safe al pl mf ml _ => agree_def Sc D idx tree t safe al pl mf ml
  | CTie Sc D idx tree t safe al pl mf ml => agree_def Sc D idx tree t safe al pl mf ml
  | CRelaxed _ _ _ _ _ => true
  | CInvalid Sc D idx tree =>
      match nth_error (od_defs D) idx, tree with
      | Some d, Some r => res_eqb stree_eqb (def_tree Sc D d) r
      | _, _ => false
      end
  end.

(** ** C01 on the implementation's type: every enumerated spec response is admitted *)

(** the boolean variables that can influence a definition: those of its selection set, deep, through
    fragments (assignments of other variables of the document would only repeat the same responses) *)
Fixpoint reach_vars (fuel : nat) (F : list fragdef) (sels : list selection) {struct fuel} : list str :=
  match fuel with
  | O => []
  | Datatypes.S f =>
      flat_map (fun x =>
        match x with
        | SField _ _ _ ds sub => dir_vars ds ++ match sub with Some ss => reach_vars f F (selset_sels ss) | None => [] end
        | SSpread _ n ds => dir_vars ds ++ match sp_frag F (iname n) with
                                           | Some fd => reach_vars f F (selset_sels (fr_sel fd))
                                           | None => []
                                           end
        | SInline _ _ ds ss => dir_vars ds ++ reach_vars f F (selset_sels ss)
        end) sels
  end.
Definition sigmas (D : opdoc) (sels : list selection) : list asg :=
  all_asg (firstn 6 (dedup (reach_vars (sp_fuel D) (sp_frags D) sels))).

Definition c01_on (E : tsenv) (S : tsdoc) (D : opdoc) (d : execdef) (t : tstype) : bool :=
  match def_target S d with
  | None => true
  | Some (T, sels) =>
      let F := sp_frags D in
      let fuel := sp_fuel D in
      let cands := sample CAND_CAP (flat_map (fun sg => map (fun v => (sg, v)) (exec_enum S F fuel sg fuel T sels)) (sigmas D sels)) in
      let real := filter (fun p => exec_b S F fuel (fst p) fuel T sels (snd p)) cands in
      negb (is_nil real) && forallb (fun p => admits E HT_FUEL t (snd p)) real
  end.

(** ** Ref_local with shared work.
    [den] tries every assignment of the local variables at every object of the value; assignments that
    collect the SAME fields (very common: variables that only matter deeper, repeated fields) make a
    failing value be explored again and again (exponentially in the nesting depth).  [den_dd] is [den]
    with the assignments of a selection set replaced by the DISTINCT CollectFields results; two results
    are identified when they have the same (key, field name, positions of the sub-selections) sequence —
    within one parsed document a position identifies a selection, so nothing but repetitions is dropped
    (a trusted assumption of this evaluator only; the theorems are about [den]). *)
Definition sel_pos1 (x : selection) : pos :=
  match x with SField _ n _ _ _ => ipos n | SSpread p _ _ => p | SInline p _ _ _ => p end.
Definition es_sig (es : list centry) : list (str * str * list pos) :=
  map (fun e => (ce_key e, ce_name e, map sel_pos1 (ce_sub e))) es.
Definition sig_eqb (a b : list (str * str * list pos)) : bool :=
  list_eqb (fun x y => str_eqb (fst (fst x)) (fst (fst y)) && str_eqb (snd (fst x)) (snd (fst y))
                       && list_eqb pos_eqb (snd x) (snd y)) a b.
Fixpoint distinct_by_sig (seen : list (list (str * str * list pos))) (l : list (list centry)) : list (list centry) :=
  match l with
  | [] => []
  | es :: r =>
      let sg := es_sig es in
      if existsb (sig_eqb sg) seen then distinct_by_sig seen r else es :: distinct_by_sig (sg :: seen) r
  end.

Section DenDD.
  Variable S : tsdoc.
  Variable F : list fragdef.
  Variable cf : nat.
  Variable relax : bool.

  Definition distinct_es (o : str) (sels : list selection) : list (list centry) :=
    distinct_by_sig [] (map (fun sg => fst (collect S F (included sg) o cf sels [])) (local_choices cf F sels)).

  Fixpoint den_dd (fuel : nat) (T : str) (sels : list selection) (v : val) {struct fuel} : bool :=
    match fuel with
    | O => false
    | Datatypes.S f =>
        match v with
        | VObj kvs =>
            nodup_keys (map fst kvs) &&
            existsb (fun o =>
              existsb (fun es =>
                same_keys (map fst kvs) (keys_of es) &&
                forallb (fun kv =>
                  let fname := name_of es (fst kv) in
                  if relax && str_eqb fname SP_TYPENAME && negb (str_eqb (fst kv) SP_TYPENAME)
                  then match snd kv with VNull | VStr _ => true | _ => false end
                  else
                  match sp_field_type S o fname with
                  | None => false
                  | Some t =>
                      complete (fun n x =>
                        if str_eqb fname SP_TYPENAME then match x with VStr y => str_eqb y o | _ => false end
                        else match sp_kind S n with
                             | LComposite => den_dd f n (sub_of es (fst kv)) x
                             | k => scalar_den k x
                             end) t (snd kv)
                  end) kvs) (distinct_es o sels)) (sp_possible S T)
        | _ => false
        end
    end.
End DenDD.

(** ** C02 on the implementation's type: every enumerated value it admits is in Ref_local *)
Definition c02_with (relaxed : bool) (E : tsenv) (S : tsdoc) (D : opdoc) (d : execdef) (t : tstype) : bool :=
  match def_target S d with
  | None => true
  | Some (T, sels) =>
      let F := sp_frags D in
      let fuel := sp_fuel D in
      let inh := filter (admits E HT_FUEL t) (sample CAND_CAP (inhabitants E HT_FUEL t)) in
      negb (is_nil inh) && forallb (fun v => den_dd S F fuel relaxed fuel T sels v) inh
  end.
Definition c02_on := c02_with false.

Definition holds_with (p : tsenv -> tsdoc -> opdoc -> execdef -> tstype -> bool) (c : case) : bool :=
  match c with
  | CDoc _ _ _ => true
  | CRelaxed _ _ _ _ _ => true
  | CInvalid _ _ _ _ => true
  | CTie _ _ _ _ _ _ _ _ _ _ => true
  | CDef Sc D idx _ t _ _ _ _ _ decls =>
      match nth_error (od_defs D) idx, t, decls with
      | Some d, Some t, Some ds => p (text_env ds) Sc D d t
      | _, _, _ => false    (* no type for a definition of a valid document, or no readable schema declaration *)
      end
  end.

Definition holds1 : case -> bool := holds_with c01_on.
Definition holds2 (c : case) : bool :=
  match c with
  | CRelaxed Sc D idx t decls =>
      match nth_error (od_defs D) idx, t, decls with
      | Some d, Some t, Some ds => c02_with true (text_env ds) Sc D d t
      | _, _, _ => false
      end
  | _ => holds_with c02_on c
  end.
Definition holds := holds1.
