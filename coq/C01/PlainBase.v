(** C01/C02 — lemmas relating pieces of the model (Model.v) to pieces of the specification (Spec.v):
    @skip/@include evaluation, variable sets, assignments, deep merge without repeated keys, the
    List/NonNull wrappers, fuel monotonicity of the specification's denotation. *)
From V Require Import Base.Util Gql.Ast Writer.Wop Ts.TsType Ts.TsDen
     C01.Model C01.Spec C01.TsLemmas C01.TreeDen C01.Proofs C01.EnvDen.

(** * assignments *)

Lemma assignments_all_asg vs : assignments vs = all_asg vs.
Proof. induction vs as [|v r IH]; cbn [assignments all_asg]; [reflexivity | rewrite IH; reflexivity]. Qed.

Lemma mem_In x l : mem x l = true <-> In x l.
Proof. apply smem_In. Qed.

Lemma unique_from_In x seen l : In x (unique_from seen l) <-> In x l /\ ~ In x seen.
Proof.
  revert seen. induction l as [|y r IH]; intros seen; cbn [unique_from In]; [tauto|].
  destruct (mem y seen) eqn:Hm.
  - rewrite IH. apply mem_In in Hm. split; [tauto|]. intros [[->|H] Hn]; tauto.
  - assert (Hn : ~ In y seen) by (intros H; apply mem_In in H; congruence).
    cbn [In]. rewrite IH. cbn [In]. split.
    + intros [->|[H1 H2]]; [tauto|]. split; [tauto|]. intros H; apply H2; right; exact H.
    + intros [[->|H] H2]; [tauto|]. destruct (str_eqb_spec y x) as [->|Hne]; [tauto|].
      right. split; [exact H|]. intros [He|Hs]; [congruence | tauto].
Qed.

Lemma unique_In x l : In x (unique l) <-> In x l.
Proof. unfold unique. rewrite unique_from_In. cbn [In]. tauto. Qed.

(** * @skip / @include *)

Lemma var_value_lookup b v bv : var_value b v = Some bv -> lookup_var (b_vars b) v = bv.
Proof.
  unfold var_value, lookup_var. induction (b_vars b) as [|[k x] r IH]; cbn [find assoc fst snd]; [discriminate|].
  rewrite (str_eqb_sym v k). destruct (str_eqb k v); [intros H; inversion H; reflexivity | exact IH].
Qed.

Lemma if_arg_find d :
  if_arg d = match find is_if (dargs d) with Some p => Some (snd p) | None => None end.
Proof. reflexivity. Qed.

Lemma check_skip_included b : forall ds r,
  check_skip_directive b ds = Ok r -> r = negb (included (b_vars b) ds).
Proof.
  induction ds as [|d ds IH]; intros r H; cbn [check_skip_directive] in H.
  - inversion H. reflexivity.
  - unfold included. cbn [forallb]. fold (included (b_vars b) ds).
    change (str_eqb (dname d) (s "skip")) with (is_skip d).
    change (str_eqb (dname d) (s "include")) with (is_include d).
    unfold if_value. rewrite if_arg_find.
    destruct (is_skip d).
    + destruct (find is_if (dargs d)) as [[i v]|]; [|cbn [andb]; apply IH; exact H]. cbn [snd].
      destruct v as [x p| | | |p bb| | | |]; try (cbn [andb]; apply IH; exact H).
      * destruct (var_value b x) as [[]|] eqn:Hv; [| |discriminate].
        -- rewrite (var_value_lookup _ _ _ Hv). inversion H. reflexivity.
        -- rewrite (var_value_lookup _ _ _ Hv). cbn [andb]. apply IH. exact H.
      * destruct bb; [inversion H; reflexivity | cbn [andb]; apply IH; exact H].
    + destruct (is_include d).
      * destruct (find is_if (dargs d)) as [[i v]|]; [|cbn [andb]; apply IH; exact H]. cbn [snd].
        destruct v as [x p| | | |p bb| | | |]; try (cbn [andb]; apply IH; exact H).
        -- destruct (var_value b x) as [[]|] eqn:Hv; [| |discriminate].
           ++ rewrite (var_value_lookup _ _ _ Hv). cbn [andb]. apply IH. exact H.
           ++ rewrite (var_value_lookup _ _ _ Hv). inversion H. reflexivity.
        -- destruct bb; [cbn [andb]; apply IH; exact H | inversion H; reflexivity].
      * cbn [andb]. apply IH. exact H.
Qed.

Lemma if_arg_variable d x p : if_arg d = Some (Ast.VVar x p) -> if_variable d = Some x.
Proof.
  rewrite if_arg_find. unfold if_variable.
  induction (dargs d) as [|a l IH]; cbn [find]; [discriminate|].
  destruct (is_if a) eqn:Ha; cbn [andb].
  - intros H. inversion H as [H1]. destruct a as [i v]. cbn [snd] in *. subst v. reflexivity.
  - exact IH.
Qed.

Lemma dir_vars_subset ds x : In x (dir_vars ds) -> In x (dirs_variables ds).
Proof.
  unfold dir_vars, dirs_variables. rewrite !in_flat_map. intros [d [Hd Hx]]. exists d. split; [exact Hd|].
  change (str_eqb (dname d) (s "skip")) with (is_skip d) in Hx.
  change (str_eqb (dname d) (s "include")) with (is_include d) in Hx.
  destruct (is_skip d || is_include d); [|exact Hx].
  destruct (if_arg d) as [[y p| | | | | | | |]|] eqn:Ha; try destruct Hx.
  - subst y. rewrite (if_arg_variable _ _ _ Ha). left. reflexivity.
  - destruct H.
Qed.

(** * deep merge of fields with pairwise distinct names is the identity *)

Lemma nodup_keys_NoDup l : nodup_keys l = true <-> NoDup l.
Proof.
  induction l as [|k r IH]; cbn [nodup_keys]; [split; [constructor | reflexivity]|].
  rewrite andb_true_iff, negb_true_iff, IH. split.
  - intros [Hn Hr]. constructor; [|exact Hr]. intros Hin. apply smem_In in Hin. unfold smem in Hin. congruence.
  - intros H. inversion H as [|? ? Hn Hr]; subst. split; [|exact Hr].
    destruct (existsb (str_eqb k) r) eqn:He; [|reflexivity]. exfalso. apply Hn. apply smem_In. exact He.
Qed.

Lemma merge_into_fresh mt acc f :
  ~ In (sf_name f) (map sf_name acc) -> merge_into mt acc f = Ok (acc ++ [f]).
Proof.
  induction acc as [|g r IH]; cbn [merge_into map In app]; [reflexivity|].
  intros Hn. destruct (str_eqb_spec (sf_name g) (sf_name f)) as [He|_]; [exfalso; apply Hn; left; exact He|].
  rewrite IH by (intros H; apply Hn; right; exact H). reflexivity.
Qed.

Lemma deep_merge_from mt : forall fs acc,
  NoDup (map sf_name (acc ++ fs)) ->
  fold_left (fun a f => let* a' := a in merge_into mt a' f) fs (Ok acc) = Ok (acc ++ fs).
Proof.
  induction fs as [|f r IH]; intros acc Hnd; cbn [fold_left]; [rewrite app_nil_r; reflexivity|].
  cbn [bind]. rewrite merge_into_fresh.
  - rewrite IH; [rewrite <- app_assoc; reflexivity|]. rewrite <- app_assoc. exact Hnd.
  - rewrite map_app in Hnd. cbn [map] in Hnd. apply NoDup_remove_2 in Hnd.
    intros H. apply Hnd. apply in_or_app. left. exact H.
Qed.

Lemma deep_merge_nodup mt fs : NoDup (map sf_name fs) -> deep_merge mt fs = Ok fs.
Proof. intros H. unfold deep_merge. apply (deep_merge_from mt fs []). exact H. Qed.

(** * wrappers: type_to_selection_tree and CompleteValue *)

Fixpoint wrap_tree (g : gty) (core : stree) : stree :=
  match g with
  | GNamed _ => core
  | GList g' => STList (wrap_tree g' core)
  | GNonNull g' => STNonNull (wrap_tree g' core)
  end.

Lemma type_to_selection_tree_wrap g mapper tree :
  type_to_selection_tree g mapper = Ok tree ->
  exists bs, mapper (gty_named g) = Ok bs /\ tree = wrap_tree g (STObject bs).
Proof.
  revert tree. induction g as [n | g' IH | g' IH]; intros tree H; cbn [type_to_selection_tree gty_named wrap_tree] in *.
  - destruct (mapper n) as [bs|e]; [|discriminate]. inversion H. exists bs. split; reflexivity.
  - destruct (type_to_selection_tree g' mapper) as [x|e]; [|discriminate]. inversion H.
    destruct (IH x eq_refl) as [bs [Hm ->]]. exists bs. split; [exact Hm | reflexivity].
  - destruct (type_to_selection_tree g' mapper) as [x|e]; [|discriminate]. inversion H.
    destruct (IH x eq_refl) as [bs [Hm ->]]. exists bs. split; [exact Hm | reflexivity].
Qed.

Lemma gty_named_of t : gty_named (gty_of t) = iname (ty_unwrapped t).
Proof. induction t; cbn; auto. Qed.

Section Wrap.
  Variable named : str -> val -> bool.
  Variable obj_keys : str -> option (list str).
  Variable core : stree.
  Let obj (x : val) : bool := tree_den named obj_keys core true x.
  Hypothesis Hcore : forall nn x, tree_den named obj_keys core nn x = (negb nn && vis_null x) || obj x.
  Hypothesis Hnull : obj VNull = false.

  Lemma complete_nn_null (leaf : str -> val -> bool) t : (forall n, leaf n VNull = false) -> complete_nn leaf t VNull = false.
  Proof. intros H. induction t; cbn [complete_nn]; auto. Qed.

  Lemma wrap_den : forall t v,
    tree_den named obj_keys (wrap_tree (gty_of t) core) true v = complete_nn (fun _ x => obj x) t v /\
    tree_den named obj_keys (wrap_tree (gty_of t) core) false v = complete (fun _ x => obj x) t v.
  Proof.
    induction t as [n | t' IH | p t' IH]; intros v; cbn [gty_of wrap_tree].
    - rewrite !Hcore. cbn [negb andb orb complete complete_nn]. split; reflexivity.
    - cbn [tree_den]. destruct (IH v) as [H1 _]. rewrite H1. split; [reflexivity|].
      unfold complete. destruct v; cbn [is_null negb andb]; try reflexivity.
      apply complete_nn_null. intros _. exact Hnull.
    - cbn [tree_den].
      assert (Hl : match v with VList l => forallb (tree_den named obj_keys (wrap_tree (gty_of t') core) false) l | _ => false end
                   = complete_nn (fun _ x => obj x) (TList p t') v).
      { cbn [complete_nn]. destruct v as [| | | | | |l|]; try reflexivity.
        apply forallb_ext'. intros x. destruct (IH x) as [_ H2]. rewrite H2. unfold complete.
        destruct t'; reflexivity. }
      rewrite Hl. cbn [negb andb orb]. split; [reflexivity|].
      unfold complete. destruct v; reflexivity.
  Qed.
End Wrap.

(** CompleteValue consults the leaf test only at the named type *)
Lemma complete_nn_named (l : str -> val -> bool) t v :
  complete_nn l t v = complete_nn (fun _ x => l (iname (ty_unwrapped t)) x) t v.
Proof.
  revert v. induction t as [n | t' IH | p t' IH]; intros v; cbn [complete_nn ty_unwrapped]; [reflexivity | apply IH |].
  destruct v; try reflexivity. apply forallb_ext'. intros x.
  pose proof (IH x) as Hx.
  destruct t' as [n | t'' | p' t'']; cbn [ty_unwrapped complete_nn] in *.
  - reflexivity.
  - rewrite Hx. reflexivity.
  - rewrite Hx. reflexivity.
Qed.

Lemma complete_named (l : str -> val -> bool) t v :
  complete l t v = complete (fun _ x => l (iname (ty_unwrapped t)) x) t v.
Proof.
  unfold complete. destruct t as [n | t' | p t']; cbn [ty_unwrapped].
  - reflexivity.
  - f_equal. rewrite complete_nn_named. reflexivity.
  - f_equal. rewrite complete_nn_named. reflexivity.
Qed.

(** gden of the model = CompleteValue of the specification on leaf types *)
Lemma gden_complete (named : str -> val -> bool) :
  (forall n, named n VNull = false) ->
  forall t v,
    fst (gden_impl named (gty_of t)) v = complete_nn named t v /\
    gden named (gty_of t) v = complete named t v.
Proof.
  intros Hn. induction t as [n | t' IH | p t' IH]; intros v; cbn [gty_of].
  - unfold gden. cbn [gden_impl complete complete_nn andb]. split; reflexivity.
  - unfold gden. cbn [gden_impl fst andb orb]. destruct (IH v) as [H1 _]. rewrite H1. split; [reflexivity|].
    unfold complete. destruct v; cbn [is_null negb andb]; try reflexivity.
    apply complete_nn_null. exact Hn.
  - unfold gden. cbn [gden_impl].
    destruct (gden_impl named (gty_of t')) as [d nl] eqn:Hd. cbn [fst andb orb].
    assert (Hl : match v with VList l => forallb (fun x => (nl && vis_null x) || d x) l | _ => false end
                 = complete_nn named (TList p t') v).
    { cbn [complete_nn]. destruct v as [| | | | | |l|]; try reflexivity.
      apply forallb_ext'. intros x. destruct (IH x) as [H1 H2]. unfold gden in H2. rewrite Hd in H2.
      rewrite H2. unfold complete. destruct t'; reflexivity. }
    rewrite Hl. split; [reflexivity|]. unfold complete. destruct v; reflexivity.
Qed.

(** * values without [undefined] (JSON) *)
Fixpoint json (v : val) : bool :=
  match v with
  | VUndef => false
  | VList l => (fix go (l : list val) : bool := match l with [] => true | x :: r => json x && go r end) l
  | VObj kvs => (fix go (l : list (str * val)) : bool := match l with [] => true | (_, x) :: r => json x && go r end) kvs
  | _ => true
  end.

Lemma json_list l : json (VList l) = true -> forall x, In x l -> json x = true.
Proof.
  cbn [json]. induction l as [|y r IH]; intros H x Hx; [destruct Hx|].
  apply andb_true_iff in H. destruct H as [H1 H2]. destruct Hx as [<-|Hx]; [exact H1 | apply IH; assumption].
Qed.

Lemma json_obj kvs : json (VObj kvs) = true -> forall k x, assoc k kvs = Some x -> json x = true.
Proof.
  cbn [json]. induction kvs as [|[k' y] r IH]; intros H k x Hx; cbn [assoc] in Hx; [discriminate|].
  apply andb_true_iff in H. destruct H as [H1 H2].
  destruct (str_eqb k k'); [inversion Hx; subst; exact H1 | eapply IH; eauto].
Qed.

Lemma json_obj_in kvs : json (VObj kvs) = true -> forall kv, In kv kvs -> json (snd kv) = true.
Proof.
  cbn [json]. induction kvs as [|[k' y] r IH]; intros H kv Hx; [destruct Hx|].
  apply andb_true_iff in H. destruct H as [H1 H2].
  destruct Hx as [<-|Hx]; [exact H1 | apply IH; assumption].
Qed.

(** * more fuel never removes a value from the specification's denotation *)
Lemma den_fuel_mono S F cf choose relax : forall fuel T sels v,
  den S F cf choose relax fuel T sels v = true -> den S F cf choose relax (Datatypes.S fuel) T sels v = true.
Proof.
  induction fuel as [|f IH]; intros T sels v H; [discriminate|].
  cbn [den] in H. change (den S F cf choose relax (Datatypes.S (Datatypes.S f)) T sels v) with
    (match v with
     | VObj kvs =>
         nodup_keys (map fst kvs) &&
         existsb (fun o =>
           existsb (fun sg =>
             let es := fst (collect S F (included sg) o cf sels []) in
             same_keys (map fst kvs) (keys_of es) &&
             forallb (fun kv =>
               let fname := name_of es (fst kv) in
               if relax && str_eqb fname SP_TYPENAME && negb (str_eqb (fst kv) SP_TYPENAME)
               then match snd kv with VNull | VStr _ => true | _ => false end
               else
               match sp_field_type S o fname with
               | None => false
               | Some t =>
                   complete (fun n x =>
                     if str_eqb fname SP_TYPENAME then match x with VStr y => str_eqb y o | _ => false end
                     else match sp_kind S n with
                          | LComposite => den S F cf choose relax (Datatypes.S f) n (sub_of es (fst kv)) x
                          | k => scalar_den k x
                          end) t (snd kv)
               end) kvs) (choose sels)) (sp_possible S T)
     | _ => false
     end).
  destruct v as [| | | | | | |kvs]; try discriminate.
  apply andb_true_iff in H. destruct H as [Hnd H]. apply andb_true_iff. split; [exact Hnd|].
  apply existsb_exists in H. destruct H as [o [Ho H]]. apply existsb_exists. exists o. split; [exact Ho|].
  apply existsb_exists in H. destruct H as [sg [Hs H]]. apply existsb_exists. exists sg. split; [exact Hs|].
  cbv zeta in *. apply andb_true_iff in H. destruct H as [Hk H]. apply andb_true_iff. split; [exact Hk|].
  rewrite forallb_forall in *. intros kv Hkv. specialize (H kv Hkv).
  destruct (relax && str_eqb (name_of (fst (collect S F (included sg) o cf sels [])) (fst kv)) SP_TYPENAME
            && negb (str_eqb (fst kv) SP_TYPENAME)); [exact H|].
  destruct (sp_field_type S o (name_of (fst (collect S F (included sg) o cf sels [])) (fst kv))) as [t|]; [|discriminate].
  revert H. apply complete_mono. intros n x Hx.
  destruct (str_eqb (name_of (fst (collect S F (included sg) o cf sels [])) (fst kv)) SP_TYPENAME); [exact Hx|].
  destruct (sp_kind S n); try exact Hx. apply IH. exact Hx.
Qed.

Lemma den_fuel_le S F cf choose relax f f' T sels v :
  f <= f' -> den S F cf choose relax f T sels v = true -> den S F cf choose relax f' T sels v = true.
Proof. induction 1 as [|f' Hle IH]; intros H; [exact H | apply den_fuel_mono; apply IH; exact H]. Qed.
