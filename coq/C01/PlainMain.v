(** C01/C02 — plain selection sets, part 2: one branch of the model's tree denotes exactly the body
    of the specification's denotation for that (object, assignment). *)
From V Require Import Base.Util Gql.Ast Writer.Wop Ts.TsType Ts.TsDen
     C01.Model C01.Spec C01.Guards C01.TsLemmas C01.TreeDen C01.Proofs C01.EnvDen C01.PlainBase C01.PlainCore.

Lemma Forall2_in_l {A B} (R : A -> B -> Prop) l l' x : Forall2 R l l' -> In x l -> exists y, In y l' /\ R x y.
Proof.
  induction 1 as [|a b' l l' Hr _ IH]; intros Hin; [destruct Hin|].
  destruct Hin as [<-|Hin]; [exists b'; split; [left; reflexivity | exact Hr]|].
  destruct (IH Hin) as [y [Hy Hxy]]. exists y. split; [right; exact Hy | exact Hxy].
Qed.

Lemma Forall2_in_r {A B} (R : A -> B -> Prop) l l' y : Forall2 R l l' -> In y l' -> exists x, In x l /\ R x y.
Proof.
  induction 1 as [|a b' l l' Hr _ IH]; intros Hin; [destruct Hin|].
  destruct Hin as [<-|Hin]; [exists a; split; [left; reflexivity | exact Hr]|].
  destruct (IH Hin) as [x [Hx Hxy]]. exists x. split; [right; exact Hx | exact Hxy].
Qed.

Lemma NoDup_map_inj {A B} (f : A -> B) l x y : NoDup (map f l) -> In x l -> In y l -> f x = f y -> x = y.
Proof.
  induction l as [|a l IH]; intros Hnd Hx Hy He; [destruct Hx|].
  cbn [map] in Hnd. inversion Hnd as [|? ? Hn Hr]; subst.
  destruct Hx as [<-|Hx]; destruct Hy as [<-|Hy]; [reflexivity | | |apply IH; assumption].
  - exfalso. apply Hn. rewrite He. apply in_map. exact Hy.
  - exfalso. apply Hn. rewrite <- He. apply in_map. exact Hx.
Qed.

Section BranchEq.
  Variable S : tsdoc.
  Variable F : list fragdef.
  Variable cf : nat.
  Let named := sp_named S.
  Let okeys := sp_obj_keys S.
  Let choose := local_choices (Datatypes.S cf) F.
  Let DEN (f : nat) := den S F (Datatypes.S cf) choose false f.

  Definition den_body (f : nat) (o : str) (sg : asg) (sels : list selection) (kvs : list (str * val)) : bool :=
    let es := fst (collect S F (included sg) o (Datatypes.S cf) sels []) in
    same_keys (map fst kvs) (keys_of es) &&
    forallb (fun kv =>
      let fname := name_of es (fst kv) in
      match sp_field_type S o fname with
      | None => false
      | Some t =>
          complete (fun n x =>
            if str_eqb fname SP_TYPENAME then match x with VStr y => str_eqb y o | _ => false end
            else match sp_kind S n with
                 | LComposite => DEN f n (sub_of es (fst kv)) x
                 | k => scalar_den k x
                 end) t (snd kv)
      end) kvs.

  Lemma den_S f T sels kvs :
    DEN (Datatypes.S f) T sels (VObj kvs) =
    nodup_keys (map fst kvs) &&
    existsb (fun o => existsb (fun sg => den_body f o sg sels kvs) (choose sels)) (sp_possible S T).
  Proof. reflexivity. Qed.

  Lemma den_body_mono f f' o sg sels kvs : f <= f' -> den_body f o sg sels kvs = true -> den_body f' o sg sels kvs = true.
  Proof.
    intros Hle. unfold den_body. cbv zeta. rewrite !andb_true_iff, !forallb_forall.
    intros [H1 H2]. split; [exact H1|]. intros kv Hkv. specialize (H2 kv Hkv).
    destruct (sp_field_type S o (name_of (fst (collect S F (included sg) o (Datatypes.S cf) sels [])) (fst kv))); [|discriminate].
    revert H2. apply complete_mono. intros n x Hx.
    destruct (str_eqb (name_of (fst (collect S F (included sg) o (Datatypes.S cf) sels [])) (fst kv)) SP_TYPENAME); [exact Hx|].
    destruct (sp_kind S n); try exact Hx. eapply den_fuel_le; eauto.
  Qed.

  (** ** one branch *)
  Variable rec_type : list selection -> gty -> res stree.
  Variable b : branch.
  Let o := o_name (b_obj b).
  Variables (dd : option desc) (dp : pos) (dn : ident) (dimpls : list ident) (ddirs : list directive)
            (dfs : list fielddef) (dkw : keyword).
  Hypothesis Hlookup : sp_lookup S o = Some (TDObject dd dp dn dimpls ddirs dfs dkw).
  Let pf := fields_of dfs ++ [typename_meta].
  Let ks := SP_TYPENAME :: map (fun f => iname (fd_name f)) dfs.

  Variable sels : list selection.
  Hypothesis Hplain : forallb plain_sel sels = true.
  Hypothesis Hnd : NoDup (map sel_key sels).
  Variable fs : list (bool * sfield).
  Hypothesis Hfs : Forall2 (fun x p => fst p = sel_aliased x /\ fld_of rec_type b pf x (snd p)) sels fs.

  Hypothesis Hsub : forall x fd tree', In x sels -> sel_has_sub x = true -> inc b x = true ->
    str_eqb (sel_name x) TYPENAME = false ->
    find (fun f => str_eqb (iname (fd_name f)) (sel_name x)) dfs = Some fd ->
    rec_type (sel_sub x) (gty_of (fd_type fd)) = Ok tree' ->
    sp_kind S (iname (ty_unwrapped (fd_type fd))) = LComposite /\
    forall v, json v = true ->
      (tree_den named okeys tree' false v = true <->
       exists f, complete (fun nm y => DEN f nm (sel_sub x) y) (fd_type fd) v = true).

  Hypothesis Hleaf : forall x fd, In x sels -> sel_has_sub x = false -> inc b x = true ->
    str_eqb (sel_name x) TYPENAME = false ->
    find (fun f => str_eqb (iname (fd_name f)) (sel_name x)) dfs = Some fd ->
    sp_leaf_ok S (iname (ty_unwrapped (fd_type fd))) = true.

  Let es := map entry_of (filter (inc b) sels).

  Lemma es_collect : fst (collect S F (included (b_vars b)) o (Datatypes.S cf) sels []) = es.
  Proof. rewrite collect_plain by exact Hplain. reflexivity. Qed.

  Lemma es_nodup : NoDup (map ce_key es).
  Proof. unfold es. rewrite map_map. cbn [entry_of ce_key]. apply NoDup_map_filter. exact Hnd. Qed.

  Lemma es_keys : keys_of es = map sel_key (filter (inc b) sels).
  Proof. rewrite keys_of_nodup by exact es_nodup. unfold es. rewrite map_map. reflexivity. Qed.

  Lemma es_entry x : In x sels -> inc b x = true ->
    name_of es (sel_key x) = sel_name x /\ sub_of es (sel_key x) = sel_sub x.
  Proof.
    intros Hx Hi.
    assert (Hin : In (entry_of x) es) by (unfold es; apply in_map; apply filter_In; split; assumption).
    pose proof (group_unique es (entry_of x) es_nodup Hin) as Hg. cbn [entry_of ce_key] in Hg.
    unfold name_of, sub_of. rewrite Hg. cbn [flat_map entry_of ce_name ce_sub]. rewrite app_nil_r. split; reflexivity.
  Qed.

  Lemma key_inc k : In k (map sel_key (filter (inc b) sels)) <-> exists x, In x sels /\ inc b x = true /\ sel_key x = k.
  Proof.
    rewrite in_map_iff. split.
    - intros [x [Hk Hx]]. apply filter_In in Hx. destruct Hx as [Hx Hi]. exists x. auto.
    - intros [x [Hx [Hi Hk]]]. exists x. split; [exact Hk | apply filter_In; split; assumption].
  Qed.

  Lemma sel_key_unaliased x : plain_sel x = true -> sel_aliased x = false -> sel_key x = sel_name x.
  Proof. destruct x as [[a|] name args ds sub | |]; try discriminate; reflexivity. Qed.

  Lemma sel_key_not_typename x : plain_sel x = true -> str_eqb (sel_name x) TYPENAME = false ->
    str_eqb (sel_key x) TYPENAME = false.
  Proof.
    destruct x as [[a|] name args ds sub | |]; try discriminate; cbn [plain_sel sel_key sel_name]; intros Hp Hn; [|exact Hn].
    apply andb_true_iff in Hp. destruct Hp as [Hp _]. apply andb_true_iff in Hp. destruct Hp as [Hp _].
    destruct (str_eqb (iname a) TYPENAME); [discriminate | reflexivity].
  Qed.

  Lemma plain_in x : In x sels -> plain_sel x = true.
  Proof. intros Hx. rewrite forallb_forall in Hplain. apply Hplain. exact Hx. Qed.

  (** an included selection yields a visible field *)
  Lemma inc_vis x (p : bool * sfield) : In x sels -> inc b x = true -> fst p = sel_aliased x -> fld_of rec_type b pf x (snd p) ->
    vis ks p = true.
  Proof.
    intros Hx Hi Ha Hf. unfold vis. rewrite Ha. destruct (sel_aliased x) eqn:Hal; [reflexivity|]. cbn [orb].
    apply key_in_In. rewrite (fld_of_name _ _ _ _ _ Hf), (sel_key_unaliased x (plain_in x Hx) Hal).
    inversion Hf as [Hn | Hi' Htn Hal' | i fty Hi' Htn Hfind Hs | i fty t Hi' Htn Hfind Hs Hr]; subst.
    - congruence.
    - left. destruct (str_eqb_spec (sel_name x) TYPENAME) as [->|]; [reflexivity | discriminate].
    - right. destruct (find_fields_of dfs _ _ _ Hfind Htn) as [fd [_ [_ [Hin He]]]]. rewrite <- He. exact Hin.
    - right. destruct (find_fields_of dfs _ _ _ Hfind Htn) as [fd [_ [_ [Hin He]]]]. rewrite <- He. exact Hin.
  Qed.

  Lemma sp_field_type_found x fd :
    str_eqb (sel_name x) TYPENAME = false ->
    find (fun f => str_eqb (iname (fd_name f)) (sel_name x)) dfs = Some fd ->
    sp_field_type S o (sel_name x) = Some (fd_type fd).
  Proof.
    intros Htn Hf. unfold sp_field_type. change SP_TYPENAME with TYPENAME. rewrite Htn, Hlookup, Hf. reflexivity.
  Qed.

  Definition vok (f : nat) (kv : str * val) : bool :=
    let fname := name_of es (fst kv) in
    match sp_field_type S o fname with
    | None => false
    | Some t =>
        complete (fun n x =>
          if str_eqb fname SP_TYPENAME then match x with VStr y => str_eqb y o | _ => false end
          else match sp_kind S n with
               | LComposite => DEN f n (sub_of es (fst kv)) x
               | k => scalar_den k x
               end) t (snd kv)
    end.

  Lemma vok_mono f f' kv : f <= f' -> vok f kv = true -> vok f' kv = true.
  Proof.
    intros Hle. unfold vok. cbv zeta.
    destruct (sp_field_type S o (name_of es (fst kv))); [|discriminate].
    apply complete_mono. intros n x Hx.
    destruct (str_eqb (name_of es (fst kv)) SP_TYPENAME); [exact Hx|].
    destruct (sp_kind S n); try exact Hx. eapply den_fuel_le; eauto.
  Qed.

  (** the value of an included selection: model field vs specification *)
  Lemma field_value x (p : bool * sfield) kvs v :
    In x sels -> inc b x = true -> fld_of rec_type b pf x (snd p) ->
    assoc (sel_key x) kvs = Some v -> json v = true ->
    (field_den named okeys o (snd p) kvs = true <-> exists f, vok f (sel_key x, v) = true).
  Proof.
    intros Hx Hi Hf Ha Hj.
    destruct (es_entry x Hx Hi) as [Hname Hsubs].
    unfold vok. cbv zeta. cbn [fst snd]. rewrite Hname, Hsubs.
    inversion Hf as [Hn | Hi' Htn Hal | i fty Hi' Htn Hfind Hs | i fty t Hi' Htn Hfind Hs Hr]; subst; [congruence| | |].
    - (* __typename *)
      cbn [field_den]. rewrite Ha.
      rewrite (sel_key_unaliased x (plain_in x Hx) Hal), Htn.
      unfold sp_field_type. change SP_TYPENAME with TYPENAME. rewrite Htn.
      unfold complete. cbn [complete_nn iname].
      split.
      + intros Hv. exists 0. destruct v; try discriminate. cbn [is_null negb andb]. rewrite str_eqb_sym. exact Hv.
      + intros [_ Hv]. destruct v; try discriminate. cbn [is_null negb andb] in Hv. rewrite str_eqb_sym. exact Hv.
    - (* leaf *)
      cbn [field_den]. rewrite Ha.
      rewrite (sel_key_not_typename x (plain_in x Hx) Htn).
      destruct (find_fields_of dfs _ _ _ Hfind Htn) as [fd [Hfd [-> _]]].
      rewrite (sp_field_type_found x fd Htn Hfd).
      change SP_TYPENAME with TYPENAME. rewrite Htn.
      pose proof (Hleaf x fd Hx Hs Hi Htn Hfd) as Hok.
      destruct (gden_complete named (sp_named_null S) (fd_type fd) v) as [_ Hg]. rewrite Hg.
      split.
      + intros Hv. exists 0. rewrite complete_named in Hv. rewrite complete_named.
        revert Hv. apply complete_mono. intros _ y Hy.
        unfold named, sp_named in Hy. unfold sp_leaf_ok in Hok.
        destruct (sp_kind S (iname (ty_unwrapped (fd_type fd)))); try discriminate; exact Hy.
      + intros [f Hv]. rewrite complete_named in Hv. rewrite complete_named.
        revert Hv. apply complete_mono. intros _ y Hy.
        unfold named, sp_named. unfold sp_leaf_ok in Hok.
        destruct (sp_kind S (iname (ty_unwrapped (fd_type fd)))); try discriminate; exact Hy.
    - (* object *)
      cbn [field_den]. rewrite Ha.
      destruct (find_fields_of dfs _ _ _ Hfind Htn) as [fd [Hfd [-> _]]].
      rewrite (sp_field_type_found x fd Htn Hfd).
      change SP_TYPENAME with TYPENAME. rewrite Htn.
      destruct (Hsub x fd t Hx Hs Hi Htn Hfd Hr) as [Hkind Hiff].
      rewrite (Hiff v Hj).
      split.
      + intros [f Hv]. exists f. rewrite complete_named. rewrite complete_named in Hv.
        revert Hv. apply complete_mono. intros _ y Hy. rewrite Hkind. exact Hy.
      + intros [f Hv]. exists f. rewrite complete_named. rewrite complete_named in Hv.
        revert Hv. apply complete_mono. intros _ y Hy. rewrite Hkind in Hy. exact Hy.
  Qed.

  (** ** the branch theorem *)
  Theorem branch_eq kvs : json (VObj kvs) = true ->
    (branch_den named okeys (mkBranch o (un_of fs) (al_of fs)) (VObj kvs) = true <->
     exists f, nodup_keys (map fst kvs) = true /\ den_body f o (b_vars b) sels kvs = true).
  Proof.
    intros Hj.
    assert (Hok : okeys o = Some ks) by (unfold okeys, sp_obj_keys; rewrite Hlookup; reflexivity).
    rewrite (branch_den_char named okeys o fs ks kvs Hok).
    assert (Hbody : forall f, den_body f o (b_vars b) sels kvs = true <->
              ((forall k, In k (map fst kvs) -> In k (map sel_key (filter (inc b) sels))) /\
               (forall k, In k (map sel_key (filter (inc b) sels)) -> In k (map fst kvs))) /\
              (forall kv, In kv kvs -> vok f kv = true)).
    { intros f. unfold den_body. cbv zeta. rewrite es_collect. rewrite andb_true_iff, same_keys_spec, es_keys, forallb_forall.
      reflexivity. }
    assert (Hskip : forall x (p : bool * sfield), In x sels -> inc b x = false -> fld_of rec_type b pf x (snd p) -> snd p = SFEmpty (sel_key x)).
    { intros x p Hx Hi Hf. inversion Hf; congruence. }
    split.
    - (* model -> specification *)
      intros [Hnd1 [Hcov Hfd]].
      assert (Hndp : NoDup (map fst kvs)) by (apply nodup_keys_NoDup; exact Hnd1).
      (* every key of the value belongs to an included selection *)
      assert (Hkey : forall k v, In (k, v) kvs -> exists x p, In x sels /\ In p fs /\ inc b x = true /\ sel_key x = k /\
                                   fst p = sel_aliased x /\ fld_of rec_type b pf x (snd p) /\ vis ks p = true).
      { intros k v Hin.
        assert (Hk : In k (map fst kvs)) by (apply in_map_iff; exists (k, v); split; [reflexivity | exact Hin]).
        destruct (Hcov k Hk) as [p [Hp [Hv Hn]]].
        destruct (Forall2_in_r _ _ _ _ Hfs Hp) as [x [Hx [Ha Hf]]].
        assert (Hkx : sel_key x = k) by (rewrite <- (fld_of_name _ _ _ _ _ Hf); exact Hn).
        exists x, p. repeat split; try assumption.
        destruct (inc b x) eqn:Hi; [reflexivity|]. exfalso.
        pose proof (Hfd p Hp Hv) as Hd. rewrite (Hskip x p Hx Hi Hf) in Hd. cbn [field_den] in Hd.
        rewrite Hkx, (in_assoc_nodup k v kvs Hndp Hin) in Hd.
        pose proof (json_obj_in kvs Hj (k, v) Hin) as Hjv. cbn [snd] in Hjv. destruct v; discriminate. }
      (* one fuel for all values *)
      destruct (uniform_fuel (fun f kv => vok f kv = true) kvs) as [f Hf].
      { intros f f' kv Hle. apply vok_mono. exact Hle. }
      { intros [k v] Hin. destruct (Hkey k v Hin) as [x [p [Hx [Hp [Hi [Hk [Ha [Hfl Hv]]]]]]]].
        pose proof (Hfd p Hp Hv) as Hd.
        pose proof (in_assoc_nodup k v kvs Hndp Hin) as Hak. rewrite <- Hk in Hak.
        pose proof (json_obj_in kvs Hj (k, v) Hin) as Hjv. cbn [snd] in Hjv.
        destruct (proj1 (field_value x p kvs v Hx Hi Hfl Hak Hjv) Hd) as [f Hf]. exists f. rewrite <- Hk. exact Hf. }
      exists f. split; [exact Hnd1|]. apply Hbody. split; [split|].
      + intros k Hk. apply assoc_in_keys in Hk. destruct Hk as [v Hk]. apply assoc_in in Hk.
        destruct (Hkey k v Hk) as [x [p [Hx [_ [Hi [Hkx _]]]]]]. apply key_inc. exists x. auto.
      + intros k Hk. apply key_inc in Hk. destruct Hk as [x [Hx [Hi Hkx]]].
        destruct (Forall2_in_l _ _ _ _ Hfs Hx) as [p [Hp [Ha Hfl]]].
        pose proof (Hfd p Hp (inc_vis x p Hx Hi Ha Hfl)) as Hd.
        apply assoc_in_keys. rewrite <- Hkx.
        inversion Hfl as [Hn | Hi' Htn Hal | i fty Hi' Htn Hfind Hs | i fty t Hi' Htn Hfind Hs Hr]; subst; [congruence| | |];
          match goal with He : _ = snd p |- _ => rewrite <- He in Hd end; cbn [field_den] in Hd;
          destruct (assoc (sel_key x) kvs) as [v|]; try discriminate; exists v; reflexivity.
      + exact Hf.
    - (* specification -> model *)
      intros [f [Hnd1 Hb]]. apply Hbody in Hb. destruct Hb as [[Hk1 Hk2] Hv].
      assert (Hndp : NoDup (map fst kvs)) by (apply nodup_keys_NoDup; exact Hnd1).
      split; [exact Hnd1|]. split.
      + intros k Hk. apply Hk1 in Hk. apply key_inc in Hk. destruct Hk as [x [Hx [Hi Hkx]]].
        destruct (Forall2_in_l _ _ _ _ Hfs Hx) as [p [Hp [Ha Hfl]]].
        exists p. split; [exact Hp|]. split; [exact (inc_vis x p Hx Hi Ha Hfl)|].
        rewrite (fld_of_name _ _ _ _ _ Hfl). exact Hkx.
      + intros p Hp Hvis. destruct (Forall2_in_r _ _ _ _ Hfs Hp) as [x [Hx [Ha Hfl]]].
        destruct (inc b x) eqn:Hi.
        * assert (Hk : In (sel_key x) (map fst kvs)) by (apply Hk2; apply key_inc; exists x; auto).
          apply assoc_in_keys in Hk. destruct Hk as [v Hak].
          pose proof (assoc_in _ _ _ Hak) as Hin.
          pose proof (json_obj_in kvs Hj _ Hin) as Hjv. cbn [snd] in Hjv.
          apply (proj2 (field_value x p kvs v Hx Hi Hfl Hak Hjv)). exists f. apply Hv. exact Hin.
        * rewrite (Hskip x p Hx Hi Hfl). cbn [field_den].
          destruct (assoc (sel_key x) kvs) as [v|] eqn:Hak; [|reflexivity]. exfalso.
          assert (Hk : In (sel_key x) (map fst kvs)) by (apply assoc_in_keys; exists v; exact Hak).
          apply Hk1 in Hk. apply key_inc in Hk. destruct Hk as [x' [Hx' [Hi' Hkx']]].
          assert (x' = x) by (eapply NoDup_map_inj; eauto). subst x'. congruence.
  Qed.
End BranchEq.
