(** C01/C02 — selection sets WITH inline fragments and fragment spreads, no repeated response key in
    the merged scope.  Part 1: the flattened scope [flatS] (the fields a selection set contributes for an
    object type, each with the directive lists of the fragments around it, in CollectFields order) and
    the model side: the fields [get_fields_for_selection_set] returns are, up to order, one per item
    of the flattened scope. *)
From V Require Import Base.Util Gql.Ast Writer.Wop Ts.TsType Ts.TsDen
     C01.Model C01.Spec C01.Guards C01.TsLemmas C01.TreeDen C01.Proofs C01.EnvDen C01.PlainBase C01.PlainCore.
From Coq Require Import Permutation.

Section Flat.
  Variable S : tsdoc.
  Variable F : list fragdef.
  Variable o : str.

  Definition flat_sel (f : nat) (x : selection) : option (list fitem) :=
    match x with
    | SField _ _ _ _ _ => Some [mkFI x []]
    | SSpread _ n ds =>
        match sp_frag F (iname n) with
        | None => None
        | Some fd =>
            if sp_applies S o (iname (fr_cond fd))
            then option_map (map (add_guard ds)) (flatS S F o f (selset_sels (fr_sel fd)))
            else Some []
        end
    | SInline _ cond ds ss =>
        if cond_applies S o cond
        then option_map (map (add_guard ds)) (flatS S F o f (selset_sels ss))
        else Some []
    end.

  Lemma flatS_cons f x r : flatS S F o (Datatypes.S f) (x :: r) = oapp (flat_sel f x) (flatS S F o (Datatypes.S f) r).
  Proof. reflexivity. Qed.
  Lemma flatS_nil f : flatS S F o (Datatypes.S f) [] = Some [].
  Proof. reflexivity. Qed.

  Lemma flatS_mono : forall f sels L, flatS S F o f sels = Some L -> flatS S F o (Datatypes.S f) sels = Some L.
  Proof.
    induction f as [|f IH]; intros sels L H; [discriminate|].
    revert L H. induction sels as [|x r IHr]; intros L H; [exact H|].
    rewrite flatS_cons in *.
    destruct (flat_sel f x) as [a|] eqn:Ha; [|discriminate].
    destruct (flatS S F o (Datatypes.S f) r) as [c|] eqn:Hc; [|discriminate].
    rewrite (IHr c eq_refl).
    assert (Hx : flat_sel (Datatypes.S f) x = Some a).
    { destruct x as [al nm ar ds sub | p n ds | p cond ds ss]; cbn [flat_sel] in *.
      - exact Ha.
      - destruct (sp_frag F (iname n)) as [fd|]; [|discriminate].
        destruct (sp_applies S o (iname (fr_cond fd))); [|exact Ha].
        destruct (flatS S F o f (selset_sels (fr_sel fd))) as [l0|] eqn:Hl; [|discriminate].
        rewrite (IH _ _ Hl). exact Ha.
      - destruct (cond_applies S o cond); [|exact Ha].
        destruct (flatS S F o f (selset_sels ss)) as [l0|] eqn:Hl; [|discriminate].
        rewrite (IH _ _ Hl). exact Ha. }
    rewrite Hx. exact H.
  Qed.

  Lemma flatS_le f f' sels L : f <= f' -> flatS S F o f sels = Some L -> flatS S F o f' sels = Some L.
  Proof. induction 1 as [|f' Hle IH]; intros H; [exact H | apply flatS_mono; apply IH; exact H]. Qed.

  Lemma flatS_unique f f' sels L L' : flatS S F o f sels = Some L -> flatS S F o f' sels = Some L' -> L = L'.
  Proof.
    intros H H'. pose proof (flatS_le _ (Nat.max f f') _ _ (Nat.le_max_l f f') H) as H1.
    pose proof (flatS_le _ (Nat.max f f') _ _ (Nat.le_max_r f f') H') as H2. congruence.
  Qed.

  (** every item of the flattened scope is a field *)
  Lemma flatS_fields : forall f sels L, flatS S F o f sels = Some L -> forall it, In it L -> is_field (fi_sel it) = true.
  Proof.
    induction f as [|f IH]; intros sels L H; [discriminate|].
    revert L H. induction sels as [|x r IHr]; intros L H it Hin.
    - inversion H. subst. destruct Hin.
    - rewrite flatS_cons in H.
      destruct (flat_sel f x) as [a|] eqn:Ha; [|discriminate].
      destruct (flatS S F o (Datatypes.S f) r) as [c|] eqn:Hc; [|discriminate].
      inversion H. subst L. apply in_app_or in Hin. destruct Hin as [Hin|Hin]; [|eapply IHr; eauto].
      destruct x as [al nm ar ds sub | p n ds | p cond ds ss]; cbn [flat_sel] in Ha.
      + inversion Ha. subst a. destruct Hin as [<-|[]]. reflexivity.
      + destruct (sp_frag F (iname n)) as [fd|]; [|discriminate].
        destruct (sp_applies S o (iname (fr_cond fd))); [|inversion Ha; subst; destruct Hin].
        destruct (flatS S F o f (selset_sels (fr_sel fd))) as [l0|] eqn:Hl; [|discriminate].
        inversion Ha. subst a. apply in_map_iff in Hin. destruct Hin as [it0 [<- Hin]]. cbn [add_guard fi_sel].
        eapply IH; eauto.
      + destruct (cond_applies S o cond); [|inversion Ha; subst; destruct Hin].
        destruct (flatS S F o f (selset_sels ss)) as [l0|] eqn:Hl; [|discriminate].
        inversion Ha. subst a. apply in_map_iff in Hin. destruct Hin as [it0 [<- Hin]]. cbn [add_guard fi_sel].
        eapply IH; eauto.
  Qed.
End Flat.

(** * the model's field for an item *)
Section ItemField.
  Variable R : list selection -> gty -> stree -> Prop.   (* "the generator returns this tree for a sub-selection" *)
  Variable b : branch.
  Variable pf : list (str * gty).

  Inductive gfld_of (x : selection) : sfield -> Prop :=
  | gf_skip : inc b x = false -> gfld_of x (SFEmpty (sel_key x))
  | gf_typename : inc b x = true -> str_eqb (sel_name x) TYPENAME = true -> gfld_of x (SFLeaf (sel_key x) STRING_T)
  | gf_leaf i fty : inc b x = true -> str_eqb (sel_name x) TYPENAME = false ->
                    find (fun p => str_eqb (fst p) (sel_name x)) pf = Some (i, fty) -> sel_has_sub x = false ->
                    gfld_of x (SFLeaf (sel_key x) fty)
  | gf_obj i fty t : inc b x = true -> str_eqb (sel_name x) TYPENAME = false ->
                    find (fun p => str_eqb (fst p) (sel_name x)) pf = Some (i, fty) -> sel_has_sub x = true ->
                    R (sel_sub x) fty t ->
                    gfld_of x (SFObject (sel_key x) t).

  Definition einc (it : fitem) : bool :=
    inc b (fi_sel it) && forallb (included (b_vars b)) (fi_guards it).

  Inductive ifld_of (it : fitem) : sfield -> Prop :=
  | if_skip : einc it = false -> ifld_of it (SFEmpty (sel_key (fi_sel it)))
  | if_inc f : einc it = true -> gfld_of (fi_sel it) f -> ifld_of it f.

  Lemma gfld_of_name x f : gfld_of x f -> sf_name f = sel_key x.
  Proof. destruct 1; reflexivity. Qed.
  Lemma ifld_of_name it f : ifld_of it f -> sf_name f = sel_key (fi_sel it).
  Proof. destruct 1; [reflexivity | eapply gfld_of_name; eauto]. Qed.

  Lemma gfld_skip_inv x f : inc b x = false -> gfld_of x f -> f = SFEmpty (sel_key x).
  Proof. intros Hi H. inversion H; congruence. Qed.

  Lemma ifld_of_top x f : gfld_of x f -> ifld_of (mkFI x []) f.
  Proof.
    intros H. destruct (inc b x) eqn:Hi.
    - apply if_inc; [unfold einc; cbn [fi_sel fi_guards forallb]; rewrite Hi; reflexivity | exact H].
    - rewrite (gfld_skip_inv x f Hi H). apply (if_skip (mkFI x [])). unfold einc. cbn [fi_sel]. rewrite Hi. reflexivity.
  Qed.

  Lemma ifld_of_guard ds it f :
    ifld_of it f ->
    ifld_of (add_guard ds it) (if included (b_vars b) ds then f else SFEmpty (sf_name f)).
  Proof.
    intros H. pose proof (ifld_of_name it f H) as Hn.
    destruct (included (b_vars b) ds) eqn:Hd.
    - destruct H as [He | f He Hg].
      + apply (if_skip (add_guard ds it)). unfold einc in *. cbn [add_guard fi_sel fi_guards forallb]. rewrite Hd. exact He.
      + apply if_inc; [|exact Hg]. unfold einc in *. cbn [add_guard fi_sel fi_guards forallb]. rewrite Hd. exact He.
    - rewrite Hn. apply (if_skip (add_guard ds it)). unfold einc. cbn [add_guard fi_sel fi_guards forallb]. rewrite Hd.
      cbn [andb]. apply andb_false_r.
  Qed.
End ItemField.

Lemma gfld_of_mono (R R' : list selection -> gty -> stree -> Prop) b pf x f :
  (forall ss g t, R ss g t -> R' ss g t) -> gfld_of R b pf x f -> gfld_of R' b pf x f.
Proof. intros HR H. destruct H; [apply gf_skip | apply gf_typename | eapply gf_leaf | eapply gf_obj]; eauto. Qed.

Lemma ifld_of_mono (R R' : list selection -> gty -> stree -> Prop) b pf it f :
  (forall ss g t, R ss g t -> R' ss g t) -> ifld_of R b pf it f -> ifld_of R' b pf it f.
Proof. intros HR H. destruct H; [apply if_skip; assumption | apply if_inc; [assumption | eapply gfld_of_mono; eauto]]. Qed.

Lemma field_step_field rec_type b pf x l :
  is_field x = true -> field_step rec_type b pf x = Ok l ->
  exists f, l = [(sel_aliased x, f)] /\ gfld_of (fun ss g t => rec_type ss g = Ok t) b pf x f.
Proof.
  destruct x as [alias name args ds sub | |]; try discriminate. intros _ H.
  cbn [field_step] in H. cbv zeta in H.
  destruct (check_skip_directive b ds) as [sk|e] eqn:Hs; cbn [bind] in H; [|discriminate].
  pose proof (check_skip_included b ds sk Hs) as Hinc.
  assert (Hk : (match alias with Some a => iname a | None => iname name end) = sel_key (SField alias name args ds sub))
    by (destruct alias; reflexivity).
  assert (Ha : (match alias with Some _ => true | None => false end) = sel_aliased (SField alias name args ds sub))
    by (destruct alias; reflexivity).
  rewrite Hk, Ha in H.
  destruct sk.
  - inversion H. eexists. split; [reflexivity|]. apply gf_skip. unfold inc. cbn [sel_ds].
    destruct (included (b_vars b) ds); [discriminate | reflexivity].
  - assert (Hi : inc b (SField alias name args ds sub) = true).
    { unfold inc. cbn [sel_ds]. destruct (included (b_vars b) ds); [reflexivity | discriminate]. }
    destruct (str_eqb (iname name) TYPENAME) eqn:Htn.
    + inversion H. eexists. split; [reflexivity|]. apply gf_typename; [exact Hi | exact Htn].
    + destruct (find (fun p => str_eqb (fst p) (iname name)) pf) as [[i fty]|] eqn:Hf; [|discriminate].
      destruct sub as [ss|].
      * destruct (rec_type (selset_sels ss) fty) as [t|e] eqn:Hr; cbn [bind] in H; [|discriminate].
        inversion H. eexists. split; [reflexivity|].
        eapply gf_obj; [exact Hi | exact Htn | exact Hf | reflexivity | exact Hr].
      * inversion H. eexists. split; [reflexivity|].
        eapply gf_leaf; [exact Hi | exact Htn | exact Hf | reflexivity].
Qed.

Lemma field_step_nonfield rec_type b pf x : is_field x = false -> field_step rec_type b pf x = Ok [].
Proof. destruct x; try discriminate; reflexivity. Qed.

(** * the model's fields of a branch, against the flattened scope *)
Lemma frag_get_sp_frag F n : nodup_frags F = true -> frag_get F n = sp_frag F n.
Proof.
  unfold nodup_frags, frag_get, sp_frag. intros H. apply nodup_keys_NoDup in H.
  induction F as [|fd r IH]; [reflexivity|].
  cbn [map] in H. inversion H as [|? ? Hn Hr]; subst. cbn [rev find].
  assert (Hfa : forall (l1 l2 : list fragdef) P, find P (l1 ++ l2) = match find P l1 with Some y => Some y | None => find P l2 end).
  { intros l1 l2 P. induction l1 as [|a l1 IHl]; [reflexivity|]. cbn [app find]. destruct (P a); [reflexivity | exact IHl]. }
  rewrite Hfa, (IH Hr). cbn [find].
  destruct (str_eqb_spec (iname (fr_name fd)) n) as [He|Hne].
  - destruct (find (fun f => str_eqb (iname (fr_name f)) n) r) as [y|] eqn:Hy; [|reflexivity].
    exfalso. apply find_some in Hy. destruct Hy as [Hin Hy]. apply Hn.
    destruct (str_eqb_spec (iname (fr_name y)) n) as [Hy'|]; [|discriminate].
    rewrite He, <- Hy'. apply in_map_iff. exists y. split; [reflexivity | exact Hin].
  - destruct (find (fun f => str_eqb (iname (fr_name f)) n) r); reflexivity.
Qed.

Definition Rn (S : tsdoc) (F : list fragdef) (n : nat) : list selection -> gty -> stree -> Prop :=
  fun ss g t => exists m, m < n /\ type_for_selection_set S F m ss g = Ok t.

Definition pairs_ok (S : tsdoc) (F : list fragdef) (n : nat) (b : branch) (pf : list (str * gty))
           (L : list fitem) (fs : list (bool * sfield)) : Prop :=
  Forall2 (fun it p => fst p = sel_aliased (fi_sel it) /\ ifld_of (Rn S F n) b pf it (snd p)) L fs.

Lemma pairs_ok_app S F n b pf L1 L2 fs1 fs2 :
  pairs_ok S F n b pf L1 fs1 -> pairs_ok S F n b pf L2 fs2 -> pairs_ok S F n b pf (L1 ++ L2) (fs1 ++ fs2).
Proof. apply Forall2_app. Qed.

Lemma pairs_ok_mono S F n b pf L fs : pairs_ok S F n b pf L fs -> pairs_ok S F (Datatypes.S n) b pf L fs.
Proof.
  intros H. induction H as [|it p L fs [Ha Hf] _ IH]; constructor; [|exact IH].
  split; [exact Ha|]. eapply ifld_of_mono; [|exact Hf].
  intros ss g t [m [Hm Ht]]. exists m. split; [lia | exact Ht].
Qed.

Lemma pairs_ok_guard S F n b pf ds L fs :
  pairs_ok S F n b pf L fs ->
  pairs_ok S F n b pf (map (add_guard ds) L) (if included (b_vars b) ds then fs else map to_empty fs).
Proof.
  intros H. induction H as [|it p L fs [Ha Hf] _ IH].
  - destruct (included (b_vars b) ds); constructor.
  - pose proof (ifld_of_guard _ b pf ds it (snd p) Hf) as Hg.
    destruct (included (b_vars b) ds); cbn [map]; constructor; try exact IH.
    + split; [exact Ha | exact Hg].
    + split; [exact Ha | exact Hg].
Qed.

Section ModelFlat.
  Variable S : tsdoc.
  Variable F : list fragdef.
  Hypothesis HF : nodup_frags F = true.
  Variable b : branch.
  Let o := o_name (b_obj b).
  (** the model's type-condition test agrees with DoesFragmentTypeApply on this branch's object *)
  Hypothesis Hcfc : forall c r, check_fragment_condition S (b_obj b) c = Ok r -> r = sp_applies S o c.

  Lemma fields_for_flat : forall n sels fs,
    fields_for_selection_set S F n sels b = Ok fs ->
    exists pdef pf L L',
      get_type S o = Some pdef /\ direct_fields pdef = Some pf /\
      flatS S F o n sels = Some L /\ Permutation L' L /\ pairs_ok S F n b pf L' fs.
  Proof.
    induction n as [|n IH]; intros sels fs H; [discriminate|].
    rewrite fields_for_S in H. unfold fields_body in H. fold o in H.
    destruct (get_type S o) as [pdef|] eqn:Hg; [|discriminate].
    destruct (direct_fields pdef) as [pf|] eqn:Hd; [|discriminate].
    destruct (mapM (field_step (type_for_selection_set S F n) b pf) sels) as [ls|e] eqn:Hls; cbn [bind] in H; [|discriminate].
    destruct (mapM (frag_step S F (fields_for_selection_set S F n) b) sels) as [gs|e] eqn:Hgs; cbn [bind] in H; [|discriminate].
    inversion H. subst fs. clear H.
    exists pdef, pf.
    assert (Hmain : exists L Ls Lg, flatS S F o (Datatypes.S n) sels = Some L /\ Permutation (Ls ++ Lg) L /\
                      pairs_ok S F (Datatypes.S n) b pf Ls (concat ls) /\ pairs_ok S F (Datatypes.S n) b pf Lg (concat gs)).
    { revert ls gs Hls Hgs. induction sels as [|x r IHr]; intros ls gs Hls Hgs.
      - cbn [mapM] in Hls, Hgs. inversion Hls. inversion Hgs. exists [], [], []. repeat split; constructor.
      - cbn [mapM] in Hls, Hgs.
        destruct (field_step (type_for_selection_set S F n) b pf x) as [lx|e] eqn:Hlx; cbn [bind] in Hls; [|discriminate].
        destruct (mapM (field_step (type_for_selection_set S F n) b pf) r) as [ls'|e] eqn:Hls'; cbn [bind] in Hls; [|discriminate].
        destruct (frag_step S F (fields_for_selection_set S F n) b x) as [gx|e] eqn:Hgx; cbn [bind] in Hgs; [|discriminate].
        destruct (mapM (frag_step S F (fields_for_selection_set S F n) b) r) as [gs'|e] eqn:Hgs'; cbn [bind] in Hgs; [|discriminate].
        inversion Hls. inversion Hgs. subst ls gs.
        destruct (IHr ls' gs' eq_refl eq_refl) as [Lr [Lsr [Lgr [Hfr [Hpr [Hsr Hgr]]]]]].
        rewrite flatS_cons, Hfr. cbn [concat].
        (* the contribution of x: a flat_sel result [a], model items [sx] (simple) and [gxi] (fragment) *)
        assert (Hx : exists a sx gi, flat_sel S F o n x = Some a /\ Permutation (sx ++ gi) a /\
                       (sx = [] \/ gi = []) /\
                       pairs_ok S F (Datatypes.S n) b pf sx lx /\ pairs_ok S F (Datatypes.S n) b pf gi gx).
        { destruct x as [al nm ar ds sub | p nm ds | p cond ds ss].
          - (* field *)
            destruct (field_step_field _ b pf (SField al nm ar ds sub) lx (eq_refl true) Hlx) as [f [-> Hf]].
            cbn [frag_step] in Hgx. inversion Hgx. subst gx.
            exists [mkFI (SField al nm ar ds sub) []], [mkFI (SField al nm ar ds sub) []], [].
            split; [reflexivity|]. split; [apply Permutation_refl|]. split; [right; reflexivity|].
            split; [|constructor]. constructor; [|constructor]. split; [reflexivity|].
            apply ifld_of_top. eapply gfld_of_mono; [|exact Hf].
            intros ss g t Ht. exists n. split; [lia | exact Ht].
          - (* spread *)
            rewrite field_step_nonfield in Hlx by reflexivity. inversion Hlx. subst lx.
            cbn [frag_step] in Hgx. rewrite (frag_get_sp_frag F _ HF) in Hgx. cbn [flat_sel].
            destruct (sp_frag F (iname nm)) as [fd|]; [|discriminate].
            destruct (check_fragment_condition S (b_obj b) (iname (fr_cond fd))) as [ap|e] eqn:Hap; cbn [bind] in Hgx; [|discriminate].
            rewrite (Hcfc _ _ Hap) in Hgx.
            destruct (sp_applies S o (iname (fr_cond fd))).
            + destruct (fields_for_selection_set S F n (selset_sels (fr_sel fd)) b) as [fs0|e] eqn:Hf0; cbn [bind] in Hgx; [|discriminate].
              destruct (check_skip_directive b ds) as [sk|e] eqn:Hsk; cbn [bind] in Hgx; [|discriminate].
              inversion Hgx. subst gx.
              destruct (IH _ _ Hf0) as [pdef0 [pf0 [L0 [L0' [Hg0 [Hd0 [Hfl0 [Hp0 Hok0]]]]]]]].
              assert (pf0 = pf) by congruence. subst pf0.
              rewrite Hfl0. cbn [option_map].
              exists (map (add_guard ds) L0), [], (map (add_guard ds) L0').
              split; [reflexivity|]. split; [cbn [app]; apply Permutation_map; exact Hp0|]. split; [left; reflexivity|].
              split; [constructor|].
              rewrite (check_skip_included b ds sk Hsk).
              pose proof (pairs_ok_guard S F _ b pf ds _ _ (pairs_ok_mono _ _ _ _ _ _ _ Hok0)) as Hgd.
              destruct (included (b_vars b) ds); exact Hgd.
            + inversion Hgx. subst gx. exists [], [], []. split; [reflexivity|]. split; [constructor|]. split; [left; reflexivity|]. split; constructor.
          - (* inline fragment *)
            rewrite field_step_nonfield in Hlx by reflexivity. inversion Hlx. subst lx.
            cbn [flat_sel].
            assert (Hin : forall (ap : bool), ap = cond_applies S o cond ->
                      (let* fs := fields_for_selection_set S F n (selset_sels ss) b in
                       let* skipped := check_skip_directive b ds in
                       Ok (if skipped then map to_empty fs else fs)) = Ok gx ->
                      ap = true ->
                      exists a sx gi, option_map (map (add_guard ds)) (flatS S F o n (selset_sels ss)) = Some a /\
                        Permutation (sx ++ gi) a /\ (sx = [] \/ gi = []) /\
                        pairs_ok S F (Datatypes.S n) b pf sx [] /\ pairs_ok S F (Datatypes.S n) b pf gi gx).
            { intros ap _ Hbody _.
              destruct (fields_for_selection_set S F n (selset_sels ss) b) as [fs0|e] eqn:Hf0; cbn [bind] in Hbody; [|discriminate].
              destruct (check_skip_directive b ds) as [sk|e] eqn:Hsk; cbn [bind] in Hbody; [|discriminate].
              inversion Hbody. subst gx.
              destruct (IH _ _ Hf0) as [pdef0 [pf0 [L0 [L0' [Hg0 [Hd0 [Hfl0 [Hp0 Hok0]]]]]]]].
              assert (pf0 = pf) by congruence. subst pf0.
              rewrite Hfl0. cbn [option_map].
              exists (map (add_guard ds) L0), [], (map (add_guard ds) L0').
              split; [reflexivity|]. split; [cbn [app]; apply Permutation_map; exact Hp0|]. split; [left; reflexivity|].
              split; [constructor|].
              rewrite (check_skip_included b ds sk Hsk).
              pose proof (pairs_ok_guard S F _ b pf ds _ _ (pairs_ok_mono _ _ _ _ _ _ _ Hok0)) as Hgd.
              destruct (included (b_vars b) ds); exact Hgd. }
            destruct cond as [c|]; cbn [frag_step cond_applies] in *.
            + destruct (check_fragment_condition S (b_obj b) (iname c)) as [ap|e] eqn:Hap; cbn [bind] in Hgx; [|discriminate].
              rewrite (Hcfc _ _ Hap) in Hgx.
              destruct (sp_applies S o (iname c)) eqn:Happ.
              * exact (Hin true eq_refl Hgx eq_refl).
              * inversion Hgx. subst gx. exists [], [], []. split; [reflexivity|]. split; [constructor|]. split; [left; reflexivity|]. split; constructor.
            + exact (Hin true eq_refl Hgx eq_refl). }
        destruct Hx as [a [sx [gi [Ha [Hpa [Hemp [Hsx Hgi]]]]]]].
        rewrite Ha. cbn [oapp].
        exists (a ++ Lr), (sx ++ Lsr), (gi ++ Lgr).
        split; [reflexivity|]. split.
        + destruct Hemp as [-> | ->].
          * cbn [app] in *. eapply Permutation_trans; [apply Permutation_app_swap_app|].
            apply Permutation_app; [exact Hpa | exact Hpr].
          * rewrite app_nil_r in Hpa. cbn [app]. rewrite <- app_assoc. apply Permutation_app; [exact Hpa | exact Hpr].
        + split; apply pairs_ok_app; assumption. }
    destruct Hmain as [L [Ls [Lg [Hfl [Hperm [Hs Hg']]]]]].
    exists L, (Ls ++ Lg). split; [reflexivity|]. split; [exact Hd|]. split; [exact Hfl|]. split; [exact Hperm|].
    apply pairs_ok_app; assumption.
  Qed.
End ModelFlat.
