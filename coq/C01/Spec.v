(** C01/C02 — specification side.  Written from the GraphQL specification (October 2021) §6.3
    (CollectFields, DoesFragmentTypeApply, @skip/@include), §6.4 (CompleteValue) and from the
    property texts; independent of C01/Model.v (nothing of the model is imported).

    - [den choose]: "value [v] is a response object for selection set [sels] on a value of (possibly
      abstract) type [T]", where at every selection set the values of the boolean variables are taken
      from [choose sels]:
        [exec_b sigma]  := den (fun _ => [sigma])               one global assignment = Execute_spec
        [ref_local_b]   := den (fun sels => all assignments of the variables used in that selection
                                 set's @skip/@include, through fragments)     = Ref_local
    - [exec_enum]: a bounded enumerator of responses (each concrete type per abstract position, null
      and non-null per nullable position, list lengths 0/1/2, every enum member), "each choice"
      coverage rather than the full product; every value it yields is re-checked with [exec_b] by the
      caller, so it is only a source of candidates.
    - [inhabitants]: bounded enumeration of the values of the abstract domain admitted by a TS type.
    - [schema_env]: the [Schema.__OperationOutput] namespace of the schema declaration file as a
      [tsenv] (objects as exact records incl. [__typename]; interfaces/unions as unions of their
      objects; enums as literal unions; scalars by the built-in mapping, a custom scalar [X] as the
      opaque type inhabited by [VAtom X]).
    - [merge_safe], [typename_alias_free]: the computable guards of the partial theorems / the
      classes of the known findings.

    Definitions only. *)
From V Require Import Base.Util Gql.Ast Writer.Wop Ts.TsType Ts.TsDen.

Definition smem (x : str) (l : list str) : bool := existsb (str_eqb x) l.

Fixpoint dedup (l : list str) : list str :=
  match l with
  | [] => []
  | x :: r => if smem x r then dedup r else x :: dedup r
  end.

(** * schema, read from the resolved type-system document *)

Definition sp_name (d : typedef) : str := iname (typedef_name d).

Fixpoint sp_lookup (S : tsdoc) (n : str) : option typedef :=
  match S with
  | [] => None
  | TSType d :: r => if str_eqb (sp_name d) n then Some d else sp_lookup r n
  | _ :: r => sp_lookup r n
  end.

Definition sp_objects_implementing (S : tsdoc) (intf : str) : list str :=
  flat_map (fun d => match d with
                     | TSType (TDObject _ _ n impls _ _ _) => if smem intf (map iname impls) then [iname n] else []
                     | _ => []
                     end) S.

(** the object types a value of type [n] can have at run time *)
Definition sp_possible (S : tsdoc) (n : str) : list str :=
  match sp_lookup S n with
  | Some (TDObject _ _ _ _ _ _ _) => [n]
  | Some (TDInterface _ _ _ _ _ _ _) => sp_objects_implementing S n
  | Some (TDUnion _ _ _ _ members _) => map iname members
  | _ => []
  end.

(** DoesFragmentTypeApply(objectType, fragmentType) *)
Definition sp_applies (S : tsdoc) (o cond : str) : bool := smem o (sp_possible S cond).

Definition SP_TYPENAME : str := s "__typename".

Definition sp_field_type (S : tsdoc) (o fname : str) : option ty :=
  if str_eqb fname SP_TYPENAME then Some (TNonNull (TNamed (mkId (s "String") pos0)))
  else match sp_lookup S o with
       | Some (TDObject _ _ _ _ _ fs _) =>
           match find (fun f => str_eqb (iname (fd_name f)) fname) fs with
           | Some f => Some (fd_type f)
           | None => None
           end
       | _ => None
       end.

Inductive leaf_kind := LString | LNumber | LBoolean | LAtom (n : str) | LEnum (members : list str) | LComposite | LNone.

Definition sp_kind (S : tsdoc) (n : str) : leaf_kind :=
  match sp_lookup S n with
  | Some (TDScalar _ _ _ _ _) =>
      if str_eqb n (s "String") || str_eqb n (s "ID") then LString
      else if str_eqb n (s "Int") || str_eqb n (s "Float") then LNumber
      else if str_eqb n (s "Boolean") then LBoolean
      else LAtom n
  | Some (TDEnum _ _ _ _ vals _) => LEnum (map (fun v => iname (ev_name v)) vals)
  | Some (TDObject _ _ _ _ _ _ _) | Some (TDInterface _ _ _ _ _ _ _) | Some (TDUnion _ _ _ _ _ _) => LComposite
  | _ => LNone
  end.

(** * variables and directives *)

Definition asg := list (str * bool).
Definition lookup_var (sg : asg) (x : str) : bool := match assoc x sg with Some b => b | None => false end.

Definition sp_dargs (d : directive) : list (ident * value) :=
  match dir_args d with Some a => args_list a | None => [] end.

Definition if_arg (d : directive) : option value :=
  match find (fun p => str_eqb (iname (fst p)) (s "if")) (sp_dargs d) with
  | Some p => Some (snd p)
  | None => None
  end.

Definition if_value (sg : asg) (d : directive) : option bool :=
  match if_arg d with
  | Some (Ast.VBool _ b) => Some b
  | Some (Ast.VVar x _) => Some (lookup_var sg x)
  | _ => None
  end.

Definition dname (d : directive) : str := iname (dir_name d).

(** a selection is included unless @skip(if: true) or @include(if: false) *)
Definition included (sg : asg) (ds : list directive) : bool :=
  forallb (fun d =>
    if str_eqb (dname d) (s "skip") then match if_value sg d with Some true => false | _ => true end
    else if str_eqb (dname d) (s "include") then match if_value sg d with Some false => false | _ => true end
    else true) ds.

Definition dir_vars (ds : list directive) : list str :=
  flat_map (fun d =>
    if str_eqb (dname d) (s "skip") || str_eqb (dname d) (s "include")
    then match if_arg d with Some (Ast.VVar x _) => [x] | _ => [] end
    else []) ds.

Definition sp_frag (F : list fragdef) (n : str) : option fragdef :=
  find (fun f => str_eqb (iname (fr_name f)) n) F.

(** the boolean variables a selection set's @skip/@include directives use, through inline fragments
    and fragment spreads (not through field sub-selections) *)
Fixpoint local_vars (fuel : nat) (F : list fragdef) (sels : list selection) {struct fuel} : list str :=
  match fuel with
  | O => []
  | Datatypes.S f =>
      flat_map (fun x =>
        match x with
        | SField _ _ _ ds _ => dir_vars ds
        | SSpread _ n ds =>
            dir_vars ds ++ match sp_frag F (iname n) with
                           | Some fd => local_vars f F (selset_sels (fr_sel fd))
                           | None => []
                           end
        | SInline _ _ ds ss => dir_vars ds ++ local_vars f F (selset_sels ss)
        end) sels
  end.

Fixpoint all_asg (vs : list str) : list asg :=
  match vs with
  | [] => [[]]
  | v :: r => let rest := all_asg r in
              map (fun a => (v, false) :: a) rest ++ map (fun a => (v, true) :: a) rest
  end.

Definition restrict (sg : asg) (vs : list str) : asg := map (fun x => (x, lookup_var sg x)) vs.

(** * CollectFields *)

Record centry := mkCE { ce_key : str; ce_name : str; ce_sub : list selection }.

Section Collect.
  Variable S : tsdoc.
  Variable F : list fragdef.
  Variable inc : list directive -> bool.     (* the @skip/@include test *)
  Variable o : str.                          (* objectType *)

  (** returns the collected fields in encounter order and the updated visitedFragments *)
  Fixpoint collect (fuel : nat) (sels : list selection) (vis : list str) {struct fuel}
    : list centry * list str :=
    match fuel with
    | O => ([], vis)
    | Datatypes.S f =>
        (fix go (l : list selection) (vis : list str) {struct l} : list centry * list str :=
           match l with
           | [] => ([], vis)
           | x :: r =>
               let '(es, vis1) :=
                 match x with
                 | SField alias name _ ds sub =>
                     if inc ds then
                       ([mkCE (match alias with Some a => iname a | None => iname name end) (iname name)
                               (match sub with Some ss => selset_sels ss | None => [] end)], vis)
                     else ([], vis)
                 | SSpread _ n ds =>
                     if inc ds then
                       if smem (iname n) vis then ([], vis)
                       else
                         let vis' := iname n :: vis in
                         match sp_frag F (iname n) with
                         | None => ([], vis')
                         | Some fd =>
                             if sp_applies S o (iname (fr_cond fd))
                             then collect f (selset_sels (fr_sel fd)) vis'
                             else ([], vis')
                         end
                     else ([], vis)
                 | SInline _ cond ds ss =>
                     if inc ds then
                       if match cond with Some c => sp_applies S o (iname c) | None => true end
                       then collect f (selset_sels ss) vis
                       else ([], vis)
                     else ([], vis)
                 end in
               let '(es2, vis2) := go r vis1 in
               (es ++ es2, vis2)
           end) sels vis
    end.
End Collect.

Definition keys_of (es : list centry) : list str :=
  (fix go (seen : list str) (l : list centry) : list str :=
     match l with
     | [] => []
     | e :: r => if smem (ce_key e) seen then go seen r else ce_key e :: go (ce_key e :: seen) r
     end) [] es.

Definition group (es : list centry) (k : str) : list centry := filter (fun e => str_eqb (ce_key e) k) es.
Definition name_of (es : list centry) (k : str) : str :=
  match group es k with e :: _ => ce_name e | [] => [] end.
(** MergeSelectionSets *)
Definition sub_of (es : list centry) (k : str) : list selection := flat_map ce_sub (group es k).

(** * CompleteValue as a membership test *)

Definition is_null (v : val) : bool := match v with VNull => true | _ => false end.

Fixpoint complete_nn (leaf : str -> val -> bool) (t : ty) (v : val) {struct t} : bool :=
  match t with
  | TNamed n => leaf (iname n) v
  | TNonNull t' => complete_nn leaf t' v
  | TList _ t' =>
      match v with
      | VList l =>
          forallb (fun x =>
            match t' with
            | TNonNull t'' => negb (is_null x) && complete_nn leaf t'' x
            | _ => is_null x || complete_nn leaf t' x
            end) l
      | _ => false
      end
  end.

Definition complete (leaf : str -> val -> bool) (t : ty) (v : val) : bool :=
  match t with
  | TNonNull t' => negb (is_null v) && complete_nn leaf t' v
  | _ => is_null v || complete_nn leaf t v
  end.

(** the opaque TS type text standing for a custom scalar [n]: the harness CONFIGURES the operation-output
    type of every custom scalar [n] as the (global, undeclared) TypeScript identifier [Scalar_n]; it cannot
    collide with string/number/boolean *)
Definition atom_of (n : str) : str := s "Scalar_" ++ n.

Definition same_keys (a b : list str) : bool :=
  forallb (fun k => smem k b) a && forallb (fun k => smem k a) b.

Definition scalar_den (k : leaf_kind) (v : val) : bool :=
  match k, v with
  | LString, VStr _ => true
  | LNumber, VNum => true
  | LBoolean, VBool _ => true
  | LAtom n, VAtom a => str_eqb a (atom_of n)
  | LEnum ms, VStr x => smem x ms
  | _, _ => false
  end.

Section Den.
  Variable S : tsdoc.
  Variable F : list fragdef.
  Variable cfuel : nat.    (* fuel for CollectFields (nesting of inline fragments and spreads) *)
  Variable choose : list selection -> list asg.
  (** [tn_relax = true] is NOT the specification: it reads an aliased [__typename] as [String | null],
      the known deviation of the generator, so that the C02 check can still look for OTHER deviations in
      documents that contain one (used by Corr.holds2 only for the "relaxed" twin of such a case) *)
  Variable tn_relax : bool.

  Fixpoint den (fuel : nat) (T : str) (sels : list selection) (v : val) {struct fuel} : bool :=
    match fuel with
    | O => false
    | Datatypes.S f =>
        match v with
        | VObj kvs =>
            nodup_keys (map fst kvs) &&
            existsb (fun o =>
              existsb (fun sg =>
                let es := fst (collect S F (included sg) o cfuel sels []) in
                same_keys (map fst kvs) (keys_of es) &&
                forallb (fun kv =>
                  let fname := name_of es (fst kv) in
                  if tn_relax && str_eqb fname SP_TYPENAME && negb (str_eqb (fst kv) SP_TYPENAME)
                  then match snd kv with VNull | VStr _ => true | _ => false end
                  else
                  match sp_field_type S o fname with
                  | None => false
                  | Some t =>
                      complete (fun n x =>
                        if str_eqb fname SP_TYPENAME then match x with VStr y => str_eqb y o | _ => false end
                        else match sp_kind S n with
                             | LComposite => den f n (sub_of es (fst kv)) x
                             | k => scalar_den k x
                             end) t (snd kv)
                  end) kvs) (choose sels)) (sp_possible S T)
        | _ => false
        end
    end.
End Den.

(** Execute_spec under one assignment of the boolean variables *)
Definition exec_b (S : tsdoc) (F : list fragdef) (cf : nat) (sg : asg) := den S F cf (fun _ => [sg]) false.

(** Ref_local: the per-selection-set denotation of the property text *)
Definition local_choices (cf : nat) (F : list fragdef) (sels : list selection) : list asg :=
  all_asg (dedup (local_vars cf F sels)).
Definition ref_local_b (S : tsdoc) (F : list fragdef) (cf : nat) := den S F cf (local_choices cf F) false.
Definition ref_local_relaxed_b (S : tsdoc) (F : list fragdef) (cf : nat) := den S F cf (local_choices cf F) true.

(** * bounded enumeration of responses (candidates only; re-checked with [exec_b]) *)

Definition rotate {A} (l : list A) : list A := match l with [] => [] | x :: r => r ++ [x] end.

(** lengths 0, 1 (every alternative once) and 2 (one list, of the first two alternatives) *)
Definition list_alts (xs : list val) : list val :=
  VList [] :: map (fun x => VList [x]) xs
  ++ match xs with a :: b :: _ => [VList [a; b]] | [a] => [VList [a; a]] | [] => [] end.

Fixpoint alts_nn (leaf : str -> list val) (t : ty) {struct t} : list val :=
  match t with
  | TNamed n => leaf (iname n)
  | TNonNull t' => alts_nn leaf t'
  | TList _ t' =>
      list_alts (match t' with
                 | TNonNull t'' => alts_nn leaf t''
                 | _ => alts_nn leaf t' ++ [VNull]
                 end)
  end.
Definition alts (leaf : str -> list val) (t : ty) : list val :=
  match t with
  | TNonNull t' => alts_nn leaf t'
  | _ => alts_nn leaf t ++ [VNull]
  end.

(** rows of a table whose column [k] cycles through its alternatives: every alternative of every
    column occurs in some row; [None] = key absent *)
Definition row (i : nat) (cols : list (str * list (option val))) : list (str * val) :=
  flat_map (fun c =>
    match nth_error (snd c) (Nat.modulo i (length (snd c))) with
    | Some (Some v) => [(fst c, v)]
    | _ => []
    end) cols.
(** bounds that keep the candidate sets small on very large types (candidates only) *)
Definition ROW_CAP : nat := 24.
Definition MEMBER_CAP : nat := 12.

(** at most about [n] elements of [l], evenly spread *)
Definition sample {A} (n : nat) (l : list A) : list A :=
  let len := length l in
  if Nat.leb len n then l
  else let stride := Datatypes.S (Nat.div len n) in
       flat_map (fun p => if Nat.eqb (Nat.modulo (fst p) stride) 0 then [snd p] else []) (combine (seq 0 len) l).

Definition records (cols : list (str * list (option val))) : list val :=
  if existsb (fun c => match snd c with [] => true | _ => false end) cols then []
  else
    let n := Nat.min ROW_CAP (fold_right (fun c a => Nat.max (length (snd c)) a) 1 cols) in
    map (fun i => VObj (row i cols)) (seq 0 n).

Definition scalar_alts (k : leaf_kind) : list val :=
  match k with
  | LString => [VStr (s "str")]
  | LNumber => [VNum]
  | LBoolean => [VBool true]
  | LAtom n => [VAtom (atom_of n)]
  | LEnum ms => map VStr ms
  | _ => []
  end.

Section Enum.
  Variable S : tsdoc.
  Variable F : list fragdef.
  Variable cf : nat.
  Variable sg : asg.

  Fixpoint exec_enum (fuel : nat) (T : str) (sels : list selection) {struct fuel} : list val :=
    match fuel with
    | O => []
    | Datatypes.S f =>
        flat_map (fun o =>
          let es := fst (collect S F (included sg) o cf sels []) in
          records (map (fun k =>
            let fname := name_of es k in
            (k, match sp_field_type S o fname with
                | None => []
                | Some t =>
                    map Some (alts (fun n =>
                      if str_eqb fname SP_TYPENAME then [VStr o]
                      else match sp_kind S n with
                           | LComposite => exec_enum f n (sub_of es k)
                           | kd => scalar_alts kd
                           end) t)
                end)) (keys_of es))) (sp_possible S T)
    end.
End Enum.

(** * the schema declaration file's [__OperationOutput] namespace as an environment *)

Definition NS : str := s "Schema".
Definition OUT : str := s "__OperationOutput".
Definition out_ref (n : str) : tstype := TNs3 NS OUT n.

Definition scalar_ts (n : str) : tstype :=
  if str_eqb n (s "String") || str_eqb n (s "ID") then TRaw (s "string")
  else if str_eqb n (s "Int") || str_eqb n (s "Float") then TRaw (s "number")
  else if str_eqb n (s "Boolean") then TRaw (s "boolean")
  else TRaw (atom_of n).

Definition decl_of (S : tsdoc) (d : typedef) : option tstype :=
  match d with
  | TDScalar _ _ n _ _ => Some (scalar_ts (iname n))
  | TDObject _ _ n _ _ fs _ =>
      Some (TObject (mkField SP_TYPENAME pos0 (TStrLit (iname n)) false false None
                     :: map (fun f => mkField (iname (fd_name f)) pos0
                                        (get_ts_type_of_type (fun i => out_ref (iname i)) (fd_type f))
                                        false false None) fs))
  | TDInterface _ _ n _ _ _ _ => Some (ts_union (map out_ref (sp_objects_implementing S (iname n))))
  | TDUnion _ _ _ _ members _ => Some (ts_union (map (fun m => out_ref (iname m)) members))
  | TDEnum _ _ _ _ vals _ => Some (TUnion (map (fun v => TStrLit (iname (ev_name v))) vals))
  | TDInput _ _ _ _ _ _ => None
  end.

Definition schema_env (S : tsdoc) : tsenv :=
  mkEnv (fun _ => None) (fun _ _ => None)
        (fun a b c => if str_eqb a NS && str_eqb b OUT
                      then match sp_lookup S c with Some d => decl_of S d | None => None end
                      else None).

(** * bounded enumeration of the abstract values a TS type admits (candidates; re-checked with
      [has_type_b]) *)

Definition raw_inhab (r : str) : list val :=
  if str_eqb r (s "string") then [VStr (s "?any-string")]
  else if str_eqb r (s "number") then [VNum]
  else if str_eqb r (s "boolean") then [VBool true; VBool false]
  else [VAtom r].

Fixpoint dedup_fields (seen : list str) (fs : list tsfield) : list tsfield :=
  match fs with
  | [] => []
  | f :: r => if smem (f_key f) seen then dedup_fields seen r else f :: dedup_fields (f_key f :: seen) r
  end.

Section Inhab.
  Variable E : tsenv.

  Fixpoint inhabitants (fuel : nat) (t : tstype) {struct fuel} : list val :=
    match fuel with
    | O => []
    | Datatypes.S f =>
        let of_fields (fs : list tsfield) : list val :=
          records (map (fun fl =>
            (f_key fl, (if f_optional fl then [None] else []) ++ map Some (inhabitants f (f_ty fl))))
            (dedup_fields [] fs)) in
        match t with
        | TNull => [VNull]
        | TUndefined | TNever => []
        | TUnknown => [VAtom (s "?unknown")]
        | TStrLit x => [VStr x]
        | TRaw r => raw_inhab r
        | TVar n _ => match env_var E n with Some t' => inhabitants f t' | None => raw_inhab n end
        | TNs a b => match env_ns2 E a b with Some t' => inhabitants f t' | None => [] end
        | TNs3 a b c => match env_ns3 E a b c with Some t' => inhabitants f t' | None => [] end
        | TArray x | TRoArray x => list_alts (inhabitants f x)
        | TUnion ts => flat_map (fun x => firstn MEMBER_CAP (inhabitants f x)) ts
        | TObject fs => of_fields fs
        | TFunc (TNs _ fn) [orig; TObject obj; TObject others] =>
            if str_eqb fn SELSET then
              match as_object E f orig with
              | Some ofs =>
                  of_fields (filter (fun fl => existsb (fun g => str_eqb (f_key g) (f_key fl)) ofs) obj ++ others)
              | None => []
              end
            else []
        | TFunc _ _ | TInter _ => []
        end
    end.
End Inhab.

(** * guards / classes of the known findings *)

(** the fields the generator collects into one branch, in ITS order (fields of the selection set
    first, then those of its fragments), all directives ignored *)
Section Scope.
  Variable S : tsdoc.
  Variable F : list fragdef.
  Variable o : str.

  Fixpoint scope_fields (fuel : nat) (sels : list selection) {struct fuel} : list centry :=
    match fuel with
    | O => []
    | Datatypes.S f =>
        flat_map (fun x =>
          match x with
          | SField alias name _ _ sub =>
              [mkCE (match alias with Some a => iname a | None => iname name end) (iname name)
                    (match sub with Some ss => selset_sels ss | None => [] end)]
          | _ => []
          end) sels
        ++ flat_map (fun x =>
          match x with
          | SField _ _ _ _ _ => []
          | SSpread _ n _ =>
              match sp_frag F (iname n) with
              | Some fd => if sp_applies S o (iname (fr_cond fd)) then scope_fields f (selset_sels (fr_sel fd)) else []
              | None => []
              end
          | SInline _ cond _ ss =>
              if match cond with Some c => sp_applies S o (iname c) | None => true end
              then scope_fields f (selset_sels ss) else []
          end) sels
    end.
End Scope.

Definition is_nil' {A} (l : list A) : bool := match l with [] => true | _ => false end.

Definition named_of (t : ty) : str := iname (ty_unwrapped t).

(** [merge_safe]: whenever several fields with one response key and sub-selections are collected
    into one branch, only the FIRST one's sub-selection — first in the order in which the generator merges
    their trees — uses boolean variables (then pairing branches by type name in merge_selection_trees is
    exact); recursively for the merged sub-selections.  The generator builds one tree per field and merges the
    trees, so the merge order of the fields found in the sub-selections [s1; s2; ...] of same-key fields is
    (fields of s1 in its own order) then (fields of s2) ... — NOT the order of the concatenated selection set;
    the scope is therefore a list of SEGMENTS. *)
Fixpoint merge_safe_segs (S : tsdoc) (F : list fragdef) (cf : nat) (fuel : nat) (T : str) (segs : list (list selection))
  {struct fuel} : bool :=
  match fuel with
  | O => false
  | Datatypes.S f =>
      forallb (fun o =>
        let es := flat_map (scope_fields S F o cf) segs in
        forallb (fun k =>
          let g := filter (fun e => negb (is_nil' (ce_sub e))) (group es k) in
          match g with
          | [] => true
          | _ :: rest =>
              forallb (fun e => is_nil' (local_vars cf F (ce_sub e))) rest
              && match sp_field_type S o (name_of es k) with
                 | Some t => merge_safe_segs S F cf f (named_of t) (map ce_sub g)
                 | None => true
                 end
          end) (keys_of es)) (sp_possible S T)
  end.
Definition merge_safe (S : tsdoc) (F : list fragdef) (cf : nat) (fuel : nat) (T : str) (sels : list selection) : bool :=
  merge_safe_segs S F cf fuel T [sels].

(** no aliased [__typename] anywhere below (an aliased [__typename] is typed [String | null]) *)
Fixpoint sel_typename_alias_free (x : selection) : bool :=
  match x with
  | SField alias name _ _ sub =>
      negb (match alias with Some _ => str_eqb (iname name) SP_TYPENAME | None => false end)
      && match sub with
         | Some (SelSet _ l) => (fix go (l : list selection) : bool :=
                                   match l with [] => true | y :: r => sel_typename_alias_free y && go r end) l
         | None => true
         end
  | SSpread _ _ _ => true
  | SInline _ _ _ (SelSet _ l) =>
      (fix go (l : list selection) : bool :=
         match l with [] => true | y :: r => sel_typename_alias_free y && go r end) l
  end.
Definition typename_alias_free (D : opdoc) : bool :=
  forallb (fun d => match d with
                    | DOp o => forallb sel_typename_alias_free (selset_sels (op_sel o))
                    | DFrag f => forallb sel_typename_alias_free (selset_sels (fr_sel f))
                    | DImport _ => true
                    end) (od_defs D).

(** * the properties as statements about an emitted type *)

(** boolean variables used anywhere in a document *)
Fixpoint sel_all_vars (x : selection) : list str :=
  match x with
  | SField _ _ _ ds sub =>
      dir_vars ds ++ match sub with
                     | Some (SelSet _ l) => (fix go (l : list selection) : list str :=
                                               match l with [] => [] | y :: r => sel_all_vars y ++ go r end) l
                     | None => []
                     end
  | SSpread _ _ ds => dir_vars ds
  | SInline _ _ ds (SelSet _ l) =>
      dir_vars ds ++ (fix go (l : list selection) : list str :=
                        match l with [] => [] | y :: r => sel_all_vars y ++ go r end) l
  end.
Definition doc_vars (D : opdoc) : list str :=
  dedup (flat_map (fun d => match d with
                            | DOp o => flat_map sel_all_vars (selset_sels (op_sel o))
                            | DFrag f => flat_map sel_all_vars (selset_sels (fr_sel f))
                            | DImport _ => []
                            end) (od_defs D)).

Definition sp_frags (D : opdoc) : list fragdef :=
  flat_map (fun d => match d with DFrag f => [f] | _ => [] end) (od_defs D).

Definition sp_root (S : tsdoc) (op : optype) : str :=
  let explicit := flat_map (fun d => match d with TSSchema sd => sd_ops sd | _ => [] end) S in
  match find (fun p => optype_eqb (fst p) op) (rev explicit) with
  | Some p => iname (snd p)
  | None => match op with Query => s "Query" | Mutation => s "Mutation" | Subscription => s "Subscription" end
  end.

(** the (parent type, selection set) a definition's emitted type describes *)
Definition def_target (S : tsdoc) (d : execdef) : option (str * list selection) :=
  match d with
  | DOp o => Some (sp_root S (op_type o), selset_sels (op_sel o))
  | DFrag f => Some (iname (fr_cond f), selset_sels (fr_sel f))
  | DImport _ => None
  end.

Definition admits (E : tsenv) (fuel : nat) (t : tstype) (v : val) : bool :=
  match has_type_b E fuel t v with Some true => true | _ => false end.

(** C01, full statement for one definition: every response is admitted by the emitted type *)
Definition C01_response_admitted (S : tsdoc) (D : opdoc) (d : execdef) (emitted : tstype) : Prop :=
  forall T sels, def_target S d = Some (T, sels) ->
  forall cf sg fuel v, exec_b S (sp_frags D) cf sg fuel T sels v = true -> In_type (schema_env S) emitted v.

(** C02, full statement for one definition: the emitted type admits nothing outside Ref_local *)
Definition C02_not_looser (S : tsdoc) (D : opdoc) (d : execdef) (emitted : tstype) : Prop :=
  forall T sels, def_target S d = Some (T, sels) ->
  forall v, In_type (schema_env S) emitted v -> exists cf fuel, ref_local_b S (sp_frags D) cf fuel T sels v = true.
