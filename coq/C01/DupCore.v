(** C01/C02 — repeated LEAF response keys, part 1: [deep_merge] on a field list in which a repeated
    name only ever belongs to leaf-like fields (Leaf / Empty): the result has one field per name, an
    element of the input, non-Empty as soon as one of the merged fields is. *)
From V Require Import Base.Util Gql.Ast Writer.Wop Ts.TsType Ts.TsDen
     C01.Model C01.Spec C01.Guards C01.TsLemmas C01.TreeDen C01.Proofs C01.EnvDen C01.PlainBase C01.PlainCore.

Definition leaflike (f : sfield) : bool := match f with SFObject _ _ => false | _ => true end.
Definition is_empty_f (f : sfield) : bool := match f with SFEmpty _ => true | _ => false end.
Definition leaf_merge (g f : sfield) : sfield :=
  match g, f with SFEmpty _, SFLeaf _ _ => f | _, _ => g end.

Fixpoint upsert (acc : list sfield) (f : sfield) : list sfield :=
  match acc with
  | [] => [f]
  | g :: r => if str_eqb (sf_name g) (sf_name f) then leaf_merge g f :: r else g :: upsert r f
  end.
Definition merge_list (l : list sfield) : list sfield := fold_left upsert l [].

Definition kcount (n : str) (l : list sfield) : nat := length (filter (fun f => str_eqb (sf_name f) n) l).

(** a repeated name belongs to leaf-like fields only *)
Definition dups_leaflike (l : list sfield) : Prop :=
  forall n, kcount n l <= 1 \/ forall f, In f l -> sf_name f = n -> leaflike f = true.

Lemma leaf_merge_name g f : sf_name g = sf_name f -> sf_name (leaf_merge g f) = sf_name g.
Proof. destruct g, f; cbn; intros H; congruence. Qed.

Lemma leaf_merge_in g f : leaf_merge g f = g \/ leaf_merge g f = f.
Proof. destruct g, f; cbn; auto. Qed.

Lemma merge_fields_leaflike mt g f :
  sf_name g = sf_name f -> leaflike g = true -> leaflike f = true -> merge_fields mt g f = Ok (leaf_merge g f).
Proof. destruct g, f; cbn; intros Hn Hg Hf; try discriminate; try reflexivity. Qed.

Lemma kcount_app n l l' : kcount n (l ++ l') = kcount n l + kcount n l'.
Proof. unfold kcount. rewrite filter_app, app_length. reflexivity. Qed.

Lemma kcount_cons n f r : kcount n (f :: r) = (if str_eqb (sf_name f) n then 1 else 0) + kcount n r.
Proof. unfold kcount. cbn [filter]. destruct (str_eqb (sf_name f) n); reflexivity. Qed.

Lemma kcount_pos n l f : In f l -> sf_name f = n -> 1 <= kcount n l.
Proof.
  unfold kcount. induction l as [|g l IH]; intros Hin Hn; [destruct Hin|]. cbn [filter].
  destruct Hin as [->|Hin].
  - rewrite Hn, str_eqb_refl. cbn [length]. lia.
  - destruct (str_eqb (sf_name g) n); cbn [length]; [lia | apply IH; assumption].
Qed.

Lemma upsert_names acc f : forall n, In n (map sf_name (upsert acc f)) <-> In n (map sf_name acc) \/ n = sf_name f.
Proof.
  induction acc as [|g r IH]; intros n; cbn [upsert map In].
  - split; [intros [H|[]]; right; auto | intros [[]|H]; left; auto].
  - destruct (str_eqb_spec (sf_name g) (sf_name f)) as [He|Hne]; cbn [map In].
    + rewrite (leaf_merge_name g f He). split; [tauto|]. intros [[H|H]|H]; [left; exact H | right; exact H | left; congruence].
    + rewrite IH. tauto.
Qed.

Lemma upsert_nodup acc f : NoDup (map sf_name acc) -> NoDup (map sf_name (upsert acc f)).
Proof.
  induction acc as [|g r IH]; intros H; cbn [upsert map].
  - constructor; [intros [] | constructor].
  - inversion H as [|? ? Hn Hr]; subst.
    destruct (str_eqb_spec (sf_name g) (sf_name f)) as [He|Hne]; cbn [map].
    + rewrite (leaf_merge_name g f He). constructor; assumption.
    + constructor; [|apply IH; exact Hr]. intros Hin. apply upsert_names in Hin. destruct Hin as [Hin|Hin]; [exact (Hn Hin) | congruence].
Qed.

Lemma upsert_in acc f g : In g (upsert acc f) -> In g acc \/ g = f.
Proof.
  induction acc as [|h r IH]; cbn [upsert]; [intros [<-|[]]; right; reflexivity|].
  destruct (str_eqb (sf_name h) (sf_name f)).
  - intros [<-|Hin]; [destruct (leaf_merge_in h f) as [->| ->]; [left; left; reflexivity | right; reflexivity] | left; right; exact Hin].
  - intros [<-|Hin]; [left; left; reflexivity|]. destruct (IH Hin) as [H|H]; [left; right; exact H | right; exact H].
Qed.

(** a non-Empty field of a name survives, and a non-Empty leaf-like newcomer wins over an Empty *)
Lemma upsert_nonempty_keep acc f n :
  (exists g, In g acc /\ sf_name g = n /\ is_empty_f g = false) ->
  exists g, In g (upsert acc f) /\ sf_name g = n /\ is_empty_f g = false.
Proof.
  induction acc as [|h r IH]; intros [g [Hin [Hn He]]]; [destruct Hin|]. cbn [upsert].
  destruct (str_eqb_spec (sf_name h) (sf_name f)) as [Hc|Hc].
  - destruct Hin as [->|Hin].
    + exists (leaf_merge g f). split; [left; reflexivity|]. split; [rewrite leaf_merge_name; assumption|].
      destruct g, f; cbn in *; congruence.
    + exists g. split; [right; exact Hin | auto].
  - destruct Hin as [->|Hin]; [exists g; split; [left; reflexivity | auto]|].
    destruct (IH (ex_intro _ g (conj Hin (conj Hn He)))) as [g' [H1 H2]]. exists g'. split; [right; exact H1 | exact H2].
Qed.

Lemma upsert_nonempty_new acc f :
  is_empty_f f = false ->
  (forall g, In g acc -> sf_name g = sf_name f -> leaflike g = true /\ leaflike f = true) ->
  exists g, In g (upsert acc f) /\ sf_name g = sf_name f /\ is_empty_f g = false.
Proof.
  intros He. induction acc as [|h r IH]; intros Hl; cbn [upsert].
  - exists f. split; [left; reflexivity | auto].
  - destruct (str_eqb_spec (sf_name h) (sf_name f)) as [Hc|Hc].
    + destruct (Hl h (or_introl eq_refl) Hc) as [Hh Hf].
      exists (leaf_merge h f). split; [left; reflexivity|]. split; [rewrite leaf_merge_name; assumption|].
      destruct h, f; cbn in *; congruence.
    + destruct (IH (fun g Hg => Hl g (or_intror Hg))) as [g [H1 H2]]. exists g. split; [right; exact H1 | exact H2].
Qed.

Lemma merge_into_upsert mt acc f :
  (forall g, In g acc -> sf_name g = sf_name f -> leaflike g = true /\ leaflike f = true) ->
  merge_into mt acc f = Ok (upsert acc f).
Proof.
  induction acc as [|h r IH]; intros Hl; cbn [merge_into upsert]; [reflexivity|].
  destruct (str_eqb_spec (sf_name h) (sf_name f)) as [Hc|Hc].
  - destruct (Hl h (or_introl eq_refl) Hc) as [Hh Hf]. rewrite (merge_fields_leaflike mt h f Hc Hh Hf). reflexivity.
  - rewrite (IH (fun g Hg => Hl g (or_intror Hg))). reflexivity.
Qed.

Lemma kcount_upsert n acc f : kcount n (upsert acc f) <= kcount n acc + (if str_eqb (sf_name f) n then 1 else 0).
Proof.
  unfold kcount. induction acc as [|h r IH]; cbn [upsert filter].
  - destruct (str_eqb (sf_name f) n); cbn [length]; lia.
  - destruct (str_eqb_spec (sf_name h) (sf_name f)) as [Hc|Hc]; cbn [filter].
    + rewrite (leaf_merge_name h f Hc). destruct (str_eqb (sf_name h) n); cbn [length]; destruct (str_eqb (sf_name f) n); lia.
    + destruct (str_eqb (sf_name h) n); cbn [length]; lia.
Qed.

Lemma kcount_upsert_collide n acc f h :
  In h acc -> sf_name h = sf_name f -> kcount n (upsert acc f) <= kcount n acc.
Proof.
  unfold kcount. induction acc as [|g r IH]; intros Hin Hc; [destruct Hin|]. cbn [upsert filter].
  destruct (str_eqb_spec (sf_name g) (sf_name f)) as [Hg|Hg]; cbn [filter].
  - rewrite (leaf_merge_name g f Hg). destruct (str_eqb (sf_name g) n); cbn [length]; lia.
  - destruct Hin as [->|Hin]; [congruence|]. specialize (IH Hin Hc).
    destruct (str_eqb (sf_name g) n); cbn [length]; lia.
Qed.

(** the fold *)
Lemma deep_merge_dups mt : forall fs acc,
  dups_leaflike (acc ++ fs) ->
  fold_left (fun a f => let* a' := a in merge_into mt a' f) fs (Ok acc) = Ok (fold_left upsert fs acc).
Proof.
  induction fs as [|f r IH]; intros acc Hd; cbn [fold_left]; [reflexivity|]. cbn [bind].
  assert (Hl : forall g, In g acc -> sf_name g = sf_name f -> leaflike g = true /\ leaflike f = true).
  { intros g Hg Hn. destruct (Hd (sf_name f)) as [Hc|Hc].
    - exfalso. rewrite kcount_app in Hc. pose proof (kcount_pos (sf_name f) acc g Hg Hn).
      pose proof (kcount_pos (sf_name f) (f :: r) f (or_introl eq_refl) eq_refl). lia.
    - split; apply Hc; try assumption; try reflexivity; apply in_or_app; [left; exact Hg | right; left; reflexivity]. }
  rewrite (merge_into_upsert mt acc f Hl). apply IH.
  intros n. destruct (Hd n) as [Hc|Hc].
  - left. rewrite kcount_app in *. pose proof (kcount_upsert n acc f) as Hu. rewrite kcount_cons in Hc.
    destruct (str_eqb (sf_name f) n); lia.
  - right. intros g Hg Hn. apply in_app_or in Hg. destruct Hg as [Hg|Hg].
    + destruct (upsert_in acc f g Hg) as [Hg'| ->]; apply Hc; try assumption; apply in_or_app; [left; exact Hg' | right; left; reflexivity].
    + apply Hc; [apply in_or_app; right; right; exact Hg | exact Hn].
Qed.

Lemma deep_merge_leafdup mt fs : dups_leaflike fs -> deep_merge mt fs = Ok (merge_list fs).
Proof. intros H. unfold deep_merge, merge_list. apply (deep_merge_dups mt fs []). exact H. Qed.

(** properties of the merged list *)
Lemma fold_upsert_nodup : forall fs acc, NoDup (map sf_name acc) -> NoDup (map sf_name (fold_left upsert fs acc)).
Proof. induction fs as [|f r IH]; intros acc H; cbn [fold_left]; [exact H | apply IH; apply upsert_nodup; exact H]. Qed.

Lemma fold_upsert_in : forall fs acc g, In g (fold_left upsert fs acc) -> In g acc \/ In g fs.
Proof.
  induction fs as [|f r IH]; intros acc g H; cbn [fold_left] in H; [left; exact H|].
  destruct (IH _ _ H) as [H1|H1]; [|right; right; exact H1].
  destruct (upsert_in acc f g H1) as [H2| ->]; [left; exact H2 | right; left; reflexivity].
Qed.

Lemma fold_upsert_names : forall fs acc n,
  In n (map sf_name (fold_left upsert fs acc)) <-> In n (map sf_name acc) \/ In n (map sf_name fs).
Proof.
  induction fs as [|f r IH]; intros acc n; cbn [fold_left map In]; [tauto|].
  rewrite IH, upsert_names. split; [intros [[H|H]|H]; auto | intros [H|[H|H]]; auto].
Qed.

Lemma fold_upsert_nonempty : forall fs acc n,
  dups_leaflike (acc ++ fs) ->
  (exists g, In g (acc ++ fs) /\ sf_name g = n /\ is_empty_f g = false) ->
  exists g, In g (fold_left upsert fs acc) /\ sf_name g = n /\ is_empty_f g = false.
Proof.
  induction fs as [|f r IH]; intros acc n Hd [g [Hin [Hn He]]]; cbn [fold_left].
  - rewrite app_nil_r in Hin. exists g. auto.
  - assert (Hl : forall h, In h acc -> sf_name h = sf_name f -> leaflike h = true /\ leaflike f = true).
    { intros h Hh Hnn. destruct (Hd (sf_name f)) as [Hc|Hc].
      - exfalso. rewrite kcount_app in Hc. pose proof (kcount_pos (sf_name f) acc h Hh Hnn).
        pose proof (kcount_pos (sf_name f) (f :: r) f (or_introl eq_refl) eq_refl). lia.
      - split; apply Hc; try assumption; try reflexivity; apply in_or_app; [left; exact Hh | right; left; reflexivity]. }
    apply IH.
    + intros m. destruct (Hd m) as [Hc|Hc].
      * left. rewrite kcount_app in *. pose proof (kcount_upsert m acc f) as Hu. rewrite kcount_cons in Hc.
        destruct (str_eqb (sf_name f) m); lia.
      * right. intros h Hh Hm. apply in_app_or in Hh. destruct Hh as [Hh|Hh].
        -- destruct (upsert_in acc f h Hh) as [Hh'| ->]; apply Hc; try assumption; apply in_or_app; [left; exact Hh' | right; left; reflexivity].
        -- apply Hc; [apply in_or_app; right; right; exact Hh | exact Hm].
    + apply in_app_or in Hin. destruct Hin as [Hin|[->|Hin]].
      * destruct (upsert_nonempty_keep acc f n (ex_intro _ g (conj Hin (conj Hn He)))) as [g' [H1 H2]].
        exists g'. split; [apply in_or_app; left; exact H1 | exact H2].
      * destruct (upsert_nonempty_new acc g He Hl) as [g' [H1 [H2 H3]]].
        exists g'. split; [apply in_or_app; left; exact H1|]. split; [congruence | exact H3].
      * exists g. split; [apply in_or_app; right; exact Hin | auto].
Qed.

Lemma merge_list_spec fs : dups_leaflike fs ->
  NoDup (map sf_name (merge_list fs)) /\
  (forall g, In g (merge_list fs) -> In g fs) /\
  (forall n, In n (map sf_name (merge_list fs)) <-> In n (map sf_name fs)) /\
  (forall n, (exists g, In g fs /\ sf_name g = n /\ is_empty_f g = false) ->
             exists g, In g (merge_list fs) /\ sf_name g = n /\ is_empty_f g = false).
Proof.
  intros Hd. unfold merge_list. split; [apply fold_upsert_nodup; constructor|]. split.
  - intros g Hg. destruct (fold_upsert_in fs [] g Hg) as [[]|H]; exact H.
  - split.
    + intros n. rewrite fold_upsert_names. cbn [map In]. tauto.
    + intros n H. apply (fold_upsert_nonempty fs [] n); assumption.
Qed.

(** the branch record when repeated names are leaf-like *)
Lemma branch_step_dup rec_fields sels b br :
  branch_step rec_fields sels b = Ok br ->
  forall fs, rec_fields sels b = Ok fs -> dups_leaflike (un_of fs) -> dups_leaflike (al_of fs) ->
  br = mkBranch (o_name (b_obj b)) (merge_list (un_of fs)) (merge_list (al_of fs)).
Proof.
  intros H fs Hfs Hu Ha. unfold branch_step in H. rewrite Hfs in H. cbn [bind] in H.
  rewrite partition_un_al in H. unfold deep_merge_selection_tree in H.
  rewrite (deep_merge_leafdup merge_top _ Hu) in H. cbn [bind] in H.
  rewrite (deep_merge_leafdup merge_top _ Ha) in H. cbn [bind] in H. inversion H. reflexivity.
Qed.
