(** C01/C02 — the schema environment of Spec.v satisfies the hypotheses of TreeDen.tree_type_den:
    leaf types denote [scalar_den (sp_kind S n)], object declarations have the keys
    [__typename :: field names]. *)
From V Require Import Base.Util Gql.Ast Writer.Wop Ts.TsType Ts.TsDen C01.Model C01.Spec C01.TsLemmas C01.TreeDen C01.Proofs.

Lemma str_eqb_sym a b : str_eqb a b = str_eqb b a.
Proof.
  destruct (str_eqb_spec a b) as [->|Hn]; [symmetry; apply str_eqb_refl|].
  destruct (str_eqb_spec b a) as [->|_]; [congruence | reflexivity].
Qed.

Lemma sp_lookup_name S n d : sp_lookup S n = Some d -> sp_name d = n.
Proof.
  induction S as [|x r IH]; cbn [sp_lookup]; [discriminate|].
  destruct x; try exact IH.
  destruct (str_eqb_spec (sp_name t) n) as [He|_]; [intros H; inversion H; congruence | exact IH].
Qed.

Section EnvDen.
  Variable S : tsdoc.
  Let E := schema_env S.

  Definition sp_named (n : str) (v : val) : bool := scalar_den (sp_kind S n) v.
  Definition sp_leaf_ok (n : str) : bool :=
    match sp_kind S n with LString | LNumber | LBoolean | LAtom _ | LEnum _ => true | _ => false end.
  Definition sp_obj_keys (tn : str) : option (list str) :=
    match sp_lookup S tn with
    | Some (TDObject _ _ _ _ _ fs _) => Some (SP_TYPENAME :: map (fun f => iname (fd_name f)) fs)
    | _ => None
    end.
  Definition sp_obj_ok (tn : str) : bool := match sp_obj_keys tn with Some _ => true | None => false end.

  Lemma env_lookup n : env_ns3 E NS OUT n = match sp_lookup S n with Some d => decl_of S d | None => None end.
  Proof. reflexivity. Qed.

  Lemma in_type_raw r v : In_type E (TRaw r) v <-> raw_member r v = true.
  Proof.
    split.
    - intros [[|f] H]; [discriminate|]. cbn in H. inversion H. reflexivity.
    - intros H. exists 1. cbn. rewrite H. reflexivity.
  Qed.

  Lemma in_type_lits ms v :
    In_type E (TUnion (map TStrLit ms)) v <-> exists x, v = VStr x /\ smem x ms = true.
  Proof.
    rewrite in_type_union. split.
    - intros [t [Hin Ht]]. apply in_map_iff in Hin. destruct Hin as [m [<- Hm]].
      apply in_type_strlit in Ht. destruct Ht as [y [-> Hy]]. exists y. split; [reflexivity|].
      apply smem_In. destruct (str_eqb_spec m y) as [->|]; [exact Hm | discriminate].
    - intros [x [-> Hx]]. apply smem_In in Hx. exists (TStrLit x). split; [apply in_map; exact Hx|].
      apply in_type_strlit. exists x. split; [reflexivity | apply str_eqb_refl].
  Qed.

  Lemma raw_string v : raw_member (s "string") v = match v with VStr _ => true | _ => false end.
  Proof. reflexivity. Qed.
  Lemma raw_number v : raw_member (s "number") v = match v with VNum => true | _ => false end.
  Proof. reflexivity. Qed.
  Lemma raw_boolean v : raw_member (s "boolean") v = match v with VBool _ => true | _ => false end.
  Proof. reflexivity. Qed.
  Lemma raw_atom n v : raw_member (atom_of n) v = match v with VAtom a => str_eqb a (atom_of n) | _ => false end.
  Proof. reflexivity. Qed.

  Lemma sp_named_ok n v : sp_leaf_ok n = true ->
    (In_type E (TNs3 NS OPERATION_OUTPUT n) v <-> sp_named n v = true).
  Proof.
    unfold sp_leaf_ok, sp_named, sp_kind. intros Hok.
    destruct (sp_lookup S n) as [d|] eqn:Hl; [|discriminate].
    pose proof (sp_lookup_name S n d Hl) as Hn.
    assert (He : forall t, decl_of S d = Some t -> (In_type E (TNs3 NS OPERATION_OUTPUT n) v <-> In_type E t v)).
    { intros t Hd. apply in_type_ns3. change OPERATION_OUTPUT with OUT. rewrite env_lookup, Hl. exact Hd. }
    destruct d; try discriminate; unfold sp_name in Hn; cbn [typedef_name] in Hn.
    - (* scalar *)
      rewrite (He _ eq_refl). unfold scalar_ts. rewrite Hn.
      destruct (str_eqb n (s "String") || str_eqb n (s "ID")).
      { rewrite in_type_raw, raw_string. destruct v; reflexivity. }
      destruct (str_eqb n (s "Int") || str_eqb n (s "Float")).
      { rewrite in_type_raw, raw_number. destruct v; reflexivity. }
      destruct (str_eqb n (s "Boolean")).
      { rewrite in_type_raw, raw_boolean. destruct v; reflexivity. }
      rewrite in_type_raw, raw_atom. destruct v; reflexivity.
    - (* enum *)
      rewrite (He _ eq_refl). rewrite <- map_map. rewrite in_type_lits. cbn [scalar_den]. split.
      + intros [x [-> Hx]]. exact Hx.
      + intros H. destruct v; try discriminate. eexists. split; [reflexivity | exact H].
  Qed.

  Lemma sp_obj_ok_spec tn : sp_obj_ok tn = true ->
    exists ks f fs, sp_obj_keys tn = Some ks /\
                    TsDen.as_object E f (TNs3 NS OPERATION_OUTPUT tn) = Some fs /\ map f_key fs = ks.
  Proof.
    unfold sp_obj_ok, sp_obj_keys. destruct (sp_lookup S tn) as [d|] eqn:Hl; [|discriminate].
    destruct d; try discriminate. intros _.
    eexists. exists 2. eexists. split; [reflexivity|].
    change OPERATION_OUTPUT with OUT. cbn [TsDen.as_object]. rewrite env_lookup, Hl. cbn [decl_of].
    split; [reflexivity|]. cbn [map f_key]. rewrite map_map. reflexivity.
  Qed.

  (** to_ts.rs on the schema environment: the emitted type denotes exactly the tree *)
  Theorem emitted_type_den t v :
    leaves_ok sp_leaf_ok sp_obj_ok t = true ->
    (In_type E (generate_selection_tree_type NS t) v <-> tree_den sp_named sp_obj_keys t false v = true).
  Proof.
    apply (generate_selection_tree_type_den NS E sp_named sp_obj_keys sp_leaf_ok sp_named_ok sp_obj_ok sp_obj_ok_spec).
  Qed.
End EnvDen.
