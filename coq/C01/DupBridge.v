(** C01/C02 — repeated LEAF response keys, part 3: from the guard [keys_ok] on the flattened scope and
    the field list the model returns (FlatCore.pairs_ok) to the hypotheses of DupMain.dup_branch_eq about
    the MERGED field lists. *)
From V Require Import Base.Util Gql.Ast Writer.Wop Ts.TsType Ts.TsDen
     C01.Model C01.Spec C01.Guards C01.TsLemmas C01.TreeDen C01.Proofs C01.EnvDen C01.PlainBase C01.PlainCore
     C01.PlainMain C01.FlatCore C01.FlatSpec C01.FlatMain C01.DupCore C01.DupMain.
From Coq Require Import Permutation.

Lemma Permutation_filter' {A} (f : A -> bool) l l' : Permutation l l' -> Permutation (filter f l) (filter f l').
Proof.
  induction 1 as [| x l l' _ IH | x y l | l l' l'' _ IH1 _ IH2]; cbn [filter].
  - constructor.
  - destruct (f x); [constructor; exact IH | exact IH].
  - destruct (f x), (f y); try apply Permutation_refl. apply perm_swap.
  - eapply Permutation_trans; eauto.
Qed.

Definition fkey (it : fitem) : str := sel_key (fi_sel it).
Definition same_key (it : fitem) (L : list fitem) : list fitem := filter (fun it' => str_eqb (fkey it') (fkey it)) L.

(** [keys_ok] in propositional form *)
Lemma keys_ok_spec L : keys_ok L = true -> forall it, In it L ->
  same_key it L = [it] \/
  (2 <= length (same_key it L) /\
   forall it', In it' L -> fkey it' = fkey it ->
     sel_has_sub (fi_sel it') = false /\ sel_name (fi_sel it') = sel_name (fi_sel it) /\
     sel_aliased (fi_sel it') = sel_aliased (fi_sel it)).
Proof.
  unfold keys_ok. rewrite forallb_forall. intros H it Hin. specialize (H it Hin). cbv zeta in H.
  fold (fkey it) in H.
  assert (Hmem : In it (same_key it L)) by (apply filter_In; split; [exact Hin | apply str_eqb_refl]).
  change (filter (fun it' => str_eqb (sel_key (fi_sel it')) (fkey it)) L) with (same_key it L) in H.
  apply orb_true_iff in H. destruct H as [H|H].
  - left. apply Nat.eqb_eq in H. destruct (same_key it L) as [|a [|c r]]; try discriminate.
    destruct Hmem as [->|[]]. reflexivity.
  - destruct (same_key it L) as [|a [|c r]] eqn:Hs.
    + destruct Hmem.
    + left. destruct Hmem as [->|[]]. reflexivity.
    + right. split; [cbn [length]; lia|]. rewrite forallb_forall in H. intros it' Hin' Hk.
      assert (Hm' : In it' (a :: c :: r)) by (rewrite <- Hs; apply filter_In; split; [exact Hin' | rewrite Hk; apply str_eqb_refl]).
      specialize (H it' Hm'). apply andb_true_iff in H. destruct H as [H H3]. apply andb_true_iff in H. destruct H as [H1 H2].
      split; [destruct (sel_has_sub (fi_sel it')); [discriminate | reflexivity]|].
      split; [destruct (str_eqb_spec (sel_name (fi_sel it')) (sel_name (fi_sel it))); [assumption | discriminate]|].
      destruct (sel_aliased (fi_sel it')), (sel_aliased (fi_sel it)); try reflexivity; discriminate.
Qed.

Lemma count_pairs S F n b pf k : forall l fs, pairs_ok S F n b pf l fs ->
  length (filter (fun p : bool * sfield => str_eqb (sf_name (snd p)) k) fs) = length (filter (fun it => str_eqb (fkey it) k) l).
Proof.
  intros l fs H. unfold pairs_ok in H. induction H as [|it p l l' [_ Hf] _ IH]; [reflexivity|]. cbn [filter].
  rewrite (ifld_of_name _ _ _ _ _ Hf). fold (fkey it). destruct (str_eqb (fkey it) k); cbn [length]; rewrite IH; reflexivity.
Qed.

Lemma kcount_side_gen (side : bool) k : forall l : list (bool * sfield),
  kcount k (map snd (filter (fun p : bool * sfield => Bool.eqb (fst p) side) l))
  <= length (filter (fun p : bool * sfield => str_eqb (sf_name (snd p)) k) l).
Proof.
  unfold kcount. induction l as [|p r IH]; [cbn; lia|]. cbn [filter].
  destruct (Bool.eqb (fst p) side); cbn [map filter]; destruct (str_eqb (sf_name (snd p)) k); cbn [length]; lia.
Qed.

Section Bridge.
  Variable S : tsdoc.
  Variable F : list fragdef.
  Variable n : nat.
  Variable b : branch.
  Variable dfs : list fielddef.
  Let pf := fields_of dfs ++ [typename_meta].
  Variable L L' : list fitem.
  Variable fs : list (bool * sfield).
  Hypothesis Hperm : Permutation L' L.
  Hypothesis Hpairs : pairs_ok S F n b pf L' fs.
  Hypothesis Hkeys : keys_ok L = true.
  Let R := Rn S F n.

  Lemma in_L' it : In it L' <-> In it L.
  Proof. split; [apply Permutation_in; exact Hperm | apply Permutation_in; apply Permutation_sym; exact Hperm]. Qed.

  Lemma pair_of_item it : In it L -> exists p, In p fs /\ fst p = sel_aliased (fi_sel it) /\ ifld_of R b pf it (snd p).
  Proof. intros H. apply in_L' in H. destruct (Forall2_in_l _ _ _ _ Hpairs H) as [p [Hp [Ha Hf]]]. exists p. auto. Qed.

  Lemma item_of_pair p : In p fs -> exists it, In it L /\ fst p = sel_aliased (fi_sel it) /\ ifld_of R b pf it (snd p).
  Proof. intros H. destruct (Forall2_in_r _ _ _ _ Hpairs H) as [it [Hit [Ha Hf]]]. exists it. split; [apply in_L'; exact Hit | auto]. Qed.

  (** number of fields named [k] = number of items with key [k] *)
  Lemma count_fields k :
    length (filter (fun p : bool * sfield => str_eqb (sf_name (snd p)) k) fs) = length (filter (fun it => str_eqb (fkey it) k) L).
  Proof.
    rewrite <- (Permutation_length (Permutation_filter' (fun it => str_eqb (fkey it) k) _ _ Hperm)).
    apply (count_pairs S F n b pf k L' fs Hpairs).
  Qed.

  Lemma kcount_side (side : bool) k :
    kcount k (map snd (filter (fun p : bool * sfield => Bool.eqb (fst p) side) fs))
    <= length (filter (fun p : bool * sfield => str_eqb (sf_name (snd p)) k) fs).
  Proof. apply kcount_side_gen. Qed.

  Lemma un_of_side l : un_of l = map snd (filter (fun p : bool * sfield => Bool.eqb (fst p) false) l).
  Proof. unfold un_of. rewrite (filter_ext _ (fun p : bool * sfield => Bool.eqb (fst p) false)); [reflexivity|]. intros [[] f]; reflexivity. Qed.
  Lemma al_of_side l : al_of l = map snd (filter (fun p : bool * sfield => Bool.eqb (fst p) true) l).
  Proof. unfold al_of. rewrite (filter_ext _ (fun p : bool * sfield => Bool.eqb (fst p) true)); [reflexivity|]. intros [[] f]; reflexivity. Qed.

  Definition side_of (side : bool) : list sfield := map snd (filter (fun p : bool * sfield => Bool.eqb (fst p) side) fs).

  Lemma in_side side g : In g (side_of side) <-> exists p, In p fs /\ fst p = side /\ snd p = g.
  Proof.
    unfold side_of. rewrite in_map_iff. split.
    - intros [p [Hs Hin]]. apply filter_In in Hin. destruct Hin as [Hin Hb]. exists p. split; [exact Hin|]. split; [|exact Hs].
      destruct (fst p), side; try reflexivity; discriminate.
    - intros [p [Hin [Hb Hs]]]. exists p. split; [exact Hs|]. apply filter_In. split; [exact Hin|]. rewrite Hb. destruct side; reflexivity.
  Qed.

  Lemma ifld_leaflike it g : sel_has_sub (fi_sel it) = false -> ifld_of R b pf it g -> leaflike g = true.
  Proof.
    intros Hs H. inversion H as [He | f He Hg]; subst; [reflexivity|].
    inversion Hg; subst; try reflexivity. congruence.
  Qed.

  Lemma side_dups side : dups_leaflike (side_of side).
  Proof.
    intros k.
    destruct (existsb (fun g => str_eqb (sf_name g) k) (side_of side)) eqn:Hex.
    - apply existsb_exists in Hex. destruct Hex as [g [Hg Hk]].
      destruct (str_eqb_spec (sf_name g) k) as [Hk'|]; [|discriminate].
      apply in_side in Hg. destruct Hg as [p [Hp [Hb Hs]]].
      destruct (item_of_pair p Hp) as [it [Hit [Ha Hf]]].
      assert (Hkey : fkey it = k) by (unfold fkey; rewrite <- (ifld_of_name _ _ _ _ _ Hf), Hs; exact Hk').
      destruct (keys_ok_spec L Hkeys it Hit) as [Hone | [_ Hall]].
      + left. eapply Nat.le_trans; [apply kcount_side|]. rewrite count_fields. rewrite <- Hkey.
        change (filter (fun it0 => str_eqb (fkey it0) (fkey it)) L) with (same_key it L). rewrite Hone. cbn. lia.
      + right. intros g' Hg' Hk''. apply in_side in Hg'. destruct Hg' as [p' [Hp' [Hb' Hs']]].
        destruct (item_of_pair p' Hp') as [it' [Hit' [Ha' Hf']]].
        assert (Hkey' : fkey it' = fkey it) by (unfold fkey at 1; rewrite <- (ifld_of_name _ _ _ _ _ Hf'), Hs', Hk''; symmetry; exact Hkey).
        destruct (Hall it' Hit' Hkey') as [Hleaf _]. rewrite <- Hs'. eapply ifld_leaflike; eauto.
    - left. unfold kcount.
      assert (Hnil : filter (fun f => str_eqb (sf_name f) k) (side_of side) = []).
      { induction (side_of side) as [|g r IH]; [reflexivity|]. cbn [existsb] in Hex. apply orb_false_iff in Hex. destruct Hex as [H1 H2].
        cbn [filter]. rewrite H1. apply IH. exact H2. }
      rewrite Hnil. cbn. lia.
  Qed.

  (** the merged field lists, tagged again *)
  Definition merged : list (bool * sfield) :=
    map (fun g => (false, g)) (merge_list (un_of fs)) ++ map (fun g => (true, g)) (merge_list (al_of fs)).

  Lemma un_of_merged : un_of merged = merge_list (un_of fs).
  Proof.
    unfold merged, un_of. rewrite filter_app, map_app.
    assert (H1 : forall l : list sfield, map snd (filter (fun p : bool * sfield => negb (fst p)) (map (fun g => (false, g)) l)) = l)
      by (induction l as [|a l IH]; [reflexivity | cbn; rewrite IH; reflexivity]).
    assert (H2 : forall l : list sfield, map snd (filter (fun p : bool * sfield => negb (fst p)) (map (fun g => (true, g)) l)) = [])
      by (induction l as [|a l IH]; [reflexivity | cbn; exact IH]).
    rewrite H1, H2, app_nil_r. reflexivity.
  Qed.
  Lemma al_of_merged : al_of merged = merge_list (al_of fs).
  Proof.
    unfold merged, al_of. rewrite filter_app, map_app.
    assert (H1 : forall l : list sfield, map snd (filter (fun p : bool * sfield => fst p) (map (fun g => (true, g)) l)) = l)
      by (induction l as [|a l IH]; [reflexivity | cbn; rewrite IH; reflexivity]).
    assert (H2 : forall l : list sfield, map snd (filter (fun p : bool * sfield => fst p) (map (fun g => (false, g)) l)) = [])
      by (induction l as [|a l IH]; [reflexivity | cbn; exact IH]).
    rewrite H1, H2. reflexivity.
  Qed.

  Lemma in_merged p : In p merged <-> In (snd p) (merge_list (side_of (fst p))).
  Proof.
    unfold merged. rewrite in_app_iff, !in_map_iff. rewrite un_of_side, al_of_side. fold (side_of false). fold (side_of true).
    destruct p as [[] g]; cbn [fst snd]; split.
    - intros [[x [Hx _]]|[x [Hx Hin]]]; [discriminate | inversion Hx; subst; exact Hin].
    - intros H. right. exists g. split; [reflexivity | exact H].
    - intros [[x [Hx Hin]]|[x [Hx _]]]; [inversion Hx; subst; exact Hin | discriminate].
    - intros H. left. exists g. split; [reflexivity | exact H].
  Qed.

  (** the side (unaliased / aliased list) of a key *)
  Lemma key_side it it' : In it L -> In it' L -> fkey it' = fkey it -> sel_aliased (fi_sel it') = sel_aliased (fi_sel it).
  Proof.
    intros Hi Hi' Hk. destruct (keys_ok_spec L Hkeys it Hi) as [Hone | [_ Hall]].
    - assert (Hm : In it' (same_key it L)) by (apply filter_In; split; [exact Hi' | rewrite Hk; apply str_eqb_refl]).
      rewrite Hone in Hm. destruct Hm as [<-|[]]. reflexivity.
    - destruct (Hall it' Hi' Hk) as [_ [_ Ha]]. exact Ha.
  Qed.

  Lemma merged_nodup : NoDup (map (fun p : bool * sfield => sf_name (snd p)) merged).
  Proof.
    unfold merged. rewrite map_app, !map_map. cbn [snd].
    destruct (merge_list_spec _ (side_dups false)) as [Hn1 [Hin1 _]].
    destruct (merge_list_spec _ (side_dups true)) as [Hn2 [Hin2 _]].
    rewrite un_of_side, al_of_side. fold (side_of false). fold (side_of true).
    assert (Happ : forall (l1 l2 : list str), NoDup l1 -> NoDup l2 -> (forall x, In x l1 -> In x l2 -> False) -> NoDup (l1 ++ l2)).
    { induction l1 as [|a l1 IH]; intros l2 H1 H2 Hd; [exact H2|]. cbn [app]. inversion H1 as [|? ? Ha Hr]; subst.
      constructor.
      - intros Hin. apply in_app_or in Hin. destruct Hin as [Hin|Hin]; [exact (Ha Hin) | exact (Hd a (or_introl eq_refl) Hin)].
      - apply IH; [exact Hr | exact H2 | intros x Hx Hx'; apply (Hd x); [right; exact Hx | exact Hx']]. }
    apply Happ; [exact Hn1 | exact Hn2|].
    intros k Hk1 Hk2. apply in_map_iff in Hk1. destruct Hk1 as [g1 [Hg1 Hi1]]. apply in_map_iff in Hk2. destruct Hk2 as [g2 [Hg2 Hi2]].
    apply Hin1 in Hi1. apply Hin2 in Hi2. apply in_side in Hi1. apply in_side in Hi2.
    destruct Hi1 as [p1 [Hp1 [Hb1 Hs1]]]. destruct Hi2 as [p2 [Hp2 [Hb2 Hs2]]].
    destruct (item_of_pair p1 Hp1) as [it1 [Hit1 [Ha1 Hf1]]]. destruct (item_of_pair p2 Hp2) as [it2 [Hit2 [Ha2 Hf2]]].
    assert (Hk : fkey it2 = fkey it1).
    { unfold fkey. rewrite <- (ifld_of_name _ _ _ _ _ Hf1), <- (ifld_of_name _ _ _ _ _ Hf2), Hs1, Hs2. congruence. }
    pose proof (key_side it1 it2 Hit1 Hit2 Hk). congruence.
  Qed.

  Lemma nsfld_of_gfld (Rr : list selection -> gty -> stree -> Prop) x g :
    gfld_of Rr b pf x g -> inc b x = true -> nsfld Rr dfs x g.
  Proof.
    intros H Hi. inversion H; subst; [congruence | apply ns_typename; assumption | eapply ns_leaf; eauto | eapply ns_obj; eauto].
  Qed.

  Lemma nsfld_transfer (Rr : list selection -> gty -> stree -> Prop) x x' g :
    nsfld Rr dfs x g -> sel_key x' = sel_key x -> sel_name x' = sel_name x ->
    sel_has_sub x = false -> sel_has_sub x' = false -> nsfld Rr dfs x' g.
  Proof.
    intros H Hk Hn Hs Hs'. inversion H as [Htn | i fty Htn Hfind Hsub | i fty t Htn Hfind Hsub Hr]; subst.
    - rewrite <- Hk. apply ns_typename. rewrite Hn. exact Htn.
    - rewrite <- Hk. eapply ns_leaf; [rewrite Hn; exact Htn | rewrite Hn; exact Hfind | exact Hs'].
    - congruence.
  Qed.

  Lemma einc_nonempty it g : einc b it = true -> ifld_of R b pf it g -> is_empty_f g = false /\ nsfld R dfs (fi_sel it) g.
  Proof.
    intros Hi H. inversion H as [He | f He Hg]; subst; [congruence|].
    assert (Hinc : inc b (fi_sel it) = true) by (unfold einc in Hi; apply andb_true_iff in Hi; tauto).
    split; [|apply nsfld_of_gfld; assumption].
    inversion Hg; subst; try reflexivity. congruence.
  Qed.

  Definition ginc' (k : str) : bool := existsb (fun it => str_eqb (fkey it) k && einc b it) L.

  (** the merged field of a key *)
  Lemma merged_field p : In p merged ->
    exists it, In it L /\ sf_name (snd p) = fkey it /\ fst p = sel_aliased (fi_sel it) /\
               (if ginc' (fkey it) then nsfld R dfs (fi_sel it) (snd p) else snd p = SFEmpty (fkey it)).
  Proof.
    intros Hp. apply in_merged in Hp.
    destruct (merge_list_spec _ (side_dups (fst p))) as [Hnd [Hin [_ Hne]]].
    pose proof (Hin _ Hp) as Horig. apply in_side in Horig. destruct Horig as [p0 [Hp0 [Hb0 Hs0]]].
    destruct (item_of_pair p0 Hp0) as [it [Hit [Ha Hf]]].
    assert (Hname : sf_name (snd p) = fkey it) by (unfold fkey; rewrite <- (ifld_of_name _ _ _ _ _ Hf), Hs0; reflexivity).
    exists it. split; [exact Hit|]. split; [exact Hname|]. split; [congruence|].
    destruct (ginc' (fkey it)) eqn:Hg.
    - (* some item with this key is included: the merged field is not Empty *)
      unfold ginc' in Hg. apply existsb_exists in Hg. destruct Hg as [it2 [Hit2 Hc]]. apply andb_true_iff in Hc. destruct Hc as [Hk2 Hi2].
      destruct (str_eqb_spec (fkey it2) (fkey it)) as [Hk2'|]; [|discriminate].
      destruct (pair_of_item it2 Hit2) as [p2 [Hp2 [Ha2 Hf2]]].
      destruct (einc_nonempty it2 _ Hi2 Hf2) as [Hne2 Hns2].
      assert (Hside2 : fst p2 = fst p) by (rewrite Ha2, (key_side it it2 Hit Hit2 Hk2'); congruence).
      destruct (Hne (fkey it)) as [g' [Hg' [Hn' He']]].
      { exists (snd p2). split; [apply in_side; exists p2; auto|]. split; [|exact Hne2].
        rewrite (ifld_of_name _ _ _ _ _ Hf2). exact Hk2'. }
      assert (g' = snd p).
      { eapply (NoDup_map_inj sf_name); [exact Hnd | exact Hg' | exact Hp | congruence]. }
      subst g'.
      (* the original field equal to the merged one belongs to an included item *)
      assert (Hi : einc b it = true).
      { destruct (einc b it) eqn:Hq; [reflexivity|]. inversion Hf as [He | f He Hgf]; subst; [|congruence].
        rewrite <- Hs0 in He'. match goal with H : SFEmpty _ = snd p0 |- _ => rewrite <- H in He' end. discriminate. }
      rewrite <- Hs0. apply (einc_nonempty it _ Hi Hf).
    - (* no item with this key is included *)
      assert (Hi : einc b it = false).
      { destruct (einc b it) eqn:Hq; [|reflexivity]. exfalso.
        assert (ginc' (fkey it) = true) by (unfold ginc'; apply existsb_exists; exists it; split; [exact Hit | rewrite str_eqb_refl, Hq; reflexivity]).
        congruence. }
      inversion Hf as [He | f He Hgf]; subst; [|congruence]. rewrite <- Hs0.
      match goal with H : SFEmpty _ = snd p0 |- _ => rewrite <- H end. reflexivity.
  Qed.

  (** ... and every item has its merged field *)
  Lemma merged_of_item it : In it L ->
    exists p, In p merged /\ sf_name (snd p) = fkey it /\ fst p = sel_aliased (fi_sel it) /\
              (if ginc' (fkey it) then nsfld R dfs (fi_sel it) (snd p) else snd p = SFEmpty (fkey it)).
  Proof.
    intros Hit. destruct (pair_of_item it Hit) as [p0 [Hp0 [Ha0 Hf0]]].
    destruct (merge_list_spec _ (side_dups (fst p0))) as [_ [_ [Hnames _]]].
    assert (Hn : In (fkey it) (map sf_name (merge_list (side_of (fst p0))))).
    { apply Hnames. apply in_map_iff. exists (snd p0). split; [apply (ifld_of_name _ _ _ _ _ Hf0) | apply in_side; exists p0; auto]. }
    apply in_map_iff in Hn. destruct Hn as [g [Hg Hin]].
    assert (Hp : In (fst p0, g) merged) by (apply in_merged; exact Hin).
    destruct (merged_field _ Hp) as [it0 [Hit0 [Hname0 [Hside0 Hrel0]]]]. cbn [fst snd] in *.
    assert (Hk : fkey it0 = fkey it) by congruence.
    exists (fst p0, g). split; [exact Hp|]. cbn [fst snd]. split; [exact Hg|]. split; [exact Ha0|].
    rewrite Hk in Hrel0. destruct (ginc' (fkey it)); [|exact Hrel0].
    destruct (keys_ok_spec L Hkeys it Hit) as [Hone | [_ Hall]].
    - assert (Hm : In it0 (same_key it L)) by (apply filter_In; split; [exact Hit0 | rewrite Hk; apply str_eqb_refl]).
      rewrite Hone in Hm. destruct Hm as [<-|[]]. exact Hrel0.
    - destruct (Hall it0 Hit0 Hk) as [Hl0 [Hn0 _]]. destruct (Hall it Hit eq_refl) as [Hl _].
      eapply nsfld_transfer; [exact Hrel0 | symmetry; exact Hk | symmetry; exact Hn0 | exact Hl0 | exact Hl].
  Qed.

  (** the group hypothesis of dup_branch_eq *)
  Lemma grp_hyp it : In it L ->
    filter (fun it' => str_eqb (fkey it') (fkey it)) L = [it] \/
    (forall it', In it' L -> fkey it' = fkey it ->
       sel_has_sub (fi_sel it') = false /\ sel_name (fi_sel it') = sel_name (fi_sel it)).
  Proof.
    intros Hit. destruct (keys_ok_spec L Hkeys it Hit) as [Hone | [_ Hall]]; [left; exact Hone | right].
    intros it' Hi' Hk. destruct (Hall it' Hi' Hk) as [H1 [H2 _]]. auto.
  Qed.
End Bridge.
