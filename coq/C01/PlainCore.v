(** C01/C02 — the model's selection tree for a PLAIN selection set (fields only, pairwise distinct
    response keys, recursively; variables and literal conditions, aliases, __typename, any nesting of
    List/NonNull, object / interface / union parents) denotes exactly Ref_local.  Part 1: unfolding
    equations of the model and facts about one field. *)
From V Require Import Base.Util Gql.Ast Writer.Wop Ts.TsType Ts.TsDen
     C01.Model C01.Spec C01.Guards C01.TsLemmas C01.TreeDen C01.Proofs C01.EnvDen C01.PlainBase.

(** * the bodies of the two mutually recursive printer functions, with the recursive calls abstracted *)
Section Bodies.
  Variable S : tsdoc.
  Variable F : list fragdef.
  Variable rec_type : list selection -> gty -> res stree.
  Variable rec_fields : list selection -> branch -> res (list (bool * sfield)).

  Definition field_step (b : branch) (parent_fields : list (str * gty)) (x : selection)
    : res (list (bool * sfield)) :=
    match x with
    | SField alias name _ dirs sub =>
        let key := match alias with Some a => iname a | None => iname name end in
        let aliased := match alias with Some _ => true | None => false end in
        let* skipped := check_skip_directive b dirs in
        if skipped then Ok [(aliased, SFEmpty key)]
        else if str_eqb (iname name) TYPENAME then Ok [(aliased, SFLeaf key STRING_T)]
        else
          match find (fun p => str_eqb (fst p) (iname name)) parent_fields with
          | None => Err ETypeSystem
          | Some (_, fty) =>
              match sub with
              | None => Ok [(aliased, SFLeaf key fty)]
              | Some ss =>
                  let* t := rec_type (selset_sels ss) fty in
                  Ok [(aliased, SFObject key t)]
              end
          end
    | _ => Ok []
    end.

  Definition frag_step (b : branch) (x : selection) : res (list (bool * sfield)) :=
    match x with
    | SField _ _ _ _ _ => Ok []
    | SSpread _ n dirs =>
        match frag_get F (iname n) with
        | None => Err ETypeSystem
        | Some fd =>
            let* applies := check_fragment_condition S (b_obj b) (iname (fr_cond fd)) in
            if applies then
              let* fs := rec_fields (selset_sels (fr_sel fd)) b in
              let* skipped := check_skip_directive b dirs in
              Ok (if skipped then map to_empty fs else fs)
            else Ok []
        end
    | SInline _ None dirs ss =>
        let* fs := rec_fields (selset_sels ss) b in
        let* skipped := check_skip_directive b dirs in
        Ok (if skipped then map to_empty fs else fs)
    | SInline _ (Some c) dirs ss =>
        let* applies := check_fragment_condition S (b_obj b) (iname c) in
        if applies then
          let* fs := rec_fields (selset_sels ss) b in
          let* skipped := check_skip_directive b dirs in
          Ok (if skipped then map to_empty fs else fs)
        else Ok []
    end.

  Definition fields_body (sels : list selection) (b : branch) : res (list (bool * sfield)) :=
    match get_type S (o_name (b_obj b)) with
    | None => Err ETypeSystem
    | Some pdef =>
        match direct_fields pdef with
        | None => Err ETypeSystem
        | Some parent_fields =>
            let* simple := mapM (field_step b parent_fields) sels in
            let* frags := mapM (frag_step b) sels in
            Ok (concat simple ++ concat frags)
        end
    end.

  Definition branch_step (sels : list selection) (b : branch) : res sbranch :=
    let* fs := rec_fields sels b in
    let '(un, al) := partition_fields fs in
    let* un := deep_merge_selection_tree un in
    let* al := deep_merge_selection_tree al in
    Ok (mkBranch (o_name (b_obj b)) un al).

  Definition type_body (vfuel : nat) (sels : list selection) (t : gty) : res stree :=
    type_to_selection_tree t (fun parent =>
      let* branches := generate_branching_conditions vfuel S F sels parent in
      mapM (branch_step sels) branches).
End Bodies.

Lemma fields_for_S S F f sels b :
  fields_for_selection_set S F (Datatypes.S f) sels b =
  fields_body S F (type_for_selection_set S F f) (fields_for_selection_set S F f) sels b.
Proof. reflexivity. Qed.

Lemma type_for_S S F f sels t :
  type_for_selection_set S F (Datatypes.S f) sels t =
  type_body S F (fields_for_selection_set S F f) (Datatypes.S f) sels t.
Proof. reflexivity. Qed.

(** * mapM *)
Lemma mapM_Forall2 {A B} (f : A -> res B) l ys :
  mapM f l = Ok ys -> Forall2 (fun x y => f x = Ok y) l ys.
Proof.
  revert ys. induction l as [|x l IH]; intros ys H; cbn [mapM] in H.
  - inversion H. constructor.
  - destruct (f x) as [y|e] eqn:Hx; cbn [bind] in H; [|discriminate].
    destruct (mapM f l) as [ys'|e]; cbn [bind] in H; [|discriminate].
    inversion H. constructor; [exact Hx | apply IH; reflexivity].
Qed.

Lemma mapM_const_nil {A B} (f : A -> res (list B)) l :
  (forall x, In x l -> f x = Ok []) -> exists ys, mapM f l = Ok ys /\ concat ys = [].
Proof.
  induction l as [|x l IH]; intros H; cbn [mapM].
  - exists []. split; reflexivity.
  - rewrite (H x (or_introl eq_refl)). cbn [bind].
    destruct (IH (fun y Hy => H y (or_intror Hy))) as [ys [Hm Hc]]. rewrite Hm. cbn [bind].
    exists ([] :: ys). split; [reflexivity | exact Hc].
Qed.

(** * plain selection sets *)

Lemma plain_sel_sub x : plain_sel x = true -> sel_has_sub x = true -> plain_list (sel_sub x) = true.
Proof.
  destruct x as [alias name args ds [[p l]|] | |]; try discriminate. intros H _.
  cbn [plain_sel] in H. apply andb_true_iff in H. destruct H as [_ H].
  cbn [sel_sub selset_sels]. unfold plain_list.
  apply andb_true_iff in H. destruct H as [H1 H2]. rewrite H2, andb_true_r.
  clear H2. induction l as [|y r IH]; [reflexivity|]. cbn [forallb].
  apply andb_true_iff in H1. destruct H1 as [Ha Hb]. rewrite Ha. cbn [andb]. apply IH. exact Hb.
Qed.

Lemma get_type_sp_lookup S n : get_type S n = sp_lookup S n.
Proof. induction S as [|d r IH]; cbn [get_type sp_lookup]; [reflexivity|]. destruct d; try exact IH.
       unfold tname, sp_name. destruct (str_eqb (iname (typedef_name t)) n); [reflexivity | exact IH]. Qed.

(** * one branch of a plain selection set: the model side *)
Section BranchModel.
  Variable rec_type : list selection -> gty -> res stree.
  Variable b : branch.
  Variable pf : list (str * gty).

  Definition inc (x : selection) : bool := included (b_vars b) (sel_ds x).

  (** the field the model produces for a plain selection *)
  Inductive fld_of (x : selection) : sfield -> Prop :=
  | fld_skip : inc x = false -> fld_of x (SFEmpty (sel_key x))
  | fld_typename : inc x = true -> str_eqb (sel_name x) TYPENAME = true -> sel_aliased x = false ->
                   fld_of x (SFLeaf (sel_key x) STRING_T)
  | fld_leaf i fty : inc x = true -> str_eqb (sel_name x) TYPENAME = false ->
                   find (fun p => str_eqb (fst p) (sel_name x)) pf = Some (i, fty) -> sel_has_sub x = false ->
                   fld_of x (SFLeaf (sel_key x) fty)
  | fld_obj i fty t : inc x = true -> str_eqb (sel_name x) TYPENAME = false ->
                   find (fun p => str_eqb (fst p) (sel_name x)) pf = Some (i, fty) -> sel_has_sub x = true ->
                   rec_type (sel_sub x) fty = Ok t ->
                   fld_of x (SFObject (sel_key x) t).

  Lemma fld_of_name x f : fld_of x f -> sf_name f = sel_key x.
  Proof. destruct 1; reflexivity. Qed.

  Lemma field_step_plain x l :
    plain_sel x = true -> field_step rec_type b pf x = Ok l ->
    exists f, l = [(sel_aliased x, f)] /\ fld_of x f.
  Proof.
    destruct x as [alias name args ds sub | |]; try discriminate. intros Hp H.
    cbn [field_step] in H. cbv zeta in H.
    destruct (check_skip_directive b ds) as [sk|e] eqn:Hs; cbn [bind] in H; [|discriminate].
    pose proof (check_skip_included b ds sk Hs) as Hinc.
    assert (Hk : (match alias with Some a => iname a | None => iname name end) = sel_key (SField alias name args ds sub))
      by (destruct alias; reflexivity).
    assert (Ha : (match alias with Some _ => true | None => false end) = sel_aliased (SField alias name args ds sub))
      by (destruct alias; reflexivity).
    rewrite Hk, Ha in H.
    destruct sk.
    - inversion H. eexists. split; [reflexivity|]. apply fld_skip. unfold inc. cbn [sel_ds].
      destruct (included (b_vars b) ds); [discriminate | reflexivity].
    - assert (Hi : inc (SField alias name args ds sub) = true).
      { unfold inc. cbn [sel_ds]. destruct (included (b_vars b) ds); [reflexivity | discriminate]. }
      destruct (str_eqb (iname name) TYPENAME) eqn:Htn.
      + inversion H. eexists. split; [reflexivity|]. apply fld_typename; [exact Hi | exact Htn |].
        cbn [plain_sel] in Hp. destruct alias as [a|]; [|reflexivity].
        rewrite Htn in Hp. cbn [negb andb] in Hp. rewrite andb_false_r in Hp. discriminate.
      + destruct (find (fun p => str_eqb (fst p) (iname name)) pf) as [[i fty]|] eqn:Hf; [|discriminate].
        destruct sub as [ss|].
        * destruct (rec_type (selset_sels ss) fty) as [t|e] eqn:Hr; cbn [bind] in H; [|discriminate].
          inversion H. eexists. split; [reflexivity|].
          eapply fld_obj; [exact Hi | exact Htn | exact Hf | reflexivity | exact Hr].
        * inversion H. eexists. split; [reflexivity|].
          eapply fld_leaf; [exact Hi | exact Htn | exact Hf | reflexivity].
  Qed.

  Lemma simple_plain : forall sels ls,
    forallb plain_sel sels = true -> mapM (field_step rec_type b pf) sels = Ok ls ->
    exists fs, concat ls = fs /\ Forall2 (fun x p => fst p = sel_aliased x /\ fld_of x (snd p)) sels fs.
  Proof.
    induction sels as [|x r IH]; intros ls Hp H; cbn [mapM] in H.
    - inversion H. exists []. split; [reflexivity | constructor].
    - cbn [forallb] in Hp. apply andb_true_iff in Hp. destruct Hp as [Hx Hr].
      destruct (field_step rec_type b pf x) as [l|e] eqn:Hl; cbn [bind] in H; [|discriminate].
      destruct (mapM (field_step rec_type b pf) r) as [ls'|e] eqn:Hm; cbn [bind] in H; [|discriminate].
      inversion H. destruct (field_step_plain x l Hx Hl) as [f [-> Hf]].
      destruct (IH ls' Hr eq_refl) as [fs [Hc Hall]].
      exists ((sel_aliased x, f) :: fs). split; [cbn [concat app]; rewrite Hc; reflexivity|].
      constructor; [split; [reflexivity | exact Hf] | exact Hall].
  Qed.
End BranchModel.

Lemma frag_step_field S F rec_fields b x : plain_sel x = true -> frag_step S F rec_fields b x = Ok [].
Proof. destruct x; try discriminate. reflexivity. Qed.

(** the fields of a branch of a plain selection set *)
Lemma fields_body_plain S F rec_type rec_fields sels b fs :
  forallb plain_sel sels = true ->
  fields_body S F rec_type rec_fields sels b = Ok fs ->
  exists pdef pf, get_type S (o_name (b_obj b)) = Some pdef /\ direct_fields pdef = Some pf /\
    Forall2 (fun x p => fst p = sel_aliased x /\ fld_of rec_type b pf x (snd p)) sels fs.
Proof.
  intros Hp H. unfold fields_body in H.
  destruct (get_type S (o_name (b_obj b))) as [pdef|] eqn:Hg; [|discriminate].
  destruct (direct_fields pdef) as [pf|] eqn:Hd; [|discriminate].
  destruct (mapM (field_step rec_type b pf) sels) as [ls|e] eqn:Hm; cbn [bind] in H; [|discriminate].
  destruct (mapM_const_nil (frag_step S F rec_fields b) sels) as [ys [Hy Hc]].
  { intros x Hx. apply frag_step_field. rewrite forallb_forall in Hp. apply Hp. exact Hx. }
  rewrite Hy in H. cbn [bind] in H. rewrite Hc, app_nil_r in H. inversion H.
  destruct (simple_plain rec_type b pf sels ls Hp Hm) as [fs' [Hfs Hall]].
  exists pdef, pf. split; [reflexivity|]. split; [exact Hd|]. subst fs. rewrite Hfs. exact Hall.
Qed.

(** * the branch record and its denotation in terms of the field list *)
Definition un_of (fs : list (bool * sfield)) : list sfield := map snd (filter (fun p => negb (fst p)) fs).
Definition al_of (fs : list (bool * sfield)) : list sfield := map snd (filter (fun p => fst p) fs).

Lemma partition_un_al fs : partition_fields fs = (un_of fs, al_of fs).
Proof. reflexivity. Qed.

Lemma NoDup_map_filter {A B} (f : A -> B) (p : A -> bool) l : NoDup (map f l) -> NoDup (map f (filter p l)).
Proof.
  induction l as [|x l IH]; cbn [map filter]; intros H; [constructor|].
  inversion H as [|? ? Hn Hr]; subst. destruct (p x); cbn [map]; [|apply IH; exact Hr].
  constructor; [|apply IH; exact Hr]. intros Hin. apply Hn.
  apply in_map_iff in Hin. destruct Hin as [y [Hy Hin]]. apply filter_In in Hin. destruct Hin as [Hin _].
  apply in_map_iff. exists y. split; assumption.
Qed.

Lemma branch_step_plain rec_fields sels b br :
  branch_step rec_fields sels b = Ok br ->
  forall fs, rec_fields sels b = Ok fs -> NoDup (map (fun p => sf_name (snd p)) fs) ->
  br = mkBranch (o_name (b_obj b)) (un_of fs) (al_of fs).
Proof.
  intros H fs Hfs Hnd. unfold branch_step in H. rewrite Hfs in H. cbn [bind] in H.
  rewrite partition_un_al in H.
  unfold deep_merge_selection_tree in H.
  rewrite (deep_merge_nodup merge_top (un_of fs)) in H.
  2:{ unfold un_of. rewrite map_map. apply NoDup_map_filter. exact Hnd. }
  cbn [bind] in H.
  rewrite (deep_merge_nodup merge_top (al_of fs)) in H.
  2:{ unfold al_of. rewrite map_map. apply NoDup_map_filter. exact Hnd. }
  cbn [bind] in H. inversion H. reflexivity.
Qed.

Definition vis (ks : list str) (p : bool * sfield) : bool := fst p || key_in ks (snd p).

Lemma in_un_of fs f : In f (un_of fs) <-> exists p, In p fs /\ fst p = false /\ snd p = f.
Proof.
  unfold un_of. rewrite in_map_iff. split.
  - intros [p [Hs Hin]]. apply filter_In in Hin. destruct Hin as [Hin Hb]. exists p.
    split; [exact Hin|]. split; [destruct (fst p); [discriminate | reflexivity] | exact Hs].
  - intros [p [Hin [Hb Hs]]]. exists p. split; [exact Hs|]. apply filter_In. split; [exact Hin | rewrite Hb; reflexivity].
Qed.

Lemma in_al_of fs f : In f (al_of fs) <-> exists p, In p fs /\ fst p = true /\ snd p = f.
Proof.
  unfold al_of. rewrite in_map_iff. split.
  - intros [p [Hs Hin]]. apply filter_In in Hin. destruct Hin as [Hin Hb]. exists p. auto.
  - intros [p [Hin [Hb Hs]]]. exists p. split; [exact Hs|]. apply filter_In. split; assumption.
Qed.

Section BranchDen.
  Variable named : str -> val -> bool.
  Variable obj_keys : str -> option (list str).

  Lemma branch_den_char o fs ks kvs :
    obj_keys o = Some ks ->
    (branch_den named obj_keys (mkBranch o (un_of fs) (al_of fs)) (VObj kvs) = true <->
     nodup_keys (map fst kvs) = true /\
     (forall k, In k (map fst kvs) -> exists p, In p fs /\ vis ks p = true /\ sf_name (snd p) = k) /\
     (forall p, In p fs -> vis ks p = true -> field_den named obj_keys o (snd p) kvs = true)).
  Proof.
    intros Hk. cbn [branch_den]. rewrite Hk.
    assert (Hun : forall l,
      (fix go (l : list sfield) : bool :=
         match l with [] => true | f :: r => (negb (key_in ks f) || field_den named obj_keys o f kvs) && go r end) l = true
      <-> forall f, In f l -> key_in ks f = true -> field_den named obj_keys o f kvs = true).
    { induction l as [|f r IH]; [split; [intros _ f [] | reflexivity]|].
      rewrite andb_true_iff, IH. split.
      - intros [H1 H2] g [<-|Hg] Hv; [rewrite Hv in H1; exact H1 | apply H2; assumption].
      - intros H. split; [|intros g Hg; apply H; right; exact Hg].
        destruct (key_in ks f) eqn:Hv; [apply H; [left; reflexivity | exact Hv] | reflexivity]. }
    assert (Hal : forall l,
      (fix go (l : list sfield) : bool :=
         match l with [] => true | f :: r => field_den named obj_keys o f kvs && go r end) l = true
      <-> forall f, In f l -> field_den named obj_keys o f kvs = true).
    { induction l as [|f r IH]; [split; [intros _ f [] | reflexivity]|].
      rewrite andb_true_iff, IH. split.
      - intros [H1 H2] g [<-|Hg]; [exact H1 | apply H2; exact Hg].
      - intros H. split; [apply H; left; reflexivity | intros g Hg; apply H; right; exact Hg]. }
    rewrite !andb_true_iff, Hun, Hal, forallb_forall. split.
    - intros [[[Hnd Hcov] Hu] Ha]. split; [exact Hnd|]. split.
      + intros k Hin. specialize (Hcov k Hin). apply orb_true_iff in Hcov. destruct Hcov as [Hc|Hc].
        * apply existsb_exists in Hc. destruct Hc as [f [Hf Hc]]. apply andb_true_iff in Hc. destruct Hc as [Hv Hn].
          apply in_un_of in Hf. destruct Hf as [p [Hp [Hb Hs]]]. exists p. split; [exact Hp|]. subst f.
          split; [unfold vis; rewrite Hv; apply orb_true_r|]. destruct (str_eqb_spec (sf_name (snd p)) k); [assumption | discriminate].
        * apply existsb_exists in Hc. destruct Hc as [f [Hf Hn]].
          apply in_al_of in Hf. destruct Hf as [p [Hp [Hb Hs]]]. exists p. split; [exact Hp|]. subst f.
          split; [unfold vis; rewrite Hb; reflexivity|]. destruct (str_eqb_spec (sf_name (snd p)) k); [assumption | discriminate].
      + intros p Hp Hv. unfold vis in Hv. destruct (fst p) eqn:Hb.
        * apply Ha. apply in_al_of. exists p. auto.
        * cbn [orb] in Hv. apply Hu; [apply in_un_of; exists p; auto | exact Hv].
    - intros [Hnd [Hcov Hf]]. split; [split; [split; [exact Hnd|]|]|].
      + intros k Hin. destruct (Hcov k Hin) as [p [Hp [Hv Hn]]]. apply orb_true_iff.
        unfold vis in Hv. destruct (fst p) eqn:Hb.
        * right. apply existsb_exists. exists (snd p). split; [apply in_al_of; exists p; auto|].
          rewrite Hn. apply str_eqb_refl.
        * left. cbn [orb] in Hv. apply existsb_exists. exists (snd p). split; [apply in_un_of; exists p; auto|].
          rewrite Hv, Hn, str_eqb_refl. reflexivity.
      + intros f Hin Hv. apply in_un_of in Hin. destruct Hin as [p [Hp [Hb Hs]]]. subst f.
        apply Hf; [exact Hp | unfold vis; rewrite Hv; apply orb_true_r].
      + intros f Hin. apply in_al_of in Hin. destruct Hin as [p [Hp [Hb Hs]]]. subst f.
        apply Hf; [exact Hp | unfold vis; rewrite Hb; reflexivity].
  Qed.
End BranchDen.

(** * the specification side on a plain selection set *)
Definition entry_of (x : selection) : centry := mkCE (sel_key x) (sel_name x) (sel_sub x).

Lemma collect_plain S F incf o cf sels vis :
  forallb plain_sel sels = true ->
  collect S F incf o (Datatypes.S cf) sels vis = (map entry_of (filter (fun x => incf (sel_ds x)) sels), vis).
Proof.
  revert vis. induction sels as [|x r IH]; intros vis Hp; [reflexivity|].
  cbn [forallb] in Hp. apply andb_true_iff in Hp. destruct Hp as [Hx Hr].
  rewrite collect_cons.
  destruct x as [alias name args ds sub | |]; try discriminate.
  cbn [collect_sel filter sel_ds].
  destruct (incf ds); rewrite (IH vis Hr); cbn [map app].
  - unfold entry_of. destruct alias; destruct sub; reflexivity.
  - reflexivity.
Qed.

Lemma keys_of_nodup es : NoDup (map ce_key es) -> keys_of es = map ce_key es.
Proof.
  unfold keys_of.
  assert (H : forall seen, NoDup (map ce_key es) -> (forall k, In k seen -> ~ In k (map ce_key es)) ->
    (fix go (seen : list str) (l : list centry) : list str :=
       match l with
       | [] => []
       | e :: r => if smem (ce_key e) seen then go seen r else ce_key e :: go (ce_key e :: seen) r
       end) seen es = map ce_key es).
  { induction es as [|e r IH]; intros seen Hnd Hs; [reflexivity|]. cbn [map] in *.
    inversion Hnd as [|? ? Hn Hr]; subst.
    destruct (smem (ce_key e) seen) eqn:Hm.
    - exfalso. apply smem_In in Hm. apply (Hs _ Hm). left. reflexivity.
    - f_equal. apply IH; [exact Hr|]. intros k [<-|Hk]; [exact Hn|]. intros Hin. apply (Hs k Hk). right. exact Hin. }
  intros Hnd. apply H; [exact Hnd | intros k []].
Qed.

Lemma group_unique es e :
  NoDup (map ce_key es) -> In e es -> group es (ce_key e) = [e].
Proof.
  unfold group. induction es as [|e' r IH]; intros Hnd Hin; [destruct Hin|].
  cbn [map] in Hnd. inversion Hnd as [|? ? Hn Hr]; subst. cbn [filter].
  destruct Hin as [->|Hin].
  - rewrite str_eqb_refl. f_equal.
    assert (Hf : forall l, ~ In (ce_key e) (map ce_key l) -> filter (fun e0 => str_eqb (ce_key e0) (ce_key e)) l = []).
    { induction l as [|y l IHl]; intros Hy; [reflexivity|]. cbn [filter map] in *.
      destruct (str_eqb_spec (ce_key y) (ce_key e)) as [He|_]; [exfalso; apply Hy; left; exact He|].
      apply IHl. intros H; apply Hy; right; exact H. }
    apply Hf. exact Hn.
  - destruct (str_eqb_spec (ce_key e') (ce_key e)) as [He|_].
    + exfalso. apply Hn. rewrite He. apply in_map. exact Hin.
    + apply IH; assumption.
Qed.

(** * association lists *)
Lemma assoc_in_keys {A} k (kvs : list (str * A)) : In k (map fst kvs) <-> exists v, assoc k kvs = Some v.
Proof.
  induction kvs as [|[k' v'] r IH]; cbn [map assoc In fst].
  - split; [intros [] | intros [v H]; discriminate].
  - destruct (str_eqb_spec k k') as [->|Hn].
    + split; [intros _; exists v'; reflexivity | intros _; left; reflexivity].
    + rewrite <- IH. split; [intros [H|H]; [congruence | exact H] | intros H; right; exact H].
Qed.

Lemma assoc_in {A} k (v : A) kvs : assoc k kvs = Some v -> In (k, v) kvs.
Proof.
  induction kvs as [|[k' v'] r IH]; cbn [assoc]; [discriminate|].
  destruct (str_eqb_spec k k') as [->|Hn]; [intros H; inversion H; left; reflexivity | intros H; right; apply IH; exact H].
Qed.

Lemma in_assoc_nodup {A} k (v : A) kvs : NoDup (map fst kvs) -> In (k, v) kvs -> assoc k kvs = Some v.
Proof.
  induction kvs as [|[k' v'] r IH]; cbn [map fst assoc]; intros Hnd Hin; [destruct Hin|].
  inversion Hnd as [|? ? Hn Hr]; subst. destruct Hin as [He|Hin].
  - inversion He; subst. rewrite str_eqb_refl. reflexivity.
  - destruct (str_eqb_spec k k') as [->|_]; [|apply IH; assumption].
    exfalso. apply Hn. apply in_map_iff. exists (k', v). split; [reflexivity | exact Hin].
Qed.

Lemma same_keys_spec a b : same_keys a b = true <-> (forall k, In k a -> In k b) /\ (forall k, In k b -> In k a).
Proof.
  unfold same_keys. rewrite andb_true_iff, !forallb_forall. split.
  - intros [H1 H2]. split; intros k Hk; apply smem_In; auto.
  - intros [H1 H2]. split; intros k Hk; apply smem_In; auto.
Qed.

(** * the object definition behind a branch *)
Lemma find_fields_of fs name i fty :
  find (fun p : str * gty => str_eqb (fst p) name) (fields_of fs ++ [typename_meta]) = Some (i, fty) ->
  str_eqb name TYPENAME = false ->
  exists fd, find (fun f => str_eqb (iname (fd_name f)) name) fs = Some fd /\ fty = gty_of (fd_type fd)
             /\ In (iname (fd_name fd)) (map (fun f => iname (fd_name f)) fs) /\ iname (fd_name fd) = name.
Proof.
  intros H Htn. induction fs as [|fd r IH]; cbn [fields_of map app find fst] in H.
  - unfold typename_meta in H. cbn [fst] in H. rewrite str_eqb_sym, Htn in H. discriminate.
  - cbn [find]. destruct (str_eqb_spec (iname (fd_name fd)) name) as [He|Hn].
    + inversion H. exists fd. split; [reflexivity|]. split; [reflexivity|]. split; [left; reflexivity | exact He].
    + destruct (IH H) as [fd' [H1 [H2 [H3 H4]]]]. exists fd'. split; [exact H1|]. split; [exact H2|].
      split; [right; exact H3 | exact H4].
Qed.

Lemma key_in_In ks f : key_in ks f = true <-> In (sf_name f) ks.
Proof.
  unfold key_in. rewrite existsb_exists. split.
  - intros [k [Hk He]]. destruct (str_eqb_spec k (sf_name f)) as [<-|]; [exact Hk | discriminate].
  - intros H. exists (sf_name f). split; [exact H | apply str_eqb_refl].
Qed.

Lemma sp_named_null S n : sp_named S n VNull = false.
Proof. unfold sp_named. destruct (sp_kind S n); reflexivity. Qed.
