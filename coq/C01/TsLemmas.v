(** Lemmas about the shared TS denotation decider [Ts/TsDen.v has_type_b] used by the C01/C02
    proofs: more fuel never changes a defined answer, hence [In_type] composes over the type
    constructors the result-type generator emits. *)
From V Require Import Base.Util Gql.Ast Writer.Wop Ts.TsType Ts.TsDen.

(** information order on three-valued answers *)
Definition ole (a b : option bool) : Prop := forall x, a = Some x -> b = Some x.

Lemma ole_refl a : ole a a.
Proof. intros x H; exact H. Qed.

Lemma obool_and_mono a a' c c' : ole a a' -> ole c c' -> ole (obool_and a c) (obool_and a' c').
Proof.
  intros Ha Hc x.
  destruct a as [[]|]; destruct c as [[]|]; cbn; intros H; inversion H; subst;
    try rewrite (Ha _ eq_refl); try rewrite (Hc _ eq_refl); try reflexivity;
    destruct a' as [[]|]; destruct c' as [[]|]; reflexivity.
Qed.

Lemma obool_or_mono a a' c c' : ole a a' -> ole c c' -> ole (obool_or a c) (obool_or a' c').
Proof.
  intros Ha Hc x.
  destruct a as [[]|]; destruct c as [[]|]; cbn; intros H; inversion H; subst;
    try rewrite (Ha _ eq_refl); try rewrite (Hc _ eq_refl); try reflexivity;
    destruct a' as [[]|]; destruct c' as [[]|]; reflexivity.
Qed.

Section Step.
  Variable E : tsenv.

  Definition fields_ok_with (rec : tstype -> val -> option bool) (fs : list tsfield) (kvs : list (str * val))
    : option bool :=
    fold_right (fun f acc =>
      obool_and
        (match assoc (f_key f) kvs with
         | Some x => if f_optional f then obool_or (rec (f_ty f) x) (Some (match x with VUndef => true | _ => false end))
                     else rec (f_ty f) x
         | None => Some (f_optional f)
         end) acc) (Some true) fs.

  (** the body of [has_type_b] at fuel [S f], with the recursive calls abstracted *)
  Definition ht_step (rec : tstype -> val -> option bool) (aso : tstype -> option (list tsfield))
             (t : tstype) (v : val) : option bool :=
    match t with
    | TVar n _ =>
        match env_var E n with
        | Some t' => rec t' v
        | None => Some (raw_member n v)
        end
    | TNs a b => match env_ns2 E a b with Some t' => rec t' v | None => None end
    | TNs3 a b c => match env_ns3 E a b c with Some t' => rec t' v | None => None end
    | TStrLit x => Some (match v with VStr y => str_eqb x y | _ => false end)
    | TRaw r => Some (raw_member r v)
    | TNull => Some (match v with VNull => true | _ => false end)
    | TUndefined => Some (match v with VUndef => true | _ => false end)
    | TNever => Some false
    | TUnknown => Some true
    | TArray x | TRoArray x =>
        match v with
        | VList l => fold_right (fun e acc => obool_and (rec x e) acc) (Some true) l
        | _ => Some false
        end
    | TUnion ts => fold_right (fun x acc => obool_or (rec x v) acc) (Some false) ts
    | TObject fs =>
        match v with
        | VObj kvs =>
            if nodup_keys (map fst kvs)
               && forallb (fun k => existsb (fun f => str_eqb (f_key f) k) fs) (map fst kvs)
            then fields_ok_with rec fs kvs else Some false
        | _ => Some false
        end
    | TFunc (TNs _ fn) [orig; TObject obj; TObject others] =>
        if str_eqb fn SELSET then
          match aso orig, v with
          | Some ofs, VObj kvs =>
              let picked := filter (fun f => existsb (fun g => str_eqb (f_key g) (f_key f)) ofs) obj in
              let all := picked ++ others in
              if nodup_keys (map fst kvs)
                 && forallb (fun k => existsb (fun f => str_eqb (f_key f) k) all) (map fst kvs)
              then fields_ok_with rec all kvs else Some false
          | Some _, _ => Some false
          | None, _ => None
          end
        else None
    | TInter ts =>
        match v with
        | VObj kvs =>
            let members := map aso ts in
            if forallb (fun m => match m with Some _ => true | None => false end) members then
              let all := flat_map (fun m => match m with Some fs => fs | None => [] end) members in
              if nodup_keys (map fst kvs)
                 && forallb (fun k => existsb (fun f => str_eqb (f_key f) k) all) (map fst kvs)
              then fields_ok_with rec all kvs else Some false
            else None
        | _ => fold_right (fun x acc => obool_and (rec x v) acc) (Some true) ts
        end
    | TFunc _ _ => None
    end.

  Lemma has_type_b_S f t v :
    has_type_b E (S f) t v = ht_step (has_type_b E f) (as_object E f) t v.
  Proof. reflexivity. Qed.

  Lemma as_object_mono f t fs : as_object E f t = Some fs -> as_object E (S f) t = Some fs.
  Proof.
    revert t. induction f as [|f IH]; intros t H; [discriminate|].
    cbn [as_object] in H. change (as_object E (S (S f)) t) with
      (match t with
       | TObject fs => Some fs
       | TVar n _ => match env_var E n with Some t' => as_object E (S f) t' | None => None end
       | TNs a b => match env_ns2 E a b with Some t' => as_object E (S f) t' | None => None end
       | TNs3 a b c => match env_ns3 E a b c with Some t' => as_object E (S f) t' | None => None end
       | _ => None
       end).
    destruct t; try discriminate; try exact H.
    - destruct (env_var E name); [apply IH; exact H | discriminate].
    - destruct (env_ns2 E ns key); [apply IH; exact H | discriminate].
    - destruct (env_ns3 E ns k1 k2); [apply IH; exact H | discriminate].
  Qed.

  Lemma fold_and_mono {A} (r r' : A -> option bool) (l : list A) :
    (forall e, ole (r e) (r' e)) ->
    ole (fold_right (fun e acc => obool_and (r e) acc) (Some true) l)
        (fold_right (fun e acc => obool_and (r' e) acc) (Some true) l).
  Proof.
    intros H. induction l as [|e l IH]; cbn [fold_right]; [apply ole_refl|].
    apply obool_and_mono; [apply H | exact IH].
  Qed.

  Lemma fold_or_mono {A} (r r' : A -> option bool) (l : list A) :
    (forall e, ole (r e) (r' e)) ->
    ole (fold_right (fun e acc => obool_or (r e) acc) (Some false) l)
        (fold_right (fun e acc => obool_or (r' e) acc) (Some false) l).
  Proof.
    intros H. induction l as [|e l IH]; cbn [fold_right]; [apply ole_refl|].
    apply obool_or_mono; [apply H | exact IH].
  Qed.

  Lemma fields_ok_mono (rec rec' : tstype -> val -> option bool) fs kvs :
    (forall t v, ole (rec t v) (rec' t v)) ->
    ole (fields_ok_with rec fs kvs) (fields_ok_with rec' fs kvs).
  Proof.
    intros H. unfold fields_ok_with. induction fs as [|f fs IH]; cbn [fold_right]; [apply ole_refl|].
    apply obool_and_mono; [|exact IH].
    destruct (assoc (f_key f) kvs) as [x|]; [|apply ole_refl].
    destruct (f_optional f); [|apply H].
    apply obool_or_mono; [apply H | apply ole_refl].
  Qed.

  Lemma ht_step_mono (rec rec' : tstype -> val -> option bool) (aso aso' : tstype -> option (list tsfield)) :
    (forall t v, ole (rec t v) (rec' t v)) ->
    (forall t fs, aso t = Some fs -> aso' t = Some fs) ->
    forall t v, ole (ht_step rec aso t v) (ht_step rec' aso' t v).
  Proof.
    intros Hr Ha t v. destruct t; cbn [ht_step]; try apply ole_refl.
    - destruct (env_var E name); [apply Hr | apply ole_refl].
    - (* TFunc *)
      destruct t; try apply ole_refl.
      destruct args as [|orig [|o1 [|o2 [|? ?]]]]; try apply ole_refl.
      destruct o1; try apply ole_refl. destruct o2; try apply ole_refl.
      destruct (str_eqb key SELSET); [|apply ole_refl].
      destruct (aso orig) as [ofs|] eqn:Ho.
      + rewrite (Ha _ _ Ho). destruct v; try apply ole_refl.
        match goal with |- context [if ?c then _ else _] => destruct c end; [|apply ole_refl].
        apply fields_ok_mono. exact Hr.
      + intros x Hx. destruct v; discriminate.
    - destruct (env_ns2 E ns key); [apply Hr | apply ole_refl].
    - destruct (env_ns3 E ns k1 k2); [apply Hr | apply ole_refl].
    - destruct v; try apply ole_refl.
      match goal with |- context [if ?c then _ else _] => destruct c end; [|apply ole_refl].
      apply fields_ok_mono. exact Hr.
    - destruct v; try apply ole_refl. apply fold_and_mono. intros e. apply Hr.
    - destruct v; try apply ole_refl. apply fold_and_mono. intros e. apply Hr.
    - apply fold_or_mono. intros e. apply Hr.
    - (* TInter *)
      destruct v; try (apply fold_and_mono; intros e; apply Hr).
      destruct (forallb (fun m => match m with Some _ => true | None => false end) (map aso ts)) eqn:Hall.
      + assert (Hm : map aso' ts = map aso ts).
        { rewrite forallb_forall in Hall. apply map_ext_in. intros a Hin.
          specialize (Hall (aso a) (in_map aso ts a Hin)).
          destruct (aso a) eqn:Hq; [|discriminate]. apply Ha. exact Hq. }
        rewrite Hm. rewrite Hall.
        match goal with |- context [if ?c then _ else _] => destruct c end; [|apply ole_refl].
        apply fields_ok_mono. exact Hr.
      + intros x Hx. discriminate.
  Qed.

  Lemma has_type_b_mono : forall f t v, ole (has_type_b E f t v) (has_type_b E (S f) t v).
  Proof.
    induction f as [|f IH]; intros t v.
    - intros x H. discriminate.
    - rewrite (has_type_b_S (S f)), (has_type_b_S f).
      apply ht_step_mono; [exact IH | apply as_object_mono].
  Qed.

  Lemma has_type_b_le f f' t v b : f <= f' -> has_type_b E f t v = Some b -> has_type_b E f' t v = Some b.
  Proof.
    induction 1 as [|f' Hle IH]; intros H; [exact H|].
    apply has_type_b_mono. apply IH. exact H.
  Qed.

  (** a defined negative answer excludes membership at every fuel *)
  Lemma not_in_type f t v : has_type_b E f t v = Some false -> ~ In_type E t v.
  Proof.
    intros H [f' H']. destruct (Nat.le_ge_cases f f') as [Hle|Hle].
    - rewrite (has_type_b_le _ _ _ _ _ Hle H) in H'. discriminate.
    - rewrite (has_type_b_le _ _ _ _ _ Hle H') in H. discriminate.
  Qed.
End Step.
