(** C01/C02 — the partial theorems for definitions whose repeated response keys are LEAF keys
    ([guard_merge_free_ld]): the TypeScript type the model emits admits exactly Ref_local. *)
From V Require Import Base.Util Gql.Ast Writer.Wop Ts.TsType Ts.TsDen
     C01.Model C01.Spec C01.Guards C01.Corr C01.Witness C01.TsLemmas C01.TreeDen C01.Proofs C01.EnvDen C01.PlainBase C01.PlainCore
     C01.PlainMain C01.PlainSchema C01.PlainThm C01.PlainFinal C01.FlatCore C01.FlatSpec C01.FlatMain C01.FlatThm
     C01.DupCore C01.DupMain C01.DupBridge C01.DupThm C01.Refuted.

Theorem emit_eq_ref_local_merge_free_ld : forall S D d T sels t v,
  nodup_types S = true ->
  def_target S d = Some (T, sels) ->
  guard_merge_free_ld S D d = true ->
  emit_type default_options S D d = Ok t ->
  (forall tree, def_tree S D d = Ok tree -> tree_ok S tree = true) ->
  json v = true ->
  (In_type (schema_env S) t v <-> exists f, ref_local_b S (sp_frags D) (doc_fuel D) f T sels v = true).
Proof.
  intros S D d T sels t v Hnd Htgt Hguard Hemit Hok Hj.
  unfold guard_merge_free_ld in Hguard. rewrite Htgt in Hguard. apply andb_true_iff in Hguard. destruct Hguard as [HF Hmf].
  unfold emit_type in Hemit. destruct (def_tree S D d) as [tree|e] eqn:Htree; cbn [bind] in Hemit; [|discriminate].
  inversion Hemit. subst t. specialize (Hok tree eq_refl).
  assert (Hcf : exists cf, doc_fuel D = Datatypes.S cf).
  { unfold doc_fuel. rewrite Nat.add_comm. eexists. reflexivity. }
  destruct Hcf as [cf Hcf]. rewrite Hcf in *.
  rewrite (emitted_type_den S tree v Hok).
  assert (Hcore : forall n, type_for_selection_set S (sp_frags D) n sels (GNonNull (GNamed T)) = Ok tree ->
            (tree_den (sp_named S) (sp_obj_keys S) tree false v = true <->
             exists f, ref_local_b S (sp_frags D) (Datatypes.S cf) f T sels v = true)).
  { intros n Ht.
    destruct (merge_free_ld_tree_den_all S (sp_frags D) cf Hnd HF n (Datatypes.S cf) sels (TNonNull (TNamed (mkId T pos0))) tree Hmf Ht Hok)
      as [_ H].
    rewrite (H v Hj). unfold ref_local_b. split.
    - intros [f Hf]. exists f. unfold complete in Hf. cbn [complete_nn iname] in Hf.
      apply andb_true_iff in Hf. destruct Hf as [_ Hf]. exact Hf.
    - intros [f Hf]. exists f. unfold complete. cbn [complete_nn iname]. rewrite Hf.
      destruct v; try reflexivity. destruct f; discriminate. }
  destruct d as [o | fd | i]; cbn [def_target] in Htgt; [| |discriminate]; inversion Htgt; subst T sels;
    cbn [def_tree] in Htree.
  - unfold operation_tree in Htree. rewrite root_type_sp_root, Hcf in Htree. exact (Hcore _ Htree).
  - unfold fragment_tree in Htree. rewrite Hcf in Htree. exact (Hcore _ Htree).
Qed.

Theorem response_admitted_merge_free_ld : forall S D d T sels t sg f v,
  nodup_types S = true -> def_target S d = Some (T, sels) -> guard_merge_free_ld S D d = true ->
  emit_type default_options S D d = Ok t ->
  (forall tree, def_tree S D d = Ok tree -> tree_ok S tree = true) ->
  json v = true ->
  exec_b S (sp_frags D) (doc_fuel D) sg f T sels v = true ->
  In_type (schema_env S) t v.
Proof.
  intros S D d T sels t sg f v Hnd Htgt Hg Hemit Hok Hj He.
  apply (emit_eq_ref_local_merge_free_ld S D d T sels t v Hnd Htgt Hg Hemit Hok Hj).
  exists f. apply exec_in_ref_local with (sg := sg). exact He.
Qed.

Theorem not_looser_merge_free_ld : forall S D d T sels t v,
  nodup_types S = true -> def_target S d = Some (T, sels) -> guard_merge_free_ld S D d = true ->
  emit_type default_options S D d = Ok t ->
  (forall tree, def_tree S D d = Ok tree -> tree_ok S tree = true) ->
  json v = true ->
  In_type (schema_env S) t v ->
  exists f, ref_local_b S (sp_frags D) (doc_fuel D) f T sels v = true.
Proof.
  intros S D d T sels t v Hnd Htgt Hg Hemit Hok Hj H.
  apply (emit_eq_ref_local_merge_free_ld S D d T sels t v Hnd Htgt Hg Hemit Hok Hj). exact H.
Qed.

(** non-vacuity: `a { x @skip(if: true) x y @include(if: false) }` repeats the leaf key [x]: it satisfies
    this guard and not [guard_merge_free] *)
Example merge_free_ld_guards_satisfiable :
  nodup_types w_schema = true /\
  guard_merge_free_ld w_schema w_lit (first_def w_lit) = true /\
  guard_merge_free w_schema w_lit (first_def w_lit) = false /\
  (exists tree, def_tree w_schema w_lit (first_def w_lit) = Ok tree /\ tree_ok w_schema tree = true) /\
  exists v, json v = true /\
            exec_b w_schema (sp_frags w_lit) 8 [] 8 (s "Query") (sels_of w_lit) v = true.
Proof.
  split; [vm_compute; reflexivity|]. split; [vm_compute; reflexivity|]. split; [vm_compute; reflexivity|].
  split; [eexists; split; vm_compute; reflexivity|].
  exists (VObj [(s "a", VObj [(s "x", VNum)])]).
  split; vm_compute; reflexivity.
Qed.
