(** C01/C02 — proofs about the specification side (Spec.v): Execute_spec is contained in Ref_local
    ([exec_in_ref_local]), for every schema, document, selection set, assignment and value, with
    fragments, inline fragments and variables — no bound. *)
From V Require Import Base.Util Gql.Ast Writer.Wop Ts.TsType Ts.TsDen C01.Spec.

(** * small facts *)

Lemma smem_In x l : smem x l = true <-> In x l.
Proof.
  unfold smem. rewrite existsb_exists. split.
  - intros [y [Hy He]]. destruct (str_eqb_spec x y); [subst; assumption | discriminate].
  - intros H. exists x. split; [assumption | apply str_eqb_refl].
Qed.

Lemma dedup_In x l : In x (dedup l) <-> In x l.
Proof.
  induction l as [|y r IH]; cbn [dedup]; [tauto|].
  destruct (smem y r) eqn:Hm.
  - rewrite IH. split; [right; assumption|]. intros [->|H]; [apply smem_In; assumption | assumption].
  - cbn [In]. rewrite IH. tauto.
Qed.

Lemma assoc_restrict (f : str -> bool) vs x :
  In x vs -> assoc x (map (fun y => (y, f y)) vs) = Some (f x).
Proof.
  induction vs as [|y r IH]; cbn [map assoc In]; [tauto|].
  intros H. destruct (str_eqb_spec x y) as [->|Hn]; [reflexivity|].
  destruct H as [->|H]; [congruence | auto].
Qed.

Lemma lookup_restrict sg vs x : In x vs -> lookup_var (restrict sg vs) x = lookup_var sg x.
Proof.
  intros H. unfold lookup_var at 1, restrict. rewrite (assoc_restrict (lookup_var sg)); auto.
Qed.

Lemma restrict_in_all_asg sg vs : In (restrict sg vs) (all_asg vs).
Proof.
  induction vs as [|v r IH]; cbn [restrict map all_asg]; [left; reflexivity|].
  apply in_or_app. destruct (lookup_var sg v).
  - right. apply in_map_iff. exists (restrict sg r). split; [reflexivity | exact IH].
  - left. apply in_map_iff. exists (restrict sg r). split; [reflexivity | exact IH].
Qed.

(** * @skip/@include depend only on the variables the directives mention *)

Lemma if_value_ext sg sg' d :
  (forall x, if_arg d = Some (Ast.VVar x (match if_arg d with Some (Ast.VVar _ p) => p | _ => pos0 end)) ->
             lookup_var sg x = lookup_var sg' x) ->
  if_value sg d = if_value sg' d.
Proof.
  unfold if_value. destruct (if_arg d) as [[x p| | | | | | | |]|]; try reflexivity.
  intros H. rewrite (H x eq_refl). reflexivity.
Qed.

Lemma included_ext sg sg' ds :
  (forall x, In x (dir_vars ds) -> lookup_var sg x = lookup_var sg' x) ->
  included sg ds = included sg' ds.
Proof.
  induction ds as [|d r IH]; [reflexivity|].
  intros H. unfold included. cbn [forallb]. fold (included sg r). fold (included sg' r).
  assert (Hr : included sg r = included sg' r).
  { apply IH. intros x Hx. apply H. unfold dir_vars. cbn [flat_map]. apply in_or_app. right. exact Hx. }
  rewrite Hr. f_equal.
  assert (Hd : str_eqb (dname d) (s "skip") || str_eqb (dname d) (s "include") = true ->
               if_value sg d = if_value sg' d).
  { intros Hk. apply if_value_ext. intros x Hx. apply H. unfold dir_vars. cbn [flat_map].
    apply in_or_app. left. rewrite Hk. rewrite Hx. left. reflexivity. }
  destruct (str_eqb (dname d) (s "skip")) eqn:Hs.
  - rewrite Hd by reflexivity. reflexivity.
  - destruct (str_eqb (dname d) (s "include")) eqn:Hi; [|reflexivity].
    rewrite Hd by reflexivity. reflexivity.
Qed.

(** * CollectFields depends only on the local variables *)

Section CollectExt.
  Variable S : tsdoc.
  Variable F : list fragdef.
  Variable o : str.
  Variables sg sg' : asg.

  (** one selection, as in the body of [collect] at fuel [Datatypes.S f] *)
  Definition collect_sel (inc : list directive -> bool) (f : nat) (x : selection) (vis : list str)
    : list centry * list str :=
    match x with
    | SField alias name _ ds sub =>
        if inc ds then
          ([mkCE (match alias with Some a => iname a | None => iname name end) (iname name)
                  (match sub with Some ss => selset_sels ss | None => [] end)], vis)
        else ([], vis)
    | SSpread _ n ds =>
        if inc ds then
          if smem (iname n) vis then ([], vis)
          else
            let vis' := iname n :: vis in
            match sp_frag F (iname n) with
            | None => ([], vis')
            | Some fd =>
                if sp_applies S o (iname (fr_cond fd))
                then collect S F inc o f (selset_sels (fr_sel fd)) vis'
                else ([], vis')
            end
        else ([], vis)
    | SInline _ cond ds ss =>
        if inc ds then
          if match cond with Some c => sp_applies S o (iname c) | None => true end
          then collect S F inc o f (selset_sels ss) vis
          else ([], vis)
        else ([], vis)
    end.

  Lemma collect_cons inc f x r vis :
    collect S F inc o (Datatypes.S f) (x :: r) vis =
    let '(es, vis1) := collect_sel inc f x vis in
    let '(es2, vis2) := collect S F inc o (Datatypes.S f) r vis1 in
    (es ++ es2, vis2).
  Proof. reflexivity. Qed.

  Lemma collect_nil inc f vis : collect S F inc o (Datatypes.S f) [] vis = ([], vis).
  Proof. reflexivity. Qed.

  Definition local_vars_sel (f : nat) (x : selection) : list str :=
    match x with
    | SField _ _ _ ds _ => dir_vars ds
    | SSpread _ n ds =>
        dir_vars ds ++ match sp_frag F (iname n) with
                       | Some fd => local_vars f F (selset_sels (fr_sel fd))
                       | None => []
                       end
    | SInline _ _ ds ss => dir_vars ds ++ local_vars f F (selset_sels ss)
    end.

  Lemma local_vars_cons f x r :
    local_vars (Datatypes.S f) F (x :: r) = local_vars_sel f x ++ local_vars (Datatypes.S f) F r.
  Proof. reflexivity. Qed.

  Lemma collect_ext : forall fuel sels vis,
    (forall x, In x (local_vars fuel F sels) -> lookup_var sg x = lookup_var sg' x) ->
    collect S F (included sg) o fuel sels vis = collect S F (included sg') o fuel sels vis.
  Proof.
    induction fuel as [|f IHf]; intros sels vis H; [reflexivity|].
    revert vis H. induction sels as [|x r IHr]; intros vis H; [reflexivity|].
    rewrite !collect_cons.
    rewrite local_vars_cons in H.
    assert (Hx : collect_sel (included sg) f x vis = collect_sel (included sg') f x vis).
    { assert (Hl : forall y, In y (local_vars_sel f x) -> lookup_var sg y = lookup_var sg' y).
      { intros y Hy. apply H. apply in_or_app. left. exact Hy. }
      destruct x as [alias name args ds sub | p n ds | p cond ds ss]; cbn [collect_sel local_vars_sel] in *.
      - rewrite (included_ext sg sg' ds) by exact Hl. reflexivity.
      - rewrite (included_ext sg sg' ds) by (intros y Hy; apply Hl; apply in_or_app; left; exact Hy).
        destruct (included sg' ds); [|reflexivity].
        destruct (smem (iname n) vis); [reflexivity|].
        destruct (sp_frag F (iname n)) as [fd|]; [|reflexivity].
        destruct (sp_applies S o (iname (fr_cond fd))); [|reflexivity].
        apply IHf. intros y Hy. apply Hl. apply in_or_app. right. exact Hy.
      - rewrite (included_ext sg sg' ds) by (intros y Hy; apply Hl; apply in_or_app; left; exact Hy).
        destruct (included sg' ds); [|reflexivity].
        destruct (match cond with Some c => sp_applies S o (iname c) | None => true end); [|reflexivity].
        apply IHf. intros y Hy. apply Hl. apply in_or_app. right. exact Hy. }
    rewrite Hx. destruct (collect_sel (included sg') f x vis) as [es vis1].
    rewrite (IHr vis1). { reflexivity. }
    intros y Hy. apply H. apply in_or_app. right. exact Hy.
  Qed.
End CollectExt.

(** * CompleteValue is monotone in the leaf test *)

Lemma complete_nn_mono (l1 l2 : str -> val -> bool) :
  (forall n x, l1 n x = true -> l2 n x = true) ->
  forall t v, complete_nn l1 t v = true -> complete_nn l2 t v = true.
Proof.
  intros Hl. induction t as [n | t' IH | p t' IH]; intros v H; cbn [complete_nn] in *.
  - apply Hl. exact H.
  - apply IH. exact H.
  - destruct v; try discriminate.
    rewrite forallb_forall in *. intros x Hx. specialize (H x Hx).
    destruct t' as [n | t'' | p' t'']; cbn [complete_nn] in *.
    + apply orb_true_iff in H. apply orb_true_iff. destruct H as [H|H]; [left; exact H | right; apply Hl; exact H].
    + apply andb_true_iff in H. destruct H as [H1 H2]. apply andb_true_iff. split; [exact H1|].
      apply (IH x). exact H2.
    + apply orb_true_iff in H. apply orb_true_iff. destruct H as [H|H]; [left; exact H | right].
      apply (IH x). exact H.
Qed.

Lemma complete_mono (l1 l2 : str -> val -> bool) :
  (forall n x, l1 n x = true -> l2 n x = true) ->
  forall t v, complete l1 t v = true -> complete l2 t v = true.
Proof.
  intros Hl t v H. unfold complete in *. destruct t as [n | t' | p t'].
  - apply orb_true_iff in H. apply orb_true_iff. destruct H as [H|H]; [left; exact H | right].
    eapply complete_nn_mono; eauto.
  - apply andb_true_iff in H. destruct H as [H1 H2]. apply andb_true_iff. split; [exact H1|].
    eapply complete_nn_mono; eauto.
  - apply orb_true_iff in H. apply orb_true_iff. destruct H as [H|H]; [left; exact H | right].
    eapply complete_nn_mono; eauto.
Qed.

(** * the denotation is monotone in the choice of assignments *)

Section DenMono.
  Variable S : tsdoc.
  Variable F : list fragdef.
  Variable cf : nat.
  Variable relax : bool.
  Variables choose1 choose2 : list selection -> list asg.
  Hypothesis Hch : forall sels sg1, In sg1 (choose1 sels) ->
    exists sg2, In sg2 (choose2 sels) /\
                forall o, collect S F (included sg1) o cf sels [] = collect S F (included sg2) o cf sels [].

  Lemma den_mono : forall fuel T sels v,
    den S F cf choose1 relax fuel T sels v = true -> den S F cf choose2 relax fuel T sels v = true.
  Proof.
    induction fuel as [|f IH]; intros T sels v H; [discriminate|].
    cbn [den] in *. destruct v as [| | | | | | |kvs]; try discriminate.
    apply andb_true_iff in H. destruct H as [Hnd H]. apply andb_true_iff. split; [exact Hnd|].
    apply existsb_exists in H. destruct H as [o [Ho H]].
    apply existsb_exists. exists o. split; [exact Ho|].
    apply existsb_exists in H. destruct H as [sg1 [Hs1 H]].
    destruct (Hch sels sg1 Hs1) as [sg2 [Hs2 Hc]].
    apply existsb_exists. exists sg2. split; [exact Hs2|].
    rewrite <- (Hc o).
    apply andb_true_iff in H. destruct H as [Hk H]. apply andb_true_iff. split; [exact Hk|].
    rewrite forallb_forall in *. intros kv Hkv. specialize (H kv Hkv). cbv beta zeta in *.
    destruct (relax && str_eqb (name_of (fst (collect S F (included sg1) o cf sels [])) (fst kv)) SP_TYPENAME
              && negb (str_eqb (fst kv) SP_TYPENAME)); [exact H|].
    destruct (sp_field_type S o (name_of (fst (collect S F (included sg1) o cf sels [])) (fst kv))) as [t|];
      [|discriminate].
    revert H. apply complete_mono. intros n x Hx.
    destruct (str_eqb (name_of (fst (collect S F (included sg1) o cf sels [])) (fst kv)) SP_TYPENAME); [exact Hx|].
    destruct (sp_kind S n); try exact Hx. apply IH. exact Hx.
  Qed.
End DenMono.

(** * Execute_spec ⊆ Ref_local *)

Lemma exec_in_ref_local : forall S F cf sg fuel T sels v,
  exec_b S F cf sg fuel T sels v = true -> ref_local_b S F cf fuel T sels v = true.
Proof.
  intros S F cf sg fuel T sels v. unfold exec_b, ref_local_b. apply den_mono.
  intros sels' sg1 [<-|[]].
  exists (restrict sg (dedup (local_vars cf F sels'))). split.
  - unfold local_choices. apply restrict_in_all_asg.
  - intros o. apply collect_ext. intros x Hx. symmetry. apply lookup_restrict. apply dedup_In. exact Hx.
Qed.

(** the relaxed reading only adds values *)
Lemma ref_local_in_relaxed : forall S F cf fuel T sels v,
  ref_local_b S F cf fuel T sels v = true -> ref_local_relaxed_b S F cf fuel T sels v = true.
Proof.
  intros S F cf. unfold ref_local_b, ref_local_relaxed_b.
  induction fuel as [|f IH]; intros T sels v H; [discriminate|].
  cbn [den] in *. destruct v as [| | | | | | |kvs]; try discriminate.
  apply andb_true_iff in H. destruct H as [Hnd H]. apply andb_true_iff. split; [exact Hnd|].
  apply existsb_exists in H. destruct H as [o [Ho H]].
  apply existsb_exists. exists o. split; [exact Ho|].
  apply existsb_exists in H. destruct H as [sg1 [Hs1 H]].
  apply existsb_exists. exists sg1. split; [exact Hs1|].
  apply andb_true_iff in H. destruct H as [Hk H]. apply andb_true_iff. split; [exact Hk|].
  rewrite forallb_forall in *. intros kv Hkv. specialize (H kv Hkv). cbv beta zeta in *.
  cbn [andb] in H.
  set (es := fst (collect S F (included sg1) o cf sels [])) in *.
  destruct (str_eqb (name_of es (fst kv)) SP_TYPENAME) eqn:Htn.
  - cbn [andb]. destruct (negb (str_eqb (fst kv) SP_TYPENAME)) eqn:Hk2; cbn [andb].
    + unfold sp_field_type in H. rewrite Htn in H. unfold complete in H. cbn [complete_nn iname] in H.
      apply andb_true_iff in H. destruct H as [_ H]. destruct (snd kv); try discriminate; reflexivity.
    + exact H.
  - cbn [andb]. destruct (sp_field_type S o (name_of es (fst kv))) as [t|]; [|discriminate].
    revert H. apply complete_mono. intros n x Hx.
    destruct (sp_kind S n); try exact Hx. apply IH. exact Hx.
Qed.
