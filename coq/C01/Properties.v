(** C01 — property theorems only.  Each is closed by [exact] of a lemma of Proofs*.v / Refuted.v and
    followed by [Print Assumptions]. *)
From V Require Import Base.Util Gql.Ast Writer.Wop Ts.TsType Ts.TsDen
     C01.Model C01.Spec C01.Corr C01.Witness C01.Proofs C01.Refuted.

(** Execute_spec ⊆ Ref_local: for every schema, fragment list, assignment of the boolean variables,
    parent type, selection set and value (spec side only; unbounded) *)
Theorem C01_exec_in_ref_local : forall S F cf sg fuel T sels v,
  exec_b S F cf sg fuel T sels v = true -> ref_local_b S F cf fuel T sels v = true.
Proof. exact exec_in_ref_local. Qed.
Print Assumptions C01_exec_in_ref_local.

(** the current code violates C01 on the property text's witness (not merge_safe) *)
Theorem C01_merge_unsafe_refuted :
  guard_safe w_schema w_merge (first_def w_merge) = false /\
  exec_b w_schema [] 8 [(s "v", true)] 8 (s "Query") (sels_of w_merge) v_a_empty = true /\
  has_type_b (schema_env w_schema) 40 (type_of w_merge) v_a_empty = Some false.
Proof. exact merge_unsafe_refuted_C01. Qed.
Print Assumptions C01_merge_unsafe_refuted.
