(** C01 — property theorems only.  Each is closed by [exact] of a lemma of Proofs*.v / Refuted.v and
    followed by [Print Assumptions]. *)
From V Require Import Base.Util Gql.Ast Writer.Wop Ts.TsType Ts.TsDen
     C01.Model C01.Spec C01.Corr C01.Witness C01.Proofs C01.Refuted C01.TsLemmas C01.TreeDen C01.EnvDen.

(** Execute_spec ⊆ Ref_local: for every schema, fragment list, assignment of the boolean variables,
    parent type, selection set and value (spec side only; unbounded) *)
Theorem C01_exec_in_ref_local : forall S F cf sg fuel T sels v,
  exec_b S F cf sg fuel T sels v = true -> ref_local_b S F cf fuel T sels v = true.
Proof. exact exec_in_ref_local. Qed.
Print Assumptions C01_exec_in_ref_local.

(** the current code violates C01 on the property text's witness (not merge_safe) *)
Theorem C01_merge_unsafe_refuted :
  guard_safe w_schema w_merge (first_def w_merge) = false /\
  exec_b w_schema [] 8 [(s "v", true)] 8 (s "Query") (sels_of w_merge) v_a_empty = true /\
  has_type_b (schema_env w_schema) 40 (type_of w_merge) v_a_empty = Some false.
Proof. exact merge_unsafe_refuted_C01. Qed.
Print Assumptions C01_merge_unsafe_refuted.

(** the unguarded statement of C01 (Spec.C01_response_admitted) is false for the current code: on
    the witness no fuel makes the emitted type admit the response {a: {}} *)
Theorem C01_full_statement_refuted :
  ~ C01_response_admitted w_schema w_merge (first_def w_merge) (type_of w_merge).
Proof. exact Refuted.C01_full_statement_refuted. Qed.
Print Assumptions C01_full_statement_refuted.

(** to_ts.rs (generate_selection_tree_type, field_to_type, map_to_tstype) is denotation-preserving:
    for EVERY selection tree whose branch names are declared object types and whose leaves have
    scalar/enum types, the emitted TS type (read with the schema declaration file) admits exactly
    the values of the tree's direct denotation [tree_den] *)
Theorem C01_emitted_type_denotes_tree : forall S t v,
  leaves_ok (sp_leaf_ok S) (sp_obj_ok S) t = true ->
  (In_type (schema_env S) (generate_selection_tree_type NS t) v
   <-> tree_den (sp_named S) (sp_obj_keys S) t false v = true).
Proof. exact emitted_type_den. Qed.
Print Assumptions C01_emitted_type_denotes_tree.

(** the decider of the TS denotation is monotone in its fuel, so [In_type] is well defined *)
Theorem C01_has_type_fuel_monotone : forall E f f' t v b,
  f <= f' -> has_type_b E f t v = Some b -> has_type_b E f' t v = Some b.
Proof. exact has_type_b_le. Qed.
Print Assumptions C01_has_type_fuel_monotone.
