(** C01 — property theorems only.  Each is closed by [exact] of a lemma of Proofs*.v / Refuted.v and
    followed by [Print Assumptions]. *)
From V Require Import Base.Util Gql.Ast Writer.Wop Ts.TsType Ts.TsDen
     C01.Model C01.Spec C01.Guards C01.Corr C01.Witness C01.Proofs C01.Refuted C01.TsLemmas C01.TreeDen C01.EnvDen
     C01.PlainBase C01.PlainCore C01.PlainSchema C01.PlainFinal C01.FlatCore C01.FlatThm C01.FlatFinal C01.DupThm C01.DupFinal.

(** Execute_spec ⊆ Ref_local: for every schema, fragment list, assignment of the boolean variables,
    parent type, selection set and value (spec side only; unbounded) *)
Theorem C01_exec_in_ref_local : forall S F cf sg fuel T sels v,
  exec_b S F cf sg fuel T sels v = true -> ref_local_b S F cf fuel T sels v = true.
Proof. exact exec_in_ref_local. Qed.
Print Assumptions C01_exec_in_ref_local.

(** the current code violates C01 on the property text's witness (not merge_safe) *)
Theorem C01_merge_unsafe_refuted :
  guard_safe w_schema w_merge (first_def w_merge) = false /\
  exec_b w_schema [] 8 [(s "v", true)] 8 (s "Query") (sels_of w_merge) v_a_empty = true /\
  has_type_b (schema_env w_schema) 40 (type_of w_merge) v_a_empty = Some false.
Proof. exact merge_unsafe_refuted_C01. Qed.
Print Assumptions C01_merge_unsafe_refuted.

(** the unguarded statement of C01 (Spec.C01_response_admitted) is false for the current code: on
    the witness no fuel makes the emitted type accept the response {a: {}} *)
Theorem C01_full_statement_refuted :
  ~ C01_response_admitted w_schema w_merge (first_def w_merge) (type_of w_merge).
Proof. exact Refuted.C01_full_statement_refuted. Qed.
Print Assumptions C01_full_statement_refuted.

(** to_ts.rs (generate_selection_tree_type, field_to_type, map_to_tstype) is denotation-preserving:
    for EVERY selection tree whose branch names are declared object types and whose leaves have
    scalar/enum types, the emitted TS type (read with the schema declaration file) admits exactly
    the values of the tree's direct denotation [tree_den] *)
Theorem C01_emitted_type_denotes_tree : forall S t v,
  leaves_ok (sp_leaf_ok S) (sp_obj_ok S) t = true ->
  (In_type (schema_env S) (generate_selection_tree_type NS t) v
   <-> tree_den (sp_named S) (sp_obj_keys S) t false v = true).
Proof. exact emitted_type_den. Qed.
Print Assumptions C01_emitted_type_denotes_tree.

(** the decider of the TS denotation is monotone in its fuel, so [In_type] is well defined *)
Theorem C01_has_type_fuel_monotone : forall E f f' t v b,
  f <= f' -> has_type_b E f t v = Some b -> has_type_b E f' t v = Some b.
Proof. exact has_type_b_le. Qed.
Print Assumptions C01_has_type_fuel_monotone.

(** emit_eq_ref_local_partial: for a definition whose selection set is PLAIN (fields only, pairwise
    distinct response keys, no alias of/named __typename; recursively — variables, literal
    conditions, aliases, __typename, list/non-null nesting, object/interface/union parents are all
    allowed), over a schema with unique type names, the type the model emits admits exactly Ref_local
    (JSON values).  [tree_ok] is a computable check of the model's own output. *)
Theorem C01_emit_eq_ref_local_partial : forall S D d T sels t v,
  nodup_types S = true ->
  def_target S d = Some (T, sels) ->
  plain_list sels = true ->
  emit_type default_options S D d = Ok t ->
  (forall tree, def_tree S D d = Ok tree -> tree_ok S tree = true) ->
  json v = true ->
  (In_type (schema_env S) t v <-> exists f, ref_local_b S (sp_frags D) (doc_fuel D) f T sels v = true).
Proof. exact emit_eq_ref_local_partial. Qed.
Print Assumptions C01_emit_eq_ref_local_partial.

(** C01 on plain definitions: every Execute_spec response (any assignment, any data choices, any
    size) is admitted by the emitted type *)
Theorem C01_response_admitted_partial : forall S D d T sels t sg f v,
  nodup_types S = true -> def_target S d = Some (T, sels) -> plain_list sels = true ->
  emit_type default_options S D d = Ok t ->
  (forall tree, def_tree S D d = Ok tree -> tree_ok S tree = true) ->
  json v = true ->
  exec_b S (sp_frags D) (doc_fuel D) sg f T sels v = true ->
  In_type (schema_env S) t v.
Proof. exact response_admitted_partial. Qed.
Print Assumptions C01_response_admitted_partial.

(** the guards are satisfiable by a document with variables, aliases, __typename, a list, an
    interface and a union, and Execute_spec is inhabited on it *)
Theorem C01_partial_guards_satisfiable :
  nodup_types w_schema = true /\
  plain_list (sels_of w_plain) = true /\
  (exists tree, def_tree w_schema w_plain (first_def w_plain) = Ok tree /\ tree_ok w_schema tree = true) /\
  def_target w_schema (first_def w_plain) = Some (s "Query", sels_of w_plain) /\
  exists v, json v = true /\
            exec_b w_schema [] 8 [(s "v", false); (s "w", false)] 8 (s "Query") (sels_of w_plain) v = true.
Proof. exact plain_guards_satisfiable. Qed.
Print Assumptions C01_partial_guards_satisfiable.

(** emit_eq_ref_local for MERGE-FREE definitions: inline fragments (with and without type condition)
    and fragment spreads over objects / interfaces / unions are allowed; [guard_merge_free] (C01/Guards.v,
    computable, evaluated by Corr.agree on every generated definition) asks that fragment names are
    unique and, per object type of the parent and recursively in sub-selections, that the flattened scope
    has pairwise distinct response keys (so deep_merge never merges), no alias of/named __typename, and
    no fragment spread twice. *)
Theorem C01_emit_eq_ref_local_merge_free : forall S D d T sels t v,
  nodup_types S = true ->
  def_target S d = Some (T, sels) ->
  guard_merge_free S D d = true ->
  emit_type default_options S D d = Ok t ->
  (forall tree, def_tree S D d = Ok tree -> tree_ok S tree = true) ->
  json v = true ->
  (In_type (schema_env S) t v <-> exists f, ref_local_b S (sp_frags D) (doc_fuel D) f T sels v = true).
Proof. exact emit_eq_ref_local_merge_free. Qed.
Print Assumptions C01_emit_eq_ref_local_merge_free.

Theorem C01_response_admitted_merge_free : forall S D d T sels t sg f v,
  nodup_types S = true -> def_target S d = Some (T, sels) -> guard_merge_free S D d = true ->
  emit_type default_options S D d = Ok t ->
  (forall tree, def_tree S D d = Ok tree -> tree_ok S tree = true) ->
  json v = true ->
  exec_b S (sp_frags D) (doc_fuel D) sg f T sels v = true ->
  In_type (schema_env S) t v.
Proof. exact response_admitted_merge_free. Qed.
Print Assumptions C01_response_admitted_merge_free.

(** non-vacuity: a non-plain document (union parent, inline fragments on an object and on an
    interface, a fragment spread, variable conditions on fragments) satisfies the guard *)
Theorem C01_merge_free_guards_satisfiable :
  nodup_types w_schema = true /\
  guard_merge_free w_schema w_frag (first_def w_frag) = true /\
  plain_list (sels_of w_frag) = false /\
  (exists tree, def_tree w_schema w_frag (first_def w_frag) = Ok tree /\ tree_ok w_schema tree = true) /\
  exists v, json v = true /\
            exec_b w_schema (sp_frags w_frag) 8 [(s "v", true); (s "w", false)] 8 (s "Query") (sels_of w_frag) v = true.
Proof. exact merge_free_guards_satisfiable. Qed.
Print Assumptions C01_merge_free_guards_satisfiable.

(** emit_eq_ref_local with REPEATED LEAF KEYS: [guard_merge_free_ld] is [guard_merge_free] with "pairwise
    distinct response keys" weakened to [keys_ok]: a key of the flattened scope may repeat among leaf
    selections (no sub-selection) of one field with one aliasing — deep_merge then merges only Leaf/Empty
    fields, keeps one of them, and keeps a Leaf as soon as one of them is included. *)
Theorem C01_emit_eq_ref_local_merge_free_ld : forall S D d T sels t v,
  nodup_types S = true ->
  def_target S d = Some (T, sels) ->
  guard_merge_free_ld S D d = true ->
  emit_type default_options S D d = Ok t ->
  (forall tree, def_tree S D d = Ok tree -> tree_ok S tree = true) ->
  json v = true ->
  (In_type (schema_env S) t v <-> exists f, ref_local_b S (sp_frags D) (doc_fuel D) f T sels v = true).
Proof. exact emit_eq_ref_local_merge_free_ld. Qed.
Print Assumptions C01_emit_eq_ref_local_merge_free_ld.

Theorem C01_response_admitted_merge_free_ld : forall S D d T sels t sg f v,
  nodup_types S = true -> def_target S d = Some (T, sels) -> guard_merge_free_ld S D d = true ->
  emit_type default_options S D d = Ok t ->
  (forall tree, def_tree S D d = Ok tree -> tree_ok S tree = true) ->
  json v = true ->
  exec_b S (sp_frags D) (doc_fuel D) sg f T sels v = true ->
  In_type (schema_env S) t v.
Proof. exact response_admitted_merge_free_ld. Qed.
Print Assumptions C01_response_admitted_merge_free_ld.

Theorem C01_merge_free_ld_guards_satisfiable :
  nodup_types w_schema = true /\
  guard_merge_free_ld w_schema w_lit (first_def w_lit) = true /\
  guard_merge_free w_schema w_lit (first_def w_lit) = false /\
  (exists tree, def_tree w_schema w_lit (first_def w_lit) = Ok tree /\ tree_ok w_schema tree = true) /\
  exists v, json v = true /\
            exec_b w_schema (sp_frags w_lit) 8 [] 8 (s "Query") (sels_of w_lit) v = true.
Proof. exact merge_free_ld_guards_satisfiable. Qed.
Print Assumptions C01_merge_free_ld_guards_satisfiable.
