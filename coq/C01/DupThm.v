(** C01/C02 — repeated LEAF response keys, part 4: the model's selection tree denotes exactly Ref_local
    for selection sets whose flattened scopes satisfy [keys_ok] (fragments allowed; a response key may
    repeat among leaf selections of one field: deep_merge then merges only Leaf/Empty fields), and the
    theorems on emitted types. *)
From V Require Import Base.Util Gql.Ast Writer.Wop Ts.TsType Ts.TsDen
     C01.Model C01.Spec C01.Guards C01.TsLemmas C01.TreeDen C01.Proofs C01.EnvDen C01.PlainBase C01.PlainCore
     C01.PlainMain C01.PlainSchema C01.PlainThm C01.PlainFinal C01.FlatCore C01.FlatSpec C01.FlatMain C01.FlatThm
     C01.DupCore C01.DupMain C01.DupBridge.
From Coq Require Import Wf_nat Permutation.

(** * the theorem on selection trees *)
Section DupTree.
  Variable S : tsdoc.
  Variable F : list fragdef.
  Variable cf : nat.
  Hypothesis Hnodup : nodup_types S = true.
  Hypothesis HF : nodup_frags F = true.
  Let named := sp_named S.
  Let okeys := sp_obj_keys S.
  Let choose := local_choices (Datatypes.S cf) F.
  Let DEN (f : nat) := den S F (Datatypes.S cf) choose false f.

  Definition QD (n : nat) : Prop :=
    forall g sels t tree,
      merge_free_ld S F (Datatypes.S cf) g (iname (ty_unwrapped t)) sels = true ->
      type_for_selection_set S F n sels (gty_of t) = Ok tree ->
      leaves_ok (sp_leaf_ok S) (sp_obj_ok S) tree = true ->
      sp_kind S (iname (ty_unwrapped t)) = LComposite /\
      forall v, json v = true ->
        (tree_den named okeys tree false v = true <->
         exists f, complete (fun nm y => DEN f nm sels y) t v = true).

  Lemma merge_free_ld_tree_den_all : forall n, QD n.
  Proof.
    induction n as [n IHn] using lt_wf_ind. unfold QD. intros g sels t tree Hguard Htree Hleaves.
    destruct n as [|n']; [discriminate|].
    rewrite type_for_S in Htree. unfold type_body in Htree.
    destruct (type_to_selection_tree_wrap _ _ _ Htree) as [bs [Hmap ->]].
    rewrite gty_named_of in Hmap. set (T := iname (ty_unwrapped t)) in *.
    rewrite leaves_ok_wrap in Hleaves.
    destruct g as [|g']; [discriminate|]. cbn [merge_free_ld] in Hguard.
    apply andb_true_iff in Hguard. destruct Hguard as [Hspread Hguard].
    destruct (spread_names F (Datatypes.S cf) sels) as [ns|] eqn:Hns; [|discriminate].
    apply nodup_keys_NoDup in Hspread. rewrite forallb_forall in Hguard.
    (* branching conditions *)
    unfold generate_branching_conditions in Hmap.
    destruct (parent_objects S T) as [objs|e] eqn:Hobjs; cbn [bind] in Hmap; [|discriminate].
    destruct (parent_objects_spec S T objs Hnodup Hobjs) as [Hnames [_ Hkind]].
    pose proof (parent_objects_defs S T objs Hnodup Hobjs) as Hdefs.
    unfold get_boolean_variables in Hmap.
    destruct (visit_vars (Datatypes.S n') F sels ([], [])) as [st'|e] eqn:Hvv; cbn [bind] in Hmap; [|discriminate].
    destruct (visit_vars_flat F HF _ _ _ _ _ _ Hvv Hns Hspread) as [_ [Hlocal _]].
    { intros m _ []. }
    set (mvars := fst st') in *.
    set (asgs := match mvars with [] => [[]] | _ => assignments (unique mvars) end) in *.
    assert (Hasgs : asgs = all_asg (unique mvars)).
    { assert (Hg : forall l : list str, match l with [] => [[]] | _ => assignments (unique l) end = all_asg (unique l))
        by (intros [|a l]; [reflexivity | apply assignments_all_asg]).
      apply Hg. }
    pose proof (mapM_Forall2 _ _ _ Hmap) as Hbs.
    split; [exact Hkind|].
    assert (Hbranch : forall b br, In b (flat_map (fun o => map (fun a => mkBr o a) asgs) objs) ->
              branch_step (fields_for_selection_set S F n') sels b = Ok br ->
              In br bs ->
              forall kvs, json (VObj kvs) = true ->
                (branch_den named okeys br (VObj kvs) = true <->
                 exists f, nodup_keys (map fst kvs) = true /\ den_body S F cf f (o_name (b_obj b)) (b_vars b) sels kvs = true)).
    { intros b br Hb Hstep Hbr kvs Hj.
      apply in_flat_map in Hb. destruct Hb as [ob [Hob Hb]]. apply in_map_iff in Hb. destruct Hb as [beta [<- Hbeta]].
      destruct (Hdefs ob Hob) as [d [Hlook Hasobj]].
      assert (Hposs : In (o_name ob) (sp_possible S T)) by (rewrite <- Hnames; apply in_map; exact Hob).
      pose proof (Hguard _ Hposs) as Hgo.
      destruct (flatS S F (o_name ob) (Datatypes.S cf) sels) as [L|] eqn:HL; [|discriminate].
      apply andb_true_iff in Hgo. destruct Hgo as [HkeysL HgL]. rewrite forallb_forall in HgL.
      pose proof Hstep as Hstep0. unfold branch_step in Hstep.
      destruct (fields_for_selection_set S F n' sels (mkBr ob beta)) as [fs|e] eqn:Hfields; cbn [bind] in Hstep; [|discriminate].
      destruct (fields_for_flat S F HF (mkBr ob beta) (fun c r => cfc_applies S ob d c r Hnodup Hlook Hasobj) n' sels fs Hfields)
        as [pdef [pf [Lm [L' [Hg [Hd [HLm [Hperm Hpairs]]]]]]]].
      cbn [b_obj] in *.
      assert (Lm = L) by (eapply flatS_unique; eauto). subst Lm.
      destruct d as [| dd dp dn di ddirs dfs dkw | | | |]; try discriminate.
      rewrite get_type_sp_lookup, Hlook in Hg. inversion Hg. subst pdef. cbn [direct_fields] in Hd. inversion Hd. subst pf.
      (* the merged field lists *)
      pose proof (side_dups S F n' (mkBr ob beta) dfs L L' fs Hperm Hpairs HkeysL) as Hdups.
      assert (Hdu : dups_leaflike (un_of fs)) by (rewrite un_of_side; exact (Hdups false)).
      assert (Hda : dups_leaflike (al_of fs)) by (rewrite al_of_side; exact (Hdups true)).
      pose proof (branch_step_dup _ sels _ br Hstep0 fs Hfields Hdu Hda) as Hbr_eq. cbn [b_obj] in Hbr_eq.
      rewrite <- (un_of_merged fs), <- (al_of_merged fs) in Hbr_eq. subst br.
      pose proof (leaves_ok_branches _ _ bs Hleaves _ Hbr) as Hbl.
      destruct (branch_leaves_fields _ _ _ _ _ Hbl) as [_ Hfl].
      destruct (collect_flat S F (o_name ob) beta _ sels [] L _ ns HL Hns Hspread) as [vis' [Hcol _]].
      { intros m _ []. }
      apply (dup_branch_eq S F cf (Rn S F n') (mkBr ob beta) dd dp dn di ddirs dfs dkw Hlook sels L).
      - intros it Hit. specialize (HgL it Hit). apply andb_true_iff in HgL. tauto.
      - exact (grp_hyp L HkeysL).
      - cbn [b_vars b_obj]. rewrite Hcol. reflexivity.
      - exact (merged_nodup S F n' (mkBr ob beta) dfs L L' fs Hperm Hpairs HkeysL).
      - intros it Hit. destruct (merged_of_item S F n' (mkBr ob beta) dfs L L' fs Hperm Hpairs HkeysL it Hit) as [p [Hp Hrel]].
        exists p. split; [exact Hp | exact Hrel].
      - intros p Hp. destruct (merged_field S F n' (mkBr ob beta) dfs L L' fs Hperm Hpairs HkeysL p Hp) as [it [Hit Hrel]].
        exists it. split; [exact Hit | exact Hrel].
      - intros p Hp. apply Hfl. apply in_un_al. exact Hp.
      - (* sub-selections *)
        intros it fd tree' Hit Hs Htn Hfind [m [Hm Hrec]] Hlt.
        specialize (HgL it Hit). apply andb_true_iff in HgL. destruct HgL as [_ HgL]. rewrite Hs in HgL.
        assert (Hft : sp_field_type S (o_name ob) (sel_name (fi_sel it)) = Some (fd_type fd)).
        { unfold sp_field_type. change SP_TYPENAME with TYPENAME. rewrite Htn, Hlook, Hfind. reflexivity. }
        rewrite Hft in HgL.
        assert (Hlt' : m < Datatypes.S n') by lia.
        exact (IHn m Hlt' g' (sel_sub (fi_sel it)) (fd_type fd) tree' HgL Hrec Hlt).
      - exact Hj. }
    assert (Hobj : forall x, json x = true ->
              (tree_den named okeys (STObject bs) true x = true <-> exists f, DEN f T sels x = true)).
    { intros x Hj. rewrite tree_den_object.
      destruct x as [| | | | | | |kvs].
      1-7: (split; [intros [br [_ H]]; destruct br as [tn un al]; cbn [branch_den] in H; destruct (okeys tn); discriminate
                   | intros [[|f] H]; discriminate]).
      split.
      - intros [br [Hbr Hden]].
        destruct (Forall2_in_r _ _ _ _ Hbs Hbr) as [b [Hb Hstep]].
        destruct (proj1 (Hbranch b br Hb Hstep Hbr kvs Hj) Hden) as [f [Hnd Hbody]].
        exists (Datatypes.S f). unfold DEN. rewrite (den_S S F cf). rewrite Hnd. cbn [andb].
        apply in_flat_map in Hb. destruct Hb as [ob [Hob Hb]]. apply in_map_iff in Hb. destruct Hb as [beta [<- Hbeta]].
        cbn [b_obj b_vars] in Hbody.
        apply existsb_exists. exists (o_name ob). split; [rewrite <- Hnames; apply in_map; exact Hob|].
        apply existsb_exists. exists (restrict beta (dedup (local_vars (Datatypes.S cf) F sels))).
        split; [apply restrict_in_all_asg|].
        rewrite <- Hbody. apply den_body_ext. intros y Hy. apply lookup_restrict. apply dedup_In. exact Hy.
      - intros [[|f] H]; [discriminate|]. unfold DEN in H. rewrite (den_S S F cf) in H.
        apply andb_true_iff in H. destruct H as [Hnd H].
        apply existsb_exists in H. destruct H as [o [Ho H]].
        apply existsb_exists in H. destruct H as [sg [Hsg Hbody]].
        rewrite <- Hnames in Ho. apply in_map_iff in Ho. destruct Ho as [ob [<- Hob]].
        set (beta := restrict sg (unique mvars)).
        assert (Hb : In (mkBr ob beta) (flat_map (fun o => map (fun a => mkBr o a) asgs) objs)).
        { apply in_flat_map. exists ob. split; [exact Hob|]. apply in_map. rewrite Hasgs. apply restrict_in_all_asg. }
        destruct (Forall2_in_l _ _ _ _ Hbs Hb) as [br [Hbr Hstep]].
        exists br. split; [exact Hbr|].
        apply (proj2 (Hbranch _ br Hb Hstep Hbr kvs Hj)). exists f. split; [exact Hnd|].
        cbn [b_obj b_vars]. rewrite <- Hbody. apply den_body_ext. intros y Hy. unfold beta.
        apply lookup_restrict. apply unique_In. apply (Hlocal (Datatypes.S cf)). exact Hy. }
    intros v Hj.
    assert (Hcore : forall nn x, tree_den named okeys (STObject bs) nn x =
                                 (negb nn && vis_null x) || tree_den named okeys (STObject bs) true x).
    { intros nn x. cbn [tree_den negb andb orb]. reflexivity. }
    assert (Hnull : tree_den named okeys (STObject bs) true VNull = false).
    { destruct (tree_den named okeys (STObject bs) true VNull) eqn:Hx; [|reflexivity].
      apply (Hobj VNull eq_refl) in Hx. destruct Hx as [[|f] Hx]; discriminate. }
    destruct (wrap_den named okeys (STObject bs) Hcore Hnull t v) as [_ Hw]. rewrite Hw.
    split.
    - intros H.
      destruct (complete_exists (fun x => tree_den named okeys (STObject bs) true x) (fun f x => DEN f T sels x)) with (t := t) (v := v) as [f Hf].
      + intros f f' x Hle. apply den_fuel_le. exact Hle.
      + intros x Hjx Hx. apply Hobj; assumption.
      + exact Hj.
      + exact H.
      + exists f. rewrite complete_named. exact Hf.
    - intros [f H]. rewrite complete_named in H. revert H. apply complete_mono_json; [|exact Hj].
      intros _ x Hjx Hx. apply (Hobj x Hjx). exists f. exact Hx.
  Qed.
End DupTree.
