(** C01/C02 — executable model of nitrogql's operation result-type generator.

    Mirrors, function for function,
      crates/printer/src/operation_type_printer/{type_printer.rs, selection_set_visitor.rs,
        deep_merge.rs, branching.rs, selection_tree/mod.rs, selection_tree/to_ts.rs, visitor.rs}
      crates/printer/src/operation_base_printer/mod.rs           (print_document, operation names)
      crates/printer/src/utils.rs                                (interface_implementers)
      crates/semantics/src/{ast_to_type_system.rs, direct_fields_of_output_type.rs}
      crates/type-system/src/{builder.rs, schema.rs, root_types.rs}   (first-insertion-wins map,
        insertion-ordered iteration, root types with defaults)
    as they are in /repo now, including [merge_selection_trees]' pairing of branches by type name
    only ([find]-first).  Every [expect("Type system error")] / [panic!] is an [Err] result.

    Recursion: the Rust code recurses through field sub-selections, inline fragments and fragment
    spreads (the latter is not structural, and [get_fields_for_selection_set] has no visited set, so
    it diverges on cyclic fragments).  The model takes fuel; one unit per nested call; out of fuel is
    [Err EOutOfFuel] (never equal to an implementation result).

    Definitions only. *)
From V Require Import Base.Util Gql.Ast Writer.Wop Ts.TsType.

(** * results *)
Inductive perr :=
| ETypeSystem          (* expect("Type system error") / panic!("Type system error") *)
| EMergeFields         (* panic!("Cannot merge fields of different types ...") *)
| EMergeTrees          (* panic!("Cannot merge selection trees of different types") *)
| EOutOfFuel.

Inductive res (A : Type) := Ok (a : A) | Err (e : perr).
Arguments Ok {A} a.
Arguments Err {A} e.

Definition bind {A B} (r : res A) (f : A -> res B) : res B :=
  match r with Ok a => f a | Err e => Err e end.
Notation "'let*' x ':=' r 'in' k" := (bind r (fun x => k)) (at level 200, x pattern, r at level 100, k at level 200).

Fixpoint mapM {A B} (f : A -> res B) (l : list A) : res (list B) :=
  match l with
  | [] => Ok []
  | x :: r => let* y := f x in let* ys := mapM f r in Ok (y :: ys)
  end.

Definition perr_eqb (a b : perr) : bool :=
  match a, b with
  | ETypeSystem, ETypeSystem | EMergeFields, EMergeFields | EMergeTrees, EMergeTrees
  | EOutOfFuel, EOutOfFuel => true
  | _, _ => false
  end.

(** * GraphQL types without positions (graphql_type_system::Type as far as the printer looks at it) *)
Inductive gty := GNamed (n : str) | GList (t : gty) | GNonNull (t : gty).

Fixpoint gty_of (t : ty) : gty :=
  match t with
  | TNamed n => GNamed (iname n)
  | TNonNull t' => GNonNull (gty_of t')
  | TList _ t' => GList (gty_of t')
  end.

Fixpoint gty_eqb (a b : gty) : bool :=
  match a, b with
  | GNamed x, GNamed y => str_eqb x y
  | GList x, GList y | GNonNull x, GNonNull y => gty_eqb x y
  | _, _ => false
  end.

Definition mem (x : str) (l : list str) : bool := existsb (str_eqb x) l.

(** * the type system as the printer sees it (ast_to_type_system + Schema) *)

Definition tname (d : typedef) : str := iname (typedef_name d).

(** [Schema::get_type]: the builder keeps the FIRST definition inserted under a name ([entry.or_insert]) *)
Fixpoint get_type (S : tsdoc) (n : str) : option typedef :=
  match S with
  | [] => None
  | TSType d :: r => if str_eqb (tname d) n then Some d else get_type r n
  | _ :: r => get_type r n
  end.

(** [Schema::iter_types]: names in first-insertion order, each mapped to its (first) definition *)
Fixpoint iter_types_from (seen : list str) (S : tsdoc) : list typedef :=
  match S with
  | [] => []
  | TSType d :: r => if mem (tname d) seen then iter_types_from seen r
                     else d :: iter_types_from (tname d :: seen) r
  | _ :: r => iter_types_from seen r
  end.
Definition iter_types (S : tsdoc) : list typedef := iter_types_from [] S.

(** root types: every schema definition sets the operations it lists (later ones overwrite);
    [unwrap_or_default] supplies Query / Mutation / Subscription *)
Definition set_roots (cur : option str * option str * option str) (ops : list (optype * ident))
  : option str * option str * option str :=
  fold_left (fun c (p : optype * ident) =>
    let '(q, m, sb) := c in
    match fst p with
    | Query => (Some (iname (snd p)), m, sb)
    | Mutation => (q, Some (iname (snd p)), sb)
    | Subscription => (q, m, Some (iname (snd p)))
    end) ops cur.

Definition root_types (S : tsdoc) : option str * option str * option str :=
  fold_left (fun c d => match d with TSSchema sd => set_roots c (sd_ops sd) | _ => c end) S (None, None, None).

Definition root_type (S : tsdoc) (op : optype) : str :=
  let '(q, m, sb) := root_types S in
  match op with
  | Query => match q with Some n => n | None => s "Query" end
  | Mutation => match m with Some n => n | None => s "Mutation" end
  | Subscription => match sb with Some n => n | None => s "Subscription" end
  end.

(** ObjectDefinition as far as it is used: name, interfaces, fields (name, type) *)
Record objdef := mkObj { o_name : str; o_impls : list str; o_fields : list (str * gty) }.

Definition fields_of (fs : list fielddef) : list (str * gty) :=
  map (fun f => (iname (fd_name f), gty_of (fd_type f))) fs.

Definition as_object (d : typedef) : option objdef :=
  match d with
  | TDObject _ _ n impls _ fs _ => Some (mkObj (iname n) (map iname impls) (fields_of fs))
  | _ => None
  end.

Definition TYPENAME : str := s "__typename".
Definition typename_meta : str * gty := (TYPENAME, GNonNull (GNamed (s "String"))).

(** semantics/direct_fields_of_output_type.rs *)
Definition direct_fields (d : typedef) : option (list (str * gty)) :=
  match d with
  | TDObject _ _ _ _ _ fs _ | TDInterface _ _ _ _ _ fs _ => Some (fields_of fs ++ [typename_meta])
  | TDUnion _ _ _ _ _ _ => Some [typename_meta]
  | _ => None
  end.

(** printer/utils.rs *)
Definition interface_implementers (S : tsdoc) (intf : str) : list objdef :=
  flat_map (fun d => match as_object d with
                     | Some o => if mem intf (o_impls o) then [o] else []
                     | None => []
                     end) (iter_types S).

(** * selection trees (selection_tree/mod.rs) *)
Inductive stree :=
| STNonNull (t : stree)
| STList (t : stree)
| STObject (bs : list sbranch)
with sbranch :=
| mkBranch (type_name : str) (unaliased aliased : list sfield)
with sfield :=
| SFEmpty (name : str)
| SFLeaf (name : str) (t : gty)
| SFObject (name : str) (sel : stree).

Definition sf_name (f : sfield) : str :=
  match f with SFEmpty n | SFLeaf n _ | SFObject n _ => n end.
Definition br_name (b : sbranch) : str := match b with mkBranch n _ _ => n end.
Definition br_unaliased (b : sbranch) := match b with mkBranch _ u _ => u end.
Definition br_aliased (b : sbranch) := match b with mkBranch _ _ a => a end.

(** * deep_merge.rs *)

(** [merge_selection_trees] and [merge_fields] and [deep_merge_selection_tree] are mutually
    recursive on the trees; the model ties the knot with fuel ([merge_fuel] below is enough). *)
Section Merge.
  Variable merge_trees : stree -> stree -> res stree.

  Definition merge_fields (l r : sfield) : res sfield :=
    match l, r with
    | SFEmpty n, SFEmpty _ => Ok (SFEmpty n)
    | SFLeaf n t, SFLeaf _ _ => Ok (SFLeaf n t)
    | SFLeaf n t, SFEmpty _ => Ok (SFLeaf n t)
    | SFEmpty _, SFLeaf n t => Ok (SFLeaf n t)
    | SFObject n a, SFObject _ b => let* m := merge_trees a b in Ok (SFObject n m)
    | SFEmpty _, SFObject n b => Ok (SFObject n b)
    | SFObject n a, SFEmpty _ => Ok (SFObject n a)
    | _, _ => Err EMergeFields
    end.

  (** replace the first field named like [f] by its merge with [f] *)
  Fixpoint merge_into (acc : list sfield) (f : sfield) : res (list sfield) :=
    match acc with
    | [] => Ok [f]
    | g :: r =>
        if str_eqb (sf_name g) (sf_name f) then let* m := merge_fields g f in Ok (m :: r)
        else let* r' := merge_into r f in Ok (g :: r')
    end.

  Definition deep_merge (fs : list sfield) : res (list sfield) :=
    fold_left (fun acc f => let* a := acc in merge_into a f) fs (Ok []).

  Definition find_branch (n : str) (bs : list sbranch) : option sbranch :=
    find (fun b => str_eqb (br_name b) n) bs.

  Definition merge_branch_lists (l r : list sbranch) : res (list sbranch) :=
    let* merged :=
      mapM (fun lb =>
        match find_branch (br_name lb) r with
        | Some rb =>
            let* u := deep_merge (br_unaliased lb ++ br_unaliased rb) in
            let* a := deep_merge (br_aliased lb ++ br_aliased rb) in
            Ok (mkBranch (br_name lb) u a)
        | None => Ok lb
        end) l in
    Ok (fold_left (fun acc rb =>
          if existsb (fun b => str_eqb (br_name b) (br_name rb)) acc then acc else acc ++ [rb]) r merged).
End Merge.

Fixpoint merge_trees (fuel : nat) (l r : stree) : res stree :=
  match fuel with
  | O => Err EOutOfFuel
  | Datatypes.S f =>
      match l, r with
      | STNonNull a, STNonNull b => let* m := merge_trees f a b in Ok (STNonNull m)
      | STList a, STList b => let* m := merge_trees f a b in Ok (STList m)
      | STObject a, STObject b => let* m := merge_branch_lists (merge_trees f) a b in Ok (STObject m)
      | _, _ => Err EMergeTrees
      end
  end.

Fixpoint stree_depth (t : stree) : nat :=
  match t with
  | STNonNull a | STList a => Datatypes.S (stree_depth a)
  | STObject bs =>
      Datatypes.S ((fix go (l : list sbranch) : nat :=
           match l with
           | [] => O
           | mkBranch _ u a :: r =>
               let fd := fix fd (l : list sfield) : nat :=
                 match l with
                 | [] => O
                 | SFObject _ t :: r => Nat.max (stree_depth t) (fd r)
                 | _ :: r => fd r
                 end in
               Nat.max (Nat.max (fd u) (fd a)) (go r)
           end) bs)
  end.

(** the merge of two trees recurses only into sub-trees of both *)
Definition merge_fuel (l r : stree) : nat := Datatypes.S (Nat.min (stree_depth l) (stree_depth r)).

Definition merge_selection_trees (l r : stree) : res stree := merge_trees (merge_fuel l r) l r.
Definition merge_top (l r : stree) : res stree := merge_selection_trees l r.
Definition deep_merge_selection_tree (fs : list sfield) : res (list sfield) := deep_merge merge_top fs.

(** * type_printer.rs *)

Record branch := mkBr { b_obj : objdef; b_vars : list (str * bool) }.

(** the fragment map is a HashMap collected from the definitions: the LAST definition of a name wins *)
Definition frag_get (F : list fragdef) (n : str) : option fragdef :=
  find (fun f => str_eqb (iname (fr_name f)) n) (rev F).

Definition dargs (d : directive) : list (ident * value) :=
  match dir_args d with Some a => args_list a | None => [] end.

Definition is_if (p : ident * value) : bool := str_eqb (iname (fst p)) (s "if").

(** [find_map] in get_boolean_variables: first argument named "if" whose value is a variable *)
Definition if_variable (d : directive) : option str :=
  match find (fun p => is_if p && match snd p with VVar _ _ => true | _ => false end) (dargs d) with
  | Some (_, VVar v _) => Some v
  | _ => None
  end.

Definition is_skip (d : directive) : bool := str_eqb (iname (dir_name d)) (s "skip").
Definition is_include (d : directive) : bool := str_eqb (iname (dir_name d)) (s "include").

Definition dirs_variables (ds : list directive) : list str :=
  flat_map (fun d => if is_skip d || is_include d
                     then match if_variable d with Some v => [v] | None => [] end
                     else []) ds.

Definition sel_dirs (x : selection) : list directive :=
  match x with SField _ _ _ ds _ => ds | SSpread _ _ ds => ds | SInline _ _ ds _ => ds end.

(** selection_set_visitor.rs + the closure of get_boolean_variables; state = (variables, seen fragments) *)
Fixpoint visit_vars (fuel : nat) (F : list fragdef) (sels : list selection) (st : list str * list str)
  : res (list str * list str) :=
  match fuel with
  | O => Err EOutOfFuel
  | Datatypes.S f =>
      fold_left (fun acc x =>
        let* st := acc in
        let st := (fst st ++ dirs_variables (sel_dirs x), snd st) in
        match x with
        | SField _ _ _ _ _ => Ok st
        | SSpread _ n _ =>
            if mem (iname n) (snd st) then Ok st
            else
              let st := (fst st, snd st ++ [iname n]) in
              match frag_get F (iname n) with
              | None => Err ETypeSystem
              | Some fd => visit_vars f F (selset_sels (fr_sel fd)) st
              end
        | SInline _ _ _ ss => visit_vars f F (selset_sels ss) st
        end) sels (Ok st)
  end.

Definition get_boolean_variables (fuel : nat) (F : list fragdef) (sels : list selection) : res (list str) :=
  let* st := visit_vars fuel F sels ([], []) in Ok (fst st).

(** itertools [unique]: first occurrences *)
Fixpoint unique_from (seen : list str) (l : list str) : list str :=
  match l with
  | [] => []
  | x :: r => if mem x seen then unique_from seen r else x :: unique_from (x :: seen) r
  end.
Definition unique (l : list str) : list str := unique_from [] l.

(** [multi_cartesian_product] of [(v,false); (v,true)] per variable: last variable varies fastest *)
Fixpoint assignments (vs : list str) : list (list (str * bool)) :=
  match vs with
  | [] => [[]]
  | v :: r => let rest := assignments r in
              map (fun a => (v, false) :: a) rest ++ map (fun a => (v, true) :: a) rest
  end.

Definition parent_objects (S : tsdoc) (n : str) : res (list objdef) :=
  match get_type S n with
  | None => Err ETypeSystem
  | Some d =>
      match d with
      | TDScalar _ _ _ _ _ | TDEnum _ _ _ _ _ _ | TDInput _ _ _ _ _ _ => Err ETypeSystem
      | TDObject _ _ _ _ _ _ _ => match as_object d with Some o => Ok [o] | None => Err ETypeSystem end
      | TDInterface _ _ nm _ _ _ _ => Ok (interface_implementers S (iname nm))
      | TDUnion _ _ _ _ members _ =>
          mapM (fun m => match get_type S (iname m) with
                         | Some d' => match as_object d' with Some o => Ok o | None => Err ETypeSystem end
                         | None => Err ETypeSystem
                         end) members
      end
  end.

Definition generate_branching_conditions (fuel : nat) (S : tsdoc) (F : list fragdef)
           (sels : list selection) (parent : str) : res (list branch) :=
  let* objs := parent_objects S parent in
  let* vars := get_boolean_variables fuel F sels in
  let asg := match vars with [] => [[]] | _ => assignments (unique vars) end in
  Ok (flat_map (fun o => map (fun a => mkBr o a) asg) objs).

Definition var_value (b : branch) (v : str) : option bool :=
  match find (fun p => str_eqb (fst p) v) (b_vars b) with Some p => Some (snd p) | None => None end.

(** check_skip_directive: [Ok true] = skipped *)
Fixpoint check_skip_directive (b : branch) (ds : list directive) : res bool :=
  match ds with
  | [] => Ok false
  | d :: r =>
      if is_skip d then
        match find is_if (dargs d) with
        | None => check_skip_directive b r    (* no `if` argument (redefined directive): skips nothing, `continue` *)
        | Some (_, VVar v _) =>
            match var_value b v with
            | None => Err ETypeSystem
            | Some true => Ok true
            | Some false => check_skip_directive b r
            end
        | Some (_, VBool _ true) => Ok true
        | Some _ => check_skip_directive b r
        end
      else if is_include d then
        match find is_if (dargs d) with
        | None => check_skip_directive b r
        | Some (_, VVar v _) =>
            match var_value b v with
            | None => Err ETypeSystem
            | Some false => Ok true
            | Some true => check_skip_directive b r
            end
        | Some (_, VBool _ false) => Ok true
        | Some _ => check_skip_directive b r
        end
      else check_skip_directive b r
  end.

Definition check_fragment_condition (S : tsdoc) (o : objdef) (cond : str) : res bool :=
  match get_type S cond with
  | None => Err ETypeSystem
  | Some d =>
      match d with
      | TDObject _ _ n _ _ _ _ => Ok (str_eqb (o_name o) (iname n))
      | TDInterface _ _ n _ _ _ _ => Ok (mem (iname n) (o_impls o))
      | TDUnion _ _ _ _ members _ => Ok (existsb (fun m => str_eqb (iname m) (o_name o)) members)
      | _ => Ok false
      end
  end.

Definition STRING_T : gty := GNamed (s "String").

(** type_to_selection_tree *)
Fixpoint type_to_selection_tree (t : gty) (mapper : str -> res (list sbranch)) : res stree :=
  match t with
  | GNamed n => let* bs := mapper n in Ok (STObject bs)
  | GList t' => let* x := type_to_selection_tree t' mapper in Ok (STList x)
  | GNonNull t' => let* x := type_to_selection_tree t' mapper in Ok (STNonNull x)
  end.

Definition to_empty (p : bool * sfield) : bool * sfield := (fst p, SFEmpty (sf_name (snd p))).

Definition partition_fields (l : list (bool * sfield)) : list sfield * list sfield :=
  (map snd (filter (fun p => negb (fst p)) l), map snd (filter (fun p => fst p) l)).

Section Printer.
  Variable S : tsdoc.
  Variable F : list fragdef.

  (** get_type_for_selection_set / get_fields_for_selection_set; the [bool] of a field = aliased
      (Either::Right) *)
  Fixpoint type_for_selection_set (fuel : nat) (sels : list selection) (t : gty) {struct fuel} : res stree :=
    match fuel with
    | O => Err EOutOfFuel
    | Datatypes.S f =>
        type_to_selection_tree t (fun parent =>
          let* branches := generate_branching_conditions fuel S F sels parent in
          mapM (fun b =>
            let* fs := fields_for_selection_set f sels b in
            let '(un, al) := partition_fields fs in
            let* un := deep_merge_selection_tree un in
            let* al := deep_merge_selection_tree al in
            Ok (mkBranch (o_name (b_obj b)) un al)) branches)
    end
  with fields_for_selection_set (fuel : nat) (sels : list selection) (b : branch) {struct fuel}
    : res (list (bool * sfield)) :=
    match fuel with
    | O => Err EOutOfFuel
    | Datatypes.S f =>
        match get_type S (o_name (b_obj b)) with
        | None => Err ETypeSystem
        | Some pdef =>
            match direct_fields pdef with
            | None => Err ETypeSystem
            | Some parent_fields =>
                let* simple :=
                  mapM (fun x =>
                    match x with
                    | SField alias name _ dirs sub =>
                        let key := match alias with Some a => iname a | None => iname name end in
                        let aliased := match alias with Some _ => true | None => false end in
                        let* skipped := check_skip_directive b dirs in
                        if skipped then Ok [(aliased, SFEmpty key)]
                        else if str_eqb (iname name) TYPENAME then Ok [(aliased, SFLeaf key STRING_T)]
                        else
                          match find (fun p => str_eqb (fst p) (iname name)) parent_fields with
                          | None => Err ETypeSystem
                          | Some (_, fty) =>
                              match sub with
                              | None => Ok [(aliased, SFLeaf key fty)]
                              | Some ss =>
                                  let* t := type_for_selection_set f (selset_sels ss) fty in
                                  Ok [(aliased, SFObject key t)]
                              end
                          end
                    | _ => Ok []
                    end) sels in
                let* frags :=
                  mapM (fun x =>
                    match x with
                    | SField _ _ _ _ _ => Ok []
                    | SSpread _ n dirs =>
                        match frag_get F (iname n) with
                        | None => Err ETypeSystem
                        | Some fd =>
                            let* applies := check_fragment_condition S (b_obj b) (iname (fr_cond fd)) in
                            if applies then
                              let* fs := fields_for_selection_set f (selset_sels (fr_sel fd)) b in
                              let* skipped := check_skip_directive b dirs in
                              Ok (if skipped then map to_empty fs else fs)
                            else Ok []
                        end
                    | SInline _ None dirs ss =>
                        let* fs := fields_for_selection_set f (selset_sels ss) b in
                        let* skipped := check_skip_directive b dirs in
                        Ok (if skipped then map to_empty fs else fs)
                    | SInline _ (Some c) dirs ss =>
                        let* applies := check_fragment_condition S (b_obj b) (iname c) in
                        if applies then
                          let* fs := fields_for_selection_set f (selset_sels ss) b in
                          let* skipped := check_skip_directive b dirs in
                          Ok (if skipped then map to_empty fs else fs)
                        else Ok []
                    end) sels in
                Ok (concat simple ++ concat frags)
            end
        end
    end.
End Printer.

(** * selection_tree/to_ts.rs *)
Section ToTs.
  Variable ns : str.      (* schema_root_namespace *)

  Definition OPERATION_OUTPUT : str := s "__OperationOutput".
  Definition OPERATION_INPUT : str := s "__OperationInput".

  Fixpoint map_to_tstype_impl (t : gty) : tstype * bool :=
    match t with
    | GNamed n => (TNs3 ns OPERATION_OUTPUT n, true)
    | GList t' =>
        let '(x, nullable) := map_to_tstype_impl t' in
        (TArray (if nullable then ts_union [x; TNull] else x), true)
    | GNonNull t' => (fst (map_to_tstype_impl t'), false)
    end.
  Definition map_to_tstype (t : gty) : tstype :=
    let '(x, nullable) := map_to_tstype_impl t in
    if nullable then ts_union [x; TNull] else x.

  Fixpoint tree_type (t : stree) (is_non_null : bool) : tstype :=
    match t with
    | STNonNull a => tree_type a true
    | STList a =>
        let l := TArray (tree_type a false) in
        if is_non_null then l else ts_union [l; TNull]
    | STObject bs =>
        let bt := ts_union (map (fun b =>
          match b with
          | mkBranch tn un al =>
              let field_to_type := fun (f : sfield) =>
                match f with
                | SFEmpty n => mkField n pos0 TNever false true None
                | SFLeaf n ty =>
                    mkField n pos0 (if str_eqb n TYPENAME then TStrLit tn else map_to_tstype ty) false false None
                | SFObject n sel => mkField n pos0 (tree_type sel false) false false None
                end in
              TFunc (TNs ns (s "__SelectionSet"))
                    [TNs3 ns OPERATION_OUTPUT tn; TObject (map field_to_type un); TObject (map field_to_type al)]
          end) bs) in
        if is_non_null then bt else ts_union [bt; TNull]
    end.

  Definition generate_selection_tree_type (t : stree) : tstype := tree_type t false.

  (** get_type_for_variable_definitions (allow_undefined_as_optional_input as given) *)
  Definition is_nonnull (t : ty) : bool := match t with TNonNull _ => true | _ => false end.

  Definition variables_type (allow_undefined : bool) (vs : list vardef) : tstype :=
    match vs with
    | [] => TObject []
    | _ =>
        ts_intersection (map (fun v =>
          let ft := get_ts_type_of_type (fun n => TNs3 ns OPERATION_INPUT (iname n)) (vd_type v) in
          let opt := negb (is_nonnull (vd_type v)) && allow_undefined in
          let ft := if opt then ts_union [ft; TUndefined] else ft in
          TObject [mkField (vd_name v) pos0 ft true opt None]) vs)
    end.
End ToTs.

(** * visitor.rs + operation_base_printer *)

(** options (defaults of OperationTypePrinterOptions / OperationBasePrinterOptions unless stated) *)
Record options := mkOptions {
  opt_ns : str;                       (* schema_root_namespace *)
  opt_schema_source : str;
  opt_tdn_source : str;               (* typed_document_node_source *)
  opt_result_suffix : str;
  opt_variables_suffix : str;
  opt_fragment_type_suffix : str;
  opt_allow_undefined : bool;
  opt_default_export : bool;
  opt_named_export : bool;
  opt_export_input : bool;
  opt_export_result : bool;
  opt_capitalize : bool;
  opt_query_suffix : str; opt_mutation_suffix : str; opt_subscription_suffix : str;
  opt_fragment_variable_suffix : str;
}.

Definition default_options : options :=
  mkOptions (s "Schema") [] (s "@graphql-typed-document-node/core") (s "Result") (s "Variables") []
            true true false false false true (s "Query") (s "Mutation") (s "Subscription") [].

Definition to_upper_ascii (c : N) : N := if ((97 <=? c) && (c <=? 122))%N then (c - 32)%N else c.
(** [capitalize]: first char upper-cased (GraphQL names are ASCII) *)
Definition capitalize (n : str) : str := match n with [] => [] | c :: r => to_upper_ascii c :: r end.

Definition frag_defs (D : opdoc) : list fragdef :=
  flat_map (fun d => match d with DFrag f => [f] | _ => [] end) (od_defs D).
Definition op_defs (D : opdoc) : list opdef :=
  flat_map (fun d => match d with DOp o => [o] | _ => [] end) (od_defs D).

(** generous fuel for a whole document: twice (depth of the deepest selection set + 1) for every
    definition that can be entered (each fragment at most once per path in checked documents) *)
Fixpoint sel_depth (x : selection) : nat :=
  match x with
  | SField _ _ _ _ None | SSpread _ _ _ => 1
  | SField _ _ _ _ (Some (SelSet _ l)) | SInline _ _ _ (SelSet _ l) =>
      Datatypes.S ((fix go (l : list selection) : nat :=
           match l with [] => O | y :: r => Nat.max (sel_depth y) (go r) end) l)
  end.
Definition sels_depth (l : list selection) : nat := fold_right (fun y a => Nat.max (sel_depth y) a) O l.

Definition doc_fuel (D : opdoc) : nat :=
  let ds := map (fun d => match d with
                          | DOp o => sels_depth (selset_sels (op_sel o))
                          | DFrag f => sels_depth (selset_sels (fr_sel f))
                          | DImport _ => O
                          end) (od_defs D) in
  2 * (fold_right Nat.max O ds + 2) * (length (frag_defs D) + 1) + 2.

(** the selection tree and the TS type of one definition *)
Definition operation_tree (S : tsdoc) (D : opdoc) (o : opdef) : res stree :=
  type_for_selection_set S (frag_defs D) (doc_fuel D) (selset_sels (op_sel o))
                         (GNonNull (GNamed (root_type S (op_type o)))).
Definition fragment_tree (S : tsdoc) (D : opdoc) (f : fragdef) : res stree :=
  type_for_selection_set S (frag_defs D) (doc_fuel D) (selset_sels (fr_sel f))
                         (GNonNull (GNamed (iname (fr_cond f)))).

Definition def_tree (S : tsdoc) (D : opdoc) (d : execdef) : res stree :=
  match d with
  | DOp o => operation_tree S D o
  | DFrag f => fragment_tree S D f
  | DImport _ => Err ETypeSystem
  end.

Definition emit_type (O : options) (S : tsdoc) (D : opdoc) (d : execdef) : res tstype :=
  let* t := def_tree S D d in Ok (generate_selection_tree_type (opt_ns O) t).

Definition name_pos (o : opdef) : pos * option str :=
  match op_name o with
  | None => (op_pos o, None)
  | Some n => (ipos n, Some (iname n))
  end.

Definition print_operation (O : options) (S : tsdoc) (D : opdoc) (op_count : nat) (o : opdef) : res (list wop) :=
  let raw := match op_name o with Some n => iname n | None => [] end in
  let opname := if opt_capitalize O then capitalize raw else raw in
  let varname := opname ++ match op_type o with
                           | Query => opt_query_suffix O
                           | Mutation => opt_mutation_suffix O
                           | Subscription => opt_subscription_suffix O
                           end in
  let result_name := opname ++ opt_result_suffix O in
  let input_name := opname ++ opt_variables_suffix O in
  let '(np, nn) := name_pos o in
  let sp := selset_pos (op_sel o) in
  let* t := emit_type O S D (DOp o) in
  let vt := match op_vars o with
            | None => TObject []
            | Some vs => variables_type (opt_ns O) (opt_allow_undefined O) (vds_list vs)
            end in
  Ok ((if opt_export_result O then [W (s "export ")] else [])
      ++ [W (s "type "); WF result_name np nn; WF (s " = ") sp None]
      ++ print_type t
      ++ [W (s ";" ++ [10; 10]%N)]
      ++ (if opt_export_input O then [W (s "export ")] else [])
      ++ [W (s "type "); WF input_name np nn; W (s " = ")]
      ++ print_type vt
      ++ [W (s ";" ++ [10; 10]%N)]
      ++ (if opt_named_export O then [W (s "export ")] else [W (s "declare ")])
      ++ [W (s "const "); WF varname np nn; WF (s ": ") sp None; W (s "TypedDocumentNode<");
          W result_name; W (s ", "); W input_name; W (s ">;" ++ [10; 10]%N)]
      ++ (if opt_default_export O && Nat.eqb op_count 1
          then [W (s "export { "); W varname; W (s " as default };" ++ [10; 10]%N)] else [])).

Definition print_fragment (O : options) (S : tsdoc) (D : opdoc) (f : fragdef) : res (list wop) :=
  let exported := N.eqb (pfile (od_pos D)) (pfile (fr_pos f)) in
  let tname := iname (fr_name f) ++ opt_fragment_type_suffix O in
  let vname := iname (fr_name f) ++ opt_fragment_variable_suffix O in
  let nm := Some (iname (fr_name f)) in
  let* t := emit_type O S D (DFrag f) in
  Ok ((if exported then [W (s "export ")] else [])
      ++ [W (s "type "); WF tname (fr_pos f) nm; W (s " = ")]
      ++ print_type t
      ++ [W (s ";" ++ [10; 10]%N)]
      ++ (if exported then [W (s "export ")] else [W (s "declare ")])
      ++ [W (s "const "); WF vname (fr_pos f) nm; W (s ": "); W (s "TypedDocumentNode<");
          WF tname (fr_pos f) nm; W (s ", never>"); W (s ";" ++ [10; 10]%N)]).

(** print_types_for_operation_document with print_values = false *)
Definition print_document (O : options) (S : tsdoc) (D : opdoc) : res (list wop) :=
  let header :=
    [W (s "import type { TypedDocumentNode } from """ ++ opt_tdn_source O ++ s """;" ++ [10]%N);
     W (s "import type * as " ++ opt_ns O ++ s " from """ ++ opt_schema_source O ++ s """;" ++ [10; 10]%N)] in
  let n := length (op_defs D) in
  let* body := mapM (fun d => match d with
                              | DOp o => print_operation O S D n o
                              | DFrag f => print_fragment O S D f
                              | DImport _ => Ok []
                              end) (od_defs D) in
  Ok (header ++ concat body).
